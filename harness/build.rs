fn main() {
    println!("cargo:rustc-cfg=daniel729_chess_verif");
    println!("cargo:rustc-check-cfg=cfg(daniel729_chess_verif)");
    let repo = std::env::var("VERIF_REPO").unwrap_or_else(|_| "/repo".to_string());
    println!("cargo:rerun-if-changed={}/src", repo);
    println!("cargo:rerun-if-changed={}/zobrist_bytes.bin", repo);
}
