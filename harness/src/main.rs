//! Implementation side of the correspondence check: compiles /repo's own source files
//! (no copy) and executes the line protocol described in /verif/DESIGN.md §2.
#![allow(dead_code, unused_imports, clippy::all)]

#[path = "../repo/src/chess/mod.rs"]
mod chess;
#[path = "../repo/src/constants.rs"]
mod constants;
#[path = "../repo/src/search.rs"]
mod search;
#[path = "../repo/src/verif_hooks.rs"]
mod verif_hooks;

/// `uci.rs` consists of private functions; including its text gives this crate access to
/// `command_position` without any change to the repository. The include names two private fields of
/// `uci.rs` (`Data { current_game, cache }`): when a rewrite of that file renames them this crate is
/// built WITHOUT the feature `uci` (see `core.cargo_harness`): every operation except `position`
/// then works as before, so only the properties that need `position` in-process lose their tie.
#[cfg(feature = "uci")]
mod uci_inc {
    include!("../repo/src/uci.rs");

    pub struct Session(Data);

    impl Session {
        pub fn new() -> Self {
            Session(Data {
                current_game: None,
                cache: HashMap::with_hasher(BuildNoHashHasher::default()),
            })
        }
        pub fn set_game(&mut self, g: Option<Game>) {
            self.0.current_game = g;
        }
        pub fn game(&self) -> Option<&Game> {
            self.0.current_game.as_ref()
        }
        /// the `position` command: `rest` is everything after the word `position`
        pub fn position(&mut self, rest: &str) -> Result<(), String> {
            let mut terms = rest.split_ascii_whitespace();
            command_position(&mut self.0, &mut terms).map_err(|e| format!("{}", e))
        }
    }
}

#[cfg(not(feature = "uci"))]
mod uci_inc {
    use crate::chess::Game;
    pub struct Session(Option<Game>);
    impl Session {
        pub fn new() -> Self {
            Session(None)
        }
        pub fn set_game(&mut self, g: Option<Game>) {
            self.0 = g;
        }
        pub fn game(&self) -> Option<&Game> {
            self.0.as_ref()
        }
        /// STAND-IN for `command_position` (the real one is out of reach in this build): the same steps written
        /// against the public API, so that the operation scripts of the other properties keep working. The
        /// properties that are ABOUT `position` (C12, C15) do not accept this stand-in (see `core.HARNESS_NO_UCI`).
        pub fn position(&mut self, rest: &str) -> Result<(), String> {
            use crate::chess::move_struct::Move;
            let mut terms = rest.split_ascii_whitespace();
            let mut add_moves = false;
            match terms.next() {
                Some("startpos") => {
                    self.0 = Some(Game::default());
                    if terms.next() == Some("moves") {
                        add_moves = true;
                    }
                }
                Some("fen") => {
                    let mut fen = String::new();
                    for t in terms.by_ref() {
                        if t == "moves" {
                            add_moves = true;
                            break;
                        }
                        fen.push_str(t);
                        fen.push(' ');
                    }
                    match Game::new(&fen) {
                        Ok(g) => self.0 = Some(g),
                        Err(_) => {
                            self.0 = None;
                            return Err("Invalid FEN string".to_string());
                        }
                    }
                }
                Some(_) => return Err("Invalid position command".to_string()),
                None => return Err("Invalid position command".to_string()),
            }
            if add_moves {
                for s in terms {
                    let game = self.0.as_mut().unwrap();
                    let Some(m) = Move::from_uci_notation(s, game) else {
                        self.0 = None;
                        return Err("Invalid move".to_string());
                    };
                    let mut moves = arrayvec::ArrayVec::new();
                    game.get_moves(&mut moves, true);
                    if moves.iter().any(|&a| a == m) {
                        game.push_history(m);
                        if game.len() >= 400 {
                            self.0 = None;
                            return Err("Game became too long".to_string());
                        }
                    } else {
                        return Err("Invalid move".to_string());
                    }
                }
            }
            Ok(())
        }
    }
}

use arrayvec::ArrayVec;
use chess::move_struct::Move;
use chess::{Game, Player};
use search::TranspositionTable;
use std::io::{BufRead, Write};
use std::panic::{catch_unwind, AssertUnwindSafe};
use std::sync::atomic::{AtomicBool, Ordering::Relaxed};

fn descr(m: &Move) -> String {
    let uci = m.uci_notation();
    match m {
        Move::Normal {
            piece,
            captured_piece,
            ..
        } => format!(
            "{}:N:{}:{}",
            uci,
            piece.as_char_ascii(),
            captured_piece.map(|p| p.as_char_ascii()).unwrap_or('-')
        ),
        Move::Promotion { captured_piece, .. } => format!(
            "{}:P:{}:{}",
            uci,
            uci.chars().nth(4).unwrap_or('?'),
            captured_piece.map(|p| p.as_char_ascii()).unwrap_or('-')
        ),
        Move::CastlingShort { .. } => format!("{}:S:-:-", uci),
        Move::CastlingLong { .. } => format!("{}:L:-:-", uci),
        Move::EnPassant { .. } => format!("{}:E:-:-", uci),
    }
}

fn gen(game: &mut Game, checked: bool) -> Vec<Move> {
    let mut moves = ArrayVec::new();
    game.get_moves(&mut moves, checked);
    moves.iter().copied().collect()
}

fn sorted(game: &mut Game, checked: bool) -> Vec<(String, Move)> {
    let mut v: Vec<(String, Move)> = gen(game, checked).iter().map(|m| (descr(m), *m)).collect();
    v.sort_by(|a, b| a.0.cmp(&b.0));
    v
}

fn sq(p: impl Fn() -> (i8, i8)) -> String {
    let (r, c) = p();
    format!("{},{}", r, c)
}

fn obs(game: &Game) -> String {
    let wk = game.get_king_position(Player::White);
    let bk = game.get_king_position(Player::Black);
    format!(
        "{}|{:016X}|{}|{}|{}|{}|{}",
        game.fen(),
        game.hash(),
        game.score(),
        if game.player() == Player::White { "w" } else { "b" },
        sq(|| (wk.row(), wk.col())),
        sq(|| (bk.row(), bk.col())),
        game.len()
    )
}

/// biased choice among sorted descriptors: rare kinds first, then captures, then anything
fn bias_pick(list: &[(String, Move)], r: u64) -> Option<usize> {
    if list.is_empty() {
        return None;
    }
    let sel = r % 8;
    let k = (r / 8) as usize;
    let field = |d: &str, i: usize| d.split(':').nth(i).unwrap_or("").to_string();
    let rare: Vec<usize> = (0..list.len())
        .filter(|&i| matches!(field(&list[i].0, 1).as_str(), "S" | "L" | "E" | "P"))
        .collect();
    let caps: Vec<usize> = (0..list.len())
        .filter(|&i| field(&list[i].0, 3) != "-")
        .collect();
    if sel < 3 && !rare.is_empty() {
        Some(rare[k % rare.len()])
    } else if sel < 5 && !caps.is_empty() {
        Some(caps[k % caps.len()])
    } else {
        Some(k % list.len())
    }
}

struct Ctx {
    sess: uci_inc::Session,
    undo: Vec<Move>,
    table: TranspositionTable,
}

fn fresh_table() -> TranspositionTable {
    std::collections::HashMap::with_hasher(nohash_hasher::BuildNoHashHasher::default())
}

fn esc(s: &str) -> String {
    s.replace('\\', "\\\\").replace('\n', "\\n")
}

fn run_op(ctx: &mut Ctx, line: &str) -> String {
    let (op, rest) = match line.find(' ') {
        Some(i) => (&line[..i], line[i + 1..].trim_start()),
        None => (line, ""),
    };
    macro_rules! game {
        () => {
            match ctx.sess.game() {
                Some(_) => {}
                None => return "nogame".to_string(),
            }
        };
    }
    // the session's game is taken out, used, and put back (Session only hands out `&Game`)
    macro_rules! with_game {
        ($g:ident, $body:block) => {{
            game!();
            let mut $g: Game = ctx.sess.game().unwrap().clone();
            let out = $body;
            ctx.sess.set_game(Some($g));
            out
        }};
    }
    match op {
        "new" => {
            ctx.undo.clear();
            match Game::new(rest) {
                Ok(g) => {
                    ctx.sess.set_game(Some(g));
                    "ok".to_string()
                }
                Err(_) => {
                    ctx.sess.set_game(None);
                    "refused".to_string()
                }
            }
        }
        "obs" => {
            game!();
            obs(ctx.sess.game().unwrap())
        }
        "moves" | "movesraw" => with_game!(g, {
            let checked = rest.starts_with('c');
            let mut v: Vec<String> = gen(&mut g, checked).iter().map(descr).collect();
            if op == "moves" {
                v.sort();
            }
            format!("{} {}", v.len(), v.join(","))
        }),
        "push" => with_game!(g, {
            let mut it = rest.split_ascii_whitespace();
            let checked = it.next().unwrap_or("c").starts_with('c');
            let k: usize = it.next().and_then(|s| s.parse().ok()).unwrap_or(0);
            let list = sorted(&mut g, checked);
            if list.is_empty() {
                "none".to_string()
            } else {
                let (d, m) = list[k % list.len()].clone();
                g.push(m);
                ctx.undo.push(m);
                d
            }
        }),
        "pushh" | "pushbias" => with_game!(g, {
            let r: u64 = rest.trim().parse().unwrap_or(0);
            let list = sorted(&mut g, true);
            let pick = if op == "pushh" {
                if list.is_empty() {
                    None
                } else {
                    Some(r as usize % list.len())
                }
            } else {
                bias_pick(&list, r)
            };
            match pick {
                None => "none".to_string(),
                Some(i) => {
                    if g.len() >= 399 {
                        "toolong".to_string()
                    } else {
                        let (d, m) = list[i].clone();
                        g.push_history(m);
                        ctx.undo.clear();
                        d
                    }
                }
            }
        }),
        "playh" => with_game!(g, {
            let list = sorted(&mut g, true);
            match list.iter().find(|(d, _)| d.split(':').next() == Some(rest.trim())) {
                Some((d, m)) => {
                    g.push_history(*m);
                    ctx.undo.clear();
                    d.clone()
                }
                None => "nomove".to_string(),
            }
        }),
        "undo" => with_game!(g, {
            match ctx.undo.pop() {
                Some(m) => {
                    g.pop(m);
                    "ok".to_string()
                }
                None => "empty".to_string(),
            }
        }),
        "parseuci" => {
            game!();
            match Move::from_uci_notation(rest, ctx.sess.game().unwrap()) {
                Some(m) => descr(&m),
                None => "none".to_string(),
            }
        }
        "position" => {
            ctx.undo.clear();
            let r = ctx.sess.position(rest);
            let state = match ctx.sess.game() {
                Some(g) => g.fen(),
                None => "nogame".to_string(),
            };
            match r {
                Ok(()) => format!("ok {}", state),
                Err(_) => format!("error {}", state),
            }
        }
        "pgn" => {
            game!();
            esc(&ctx.sess.game().unwrap().get_pgn())
        }
        "show" => {
            game!();
            esc(&format!("{}", ctx.sess.game().unwrap()))
        }
        "ttnew" => {
            ctx.table = fresh_table();
            "ok".to_string()
        }
        // searchroot <depth> <stop_after|-1> <clear 0|1>
        "searchroot" => {
            game!();
            let a: Vec<i64> = rest.split_ascii_whitespace().filter_map(|s| s.parse().ok()).collect();
            if a.len() < 3 {
                return "badargs".to_string();
            }
            verif_hooks::POLLS.store(0, Relaxed);
            verif_hooks::STOP_AFTER.store(a[1], Relaxed);
            verif_hooks::CLEAR_TABLE.store(a[2] != 0, Relaxed);
            let flag = AtomicBool::new(true);
            let mut history = [0u16; 64 * 12];
            let g = ctx.sess.game().unwrap().clone();
            let r = search::get_best_move_entry(g, &flag, a[0] as u8, &mut ctx.table, &mut history);
            let polls = verif_hooks::POLLS.load(Relaxed);
            match r {
                None => format!("stopped polls={}", polls),
                Some((m, score, only)) => format!(
                    "best={} score={} only={} polls={} tt={}",
                    m.map(|m| m.uci_notation()).unwrap_or("none".to_string()),
                    score,
                    only as u8,
                    polls,
                    ctx.table.len()
                ),
            }
        }
        // search <maxdepth|-> <stop_after|-1> <clear 0|1>   (prints the engine's info lines first)
        "search" => {
            game!();
            let a: Vec<&str> = rest.split_ascii_whitespace().collect();
            if a.len() < 3 {
                return "badargs".to_string();
            }
            let maxd: Option<u8> = a[0].parse().ok();
            verif_hooks::POLLS.store(0, Relaxed);
            verif_hooks::STOP_AFTER.store(a[1].parse().unwrap_or(-1), Relaxed);
            verif_hooks::CLEAR_TABLE.store(a[2] != "0", Relaxed);
            let flag = AtomicBool::new(true);
            let g = ctx.sess.game().unwrap().clone();
            let r = search::get_best_move_until_stop(&g, &mut ctx.table, &flag, maxd);
            let polls = verif_hooks::POLLS.load(Relaxed);
            format!(
                "bestmove={} polls={} tt={}",
                r.map(|m| m.uci_notation()).unwrap_or("none".to_string()),
                polls,
                ctx.table.len()
            )
        }
        _ => "badop".to_string(),
    }
}

fn main() {
    std::panic::set_hook(Box::new(|_| {}));
    let stdin = std::io::stdin();
    let mut ctx = Ctx {
        sess: uci_inc::Session::new(),
        undo: Vec::new(),
        table: fresh_table(),
    };
    for (i, line) in stdin.lock().lines().enumerate() {
        let line = match line {
            Ok(l) => l,
            Err(_) => break,
        };
        let line = line.trim_end_matches(['\r', '\n']);
        if line.is_empty() || line.starts_with('#') {
            continue;
        }
        println!("@{}", i + 1);
        let r = catch_unwind(AssertUnwindSafe(|| run_op(&mut ctx, line)));
        let out = match r {
            Ok(s) => s,
            Err(e) => {
                ctx.sess.set_game(None);
                ctx.undo.clear();
                let msg = if let Some(s) = e.downcast_ref::<&str>() {
                    s.to_string()
                } else if let Some(s) = e.downcast_ref::<String>() {
                    s.clone()
                } else {
                    "?".to_string()
                };
                format!("fault:{}", esc(msg.lines().next().unwrap_or("")))
            }
        };
        println!("{}", out);
        let _ = std::io::stdout().flush();
    }
}
