#!/bin/sh
# Build everything the checks need, offline, from files on disk only.
set -e
cd "$(dirname "$0")"
export CARGO_NET_OFFLINE=true
cargo build --offline --release --manifest-path probe/Cargo.toml --target-dir .build/probe
python3 tools/extract.py
python3 tools/translate.py -q
(cd lean && lake build Chess chessdrv)
cargo build --offline --release --manifest-path harness/Cargo.toml --target-dir .build/harness
cargo build --offline --profile checked --manifest-path harness/Cargo.toml --target-dir .build/harness
RUSTFLAGS="--cfg daniel729_chess_verif" cargo build --offline --release --manifest-path /repo/Cargo.toml --target-dir .build/engine
echo setup-ok
