//! Prints, as JSON, the constant DATA of the engine exactly as the compiler evaluates it: the Zobrist keys,
//! the piece-square tables, the endgame threshold and the table capacity. The source files are compiled
//! from the repository's working tree (no copy); tools/extract.py reads this output, so the values do not
//! depend on how the Rust text spells them.
#![allow(dead_code, unused_imports)]

#[path = "../repo/src/chess/scores.rs"]
mod scores;
#[path = "../repo/src/chess/zobrist.rs"]
mod zobrist;
#[path = "../repo/src/constants.rs"]
mod constants;

fn arr<T: std::fmt::Display>(v: &[T]) -> String {
    format!("[{}]", v.iter().map(|x| x.to_string()).collect::<Vec<_>>().join(","))
}

fn main() {
    let piece: Vec<u64> = zobrist::PIECE.iter().flat_map(|r| r.iter().copied()).collect();
    println!("{{");
    println!("\"BLACK_TO_MOVE\": {},", zobrist::BLACK_TO_MOVE);
    println!("\"EMPTY_PLACE\": {},", zobrist::EMPTY_PLACE);
    println!("\"STATE\": {},", arr(&zobrist::STATE));
    println!("\"PIECE_ROWS\": {},", zobrist::PIECE.len());
    println!("\"PIECE_COLS\": {},", zobrist::PIECE[0].len());
    println!("\"PIECE\": {},", arr(&piece));
    println!("\"PAWN_SCORES\": {},", arr(&scores::PAWN_SCORES));
    println!("\"KNIGHT_SCORES\": {},", arr(&scores::KNIGHT_SCORES));
    println!("\"BISHOP_SCORES\": {},", arr(&scores::BISHOP_SCORES));
    println!("\"ROOK_SCORES\": {},", arr(&scores::ROOK_SCORES));
    println!("\"QUEEN_SCORES\": {},", arr(&scores::QUEEN_SCORES));
    println!("\"KING_SCORES_MIDDLE\": {},", arr(&scores::KING_SCORES_MIDDLE));
    println!("\"KING_SCORES_END\": {},", arr(&scores::KING_SCORES_END));
    println!("\"ENDGAME_THRESHOLD\": {},", scores::ENDGAME_THRESHOLD);
    println!("\"TT_CAPACITY\": {}", constants::TT_CAPACITY);
    println!("}}");
}
