"""Text-level checks: C12 (UCI move text, `position … moves`), C17 (FEN import), C20 (move record, show)."""
from collections import Counter

from . import core, roots, searchchk

FILES = "abcdefgh"
RANKS = "12345678"


def board_of(fen):
    rows = fen.split()[0].split("/")
    b = {}
    for ri, row in enumerate(rows):
        r = 7 - ri
        c = 0
        for ch in row:
            if ch.isdigit():
                c += int(ch)
            else:
                b[(r, c)] = ch
                c += 1
    return b


def sample_positions(rep, salt, n, plies):
    r = core.rng(rep.seed, salt)
    cases = [searchchk.walk_prefix(r, roots.ALL[i % len(roots.ALL)], plies) for i in range(n)]
    outs, _ = core.run_rust(cases)
    fens = []
    for o in outs:
        if o[-1] and "|" in o[-1][0]:
            fens.append(o[-1][0].split("|")[0])
    return list(dict.fromkeys(fens))


# ----------------------------------------------------------------------------------------- C12

def check_c12(rep, tier):
    r = core.rng(rep.seed, "C12b")
    corpus = ["4k3/8/8/2Pp4/8/8/2P5/4K3 w - d6 0 1", "4k3/8/8/2P5/2pP4/8/8/4K3 b - d3 0 1",
              "4k3/8/8/2Pp4/2p5/8/8/4K3 w - d6 0 1", "4k3/P7/8/8/8/8/8/4K3 w - - 0 1",
              "r3k2r/8/8/8/8/8/8/R3K2R w KQkq - 0 1", "r3k2r/8/8/8/8/8/8/R3K2R b KQkq - 0 1",
              "4k3/8/8/8/pP6/8/8/4K3 b - b3 0 1", "n1n1k3/1P6/8/8/8/8/6p1/4K1N1 w - - 0 1"]
    fens = corpus + sample_positions(rep, "C12", 8 if tier == "quick" else 400, 20)
    # pinned men: their pseudo-legal moves off the pin line are the texts a careless legality test lets through
    from . import walks
    fens += walks.pin_family(core.rng(rep.seed, "C12pins"), 14 if tier == "quick" else 400)
    squares = [f + rk for f in FILES for rk in RANKS]
    suffixes_all = ["", "q", "r", "b", "n", "Q", "k", "x", "qq", "p", " ", "N"]
    weird = ["", "e2", "e2e", "é2e4", "e2é4", "e2e4é", "😀", "e2e4qq", "0000", "e9e4", "i2i4", "E2E4", "e2e4 ", "a7a8Q",
             "a7a8qq", "c2d3", "e1g1x", "e1g1q", "éé", "e2e4\t", "a1a1", "e1g1", "e8g8", "e1c1", "e8c8"]
    cases = []
    pre, _ = core.run_rust([["new " + f, "moves c", "moves u"] for f in fens])
    legal_texts = []
    pseudo_texts = []
    for o in pre:
        ml = o[1][0] if o[1] else "0 "
        legal_texts.append([d.split(":")[0] for d in ml.split(" ", 1)[1].split(",")] if ml.split(" ", 1)[1:] and ml.split(" ", 1)[1] else [])
        mu = o[2][0] if len(o) > 2 and o[2] else "0 "
        pseudo_texts.append([d.split(":")[0] for d in mu.split(" ", 1)[1].split(",")] if mu.split(" ", 1)[1:] and mu.split(" ", 1)[1] else [])
    for fi, f in enumerate(fens):
        ops = ["new " + f, "moves c"]
        full = tier == "thorough" or fi < 4
        if full:
            strs = [a + b + s for a in squares for b in squares for s in ("", "q")]
            strs += [a + b + s for a in squares for b in squares for s in r.sample(suffixes_all[2:], 1)]
        else:
            strs = [r.choice(squares) + r.choice(squares) + r.choice(suffixes_all) for _ in range(600)]
        strs += weird + legal_texts[fi] + [t.upper() for t in legal_texts[fi][:5]] + [t + "q" for t in legal_texts[fi][:5]]
        strs += pseudo_texts[fi]          # every pseudo-legal move: the illegal ones among them must be refused
        ops += ["parseuci " + s for s in strs]
        cases.append(ops)
        # the `position` command itself, on a smaller sample plus every legal move
        pos_strs = r.sample(strs, min(len(strs), 250 if tier == "quick" else 1500)) + weird + legal_texts[fi] + pseudo_texts[fi]
        cases.append(["new " + f, "moves c"] + ["position fen %s moves %s" % (f, s) for s in pos_strs if "\t" not in s and " " not in s.strip() and s.strip()])
    stats, kinds = Counter(), Counter()
    rust, lean = searchchk.run_pair(rep, cases)
    first = searchchk.correspondence(rep, "C12", cases, rust, lean, stats)
    q = []
    for f in fens:
        q.append("spec_legal " + core.fen4(f))
    for ci, case in enumerate(cases):
        f = case[0][4:]
        for oi, op in enumerate(case):
            if op.startswith("position fen ") and rust[ci][oi] and rust[ci][oi][0].startswith("ok "):
                s = op.rsplit(" moves ", 1)[1].strip()
                q.append("spec_play %s %s" % (s, core.fen4(f)))
    ans = searchchk.spec_queries(q)
    for ci, case in enumerate(cases):
        f = case[0][4:]
        f4 = core.fen4(f)
        legal_line = ans.get("spec_legal " + f4) or "0 "
        legal = set(legal_line.split(" ", 1)[1].split(",")) if legal_line.split(" ", 1)[1:] and legal_line.split(" ", 1)[1] else set()
        ml = rust[ci][1][0] if rust[ci][1] else "0 "
        descrs = ml.split(" ", 1)[1].split(",") if ml.split(" ", 1)[1:] and ml.split(" ", 1)[1] else []
        texts = [d.split(":")[0] for d in descrs]
        if len(texts) != len(set(texts)):
            rep.violation("impl-vs-spec", f"two legal moves share one text @ {f4}", ml, replay_ops=case[:2])
        if set(texts) != legal:
            rep.violation("impl-vs-spec", f"legal move texts differ from the rules @ {f4}", f"engine {sorted(texts)} rules {sorted(legal)}", replay_ops=case[:2])
        for t in texts:
            stats["shape_checked"] += 1
            if not (len(t) in (4, 5) and t[0] in FILES and t[1] in RANKS and t[2] in FILES and t[3] in RANKS and (len(t) == 4 or t[4] in "qrbn")):
                rep.violation("impl-vs-spec", f"move text `{t}` is not standard long algebraic @ {f4}", "", replay_ops=case[:2])
        by_text = {d.split(":")[0]: d for d in descrs}
        for oi, op in enumerate(case):
            out = rust[ci][oi]
            if out is None:
                continue
            if out and out[0].startswith("fault:"):
                rep.violation("impl-vs-spec", f"engine panicked on `{op[:60]}` @ {f4}", out[0], replay_ops=[case[0], op])
                continue
            if op.startswith("parseuci "):
                s = op[9:]
                stats["strings_parsed"] += 1
                if s in by_text:
                    kinds["legal_text"] += 1
                    if out != [by_text[s]]:
                        rep.violation("impl-vs-spec", f"reading back `{s}` does not give the same move @ {f4}", f"{out} vs {by_text[s]}", replay_ops=[case[0], op])
                else:
                    kinds["parsed" if out != ["none"] else "rejected_by_parser"] += 1
                    if out != ["none"] and out and out[0].split(":")[0] != s:
                        rep.violation("impl-vs-spec", f"the reader takes `{s}` for the move `{out[0].split(':')[0]}` @ {f4}",
                                      f"parse result {out}", replay_ops=[case[0], op])
            elif op.startswith("position fen "):
                s = op.rsplit(" moves ", 1)[1].strip()
                stats["position_commands"] += 1
                if out[0].startswith("ok "):
                    kinds["accepted"] += 1
                    if s not in legal:
                        rep.violation("impl-vs-spec", f"`position … moves {s}` accepted although `{s}` is not the text of a legal move @ {f4}",
                                      f"answer {out}", replay_ops=[op])
                    else:
                        exp = ans.get("spec_play %s %s" % (s, f4))
                        # which move was played = placement and side (rights/ep bookkeeping is C02's abstraction)
                        if exp is None or out[0][3:].split()[:2] != exp.split()[:2]:
                            rep.violation("impl-vs-spec", f"`position … moves {s}` played a different move @ {f4}",
                                          f"engine {out[0][3:]} rules {exp}", replay_ops=[op])
                else:
                    kinds["refused"] += 1
                    if s in legal:
                        rep.violation("impl-vs-spec", f"legal move `{s}` refused by position @ {f4}", f"{out}", replay_ops=[op])
                    state = out[0][6:]
                    if state != "nogame" and core.fen4(state) != f4:
                        rep.violation("impl-vs-spec", f"an error was reported for `{s}` but the position changed @ {f4}", f"{out}", replay_ops=[op])
    searchchk.finish_corr(rep, "C12", cases, first, rust, lean)
    stats["positions"] = len(fens)
    return stats, kinds, cases


# ----------------------------------------------------------------------------------------- C17

ALPHABET = list("pnbrqkPNBRQK0123456789/-wbacdefghAix ") + ["é", "K", "9", "0"]


def lookalikes(c):
    """Non-ASCII characters a sloppy scanner could take for the ASCII character c: the same low byte (a cast to
    u8 truncates), the same numeric value in another script, full-width forms, case-folding partners."""
    import unicodedata
    out = []
    o = ord(c)
    for hi in (0x1, 0x4, 0xF, 0x30, 0xA8, 0xFF, 0x101, 0x1D7):
        cp = (hi << 8) | o
        ch = chr(cp)
        if unicodedata.category(ch)[0] in "LN":                      # letters and numbers only (is_numeric / is_alphabetic)
            out.append(ch)
    if c.isdigit():
        for base in (0x0660, 0x06F0, 0x0966, 0xFF10, 0x1D7CE, 0x2080, 0x2070):   # Arabic-Indic, Persian, Devanagari, full-width, bold, sub/superscripts
            ch = chr(base + int(c))
            if unicodedata.category(ch)[0] == "N":
                out.append(ch)
        out += {"1": ["¹", "Ⅰ", "①"], "2": ["²", "Ⅱ", "½"], "3": ["³", "Ⅲ"], "8": ["Ⅷ", "⑧", "〸"]}.get(c, [])
    if c.isalpha():
        out.append(chr(0xFF21 + ord(c) - 65) if c.isupper() else chr(0xFF41 + ord(c) - 97))      # full-width letter
        out += {"K": ["K", "К"], "k": ["ĸ", "к"], "B": ["В", "Β"], "b": ["Ь"], "P": ["Р", "Ρ"], "p": ["р", "ρ"], "w": ["ѡ", "ｗ"],
                "Q": ["Ԛ"], "q": ["ԛ"], "N": ["Ν"], "R": ["Ʀ"], "n": ["ո"], "r": ["г"]}.get(c, [])
    return [ch for ch in dict.fromkeys(out) if ch != c and ord(ch) > 127]


def unicode_mutations(r, fen, limit):
    """every character of the text replaced by each of its non-ASCII look-alikes: all malformed"""
    out = []
    for i, c in enumerate(fen):
        for ch in lookalikes(c):
            out.append(fen[:i] + ch + fen[i + 1:])
    if limit and len(out) > limit:
        out = r.sample(out, limit)
    return out


def mutations(r, fen, limit):
    out = []
    n = len(fen)
    idxs = list(range(n + 1))
    for i in idxs:
        if i < n:
            out.append(fen[:i] + fen[i + 1:])                       # deletion
            for ch in ALPHABET:
                if ch != fen[i]:
                    out.append(fen[:i] + ch + fen[i + 1:])          # replacement
        for ch in ALPHABET:
            out.append(fen[:i] + ch + fen[i:])                      # insertion
    fields = fen.split(" ")
    for k in range(len(fields)):
        out.append(" ".join(fields[:k] + fields[k + 1:]))           # field drop
        out.append(" ".join(fields[:k] + [fields[k], fields[k]] + fields[k + 1:]))  # duplication
    out = list(dict.fromkeys(out))
    if limit and len(out) > limit:
        out = r.sample(out, limit)
    return out


HAND = ["1P2k3/8/8/8/8/8/8/4K3 w - - 0 1", "4k3/8/8/8/8/8/8/1p2K3 b - - 0 1", "1p2k3/8/8/8/8/8/8/4K3 b - - 0 1", "4k3/8/8/8/8/8/8/1P2K3 w - - 0 1",
        "rnbqkbnr/pppppppp/8/8/4P3/8/PPPP1PPP/RNBQKBNR b KQkq e6 0 1", "rnbqkbnr/ppp1pppp/8/3pP3/8/8/PPPP1PPP/RNBQKBNR w KQkq d3 0 2",
        "9/8/8/8/8/8/8/8 w - -", "rnbqkbnr/pppppppp/8/8/8/8/PPPPPPPP/K6k9 w - -", "rnbqkbnr/pppppppp/45/8/8/8/PPPPPPPP/RNBQKBNR w KQkq -",
        "rnbqkbnr/pppppppp/7/8/8/8/PPPPPPPP/RNBQKBNR w KQkq - 0 1", "rnbqkbnr/pppppppp/08/8/8/8/PPPPPPPP/RNBQKBNR w KQkq - 0 1",
        "rnbqkbnr/pppppppp/8/8/8/8/PPPPPPPP/RNBQKBNR w KQkq A3 0 1", "rnbqkbnr/pppppppp/8/8/8/8/PPPPPPPP/RNBQKBNR w KQkq q3 0 1",
        "rnbqkbnr/pppppppp/8/8/8/8/PPPPPPPP/RNBQKBNR white KQkq - 0 1", "rnbqkbnr/pppppppp/8/8/8/8/PPPPPPPP/RNBQKBNR w KQkq e 0 1",
        "rnbqkbnr/pppppppp/8/8/8/8/PPPPPPPP/RNBQKBNR w KQkq e9 0 1", "rnbqkbnr/pppppppp/8/8/8/8/PPPPPPPP/RNBQKBNR w KQxq - 0 1",
        "1QQQQQQQ/Q6Q/Q6Q/Q3k2Q/Q6Q/Q6Q/Q6Q/QQQQQQQK w - -", "", " ", "8/8/8/8/8/8/8/8 w - -", "rnbqkbnr/pppppppp/8/8/8/8/PPPPPPPP/RNBQKBNR",
        "rnbqkbnr/pppppppp/8/8/8/8/PPPPPPPP/RNBQKBNR w", "rnbqkbnr/pppppppp/8/8/8/8/PPPPPPPP/RNBQKBNR w KQkq",
        "rnbqkbnr/pppppppp/8/8/8/8/PPPPPPPP/RNBQKBNR/8 w KQkq - 0 1", "rnbqkbnr/pppppppp/8/8/8/8/PPPPPPPP w KQkq - 0 1",
        "rnbqkbnr/pppp1ppp/8/4p3/4P3/8/PPPP1PPP/RNBQKBNR w KQkq e6 0 2", "rnbqkbnr/pppppppp/8/8/4P3/8/PPPP1PPP/RNBQKBNR b KQkq e3 0 1",
        "rnbqkbnr/pppppppp/8/8/4P3/8/PPPP1PPP/RNBQKBNR b KQkq - 0 1", "rnbqkbnr/pppppppp/8/8/4P3/8/PPPP1PPP/RNBQKBNR b KQkq e6 0 1"]


def check_c17(rep, tier):
    r = core.rng(rep.seed, "C17")
    bases = [f for f in roots.ALL[:: (3 if tier == "quick" else 1)]] + sample_positions(rep, "C17w", 10 if tier == "quick" else 60, 30)
    bases = list(dict.fromkeys(bases))
    strings = list(HAND)
    for f in bases:
        strings.append(f)
        strings.append(core.fen4(f))                      # four fields
        strings.append(" ".join(f.split()[:5]))           # five fields
        strings += mutations(r, f, 130 if tier == "quick" else 0)
        strings += unicode_mutations(r, f, 40 if tier == "quick" else 0)
    # material at the edge of what promotions allow (k extra pieces of one kind with exactly 8 - k pawns), both colours:
    # reachable, sane, and must be imported
    edge = ["4k3/8/8/8/8/2B5/PPPPPPP1/2B1KB2 w - - 0 1", "4k3/8/8/8/8/2N5/PPPPPPP1/1N2K1N1 w - - 0 1", "4k3/8/8/8/8/2R5/PPPPPPP1/R3K2R w - - 0 1",
            "4k3/8/8/8/8/2Q5/PPPPPPP1/3QK3 w - - 0 1", "4k3/8/8/8/8/2B2B2/PPPPPP2/2B1KB2 w - - 0 1", "4k3/8/8/8/8/2N2N2/PPPPPP2/1N2K1N1 w - - 0 1",
            "4k3/8/8/8/8/QQQQ4/QQQQ4/3QK3 w - - 0 1", "4k3/8/8/8/8/2B2N2/PPPPPP2/1NB1KBN1 w - - 0 1"]
    for f in edge:
        parts = f.split()
        mirrored = "/".join(row.swapcase() for row in reversed(parts[0].split("/"))) + " b - - 0 1"
        strings += [f, mirrored]
    strings = [s for s in dict.fromkeys(strings) if "\n" not in s and "\r" not in s]
    cases = [["new " + s, "obs", "moves c"] for s in strings]
    stats, kinds = Counter(), Counter()
    rust, lean = searchchk.run_pair(rep, cases)
    rustc, _ = core.run_rust(cases, profile="checked")
    first = searchchk.correspondence(rep, "C17", cases, rust, lean, stats)
    q = []
    for s in strings:
        q += ["spec_class " + s, "spec_render " + s, "spec_zobrist " + s, "spec_norm " + s]
    ans = searchchk.spec_queries(q)
    legal_q = []
    for s, out in zip(strings, rust):
        if ans.get("spec_class " + s) == "strict-sane" and out[0] == ["ok"]:
            legal_q.append("spec_legal " + s)
    ans.update(searchchk.spec_queries(legal_q))
    # the same texts through the UCI front end (`position fen …`, the error path of uci.rs included): never a crash, and
    # the same verdict as the reader's (for texts the command's own word splitting leaves unchanged)
    ucases = [["position fen " + s, "obs"] for s in strings]
    urust, _ = core.run_rust(ucases)
    for s, out, uo in zip(strings, rust, urust):
        a = uo[0]
        stats["position_fen_commands"] += 1
        if a is None or (a and a[0].startswith("fault:")):
            rep.violation("impl-vs-spec", f"`position fen` crashed on `{s}`", f"{a}", replay_ops=["position fen " + s])
            break
        if " ".join(s.split()) == s and s and (out[0] == ["ok"]) != (bool(a) and a[0].startswith("ok ")):
            rep.violation("impl-vs-spec", f"`position fen` and the reader disagree on `{s}`", f"reader {out[0]} position {a}", replay_ops=["position fen " + s])
            break
    for s, case, out, outc in zip(strings, cases, rust, rustc):
        cls = ans.get("spec_class " + s)
        kinds["class_" + str(cls)] += 1
        stats["strings"] += 1
        for prof, o in (("release", out), ("checked", outc)):
            a = o[0]
            if a is None or (a and a[0].startswith("fault:")):
                rep.violation("impl-vs-spec", f"FEN import crashed ({prof} build) on `{s}`", f"{a}", replay_ops=case[:1])
                break
            if cls == "malformed" and a == ["ok"]:
                rep.violation("impl-vs-spec", f"malformed FEN accepted ({prof} build): `{s}`", f"imported as {o[1]}", replay_ops=case[:2])
                break
            if cls == "strict-sane" and a != ["ok"]:
                rep.violation("impl-vs-spec", f"well-formed FEN of a sane position refused: `{s}`", f"{a}", replay_ops=case[:1])
                break
            if a == ["ok"] and o[1] and "|" in o[1][0]:
                kinds["accepted"] += 1 if prof == "release" else 0
                f = o[1][0].split("|")
                if core.fen4(f[0]) != ans.get("spec_render " + s):
                    rep.violation("impl-vs-spec", f"FEN imported as a different position: `{s}`",
                                  f"engine {core.fen4(f[0])} grammar {ans.get('spec_render ' + s)}", replay_ops=case[:2])
                    break
                if f[1] != ans.get("spec_zobrist " + s):
                    rep.violation("impl-vs-spec", f"imported game's hash is not the position's: `{s}`",
                                  f"engine {f[1]} spec {ans.get('spec_zobrist ' + s)}", replay_ops=case[:2])
                    break
                if prof == "release" and cls == "strict-sane":
                    lg = ans.get("spec_legal " + s)
                    got = sorted(d.split(":")[0] for d in (o[2][0].split(" ", 1)[1].split(",") if o[2] and o[2][0].split(" ", 1)[1:] and o[2][0].split(" ", 1)[1] else []))
                    exp = sorted(lg.split(" ", 1)[1].split(",")) if lg and lg.split(" ", 1)[1:] and lg.split(" ", 1)[1] else []
                    stats["legal_move_sets_checked"] += 1
                    if got != exp:
                        rep.violation("impl-vs-spec", f"imported position has other legal moves than the position described: `{s}`",
                                      f"engine {got} rules {exp}", replay_ops=case)
                        break
    searchchk.finish_corr(rep, "C17", cases, first, rust, lean)
    stats["base_fens"] = len(bases)
    return stats, kinds, cases


# ----------------------------------------------------------------------------------------- C20

GLYPH = dict(zip("♔♕♖♗♘♙♚♛♜♝♞♟", "KQRBNPkqrbnp"))


def expected_pgn(fen, uci):
    b = board_of(fen)
    sc, sr, ec, er = FILES.index(uci[0]), RANKS.index(uci[1]), FILES.index(uci[2]), RANKS.index(uci[3])
    pc = b.get((sr, sc))
    if pc is None:
        return None
    tgt = b.get((er, ec))
    if pc.upper() == "K" and abs(ec - sc) == 2:
        return "O-O" if ec > sc else "O-O-O"
    if pc.upper() == "P":
        if len(uci) == 5:
            return uci[0] + ("x" if tgt else "") + uci[2] + uci[3] + "=" + uci[4].upper()
        if sc != ec and tgt is None:
            return uci[0] + "x" + uci[2] + uci[3]                       # en passant
        return uci[0] + ("x" if tgt else "") + uci[2] + uci[3]
    return pc.upper() + uci[0] + ("x" if tgt else "") + uci[2] + uci[3]


def check_c20(rep, tier):
    r = core.rng(rep.seed, "C20")
    n = 60 if tier == "quick" else 8000
    cases = []
    promo_roots = roots.PROMO + ["4k3/P6P/8/8/8/8/p6p/4K3 w - - 0 1"]
    for i in range(n):
        root = promo_roots[i % len(promo_roots)] if i % 3 == 0 else roots.ALL[i % len(roots.ALL)]
        ops = ["new " + root, "obs"]
        for _ in range(r.randint(2, 14 if tier == "quick" else 40)):
            ops += ["pushbias %d" % r.randrange(1 << 30), "obs", "pgn"]
        ops += ["show"]
        cases.append(ops)
    # every promotion piece with and without capture, both colours
    for mv in ["b7b8q", "b7b8r", "b7b8b", "b7b8n", "b7a8q", "b7a8r", "b7a8b", "b7a8n", "b7c8q", "b7c8n"]:
        cases.append(["new n1n1k3/1P6/8/8/8/8/6p1/4K1N1 w - - 0 1", "obs", "playh " + mv, "obs", "pgn", "show"])
    for mv in ["g2g1q", "g2g1r", "g2g1b", "g2g1n", "g2h1q", "g2h1b", "g2f1n", "g2f1r"]:
        cases.append(["new 4k3/8/8/8/8/8/6p1/4KN1R b - - 0 1", "obs", "playh " + mv, "obs", "pgn", "show"])
    # en-passant captures of both colours, inner and edge files, castling both ways, in one record each
    for line in ["e2e4 a7a6 e4e5 d7d5 e5d6", "e2e4 a7a6 e4e5 f7f5 e5f6", "h2h4 a7a6 h4h5 g7g5 h5g6", "a2a4 h7h6 a4a5 b7b5 a5b6",
                 "a2a3 d7d5 a3a4 d5d4 e2e4 d4e3", "a2a3 d7d5 a3a4 d5d4 c2c4 d4c3", "b2b3 h7h5 b3b4 h5h4 g2g4 h4g3", "h2h3 a7a5 h3h4 a5a4 b2b4 a4b3",
                 "e2e4 e7e5 g1f3 g8f6 f1c4 f8c5 e1g1 e8g8", "d2d4 d7d5 b1c3 b8c6 c1f4 c8f5 d1d2 d8d7 e1c1 e8c8"]:
        ops = ["new " + roots.START, "obs"]
        for mv in line.split():
            ops += ["playh " + mv, "obs", "pgn"]
        cases.append(ops + ["show"])
    # games as long as the engine accepts (398 plies): the record must still hold EVERY move, from the first one
    ops = ["new " + roots.START, "obs"]
    for k in range(97):
        for mv in ("g1f3", "g8f6", "f3g1", "f6g8"):
            ops += ["playh " + mv, "obs"]
        if k in (31, 63, 64, 96):
            ops += ["pgn"]
    cases.append(ops + ["pgn", "show"])
    for _ in range(2 if tier == "quick" else 12):
        ops = ["new " + roots.START, "obs"]
        for k in range(396):
            ops += ["pushh %d" % r.randrange(1 << 30), "obs"]
            if k in (120, 250, 258, 300, 395):
                ops += ["pgn"]
        cases.append(ops + ["pgn", "show"])
    stats, kinds = Counter(), Counter()
    rust, lean = searchchk.run_pair(rep, cases)
    first = searchchk.correspondence(rep, "C20", cases, rust, lean, stats)
    for ci, case in enumerate(cases):
        fen = None
        expect = []
        last_obs = None
        for oi, op in enumerate(case):
            out = rust[ci][oi]
            if not out:
                continue
            if out[0].startswith("fault:"):
                rep.violation("impl-vs-spec", f"engine panicked on `{op}`", out[0], replay_ops=case[: oi + 1])
                break
            name = op.split(" ")[0]
            if name == "obs" and "|" in out[0]:
                last_obs = out[0].split("|")
                fen = last_obs[0]
            elif name in ("pushbias", "playh", "pushh") and ":" in out[0] and fen:
                d = out[0].split(":")
                e = expected_pgn(fen, d[0])
                expect.append(e)
                kinds["entry_" + d[1] + ("x" if d[3] != "-" else "") + (d[2] if d[1] == "P" else "")] += 1
            elif name == "pgn":
                toks = [t for t in out[0].replace("\\n", " ").split(" ") if t and not t.endswith(".")]
                stats["records_checked"] += 1
                if toks != expect:
                    k = next((i for i, (a, b) in enumerate(zip(toks, expect)) if a != b), min(len(toks), len(expect)))
                    rep.violation("impl-vs-spec", f"move record entry {k + 1} is `{toks[k] if k < len(toks) else None}`, played `{expect[k] if k < len(expect) else None}` @ {case[0]}",
                                  f"record {toks} expected {expect}", replay_ops=case[: oi + 1])
                    break
            elif name == "show" and last_obs:
                text = out[0].replace("\\n", "\n")
                lines = text.split("\n")
                stats["shows_checked"] += 1
                h = next((l[6:] for l in lines if l.startswith("Hash: ")), None)
                f = next((l[5:] for l in lines if l.startswith("Fen: ")), None)
                rows = [l for l in lines if len(l) > 2 and l[0] in RANKS and l[1] == " " and "|" in l]
                placement = {}
                for l in rows:
                    rk = int(l[0]) - 1
                    cells = l[2:].split("|")[1:9]
                    for c, cell in enumerate(cells):
                        if cell != " ":
                            placement[(rk, c)] = GLYPH.get(cell, "?")
                ok = (h is not None and int(h, 16) == int(last_obs[1], 16) and f == last_obs[0] and len(rows) == 8
                      and placement == board_of(last_obs[0]) and [int(l[0]) for l in rows] == [8, 7, 6, 5, 4, 3, 2, 1])
                if not ok:
                    rep.violation("impl-vs-spec", f"show output disagrees with the game @ {last_obs[0]}",
                                  f"hash {h} vs {last_obs[1]}; fen {f}; diagram {placement}", replay_ops=case[: oi + 1])
                    break
    # `show` and the record depend on the game the LAST `position` command describes, not on what the session held before
    # it (a game that had come back to the start position, a longer game, a refused command)
    second = ["position startpos moves e2e4", "position startpos", "position startpos moves g1f3 g8f6",
              "position fen r3k2r/8/8/8/8/8/8/R3K2R w KQkq - 0 1 moves e1g1"]
    first_cmds = ["position startpos moves g1f3 g8f6 f3g1 f6g8", "position startpos moves b1c3 b8c6 c3b1 c6b8 g1f3 g8f6 f3g1 f6g8",
                  "position startpos moves e2e4 e7e5", "position fen r3k2r/8/8/8/8/8/8/R3K2R w KQkq - 0 1 moves a1b1 a8b8 b1a1 b8a8",
                  "position startpos moves e2e5", "position fen 9/8 w - -"]
    pc = [[s, "obs", "pgn", "show"] for s in second] + [[f, "obs", s, "obs", "pgn", "show"] for f in first_cmds for s in second]
    po, _ = core.run_rust(pc)
    base = {s: o[1:] for s, o in zip(second, po[: len(second)])}
    for case, o in zip(pc[len(second):], po[len(second):]):
        stats["position_twice_sessions"] += 1
        if o[3:] != base[case[2]]:
            rep.violation("impl-vs-spec", f"after `{case[0][:60]}` the command `{case[2]}` shows another game than it does in a fresh session",
                          f"{o[3:]} vs {base[case[2]]}", replay_ops=case)
            break
    searchchk.finish_corr(rep, "C20", cases, first, rust, lean)
    stats["cases"] = len(cases)
    return stats, kinds, cases
