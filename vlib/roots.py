"""Corpus of root positions (all sane, all accepted by the reader)."""

START = "rnbqkbnr/pppppppp/8/8/8/8/PPPPPPPP/RNBQKBNR w KQkq - 0 1"

PERFT = [
    START,
    "r3k2r/p1ppqpb1/bn2pnp1/3PN3/1p2P3/2N2Q1p/PPPBBPPP/R3K2R w KQkq - 0 1",
    "8/2p5/3p4/KP5r/1R3p1k/8/4P1P1/8 w - - 0 1",
    "r3k2r/Pppp1ppp/1b3nbN/nP6/BBP1P3/q4N2/Pp1P2PP/R2Q1RK1 w kq - 0 1",
    "r2q1rk1/pP1p2pp/Q4n2/bbp1p3/Np6/1B3NBn/pPPP1PPP/R3K2R b KQ - 0 1",
    "rnbq1k1r/pp1Pbppp/2p5/8/2B5/8/PPP1NnPP/RNBQK2R w KQ - 1 8",
    "r4rk1/1pp1qppp/p1np1n2/2b1p1B1/2B1P1b1/P1NP1N2/1PP1QPPP/R4RK1 w - - 0 10",
]

ENDGAMES = [
    "8/8/4k3/8/8/3K4/4P3/8 w - - 0 1",
    "8/8/4k3/8/8/3K4/4P3/8 b - - 0 1",
    "8/8/8/4k3/8/8/3QK3/8 w - - 0 1",
    "8/8/8/4k3/8/8/3RK3/8 b - - 0 1",
    "8/8/8/4k3/8/8/2BNK3/8 w - - 0 1",
    "8/4P3/8/4k3/8/8/4p3/4K3 w - - 0 1",
    "4k3/8/8/8/8/8/PPPP4/4K3 w - - 0 1",
    "4k3/pppp4/8/8/8/8/8/4K3 b - - 0 1",
    # material just above / around the end-game threshold (phase switches during play)
    "r3k3/pppp4/8/8/8/8/PPPP4/R3K3 w Qq - 0 1",
    "4k3/2q5/8/8/8/8/2Q5/4K3 w - - 0 1",
    "1n2k3/pppppppp/8/8/8/8/PPPPPPPP/1N2K3 w - - 0 1",
    "rn2k3/pppp4/8/8/8/8/PPPP4/RN2K3 w Qq - 0 1",
]

EP = [
    "8/8/8/KPp4r/8/8/8/4k3 w - c6 0 1",          # ep capture discovers a rank attack
    "b3k3/8/8/3pP3/8/8/8/7K w - d6 0 1",          # ep capture opens a diagonal
    "4r1k1/8/8/3pP3/8/8/8/4K3 w - d6 0 1",        # capturing pawn pinned on the file
    "8/8/8/2k5/3Pp3/8/8/4K3 b - d3 0 1",          # ep capture is the answer to a check
    "4k3/8/8/2Pp4/8/8/2P5/4K3 w - d6 0 1",
    "4k3/8/8/8/pP6/8/8/4K3 b - b3 0 1",
    "rnbqkbnr/ppp1pppp/8/8/3pP3/8/PPPP1PPP/RNBQKBNR b KQkq e3 0 3",
    "rnbqkbnr/pppp1ppp/8/3Pp3/8/8/PPP1PPPP/RNBQKBNR w KQkq e6 0 3",
    "4k3/8/8/1pPp4/8/8/8/4K3 w - b6 0 1",
    "4k3/8/8/8/PpP5/8/8/4K3 b - a3 0 1",
    "4k3/8/8/6Pp/8/8/8/4K3 w - h6 0 1",
    "8/8/8/8/R1Pp3k/8/8/4K3 b - c3 0 1",          # rank pin for black
]

CASTLING = [
    "r3k2r/8/8/8/8/8/8/R3K2R w KQkq - 0 1",
    "r3k2r/8/8/8/8/8/8/R3K2R b KQkq - 0 1",
    "r3k2r/8/8/8/8/5b2/8/R3K2R w KQkq - 0 1",
    "4kr2/8/8/8/8/8/8/R3K2R w KQ - 0 1",
    "1r2k3/8/8/8/8/8/8/R3K2R w KQ - 0 1",
    "3rk3/8/8/8/8/8/8/R3K2R w KQ - 0 1",
    "r3k2r/8/8/8/8/8/6p1/R3K2R w KQkq - 0 1",
    "r3k2r/1P4P1/8/8/8/8/1p4p1/R3K2R w KQkq - 0 1",
    "r3k2r/8/8/8/8/8/8/R3K2R w Kq - 0 1",
    "r3k2r/8/8/8/8/8/8/R3K2R b Qk - 0 1",
    "r3k2r/8/8/8/8/5n2/8/R3K2R w KQkq - 0 1",
    "rn2k1nr/8/8/8/8/8/8/RN2K1NR w KQkq - 0 1",
    "r3k2r/8/8/4q3/4Q3/8/8/R3K2R w KQkq - 0 1",
    # the enemy king next to the castling path (diagonally / orthogonally adjacent to transit squares)
    "8/8/8/8/8/8/1k6/R3K2R w KQ - 0 1",
    "r3k2r/1K6/8/8/8/8/8/8 b kq - 0 1",
    "8/8/8/8/8/8/6k1/R3K2R w KQ - 0 1",
    "r3k2r/6K1/8/8/8/8/8/8 b kq - 0 1",
    "8/8/8/8/8/8/2k5/R3K2R w KQ - 0 1",
    "4k3/8/8/8/8/2k5/8/R3K2R w KQ - 0 1".replace("4k3/8/8/8/8/2k5", "8/8/8/8/8/2k5"),
]

PROMO = [
    "4k3/P6P/8/8/8/8/p6p/4K3 w - - 0 1",
    "4k3/P6P/8/8/8/8/p6p/4K3 b - - 0 1",
    "1n2k1n1/P6P/8/8/8/8/p6p/1N2K1N1 w - - 0 1",
    "r3k2r/1P4P1/8/8/8/8/1p4p1/R3K2R b KQkq - 0 1",
    "n1n1k3/1P6/8/8/8/8/6p1/4K1N1 w - - 0 1",
]

SPECIAL = [
    "R6R/3Q4/1Q4Q1/4Q3/2Q4Q/Q4Q2/pp1Q4/kBNN1KB1 w - - 0 1",   # 218 legal moves
    "6k1/5ppp/8/8/8/8/8/R3K3 w Q - 0 1",                        # mate in one
    "7k/5Q2/6K1/8/8/8/8/8 b - - 0 1",                            # stalemate
    "R5k1/5ppp/8/8/8/8/8/4K3 b - - 0 1",                         # checkmated
    "4k3/8/8/8/8/8/3n4/R3K2R w KQ - 0 1",
    "4k3/4r3/8/8/8/8/3N1n2/4K3 w - - 0 1",                       # double check motifs nearby
    "rnb1kbnr/pppp1ppp/8/4p3/6Pq/5P2/PPPPP2P/RNBQKBNR w KQkq - 1 3",  # fool's mate, checkmated
    "4k3/8/8/p1p1p1p1/PpPpPpPp/1P1P1P1P/8/4K3 w - - 0 1",      # blocked pawns (tiny tree)
]

# a SECOND rook of the side on the a- or h-file while the castling right is still held (a lifted or promoted rook):
# its moves must not cost the right; only the home rook's do
EDGE_ROOKS = [
    "r3k2r/8/8/8/8/R7/8/R3K2R w KQkq - 0 1", "r3k2r/8/8/8/8/7R/8/R3K2R w KQkq - 0 1",
    "r3k2r/8/r7/8/8/8/8/R3K2R b KQkq - 0 1", "r3k2r/8/7r/8/8/8/8/R3K2R b KQkq - 0 1",
    "r3k2r/p6p/8/8/R6R/8/P6P/R3K2R w KQkq - 0 1", "r3k2r/p6p/8/r6r/8/8/P6P/R3K2R b KQkq - 0 1",
    "4k3/8/8/8/8/R7/8/R3K3 w Q - 0 1", "4k2r/8/7r/8/8/8/8/4K3 b k - 0 1",
]
# a piece attacking along a whole line of the board (seven squares away): corner to corner, edge to edge
LONG_LINES = [
    "7b/8/8/8/8/8/8/K3k3 w - - 0 1", "b7/8/8/8/8/8/8/3k3K w - - 0 1", "K3k3/8/8/8/8/8/8/7b w - - 0 1", "3k3K/8/8/8/8/8/8/b7 w - - 0 1",
    "7B/8/8/8/8/8/8/k3K3 b - - 0 1", "B7/8/8/8/8/8/8/3K3k b - - 0 1", "k3K3/8/8/8/8/8/8/7B b - - 0 1", "3K3k/8/8/8/8/8/8/B7 b - - 0 1",
    "r7/8/8/8/8/8/8/K3k3 w - - 0 1", "K6r/8/8/8/8/8/8/4k3 w - - 0 1", "k6R/8/8/8/8/8/8/4K3 b - - 0 1", "R7/8/8/8/8/8/8/k3K3 b - - 0 1",
    "7q/8/8/8/3P4/1k6/3n4/K7 b - - 0 1", "7Q/8/8/8/3p4/1K6/3N4/k7 w - - 0 1", "q7/8/8/8/4P3/6k1/4n3/7K b - - 0 1",
    "7B/8/8/8/3P4/1K6/3N4/k7 w - - 0 1", "7b/8/8/8/3p4/1k6/3n4/K7 b - - 0 1",
]
ALL = PERFT + ENDGAMES + EP + CASTLING + PROMO + SPECIAL + EDGE_ROOKS + LONG_LINES
