"""Per-property checks. Every check: extract -> prove (lake build + axiom audit) -> rebuild impl ->
correspond -> decide on the implementation -> evidence."""
import json
import os

from . import core, walks

REGISTRY = {}


def prop(pid):
    def deco(f):
        REGISTRY[pid] = f
        return f
    return deco


SIZES = {  # (cases, plies) per tier for the walk family
    "quick": {"C01": (70, 14), "C02": (90, 24), "C03": (90, 20), "C04": (90, 24), "C11": (90, 24), "C16": (110, 30)},
    "thorough": {"C01": (1500, 40), "C02": (3000, 60), "C03": (3000, 50), "C04": (3000, 60), "C11": (3000, 60), "C16": (3000, 80)},
}


def prove(pid, rep, thorough_extra=True):
    """Steps 1-2 of the protocol. Returns dict of audited theorems; records broken ties."""
    info = {"extract": None, "theorems": {}}
    try:
        info["extract"] = core.extract()
    except core.Broken as b:
        rep.broken = b
        return info
    try:
        core.lake_build([f"Chess.Props.{pid}", "chessdrv"])
        info["theorems"] = core.audit_props(pid)
        if rep.tier == "thorough" and thorough_extra:
            core.leanchecker(f"Chess.Props.{pid}")
            info["leanchecker"] = True
    except core.Broken as b:
        rep.broken = b
    return info


def build_impl(rep, profiles=("release",), engine=False):
    try:
        for p in profiles:
            core.cargo_harness(p)
        if engine:
            core.cargo_engine()
        return True
    except core.Broken as b:
        rep.violation("build", f"build:{b.name}", b.detail[-1500:], no_input=True)
        return False


def proof_coverage(rep, info, extra):
    thms = info.get("theorems", {})
    axioms = sorted({a for ax in thms.values() for a in ax})
    n_extract = 1 if info.get("extract") else 0
    cov = {
        "obligations": len(thms) + 1,
        "discharged": len(thms) + n_extract if not getattr(rep, "broken", None) else len(thms),
        "checker_cmd": f"cd lean && lake build Chess.Props.{rep.pid} && lake env lean Chess/Props/{rep.pid}.lean  (# print axioms audit)"
                       + (" && lake env leanchecker Chess.Props.%s" % rep.pid if info.get("leanchecker") else ""),
        "trusted_base": ["Lean 4.33.0 kernel", "axioms: " + (", ".join(axioms) if axioms else "none")]
                        + ["tools/extract.py (regular expressions over /repo/src)", "correspondence check (differential, counts below)",
                           "Chess/Spec (hand-written statement of the rules)"],
        "theorems": sorted(thms),
    }
    cov.update(extra)
    rep.coverage = cov


def finish(rep, info):
    b = getattr(rep, "broken", None)
    if b is not None and not any(v["kind"] == "impl-vs-spec" for v in rep.violations):
        rep.violation(b.kind, f"{b.kind}:{b.name}", b.detail[-1500:], no_input=True)
    return rep.finish("proof")


def walk_property(pid, rep, replay=None):
    rep.broken = None
    info = prove(pid, rep)
    if not build_impl(rep):
        proof_coverage(rep, info, {})
        return finish(rep, info)
    if rep.broken is not None and rep.broken.kind == "extract":
        # the model cannot be rebuilt; still search the implementation with the last built driver
        pass
    n, plies = SIZES[rep.tier][pid]
    if getattr(rep, "broken", None) is not None:
        n, plies = SIZES["thorough"][pid][0] // 4, SIZES["thorough"][pid][1]
    stats, kinds, cases = walks.run(pid, rep, n, plies)
    sample = cases[len(walks.load_corpus(pid))][:12] if cases else []
    proof_coverage(rep, info, {
        "evaluations": stats.get("ops_compared", 0),
        "distinct_nontrivial": stats.get("distinct_positions", 0),
        "rule": "random legal walks (biased to castling/en passant/promotion/captures) from %d corpus roots with nested "
                "play/take-back over the unchecked list; distinct = distinct positions (FEN fields 1-4) observed on the implementation" % len(walks.roots.ALL),
        "samples": [sample],
        "stats": dict(stats),
        "move_kinds": dict(kinds),
    })
    return finish(rep, info)


for _pid in ("C01", "C02", "C03", "C04", "C11", "C16"):
    REGISTRY[_pid] = walk_property


def run_property(pid, rep, replay=None):
    return REGISTRY[pid](pid, rep, replay=replay)
