"""Per-property checks. Every check: extract -> prove (lake build + axiom audit) -> rebuild impl ->
correspond -> decide on the implementation -> evidence."""
import json
import os

from . import core, walks

REGISTRY = {}
_PROVED = {}


def prop(pid):
    def deco(f):
        REGISTRY[pid] = f
        return f
    return deco


SIZES = {  # (cases, plies) per tier for the walk family
    "quick": {"C01": (100, 10), "C02": (110, 24), "C03": (110, 20), "C04": (100, 24), "C11": (100, 24), "C16": (110, 30)},
    "thorough": {"C01": (4000, 40), "C02": (10000, 60), "C03": (10000, 50), "C04": (8000, 60), "C11": (10000, 60), "C16": (8000, 80)},
}


def prove(pid, rep, thorough_extra=True):
    """Steps 1-2 of the protocol. Returns dict of audited theorems; records broken ties."""
    if pid in _PROVED:          # widening rounds of one ./check invocation: the proof step has been done
        return _PROVED[pid]
    info = {"extract": None, "theorems": {}}
    try:
        info["extract"] = core.extract_for(pid)
    except core.Broken as b:
        rep.broken = b
        return info
    if os.environ.get("VERIF_DEV_SKIP_PROOF"):
        # development aid only (never used by a registered command): rebuild the driver, skip the proof audit
        try:
            core.lake_build(["chessdrv"])
        except core.Broken as b:
            rep.broken = b
        info["theorems"] = {"(proof step skipped: VERIF_DEV_SKIP_PROOF)": []}
        return info
    try:
        core.lake_build([f"Chess.Props.{pid}", "chessdrv"])
        info["theorems"] = core.audit_props(pid)
        if rep.tier == "thorough" and thorough_extra:
            core.leanchecker(f"Chess.Props.{pid}")
            info["leanchecker"] = True
        _PROVED[pid] = info
    except core.Broken as b:
        rep.broken = b
    return info


def build_impl(rep, profiles=("release",), engine=False):
    try:
        for p in profiles:
            core.cargo_harness(p)
        if core.HARNESS_NO_UCI and rep.pid in ("C12", "C15") and getattr(rep, "broken", None) is None:
            # these two properties are ABOUT `position`; the stand-in of the fallback build is not the code under test
            rep.broken = core.Broken("build", "harness:uci.rs-include (private names of uci.rs changed; `position` is not tied in-process)",
                                     core.HARNESS_NO_UCI[0])
        if engine:
            core.cargo_engine()
        return True
    except core.Broken as b:
        rep.violation("build", f"build:{b.name}", b.detail[-1500:], no_input=True)
        return False


def proof_coverage(rep, info, extra):
    thms = info.get("theorems", {})
    axioms = sorted({a for ax in thms.values() for a in ax})
    n_extract = 1 if info.get("extract") else 0
    cov = {
        "obligations": len(thms) + 1,
        "discharged": len(thms) + n_extract if not getattr(rep, "broken", None) else len(thms),
        "checker_cmd": f"cd lean && lake build Chess.Props.{rep.pid} && lake env lean Chess/Props/{rep.pid}.lean  (# print axioms audit)"
                       + (" && lake env leanchecker Chess.Props.%s" % rep.pid if info.get("leanchecker") else ""),
        "trusted_base": ["Lean 4.33.0 kernel", "axioms: " + (", ".join(axioms) if axioms else "none")]
                        + ["tools/extract.py (regular expressions over /repo/src)", "correspondence check (differential, counts below)",
                           "Chess/Spec (hand-written statement of the rules)"],
        "theorems": sorted(thms),
    }
    cov.update(extra)
    rep.coverage = cov


def finish(rep, info):
    b = getattr(rep, "broken", None)
    if b is not None and not any(v["kind"] == "impl-vs-spec" for v in rep.violations):
        rep.violation(b.kind, f"{b.kind}:{b.name}", b.detail[-1500:], no_input=True)
    return rep.finish("proof")


def walk_property(pid, rep, replay=None):
    rep.broken = None
    info = prove(pid, rep)
    if not build_impl(rep):
        proof_coverage(rep, info, {})
        return finish(rep, info)
    if rep.broken is not None and rep.broken.kind == "extract":
        # the model cannot be rebuilt; still search the implementation with the last built driver
        pass
    n, plies = SIZES[rep.tier][pid]
    if getattr(rep, "broken", None) is not None:
        n, plies = n * 3, plies  # enlarged search for a failing input when a tie is broken
    stats, kinds, cases = walks.run(pid, rep, n, plies)
    sample = cases[len(walks.load_corpus(pid))][:12] if cases else []
    proof_coverage(rep, info, {
        "evaluations": stats.get("ops_compared", 0),
        "distinct_nontrivial": stats.get("distinct_positions", 0),
        "rule": "random legal walks (biased to castling/en passant/promotion/captures) from %d corpus roots with nested "
                "play/take-back over the unchecked list; distinct = distinct positions (FEN fields 1-4) observed on the implementation" % len(walks.roots.ALL),
        "samples": [sample],
        "stats": dict(stats),
        "move_kinds": dict(kinds),
    })
    return finish(rep, info)


for _pid in ("C01", "C02", "C03", "C04", "C11", "C16"):
    REGISTRY[_pid] = walk_property


def run_property(pid, rep, replay=None):
    return REGISTRY[pid](pid, rep, replay=replay)


# ----------------------------------------------------------------------------- search family
from . import searchchk  # noqa: E402

SEARCH_SIZES = {"quick": {"C06": (60, 3), "C18": (60, 3)}, "thorough": {"C06": (4000, 5), "C18": (4000, 5)}}


def search_property(pid, rep, replay=None):
    rep.broken = None
    info = prove(pid, rep)
    profiles = ("release", "checked") if pid in ("C08", "C15") else ("release",)
    if not build_impl(rep, profiles=profiles, engine=(pid in ("C15", "C08", "C07"))):
        # the in-process harness no longer builds (a signature it uses changed): the tie is broken, but the real binary
        # may still build — search IT for a failing input before reporting
        from collections import Counter
        st = Counter()
        try:
            core.cargo_engine()
            if pid == "C07":
                sessionchk.check_immediate_stop(rep, st)
                sessionchk.check_stop_promptness(rep, st)
            elif pid == "C08":
                sessionchk.check_combined_limits(rep, "C08", st)
                sessionchk.check_deep_tiny(rep, "C08", st)
        except core.Broken:
            pass
        proof_coverage(rep, info, {"stats": dict(st)})
        return finish(rep, info)
    tier = rep.tier  # a broken tie enlarges only the cheap walk searches (bounded run time)
    if pid in ("C06", "C18"):
        stats, kinds, cases = searchchk.check_legality(rep, pid, SEARCH_SIZES[tier][pid], rep.seed)
        rule = ("histories of 1-5 searches sharing one table (same game, other games, deeper then shallower limits, dead and "
                "single-reply roots, repeated-move history); distinct = searches whose result was checked against the rules")
        distinct = stats.get("searches", 0)
    elif pid == "C07":
        stats, kinds, cases = searchchk.check_stop(rep, tier, rep.seed)
        sessionchk.check_stop_promptness(rep, stats)
        sessionchk.check_immediate_stop(rep, stats)
        rule = "stop flag cleared after exactly N node-entry polls (hook), N sampled incl. 0, 1, last (quick) or every N (thorough); distinct = (position, N) pairs"
        distinct = stats.get("stop_points", 0)
    elif pid == "C08":
        stats, kinds, cases = searchchk.check_depth_limit(rep, tier, rep.seed)
        sessionchk.check_combined_limits(rep, "C08", stats)
        sessionchk.check_deep_tiny(rep, "C08", stats)
        rule = "search to depth a then limit b<a on the same table, depth 0 and 200, unlimited runs on tiny trees under a poll budget, checked build; distinct = searches"
        distinct = stats.get("searches", 0)
    elif pid == "C09":
        stats, kinds, cases = searchchk.check_pruning(rep, tier, rep.seed)
        rule = "table-less (hook) iterative and single-depth searches on small positions vs the unpruned reference evaluated by the Lean specification; distinct = (position, depth) values compared"
        distinct = stats.get("values_compared", 0)
    elif pid == "C15":
        stats, kinds, cases = searchchk.check_bounds(rep, tier, rep.seed)
        rule = ("checked build (debug assertions + overflow checks: violated unchecked-access preconditions panic): games of up to 398 plies "
                "followed by searches, maximal-mobility and many-promotion positions, every FEN the reader accepts from a mutation stream "
                "followed by generation and search; self-play to the length guard on the real binary; distinct = cases")
        distinct = stats.get("cases", 0)
    elif pid == "C10":
        stats, kinds, cases = searchchk.check_mates(rep, tier, rep.seed)
        rule = "mate-in-one positions found by the independent Lean solver among composed and walked positions, searched with limits 3, 4, none; dead roots; distinct = searches"
        distinct = stats.get("searches", 0)
    proof_coverage(rep, info, {
        "evaluations": stats.get("ops_compared", 0), "distinct_nontrivial": distinct, "rule": rule,
        "samples": [cases[min(len(cases) - 1, 5)]] if cases else [], "stats": dict(stats), "kinds": dict(kinds),
    })
    return finish(rep, info)


for _pid in ("C06", "C07", "C08", "C09", "C10", "C15", "C18"):
    REGISTRY[_pid] = search_property


# ----------------------------------------------------------------------------- text family
from . import textchk  # noqa: E402


def text_property(pid, rep, replay=None):
    rep.broken = None
    info = prove(pid, rep)
    profiles = ("release", "checked") if pid == "C17" else ("release",)
    if not build_impl(rep, profiles=profiles):
        proof_coverage(rep, info, {})
        return finish(rep, info)
    tier = rep.tier  # a broken tie enlarges only the cheap walk searches (bounded run time)
    if pid == "C12":
        stats, kinds, cases = textchk.check_c12(rep, tier)
        rule = ("per sampled position: all 4096 from/to square pairs with and without promotion suffixes (first positions; a sample for "
                "the rest), malformed/multi-byte strings, through the parser and through `position fen … moves s`; distinct = strings parsed")
        distinct = stats.get("strings_parsed", 0)
    elif pid == "C17":
        stats, kinds, cases = textchk.check_c17(rep, tier)
        rule = ("well-formed FENs (4, 5, 6 fields; FIDE-style and capturable-only en passant) and their single-character deletions, "
                "insertions, replacements over a 40-symbol alphabet, field drops and duplications, plus hand-written hard cases; both "
                "release and checked builds; distinct = distinct strings")
        distinct = stats.get("strings", 0)
    else:
        stats, kinds, cases = textchk.check_c20(rep, tier)
        rule = "games played into the record from corpus roots biased to promotions; every pgn record and show output parsed and compared with an independent Python oracle; distinct = records checked"
        distinct = stats.get("records_checked", 0)
    proof_coverage(rep, info, {
        "evaluations": stats.get("ops_compared", 0), "distinct_nontrivial": distinct, "rule": rule,
        "samples": [cases[0][:6]] if cases else [], "stats": dict(stats), "kinds": dict(kinds),
    })
    return finish(rep, info)


for _pid in ("C12", "C17", "C20"):
    REGISTRY[_pid] = text_property


# ----------------------------------------------------------------------------- engine (real binary) family
from . import sessionchk  # noqa: E402


def engine_property(pid, rep, replay=None):
    rep.broken = None
    info = prove(pid, rep)
    # these checks drive the real binary and the Lean driver only: the in-process harness is not needed
    if not build_impl(rep, profiles=(), engine=True):
        proof_coverage(rep, info, {})
        return finish(rep, info)
    tier = rep.tier  # a broken tie enlarges only the cheap walk searches (bounded run time)
    if pid == "C13":
        stats, kinds, samples = sessionchk.check_c13(rep, tier)
        rule = ("`go` with clock/increment/movetime tuples around every breakpoint of the budget function (0, 149-151, 7499-7501, 2^53±1, 2^64-1, …) "
                "and random magnitudes, either side to move, sent to the real binary; `info time` compared with the Lean model and with the bounds; distinct = go commands")
        distinct = stats.get("go_commands", 0)
        evals = distinct
    elif pid == "C14":
        stats, kinds, samples = sessionchk.check_c14(rep, tier)
        rule = ("scripted adversarial sessions with the schedule-point hooks stretching the named windows, plus random command sequences "
                "with random delays, on the real binary; distinct = sessions")
        distinct = stats.get("sessions", 0)
        evals = stats.get("go_accepted", 0) + stats.get("go_refused", 0)
    else:
        stats, kinds, samples = sessionchk.check_c19(rep, tier)
        rule = ("`position fen …; go depth N` on the real binary: fresh process, repeated, after unrelated searches + ucinewgame, with stretched "
                "thread start-up, under CPU load; every transcript compared with the fresh one and with the Lean model's; distinct = runs")
        distinct = stats.get("runs", 0)
        evals = distinct
    proof_coverage(rep, info, {"evaluations": max(1, evals), "distinct_nontrivial": distinct, "rule": rule,
                               "samples": samples[:3] if samples else [], "stats": dict(stats), "kinds": dict(kinds)})
    return finish(rep, info)


for _pid in ("C13", "C14", "C19"):
    REGISTRY[_pid] = engine_property


def c05_property(pid, rep, replay=None):
    rep.broken = None
    info = prove(pid, rep)
    if not build_impl(rep):
        proof_coverage(rep, info, {})
        return finish(rep, info)
    tier = rep.tier  # a broken tie enlarges only the cheap walk searches (bounded run time)
    stats, cases = walks.check_c05(rep, tier)
    proof_coverage(rep, info, {
        "evaluations": stats.get("positions_hashed", 0) + stats.get("single_feature_variants", 0),
        "distinct_nontrivial": stats.get("distinct_positions", 0),
        "rule": "EXPLORATION part (collision freedom is not a theorem for a 64-bit hash): every position visited by random legal walks is "
                "inserted into a hash -> position map built from the implementation's outputs; plus, per sampled position, all 4 single "
                "castling-right flips, all en-passant files, the side flip and 6 random single-square edits re-imported and hashed; "
                "distinct = distinct positions (FEN fields 1-4). The THEOREMS (single-feature sensitivity on the generated keys) are listed under theorems.",
        "samples": [cases[0][:8]] if cases else [], "stats": dict(stats),
    })
    return finish(rep, info)


REGISTRY["C05"] = c05_property
