"""Drive the real rustybait binary (built from /repo's working tree with the hook cfg) over stdin/stdout."""
import os
import queue
import subprocess
import threading
import time

from . import core


class Engine:
    def __init__(self, env=None, args=()):
        e = dict(os.environ)
        if env:
            e.update({k: str(v) for k, v in env.items()})
        self.p = subprocess.Popen([core.ENGINE, *args], stdin=subprocess.PIPE, stdout=subprocess.PIPE,
                                  stderr=subprocess.PIPE, text=True, errors="replace", bufsize=1, env=e)
        self.q = queue.Queue()
        self.t = threading.Thread(target=self._reader, daemon=True)
        self.t.start()
        self.log = []

    def _reader(self):
        try:
            for line in self.p.stdout:
                self.q.put((time.time(), line.rstrip("\n")))
        finally:
            self.q.put((time.time(), None))

    def send(self, line):
        self.log.append("> " + line)
        try:
            self.p.stdin.write(line + "\n")
            self.p.stdin.flush()
            return True
        except (BrokenPipeError, OSError):
            return False

    def read_until(self, pred, timeout):
        """Collect lines until pred(line) is true. Returns (lines, matched: bool, eof: bool)."""
        out = []
        end = time.time() + timeout
        while True:
            rem = end - time.time()
            if rem <= 0:
                return out, False, False
            try:
                ts, line = self.q.get(timeout=rem)
            except queue.Empty:
                return out, False, False
            if line is None:
                return out, False, True
            self.log.append("< " + line)
            out.append((ts, line))
            if pred(line):
                return out, True, False

    def sync(self, timeout=10.0):
        """isready/readyok barrier; returns the lines seen before readyok, or None if the engine is gone/stuck."""
        if not self.send("isready"):
            return None
        lines, ok, eof = self.read_until(lambda l: l == "readyok", timeout)
        if not ok:
            return None
        return [l for _, l in lines[:-1]]

    def close(self, timeout=5.0):
        self.send("quit")
        try:
            rc = self.p.wait(timeout=timeout)
        except subprocess.TimeoutExpired:
            self.p.kill()
            rc = None
        err = ""
        try:
            err = self.p.stderr.read()
        except Exception:
            pass
        return rc, err

    def kill(self):
        try:
            self.p.kill()
        except Exception:
            pass
