"""Walk-based correspondence and spec-vs-impl checks: C01 C02 C03 C04 C11 C16 (and the data C05/C20 reuse)."""
from collections import Counter

from . import core, roots


def gen_walk(r, root, plies, nest_prob=0.35, queries_in_nest=0.3, nest_mode="u"):
    ops = ["new " + root, "obs", "moves c", "obs", "moves u", "obs"]
    for _ in range(plies):
        if r.random() < nest_prob:
            d = r.randint(1, 4)
            for _ in range(d):
                ops += ["push %s %d" % (nest_mode if nest_mode != "mix" else r.choice("cu"), r.randrange(1 << 20)), "obs"]
                if r.random() < queries_in_nest:
                    ops += ["moves c", "obs"]
            for _ in range(d):
                ops += ["undo", "obs"]
            ops += ["moves c", "obs", "moves u", "obs"]
        ops += ["pushbias %d" % r.randrange(1 << 30), "obs", "moves c", "obs", "moves u", "obs"]
    return ops


def pin_family(r, n):
    """Sparse positions in which a piece of the side to move stands between its king and an enemy line piece, for
    every king square, direction, distance of the shield and of the pinner, kind of shield and kind of pinner, both
    colours — the geometry the legality shortcuts are about. `n` of them, drawn by the seeded generator (all of them
    are few ten thousand; the thorough tier takes a large sample). Positions the rules call insane (the side not to
    move in check) are dropped later by the caller through `spec_sane`."""
    out = []
    dirs = [(1, 0), (-1, 0), (0, 1), (0, -1), (1, 1), (1, -1), (-1, 1), (-1, -1)]
    tries = 0
    while len(out) < n and tries < 40 * n:
        tries += 1
        kr, kc = r.randrange(8), r.randrange(8)
        dr, dc = r.choice(dirs)
        k = r.randint(1, 6)
        j = r.randint(k + 1, 7)
        sr, sc, pr, pc_ = kr + k * dr, kc + k * dc, kr + j * dr, kc + j * dc
        if not (0 <= pr < 8 and 0 <= pc_ < 8):
            continue
        shield = r.choice("QRBNPPQR")
        if shield == "P" and sr in (0, 7):
            continue
        pinner = r.choice(["q", "r" if 0 in (dr, dc) else "b"])
        board = {(kr, kc): "K", (sr, sc): shield, (pr, pc_): pinner}
        # the enemy king: far from the own king, not on the line, first free square of a shuffled corner/edge list
        spots = [(7, 7), (7, 0), (0, 0), (0, 7), (7, 3), (0, 4), (3, 7), (4, 0)]
        r.shuffle(spots)
        ek = next((s for s in spots if s not in board and max(abs(s[0] - kr), abs(s[1] - kc)) > 1), None)
        if ek is None:
            continue
        board[ek] = "k"
        # sometimes a second enemy man next to the target squares (captures off the line), sometimes an own blocker
        if r.random() < 0.5:
            x = (r.randrange(1, 7), r.randrange(8))
            if x not in board:
                board[x] = r.choice("pnbr")
        white_to_move = r.random() < 0.5
        rows = []
        for row in range(7, -1, -1):
            s, e = "", 0
            for col in range(8):
                ch = board.get((row, col)) if white_to_move else None
                if not white_to_move:      # colour mirror: flip the board vertically and swap the colours
                    ch = board.get((7 - row, col))
                    ch = ch.swapcase() if ch else None
                if ch:
                    s += (str(e) if e else "") + ch
                    e = 0
                else:
                    e += 1
            rows.append(s + (str(e) if e else ""))
        out.append("/".join(rows) + (" w" if white_to_move else " b") + " - - 0 1")
    return out


def threshold_family(r, n):
    """Sparse random positions whose material lies in a band around the end-game threshold (the sum the engine compares
    includes the piece-square values, so whether a position is an end game depends on where the men — and the two
    kings, under the table in force — stand): the phase decision is taken on either side of the line, by small margins."""
    val = {"q": 900, "r": 500, "b": 330, "n": 320, "p": 100}
    out = []
    tries = 0
    while len(out) < n and tries < 60 * n:
        tries += 1
        target = r.randint(2650, 3350)
        men, total = [], 0
        while total < target - 100 and len(men) < 14:
            k = r.choice("qrrbbnnpppppp")
            if total + val[k] > target + 60:
                k = "p"
            men.append(k)
            total += val[k]
        if abs(total - target) > 120:
            continue
        board = {}
        sq = lambda: (r.randrange(8), r.randrange(8))
        wk = sq()
        bk = sq()
        if max(abs(wk[0] - bk[0]), abs(wk[1] - bk[1])) <= 1:
            continue
        board[wk], board[bk] = "K", "k"
        ok = True
        for m in men:
            for _ in range(20):
                s = sq()
                if s in board or (m == "p" and s[0] in (0, 7)):
                    continue
                board[s] = m.upper() if r.random() < 0.5 else m
                break
            else:
                ok = False
        if not ok or sum(1 for v in board.values() if v == "P") > 8 or sum(1 for v in board.values() if v == "p") > 8:
            continue
        rows = []
        for row in range(7, -1, -1):
            s, e = "", 0
            for col in range(8):
                ch = board.get((row, col))
                if ch:
                    s += (str(e) if e else "") + ch
                    e = 0
                else:
                    e += 1
            rows.append(s + (str(e) if e else ""))
        out.append("/".join(rows) + (" w" if r.random() < 0.5 else " b") + " - - 0 1")
    return out


def ep_discovery_family(r, n):
    """(root FEN, double step) pairs: the double step is answerable en passant (an enemy pawn stands beside the arrival
    square) AND uncovers a check by a line piece standing behind the pawn's start square — rank, or one of the two
    diagonals. After the step the position has an en-passant square and the side to move is in check, by a piece that
    is not the pawn: the combination readers, writers and legality shortcuts tend to forget."""
    out = []
    tries = 0
    while len(out) < n and tries < 60 * n:
        tries += 1
        c = r.randrange(8)
        a = c + r.choice([-1, 1])
        if not 0 <= a < 8:
            continue
        board = {(1, c): "P", (3, a): "p"}
        kind = r.choice(["rank", "diag"])
        if kind == "rank":
            xs = [x for x in range(8) if x != c]
            sx = r.choice(xs)
            ky = r.choice([y for y in range(8) if (y - c) * (sx - c) < 0] or [None])
            if ky is None:
                continue
            board[(1, sx)] = r.choice("RQ")
            board[(1, ky)] = "k"
            lo, hi = sorted((sx, ky))
            if any((1, x) in board for x in range(lo + 1, hi) if x != c):
                continue
        else:
            s = r.choice([-1, 1])
            if not 0 <= c - s < 8:
                continue
            board[(0, c - s)] = r.choice("BQ")
            m = r.randint(1, 6)
            kr, kc = 1 + m, c + m * s
            if not (0 <= kr < 8 and 0 <= kc < 8) or (kr, kc) in board:
                continue
            if any((1 + i, c + i * s) in board for i in range(1, m)) or (kr, kc) in ((2, c), (3, c)):
                continue
            board[(kr, kc)] = "k"
        bk = next(p_ for p_, v in board.items() if v == "k")
        spots = [(0, 0), (0, 7), (7, 0), (7, 7), (0, 4), (5, 0), (5, 7)]
        r.shuffle(spots)
        wk = next((s_ for s_ in spots if s_ not in board and s_ not in ((2, c), (3, c)) and max(abs(s_[0] - bk[0]), abs(s_[1] - bk[1])) > 1), None)
        if wk is None:
            continue
        board[wk] = "K"
        white = r.random() < 0.5
        rows = []
        for row in range(7, -1, -1):
            s_, e = "", 0
            for col in range(8):
                ch = board.get((row, col)) if white else board.get((7 - row, col))
                if ch and not white:
                    ch = ch.swapcase()
                if ch:
                    s_ += (str(e) if e else "") + ch
                    e = 0
                else:
                    e += 1
            rows.append(s_ + (str(e) if e else ""))
        mv = "abcdefgh"[c] + ("2" if white else "7") + "abcdefgh"[c] + ("4" if white else "5")
        out.append(("/".join(rows) + (" w" if white else " b") + " - - 0 1", mv))
    return out


def king_en_prise_family(r, n):
    """Positions the search reaches one ply below an unchecked move: the side to move can TAKE THE KING, and there is an
    en-passant square (the unchecked move was a double step beside an enemy pawn), castling rights or both. Every
    unchecked move, the king capture included, is played and taken back."""
    out = []
    tries = 0
    while len(out) < n and tries < 80 * n:
        tries += 1
        board = {}
        f = r.randrange(8)
        a = f + r.choice([-1, 1])
        if not 0 <= a < 8:
            continue
        board[(4, f)] = "p"          # Black has just played f7-f5 ...
        board[(4, a)] = "P"          # ... beside a white pawn: en-passant square on rank 6
        kr, kc = r.randrange(8), r.randrange(8)
        if (kr, kc) in board or (kr, kc) in ((5, f), (6, f)):
            continue
        board[(kr, kc)] = "k"
        att = r.choice("QRBN")
        cand = []
        if att in "QR":
            cand += [(kr, c) for c in range(8) if c != kc] + [(rr, kc) for rr in range(8) if rr != kr]
        if att in "QB":
            cand += [(kr + d * s1, kc + d * s2) for d in range(1, 8) for s1 in (1, -1) for s2 in (1, -1)]
        if att == "N":
            cand += [(kr + x, kc + y) for x, y in ((1, 2), (2, 1), (-1, 2), (-2, 1), (1, -2), (2, -1), (-1, -2), (-2, -1))]
        cand = [s for s in cand if 0 <= s[0] < 8 and 0 <= s[1] < 8 and s not in board and s not in ((5, f), (6, f))]
        if not cand:
            continue
        s = r.choice(cand)
        # the line between attacker and king must be empty
        dr, dc = (kr > s[0]) - (kr < s[0]), (kc > s[1]) - (kc < s[1])
        if att != "N":
            x, y, blocked = s[0] + dr, s[1] + dc, False
            while (x, y) != (kr, kc):
                blocked |= (x, y) in board
                x, y = x + dr, y + dc
            if blocked:
                continue
        board[s] = att
        wk = next((q for q in [(0, 4), (0, 0), (0, 7), (2, 0), (2, 7)] if q not in board and max(abs(q[0] - kr), abs(q[1] - kc)) > 1), None)
        if wk is None:
            continue
        board[wk] = "K"
        white = r.random() < 0.5
        rows = []
        for row in range(7, -1, -1):
            s_, e = "", 0
            for col in range(8):
                ch = board.get((row, col)) if white else board.get((7 - row, col))
                if ch and not white:
                    ch = ch.swapcase()
                if ch:
                    s_ += (str(e) if e else "") + ch
                    e = 0
                else:
                    e += 1
            rows.append(s_ + (str(e) if e else ""))
        out.append("/".join(rows) + (" w - " if white else " b - ") + "abcdefgh"[f] + ("6" if white else "3") + " 0 1")
    return out


def ep_block_family(r, n):
    """Start positions (no history) with an en-passant square where the side to move is in check by a line piece whose
    line runs THROUGH the en-passant target square: capturing en passant blocks the check and is legal. (After a played
    double step such a check cannot arise — the line was open before — but a start position may be given like this.)"""
    out = []
    tries = 0
    while len(out) < n and tries < 80 * n:
        tries += 1
        c = r.randrange(8)
        a = c + r.choice([-1, 1])
        if not 0 <= a < 8:
            continue
        board = {(3, c): "P", (3, a): "p"}          # White has "just played" c2-c4; target square (2, c)
        dr, dc = r.choice([(0, 1), (0, -1), (1, 1), (1, -1), (-1, 1), (-1, -1)])
        k, m = r.randint(1, 5), r.randint(1, 5)
        s = (2 - k * dr, c - k * dc)                # the white line piece
        kg = (2 + m * dr, c + m * dc)               # the black king, on the other side of the target square
        if not all(0 <= x < 8 for x in s + kg) or s in board or kg in board:
            continue
        line = [(2 + i * dr, c + i * dc) for i in range(-k + 1, m) ]
        if any(q in board for q in line) or (1, c) in line:
            pass
        if any(q in board for q in line):
            continue
        board[s] = r.choice(["Q", "R" if dr == 0 else "B"])
        board[kg] = "k"
        if (1, c) in board or (2, c) in board:
            continue
        wk = next((q for q in [(0, 0), (0, 7), (7, 0), (7, 7), (0, 3), (5, 7), (5, 0)] if q not in board and max(abs(q[0] - kg[0]), abs(q[1] - kg[1])) > 1
                   and q not in line and q != (1, c)), None)
        if wk is None:
            continue
        board[wk] = "K"
        white = r.random() < 0.5                    # mirror: the side that double-stepped is Black
        rows = []
        for row in range(7, -1, -1):
            s_, e = "", 0
            for col in range(8):
                ch = board.get((row, col)) if white else board.get((7 - row, col))
                if ch and not white:
                    ch = ch.swapcase()
                if ch:
                    s_ += (str(e) if e else "") + ch
                    e = 0
                else:
                    e += 1
            rows.append(s_ + (str(e) if e else ""))
        out.append("/".join(rows) + (" b - " if white else " w - ") + "abcdefgh"[c] + ("3" if white else "6") + " 0 1")
    return out


def gen_cases(seed, salt, n_cases, plies):
    r = core.rng(seed, salt)
    cases = []
    if salt in ("C01", "C03", "C11"):
        for f in ep_block_family(core.rng(seed, salt + "epblock"), 40 if n_cases < 1000 else 1500):
            cases.append(["new " + f, "obs", "moves c", "obs", "moves u", "obs", "pushbias %d" % r.randrange(1 << 30), "obs", "moves c", "obs"])
    if salt == "C03":
        for f in king_en_prise_family(core.rng(seed, salt + "kingcap"), 40 if n_cases < 1000 else 1500):
            ops = ["new " + f, "obs", "moves u", "obs"]
            for k in range(36):
                ops += ["push u %d" % k, "obs", "undo", "obs"]
            cases.append(ops + ["moves u", "obs"])
    if salt in ("C01", "C02", "C03", "C04", "C11"):
        for f, mv in ep_discovery_family(core.rng(seed, salt + "epdisc"), 40 if n_cases < 1000 else 1500):
            cases.append(["new " + f, "obs", "moves c", "obs", "playh " + mv, "obs", "moves c", "obs", "moves u", "obs",
                          "pushbias %d" % r.randrange(1 << 30), "obs", "moves c", "obs"])
    if salt in ("C16", "C03"):
        for f in threshold_family(core.rng(seed, salt + "threshold"), 120 if n_cases < 1000 else 5000):
            cases.append(gen_walk(r, f, 3))
    if salt in ("C01", "C03"):
        # the pin family: the lists at the root, one nested push/take-back of every kind, the lists again
        for f in pin_family(core.rng(seed, salt + "pins"), 150 if n_cases < 1000 else 6000):
            cases.append(["new " + f, "obs", "moves c", "obs", "moves u", "obs", "push u %d" % r.randrange(1 << 20), "obs",
                          "moves c", "obs", "undo", "obs", "moves c", "obs", "moves u", "obs"])
    mode = "mix" if salt in ("C02", "C11") else "u"
    for i in range(n_cases):
        root = roots.ALL[i % len(roots.ALL)] if i < 2 * len(roots.ALL) else r.choice(roots.ALL)
        cases.append(gen_walk(r, root, r.randint(max(2, plies // 3), plies), nest_mode=mode))
    return cases


PROJ_FIELDS = {  # which '|' fields of obs a property looks at: fen, hash, score, side, wk, bk, len
    "C01": None, "C02": None, "C03": "all", "C04": (1,), "C11": "fen6", "C16": (2,), "C20": None,
}


def project(pid, op, out):
    """Projection of an answer through the abstraction the property's theorem uses."""
    if out is None:
        return None
    name = op.split(" ")[0]
    if name == "obs":
        if not out or "|" not in out[0]:
            return out
        f = out[0].split("|")
        base = core.fen4(f[0])
        how = PROJ_FIELDS.get(pid)
        if how == "all":
            return out
        if how == "fen6":
            return [f[0]]
        if how:
            return [base] + [f[i] for i in how]
        return [base]
    if name in ("moves", "movesraw"):
        if pid in ("C01", "C03"):
            return out
        return None
    if name in ("push", "pushbias", "pushh", "playh"):
        # which move the shared selection rule picks depends on the move lists (C01) and leads to a
        # position (C02); the other properties are compared position by position only
        if pid not in ("C01", "C02", "C03"):
            return None
        return [out[0].split(":")[0]] if out else out
    if name in ("new", "undo"):
        return out
    if name in ("pgn", "show"):
        return out if pid == "C20" else None
    return out


def ucis(moves_line):
    parts = moves_line.split(" ", 1)
    if len(parts) < 2 or not parts[1]:
        return []
    return [d.split(":")[0] for d in parts[1].split(",")]


def run(pid, rep, n_cases, plies):
    cases = gen_cases(rep.seed, pid, n_cases, plies)
    corpus = load_corpus(pid)
    cases = corpus + cases
    # *.implcase files: long cases run on the implementation only (the property is decided on them; the model would
    # spend a minute replaying 400 plies of move generation)
    impl_only = load_corpus(pid, ext="implcase")
    rust, rcrash = core.run_rust(cases + impl_only)
    lean, lcrash = core.run_lean(cases)
    lean = lean + [[None] * len(c) for c in impl_only]
    n_model = len(cases)
    cases = cases + impl_only
    stats = Counter()
    kinds = Counter()
    if rcrash:
        rep.violation("impl-vs-spec", "harness process died", f"exit codes {rcrash}", no_input=True)
    if lcrash:
        rep.violation("model-vs-impl", "model driver died", f"exit codes {lcrash}", no_input=True)

    # ---- correspondence (model vs implementation), through the property's projection
    corr_fail = []
    for ci, case in enumerate(cases[:n_model]):
        for oi, op in enumerate(case):
            ra, la = rust[ci][oi], lean[ci][oi]
            if pid not in ("C02", "C03") and op == "obs" and ra and la and "|" in ra[0] and "|" in la[0] \
                    and core.fen4(ra[0].split("|")[0]) != core.fen4(la[0].split("|")[0]):
                # model and implementation are no longer at the same position: which position a move
                # leads to is C02's abstraction, not this property's — stop comparing this case
                stats["cases_diverged_in_position"] += 1
                break
            a, b = project(pid, op, ra), project(pid, op, la)
            stats["ops_compared"] += 1
            if a != b:
                corr_fail.append((ci, oi, a, b))
                break

    # ---- collect spec queries from the implementation's outputs
    queries = {}  # query line -> answer

    def q(line):
        queries.setdefault(line, None)

    for ci, case in enumerate(cases):
        last_fen = None
        for oi, op in enumerate(case):
            out = rust[ci][oi]
            name = op.split(" ")[0]
            if out is None or not out:
                continue
            if name == "obs" and "|" in out[0]:
                fen = out[0].split("|")[0]
                f4 = core.fen4(fen)
                if pid == "C01":
                    q("spec_legal " + f4); q("spec_pseudo " + f4); q("spec_sane " + f4)
                if pid == "C04":
                    q("spec_zobrist " + f4)
                if pid == "C16":
                    q("spec_psq " + f4)
                if pid == "C11":
                    q("spec_class " + fen); q("spec_render " + f4)
                last_fen = f4
            if name in ("pushbias", "push", "playh", "pushh") and ":" in out[0] and last_fen and pid in ("C02",):
                q("spec_play %s %s" % (out[0].split(":")[0], last_fen))
    qlines = list(queries)
    chunk = 200
    qcases = [qlines[i:i + chunk] for i in range(0, len(qlines), chunk)]
    qres, qcrash = core.run_lean(qcases) if qcases else ([], [])
    for qc, rs in zip(qcases, qres):
        for line, ans in zip(qc, rs):
            queries[line] = ans[0] if ans else None
    stats["spec_queries"] = len(qlines)

    # ---- decide the property on the implementation
    positions = set()
    for ci, case in enumerate(cases):
        fail = analyze_case(pid, case, rust[ci], queries, stats, kinds, positions)
        if fail:
            oi, why = fail
            rep.violation("impl-vs-spec", why.split(";")[0] + " @ " + case[0], why, replay_ops=case[: oi + 1])
    if corr_fail and not rep.violations:
        ci, oi, a, b = corr_fail[0]
        rep.violation("model-vs-impl", f"correspondence:{pid}:walk {cases[ci][oi].split(' ')[0]}",
                      f"first differing op #{oi} `{cases[ci][oi]}` impl={a} model={b} ({len(corr_fail)} cases differ)",
                      replay_ops=cases[ci][: oi + 1], no_input=True)
    if pid == "C11":
        reimport_check(rep, cases, rust, stats)
    if pid == "C01":
        check_perft(rep, stats)
    if pid == "C04":
        check_reference_hashes(rep, stats)
        check_frozen_keys(rep, stats, rust_obs=[o[0] for outs in rust for o in outs if o and "|" in o[0] and o[0].count("|") >= 5])
    stats["cases"] = len(cases)
    stats["corpus_cases"] = len(corpus)
    stats["distinct_positions"] = len(positions)
    stats["correspondence_failures"] = len(corr_fail)
    return stats, kinds, cases


def reimport_check(rep, cases, rust, stats):
    """C11: importing the exported text yields a game with the same position text, hash and legal moves"""
    seen = {}
    for case, outs in zip(cases, rust):
        nest = []          # True for a legal (checked) push, False for an unchecked one
        for oi, op in enumerate(case):
            o = outs[oi]
            if op.startswith("push ") and o and o[0] not in ("none", "nogame"):
                nest.append(op.startswith("push c"))
            elif op == "undo" and o and o[0] == "ok" and nest:
                nest.pop()
            if not all(nest):
                continue       # the quantifier is over positions after LEGAL move sequences
            if op == "obs" and o and "|" in o[0] and oi + 1 < len(case) and case[oi + 1] == "moves c" and outs[oi + 1]:
                f = o[0].split("|")
                # only positions of the game line (nested search positions may be unreachable by legal play)
                seen.setdefault(f[0], (f[1], outs[oi + 1][0]))
    fens = list(seen)[:4000]
    rc = [["new " + f, "obs", "moves c"] for f in fens]
    out, _ = core.run_rust(rc)
    for f, o in zip(fens, out):
        stats["reimports_checked"] += 1
        h, ml = seen[f]
        if o[0] != ["ok"]:
            # the reader refuses positions that are not backed by the board / impossible material; a position
            # reached by legal play from a sane root is never one of those
            # (ofFen_wf / reach_material / RightsInv / EpInv: every game reached from an accepted text by generated moves
            # has one king a side at the game line, legal material, rights and en-passant square backed by the board)
            stats["reimports_refused"] += 1
            rep.violation("impl-vs-spec", f"the engine refuses the FEN it exported itself @ {f}", f"{o[0]}", replay_ops=["new " + f, "obs", "moves c"])
            continue
        g = o[1][0].split("|") if o[1] and "|" in o[1][0] else None
        if g is None or core.fen4(g[0]) != core.fen4(f) or g[1] != h or (o[2] and o[2][0] != ml):
            rep.violation("impl-vs-spec", f"re-import of the exported FEN gives a different game @ {f}",
                          f"exported hash {h} moves {ml[:60]}; re-imported {o[1]} {str(o[2])[:80]}", replay_ops=["new " + f, "obs", "moves c"])


def load_corpus(pid, ext="case"):
    import glob, os
    out = []
    for p in sorted(glob.glob(os.path.join(core.VERIF, "corpus", pid, "*." + ext))) + sorted(glob.glob(os.path.join(core.VERIF, "corpus", "shared", "*." + ext))):
        ops = [l.rstrip("\n") for l in open(p, encoding="utf-8") if l.strip() and not l.startswith("#")]
        if ops:
            out.append(ops)
    return out


def analyze_case(pid, case, outs, queries, stats, kinds, positions):
    """Returns (op index, reason) of the first property failure on the implementation, or None."""
    last_obs = None
    stack = []           # obs before each successful nested push
    pending = None       # 'push' | 'undo' | 'query' | 'hist'
    lists = {}           # 'c'/'u' -> last moves line at nesting level 0
    eg = None            # spec-tracked phase (C16)
    prev_f4 = None
    last_move = None
    for oi, op in enumerate(case):
        out = outs[oi]
        name = op.split(" ")[0]
        if out is None:
            return oi, "no answer (process died)"
        if out and any(l.startswith("fault:") for l in out):
            return oi, "engine panicked: " + next(l for l in out if l.startswith("fault:"))
        if name == "new":
            last_obs, stack, pending, lists, eg, prev_f4 = None, [], "new", {}, None, None
            if out != ["ok"]:
                return None  # refused root: nothing to check in this family
        elif name in ("push", "pushbias", "pushh", "playh"):
            if out and ":" in out[0]:
                d = out[0].split(":")
                kinds["move:" + d[1] + ("x" if d[3] != "-" else "")] += 1
                last_move = d[0]
                if name == "push":
                    stack.append(last_obs)
                    pending = "push" if op.split(" ")[1] == "c" and len(stack) == 1 else "pushu"
                else:
                    stack, pending, lists = [], "hist", ({"low": lists["low"]} if "low" in lists else {})
            else:
                pending = "query"
        elif name == "undo":
            pending = "undo" if out == ["ok"] else "query"
        elif name == "moves":
            which = op.split(" ")[1][0]
            stats["move_lists"] += 1
            if pid == "C03" and not stack:
                if which in lists and lists[which] != out[0]:
                    return oi, f"move list ({which}) changed across take-back/queries;was {lists[which][:80]} now {out[0][:80]}"
                lists[which] = out[0]
            if pid == "C01" and last_obs:
                f4 = core.fen4(last_obs.split("|")[0])
                if which == "c":
                    lists["c@" + f4] = out[0]
                r = check_moves(f4, which, out[0], lists, queries, stats, level0=not stack)
                if r:
                    return oi, r
            pending = "query"
        elif name == "obs":
            if not out or "|" not in out[0]:
                continue
            o = out[0]
            f = o.split("|")
            f4 = core.fen4(f[0])
            positions.add(f4)
            stats["observations"] += 1
            if pid == "C03":
                if pending == "query" and last_obs is not None and o != last_obs:
                    return oi, f"a query changed the game;before {last_obs} after {o}"
                if pending == "undo":
                    exp = stack.pop() if stack else None
                    if exp is not None and o != exp:
                        return oi, f"take-back did not restore the game;before {exp} after {o}"
                    stats["takebacks_checked"] += 1
            elif pending == "undo" and stack:
                stack.pop()
            if pid == "C04":
                z = queries.get("spec_zobrist " + f4)
                stats["hashes_checked"] += 1
                if z != f[1]:
                    return oi, f"hash is not the key-file sum of the position;fen {f4} engine {f[1]} spec {z}"
            if pid == "C16":
                a = queries.get("spec_psq " + f4)
                if a and a != "unparsable":
                    mid, end, lowm, lowe = a.split(" ")[:4]
                    if pending == "new":
                        eg = lowm == "1"
                    exp = end if eg else mid
                    stats["scores_checked"] += 1
                    if eg:
                        stats["scores_checked_endgame"] += 1
                    if f[2] != exp:
                        return oi, f"score is not the piece-square sum;fen {f4} phase {'end' if eg else 'middle'} engine {f[2]} spec {exp}"
                    # remember the low-material test of this position for the next push_history
                    lists["low"] = (lowm, lowe)
            if pid in ("C02",) and pending in ("push", "hist") and prev_f4 and last_move:
                sp = queries.get("spec_play %s %s" % (last_move, prev_f4))
                stats["successors_checked"] += 1
                if sp != f4:
                    return oi, f"successor differs from the rules;from {prev_f4} move {last_move} engine {f4} spec {sp}"
            if pid == "C11":
                cls = queries.get("spec_class " + f[0])
                ren = queries.get("spec_render " + f4)
                stats["fens_checked"] += 1
                if len(f[0].split(" ")) != 6 or cls is None or not cls.startswith("strict"):
                    return oi, f"exported FEN is not a well-formed six-field FEN;{f[0]} class {cls}"
                if ren != f4:
                    return oi, f"exported FEN does not re-render from the grammar;{f4} vs {ren}"
            last_obs = o
            prev_f4 = f4
            pending = "query"
        # C16: phase update happens inside push_history, before the move is played
        if pid == "C16" and name in ("pushbias", "pushh", "playh") and out and ":" in out[0] and eg is not None:
            low = lists.get("low")
            if low and not eg and low[0] == "1":
                eg = True
                stats["phase_switches"] += 1
    return None


def check_moves(f4, which, line, lists, queries, stats, level0):
    sane = queries.get("spec_sane " + f4)
    if sane != "sane":
        stats["insane_positions_skipped"] += 1
        return None
    legal = queries.get("spec_legal " + f4)
    pseudo = queries.get("spec_pseudo " + f4)
    if legal is None or pseudo is None:
        return None
    L = legal.split(" ", 1)[1].split(",") if legal.split(" ", 1)[1:] and legal.split(" ", 1)[1] else []
    P = set(pseudo.split(" ", 1)[1].split(",")) if pseudo.split(" ", 1)[1:] and pseudo.split(" ", 1)[1] else set()
    got = ucis(line)
    if which == "c":
        stats["checked_lists_vs_rules"] += 1
        if sorted(got) != sorted(L):
            missing = sorted(set(L) - set(got)); extra = sorted(set(got) - set(L))
            dup = len(got) != len(set(got))
            return f"checked move list is not the set of legal moves;fen {f4} missing {missing} extra {extra} repeated {dup}"
    else:
        stats["unchecked_lists_vs_rules"] += 1
        if len(got) != len(set(got)):
            return f"unchecked list repeats a move;fen {f4}"
        if not set(L) <= set(got):
            return f"unchecked list misses legal moves;fen {f4} missing {sorted(set(L) - set(got))}"
        bad = [m for m in got if m not in P]
        if bad:
            return f"unchecked list contains a move that is not a valid piece move;fen {f4} moves {bad}"
        stats["unchecked_extra_moves_classified"] += len(set(got) - set(L))
    return None


# ----------------------------------------------------------------------------------------- C05

def expand_rows(placement):
    rows = []
    for row in placement.split("/"):
        r = []
        for ch in row:
            r += [None] * int(ch) if ch.isdigit() else [ch]
        rows.append(r)
    return rows


def compress_rows(rows):
    out = []
    for r in rows:
        s, n = "", 0
        for x in r:
            if x is None:
                n += 1
            else:
                s += (str(n) if n else "") + x
                n = 0
        out.append(s + (str(n) if n else ""))
    return "/".join(out)


def single_feature_variants(r, fen, k):
    f = fen.split()
    out = []
    out.append(" ".join([f[0], "b" if f[1] == "w" else "w", f[2], "-"] + f[4:]))            # side (ep dropped: it is tied to the side)
    rights = set(f[2]) - {"-"}
    for c in "KQkq":
        nr = rights ^ {c}
        out.append(" ".join([f[0], f[1], "".join(x for x in "KQkq" if x in nr) or "-", f[3]] + f[4:]))
    for file in "abcdefgh":
        ep = file + ("6" if f[1] == "w" else "3")
        if ep != f[3]:
            out.append(" ".join([f[0], f[1], f[2], ep] + f[4:]))
    if f[3] != "-":
        out.append(" ".join([f[0], f[1], f[2], "-"] + f[4:]))
    rows = expand_rows(f[0])
    for _ in range(k):
        ri, ci = r.randrange(8), r.randrange(8)
        cur = rows[ri][ci]
        if cur in ("K", "k"):
            continue
        choices = [None] + list("QRBNqrbn") + (list("Pp") if 0 < ri < 7 else [])
        new = r.choice([c for c in choices if c != cur])
        rows2 = [list(x) for x in rows]
        rows2[ri][ci] = new
        out.append(" ".join([compress_rows(rows2)] + f[1:]))
    return out


def check_c05(rep, tier):
    n, plies = (120, 30) if tier == "quick" else (6000, 80)
    cases = gen_cases(rep.seed, "C05", n, plies)
    rust, _ = core.run_rust(cases)
    stats = Counter()
    seen = {}      # hash -> fen4
    fens = []
    for case, outs in zip(cases, rust):
        for op, out in zip(case, outs):
            if op == "obs" and out and "|" in out[0]:
                f = out[0].split("|")
                f4 = core.fen4(f[0])
                stats["positions_hashed"] += 1
                if f[1] in seen and seen[f[1]] != f4:
                    rep.violation("impl-vs-spec", f"two different positions share the hash {f[1]}", f"{seen[f[1]]}  and  {f4}",
                                  replay_ops=["new " + seen[f[1]] + " 0 1", "obs", "new " + f4 + " 0 1", "obs"])
                seen.setdefault(f[1], f4)
                fens.append(f[0])
    stats["distinct_positions"] = len(set(seen.values()))
    r = core.rng(rep.seed, "C05v")
    base = list(dict.fromkeys(fens))
    r.shuffle(base)
    base = base[: (60 if tier == "quick" else 3000)]
    vcases, meta = [], []
    for f in base:
        for v in single_feature_variants(r, f, 6):
            vcases.append(["new " + f, "obs", "new " + v, "obs"])
            meta.append((f, v))
    vr, _ = core.run_rust(vcases)
    vl, _ = core.run_lean(vcases)
    first = None
    for (f, v), o, ol, case in zip(meta, vr, vl, vcases):
        stats["ops_compared"] += 4
        if o != ol and first is None:
            first = (case, o, ol)
        if o[2] != ["ok"] or not o[3] or "|" not in o[3][0] or not o[1]:
            stats["variants_refused_by_reader"] += 1
            continue
        h0, h1 = o[1][0].split("|")[1], o[3][0].split("|")[1]
        stats["single_feature_variants"] += 1
        if h0 == h1:
            rep.violation("impl-vs-spec", f"changing one feature left the hash unchanged: {core.fen4(f)} -> {core.fen4(v)}", h0, replay_ops=case)
        if h1 in seen and seen[h1] != core.fen4(o[3][0].split("|")[0]):
            rep.violation("impl-vs-spec", f"two different positions share the hash {h1}", f"{seen[h1]} and {v}", replay_ops=case)
    # two pieces of different kinds exchange squares (also a king and another piece, both colours): a different position, so
    # a different hash — unless two (piece, square) pairs draw the same key
    kinds12 = "KQRBNPkqrbnp"
    sq_pairs = [((3, 2), (4, 5)), ((2, 6), (5, 1)), ((1, 3), (6, 4)), ((3, 0), (4, 7))]
    if tier == "thorough":
        sq_pairs += [((r.randrange(1, 7), r.randrange(8)), (r.randrange(1, 7), r.randrange(8))) for _ in range(40)]
        sq_pairs = [p for p in sq_pairs if p[0] != p[1]]
    sw_cases, sw_meta = [], []
    for a in range(12):
        for b in range(a + 1, 12):
            for s1, s2 in sq_pairs:
                fens2 = []
                for x, y in ((s1, s2), (s2, s1)):
                    rows = [[None] * 8 for _ in range(8)]
                    rows[7 - x[0]][x[1]] = kinds12[a]
                    rows[7 - y[0]][y[1]] = kinds12[b]
                    # the kings the position still needs, out of the way on the edge ranks
                    free = [(rr, cc) for rr in (0, 7) for cc in (0, 7)]
                    if "K" not in (kinds12[a], kinds12[b]):
                        rows[7][0] = "K"
                    if "k" not in (kinds12[a], kinds12[b]):
                        rows[0][7] = "k"
                    fens2.append(compress_rows(rows) + " w - - 0 1")
                sw_cases.append(["new " + fens2[0], "obs", "new " + fens2[1], "obs"])
                sw_meta.append(fens2)
    sr, _ = core.run_rust(sw_cases)
    for fens2, o, case in zip(sw_meta, sr, sw_cases):
        if o[0] != ["ok"] or o[2] != ["ok"] or not o[1] or not o[3]:
            stats["swap_pairs_refused_by_reader"] += 1
            continue
        stats["swap_pairs"] += 1
        if o[1][0].split("|")[1] == o[3][0].split("|")[1]:
            rep.violation("impl-vs-spec", f"two pieces exchanging squares leave the hash unchanged: {core.fen4(fens2[0])} / {core.fen4(fens2[1])}",
                          o[1][0].split("|")[1], replay_ops=case)
    if first and not rep.violations:
        rep.violation("model-vs-impl", "correspondence:C05:variants", f"impl {first[1]} model {first[2]}", replay_ops=first[0], no_input=True)
    return stats, cases


def check_perft(rep, stats):
    """C01 corollary on the real binary: `rustybait perft <d> <fen>` (performance_test.rs + main.rs) against the rules'
    count of legal lines (Spec.perft) and, line by line, against the model (perft_counts_are_the_rules')."""
    import subprocess
    try:
        core.cargo_engine()
    except core.Broken as b:
        rep.violation("build", f"build:{b.name}", b.detail[-800:], no_input=True)
        return
    from . import searchchk
    sane = searchchk.spec_queries(["spec_sane " + core.fen4(f) for f in roots.ALL])
    rs = [f for f in roots.ALL if sane.get("spec_sane " + core.fen4(f)) == "sane"]
    jobs = [(f, 2) for f in rs[:: (5 if rep.tier == "quick" else 1)]] + [(roots.START, 3)]
    if rep.tier == "thorough":
        jobs += [(f, 3) for f in rs[::2]] + [(roots.START, 4), (roots.PERFT[1], 3)]
    spec = searchchk.spec_queries(["spec_perft %d %s" % (d, core.fen4(f)) for f, d in jobs], chunk=1, timeout=900)
    model, _ = core.run_lean([["new " + f, "perft %d" % d] for f, d in jobs], timeout=900)
    for (f, d), m in zip(jobs, model):
        try:
            p = subprocess.run([core.ENGINE, "perft", str(d), f], capture_output=True, text=True, errors="replace", timeout=600)
        except subprocess.TimeoutExpired:
            rep.violation("impl-vs-spec", f"perft {d} did not finish @ {f}", "", replay_ops=[f"rustybait perft {d} '{f}'"], no_input=True)
            continue
        lines = [l for l in p.stdout.split("\n") if l.strip()]
        stats["perft_runs"] += 1
        want = spec.get("spec_perft %d %s" % (d, core.fen4(f)))
        if p.returncode != 0 or not lines or not lines[-1].strip().isdigit():
            rep.violation("impl-vs-spec", f"perft {d} failed @ {f}", (p.stdout + p.stderr)[-400:], replay_ops=[f"rustybait perft {d} '{f}'"])
            continue
        total = lines[-1].strip()
        stats["perft_nodes"] += int(total)
        if want is not None and want.isdigit() and total != want:
            rep.violation("impl-vs-spec", f"perft {d} counts {total} lines, the rules count {want} @ {f}", "\n".join(lines[-12:]),
                          replay_ops=[f"rustybait perft {d} '{f}'"])
        if m and m[1] and not rep.violations:
            ml = [x for x in m[1] if not x.startswith("sum ")]
            if ml != lines[:-1]:
                rep.violation("model-vs-impl", f"correspondence:C01:perft {d} @ {f}", f"engine {lines[:6]} model {ml[:6]}", replay_ops=["new " + f, "perft %d" % d], no_input=True)


def check_reference_hashes(rep, stats):
    """C04, 'never varies between versions': positions with their hashes as recorded from the published key file at the
    published offsets (corpus/C04_reference.txt). The model regenerates its keys from the source, so a change of the key
    LAYOUT moves model and implementation together; this table does not move."""
    import os
    ref = []
    for line in open(os.path.join(core.VERIF, "corpus", "C04_reference.txt"), encoding="utf-8"):
        if line.strip() and not line.startswith("#"):
            f, h = [x.strip() for x in line.split("|")]
            ref.append((f, h))
    out, _ = core.run_rust([["new " + f + " 0 1", "obs"] for f, _ in ref])
    for (f, h), o in zip(ref, out):
        stats["reference_hashes_checked"] += 1
        if o[0] != ["ok"] or not o[1] or "|" not in o[1][0]:
            rep.violation("impl-vs-spec", f"a recorded position is no longer imported @ {f}", f"{o[0]}", replay_ops=["new " + f + " 0 1", "obs"])
            continue
        got = o[1][0].split("|")[1]
        if got != h:
            rep.violation("impl-vs-spec", f"the hash of a position changed between versions: {got}, recorded {h} @ {f}", "",
                          replay_ops=["new " + f + " 0 1", "obs"])


# ----------------------------------------------------------------------------- the frozen key set (C04)

def frozen_keys():
    import os
    ks = [int(l, 16) for l in open(os.path.join(core.VERIF, "corpus", "C04_keys.txt"), encoding="utf-8") if l.strip() and not l.startswith("#")]
    assert len(ks) == 1026
    return ks


PIECE_KIND = {c: i for i, c in enumerate("QRBNPKqrbnpk")}


def frozen_hash(fen, ks):
    """The Zobrist sum of a position (4 FEN fields) over the FROZEN keys, by the published rule: one key per square
    (the piece's, or EMPTY_PLACE), BLACK_TO_MOVE when Black is to move, STATE[en-passant nibble | rights << 4]."""
    parts = fen.split()
    h = 0
    rows = parts[0].split("/")
    for ri, row in enumerate(rows):
        col = 0
        for ch in row:
            if ch.isdigit():
                for _ in range(int(ch)):
                    h ^= ks[1]
                    col += 1
            else:
                sq = (7 - ri) * 8 + col
                h ^= ks[258 + sq * 12 + PIECE_KIND[ch]]
                col += 1
    if parts[1] == "b":
        h ^= ks[0]
    rights = sum(b for c, b in (("K", 1), ("Q", 2), ("k", 4), ("q", 8)) if c in parts[2])
    ep = 8 if parts[3] == "-" else "abcdefgh".index(parts[3][0])
    h ^= ks[2 + (ep | rights << 4)]
    return h


def key_witness(i):
    """A position (FEN) whose hash uses key number i of the frozen list, or None when no importable position does."""
    if i == 0:
        return "4k3/8/8/8/8/8/8/4K3 b - - 0 1"
    if i == 1:
        return "4k3/8/8/8/8/8/8/4K3 w - - 0 1"
    if i < 258:
        b = i - 2
        ep, rights = b & 15, b >> 4
        if ep > 8:
            return None
        board = {(0, 4): "K", (7, 4): "k"}
        if rights & 1: board[(0, 7)] = "R"
        if rights & 2: board[(0, 0)] = "R"
        if rights & 4: board[(7, 7)] = "r"
        if rights & 8: board[(7, 0)] = "r"
        epf = "-"
        if ep < 8:
            board[(4, ep)] = "p"
            board[(4, ep + 1 if ep < 7 else ep - 1)] = "P"
            epf = "abcdefgh"[ep] + "6"
        rs = "".join(c for c, bit in (("K", 1), ("Q", 2), ("k", 4), ("q", 8)) if rights & bit) or "-"
    else:
        sq, kind = divmod(i - 258, 12)
        r_, c_ = divmod(sq, 8)
        ch = "QRBNPKqrbnpk"[kind]
        if ch in "Pp" and r_ in (0, 7):
            return None
        board = {(r_, c_): ch}
        spots = [(0, 4), (7, 4), (0, 0), (7, 7), (3, 0), (4, 7), (0, 7), (7, 0)]
        for k in "Kk":
            if k == ch:
                continue
            other = next((p_ for p_, v in board.items() if v in "Kk"), None)
            s = next(s for s in spots if s not in board and (other is None or max(abs(s[0] - other[0]), abs(s[1] - other[1])) > 1))
            board[s] = k
        rs, epf = "-", "-"
    rows = []
    for row in range(7, -1, -1):
        s, e = "", 0
        for col in range(8):
            x = board.get((row, col))
            if x:
                s += (str(e) if e else "") + x
                e = 0
            else:
                e += 1
        rows.append(s + (str(e) if e else ""))
    return "/".join(rows) + " w " + rs + " " + epf + " 0 1"


def check_frozen_keys(rep, stats, rust_obs=()):
    """C04 'never varies between versions', completely: (1) every hash the implementation reported in this run is
    recomputed from the FROZEN key list (corpus/C04_keys.txt) by the published rule; (2) the key set the compiler
    evaluates now (the probe) is compared with the frozen one key by key, and for each key that differs a position
    using it is imported and hashed — that position is the failing input."""
    import json, os, subprocess
    ks = frozen_keys()
    n = 0
    for line in rust_obs:
        f = line.split("|")
        try:
            want = frozen_hash(f[0], ks)
        except Exception:
            continue
        n += 1
        if "%016X" % want != f[1] and n < 10 ** 9:
            rep.violation("impl-vs-spec", f"the hash of a position is not the sum of the published keys: {f[1]}, published keys give {want:016X} @ {core.fen4(f[0])}",
                          "", replay_ops=["new " + f[0], "obs"])
            break
    stats["hashes_recomputed_from_frozen_keys"] = n
    try:
        P = json.loads(subprocess.run([os.path.join(core.BUILD, "probe", "release", "chessprobe")], capture_output=True, text=True, timeout=60).stdout)
        now = [P["BLACK_TO_MOVE"], P["EMPTY_PLACE"]] + P["STATE"] + P["PIECE"]
    except Exception:
        return
    diff = [i for i in range(min(len(now), 1026)) if now[i] != ks[i]]
    stats["keys_compared_with_frozen"] = 1026
    stats["keys_differing_from_frozen"] = len(diff)
    if not diff and len(now) == 1026:
        return
    wit = [(i, key_witness(i)) for i in diff[:400]]
    wit = [(i, w) for i, w in wit if w][:8]
    out, _ = core.run_rust([["new " + w, "obs"] for _, w in wit])
    found = False
    for (i, w), o in zip(wit, out):
        if o[0] == ["ok"] and o[1] and "|" in o[1][0]:
            got = o[1][0].split("|")[1]
            want = "%016X" % frozen_hash(w, ks)
            if got != want:
                found = True
                rep.violation("impl-vs-spec", f"published key #{i} changed: the hash of a position using it is {got}, the published keys give {want} @ {core.fen4(w)}",
                              "", replay_ops=["new " + w, "obs"])
    if not found:
        rep.violation("extract", f"frozen-keys: {len(diff)} of the 1026 keys differ from the published set (first: #{diff[0] if diff else '?'})",
                      "no importable position uses the changed keys", no_input=True)
