"""Checks that drive the real binary: C13 (time budget), C14 (session protocol), C19 (reproducibility)."""
import os
import subprocess
import re
import time
from collections import Counter

from . import core, roots, searchchk
from .engine import Engine

BLACK_FEN = "rnbqkbnr/pppppppp/8/8/4P3/8/PPPP1PPP/RNBQKBNR b KQkq - 0 1"
U64 = 2 ** 64 - 1


def share_of(w):
    """(w as f64 * 0.02) as u64, in Python's IEEE doubles"""
    v = float(w) * 0.02
    if v >= 18446744073709551616.0:
        return U64
    return int(v)


def parse_u64(tok):
    if tok is None:
        return None
    if tok.isdigit() or (tok.startswith("+") and tok[1:].isdigit()):
        v = int(tok)
        return v if v <= U64 else None
    return None


# ----------------------------------------------------------------------------------------- C13

def read_go(words):
    """The oracle's reading of the words after `go` (UCI: keyword value pairs, later ones override,
    a keyword takes the next word as its value whatever it is, unknown words are skipped)."""
    t = {}
    i = 0
    while i < len(words):
        w = words[i]
        if w in ("wtime", "btime", "winc", "binc", "movetime", "depth"):
            t[w] = words[i + 1] if i + 1 < len(words) else None
            i += 2
        else:
            if w == "infinite":
                t["infinite"] = "1"
            i += 1
    return {k: v for k, v in t.items() if v is not None or k == "infinite"} | {k: "" for k, v in t.items() if v is None}


RAW_GO = [
    "wtime 100 wtime 90000 btime 90000 winc 0 binc 0", "wtime 90000 btime 90000 winc 0 binc 0 wtime", "wtime 90000 btime 90000 winc 0 binc 0 wtime x",
    "wtime +90000 btime +90000 winc +0 binc +0", "wtime 090000 btime 0090000 winc 00 binc 0", "wtime 90000 btime 90000 winc 0 binc 0 movetime",
    "movetime 50 movetime", "movetime 50 movetime 70", "movetime 50 infinite", "infinite movetime 50", "movetime infinite", "wtime infinite btime 5",
    "wtime 1000 btime 1000 winc 100 binc 100 depth 300", "depth 1 wtime 90000 btime 90000 winc 0 binc 0", "wtime 9e4 btime 90000 winc 0 binc 0",
    "wtime 90000 btime 90000 winc 0 binc -0", "wtime 90000 btime 90000 winc 0 binc 0x10", "wtime 90_000 btime 90000 winc 0 binc 0",
    "wtime 18446744073709551615 btime 18446744073709551615 winc 18446744073709551615 binc 18446744073709551615",
    "wtime 18446744073709551616 btime 1 winc 1 binc 1", "searchmoves e2e4 wtime 90000 btime 90000 winc 0 binc 0", "ponder wtime 90000 btime 90000 winc 0 binc 0 movestogo 40",
    "wtime  90000\tbtime 90000 winc 0 binc 0", "movetime +", "movetime", "wtime 5 btime", "",
]

def float_inputs(r, nrand):
    """u64 values that exercise the u64->f64 rounding (ties, carries, odd low bits) and the product rounding"""
    s = set(range(0, 120)) | {49, 50, 51, 7499, 7500, 7501, U64, U64 - 1, 18014398509481985, U64 - 1024, U64 - 1025}
    for k in range(0, 65):
        for d in (-2, -1, 0, 1, 2, 7, 49, 50):
            s.add(2 ** k + d)
    for k in range(53, 64):
        ulp = 2 ** (k - 52)
        for _ in range(12):
            base = r.randrange(2 ** k, 2 ** (k + 1)) // ulp * ulp
            for d in (-1, 0, 1):
                s.add(base + ulp // 2 + d)
                s.add(base + d)
            s.add(base | 1)
    for _ in range(nrand):
        s.add(r.getrandbits(64))
        s.add(r.getrandbits(r.randrange(1, 65)))
        s.add(r.getrandbits(r.randrange(53, 65)) | 1)
        m = 50 * r.getrandbits(r.randrange(1, 59))
        s.update((m - 1, m, m + 1, m + 49))
    return sorted(w for w in s if 0 <= w <= U64)


def check_share_model(rep, r, tier, stats):
    """The exact binary64 model of the share (Chess/Model/Share.lean) against real doubles (Python floats are IEEE
    binary64 with round-to-nearest-even): a disagreement is an error of the MODEL, reported as a broken tie."""
    ws = float_inputs(r, 1500 if tier == "quick" else 60000)
    res, _ = core.run_lean([["share %d" % w for w in ws[i:i + 2000]] for i in range(0, len(ws), 2000)])
    got = [x[0] if x else None for chunk in res for x in chunk]
    bad = [(w, g) for w, g in zip(ws, got) if g != str(share_of(w))]
    stats["float_model_points"] = len(ws)
    stats["float_model_points_not_w_div_50"] = sum(1 for w in ws if share_of(w) != w // 50)
    for w, g in bad[:3]:
        rep.violation("model-vs-impl", f"correspondence:C13:float share model at w={w}", f"model {g} double arithmetic {share_of(w)}", no_input=True)


def c13_tuples(r, tier):
    brk = [0, 1, 4, 5, 6, 149, 150, 151, 154, 155, 156, 1000, 7499, 7500, 7501, 7749, 7750, 7751, 60000, 10 ** 7,
           2 ** 32, 2 ** 53 - 1, 2 ** 53, 2 ** 53 + 1, 2 ** 63, U64 - 1, U64]
    out = []
    for w in brk:
        for inc in (0, 1, 149, 150, 151, 5000, U64):
            out.append({"wtime": str(w), "btime": str(brk[(brk.index(w) + 3) % len(brk)]), "winc": str(inc), "binc": str(inc)})
    n = 500 if tier == "quick" else 20000
    for _ in range(n):
        def val():
            k = r.random()
            if k < 0.3:
                return r.choice(brk) + r.choice([-1, 0, 1]) if r.random() < 0.5 else r.choice(brk)
            if k < 0.6:
                return r.randrange(0, 20000)
            if k < 0.9:
                return r.randrange(0, 2 ** r.randrange(1, 64))
            return r.randrange(0, U64 + 1)
        t = {"wtime": str(max(0, val())), "btime": str(max(0, val())), "winc": str(max(0, val()) if r.random() < 0.5 else r.randrange(0, 3000)),
             "binc": str(max(0, val()) if r.random() < 0.5 else r.randrange(0, 3000))}
        k = r.random()
        if k < 0.12:
            t["movetime"] = str(max(0, val()))
        if k > 0.94:
            t.pop(r.choice(["wtime", "btime", "winc", "binc"]))          # a GUI that omits a field
        if 0.90 < k <= 0.94:
            t[r.choice(["wtime", "btime", "winc", "binc"])] = r.choice(["-5", "abc", "18446744073709551616", "1e3"])
        if r.random() < 0.05:
            t["infinite"] = "1"
        out.append(t)
    out += [{"raw": x} for x in RAW_GO for _ in (0, 1)]          # each for both sides
    # the float expression seen through the engine: with an increment of 155 ms the allotment IS the share (capped by clock-155)
    for w in r.sample(float_inputs(r, 300), 160 if tier == "quick" else 3000):
        out.append({"wtime": str(w), "btime": str(w), "winc": "155", "binc": "155"})
    for mt in (0, 1, 4, 5, 6, 100, U64):
        out.append({"movetime": str(mt)})
        out.append({"movetime": str(mt), "wtime": "1000", "btime": "1000", "winc": "0", "binc": "0"})
    return out


def check_c13(rep, tier):
    r = core.rng(rep.seed, "C13")
    tuples = c13_tuples(r, tier)
    stats, kinds = Counter(), Counter()
    e = Engine()
    results = []
    try:
        if e.sync(20) is None:
            rep.violation("impl-vs-spec", "engine does not answer isready", "", no_input=True)
            return stats, kinds, []
        for i, t in enumerate(tuples):
            side = "w" if i % 2 == 0 else "b"
            e.send("position startpos" if side == "w" else "position fen " + BLACK_FEN)
            if "raw" in t:
                cmd = ("go " + t["raw"]).rstrip() if t["raw"] else "go"
                t = read_go(t["raw"].split())
            else:
                words = ["go"]
                for k in ("wtime", "btime", "winc", "binc", "movetime"):
                    if k in t:
                        words += [k, t[k]]
                if t.get("infinite"):
                    words.append("infinite")
                cmd = " ".join(words)
            e.send(cmd)
            e.send("stop")
            lines = e.sync(12)
            if lines is None:
                rep.violation("impl-vs-spec", f"engine stopped answering after `{cmd}`", "\n".join(e.log[-12:]), replay_ops=e.log[-8:])
                e.kill()
                e = Engine()
                e.sync(20)
                results.append((t, side, cmd, None, None))
                stats["go_commands_unanswered"] += 1
                if stats["go_commands_unanswered"] >= 4:
                    break          # the failing inputs are recorded; do not spend half a minute on each of the remaining commands
                continue
            times = [l.split()[2] for l in lines if l.startswith("info time ")]
            best = [l for l in lines if l.startswith("bestmove")]
            results.append((t, side, cmd, times, best))
    finally:
        rc, err = e.close()
    if rc != 0 or (err or "").strip():
        rep.violation("impl-vs-spec", "engine exited abnormally", f"rc={rc} stderr={(err or '')[:500]}", no_input=True)
    # model
    mcase = []
    for t, side, cmd, times, best in results:
        # the model parses the words itself (Chess/Model/Go.lean) and evaluates the float expression itself (Chess/Model/Share.lean)
        mcase.append("gocmd %s %s" % (side, cmd[3:]))
    mres, _ = core.run_lean([mcase[i:i + 500] for i in range(0, len(mcase), 500)])
    model = [x[0].split(" limit")[0] if x else None for chunk in mres for x in chunk]
    shares_seen = []
    for (t, side, cmd, times, best), m in zip(results, model):
        if times is None:
            continue
        stats["go_commands"] += 1
        own = parse_u64(t.get("wtime" if side == "w" else "btime"))
        got = ("time " + times[0]) if times else "notimer"
        kinds["timer" if times else "no_timer"] += 1
        if len(times) > 1 or len(best) != 1:
            rep.violation("impl-vs-spec", f"`{cmd}`: {len(times)} info time lines, {len(best)} bestmove lines", "", replay_ops=[cmd])
            continue
        complete = all(parse_u64(t.get(k)) is not None for k in ("wtime", "btime", "winc", "binc"))
        mt = parse_u64(t.get("movetime"))
        if not times and (complete or mt is not None) and not t.get("infinite"):
            # decided on the implementation: a clock or a move time was given and nothing will stop the search
            rep.violation("impl-vs-spec", f"`{cmd}` ({side} to move) starts no timer: the thinking time is unbounded", "",
                          replay_ops=[cmd])
        if times:
            T = int(times[0])
            if mt is not None:
                if T > mt:
                    rep.violation("impl-vs-spec", f"allotted {T} ms exceeds movetime {mt}: `{cmd}`", "", replay_ops=[cmd])
            elif complete:
                if T > own:
                    rep.violation("impl-vs-spec", f"allotted {T} ms exceeds the mover's clock {own} ms: `{cmd}` ({side} to move)", "", replay_ops=[cmd])
                if own < 7500 and parse_u64(t.get("winc" if side == "w" else "binc")) == 0 and T != 0:
                    rep.violation("impl-vs-spec", f"low clock {own} ms without increment allots {T} ms: `{cmd}`", "", replay_ops=[cmd])
                if own is not None:
                    shares_seen.append((own, share_of(own)))
            if T >= 2 ** 63:
                kinds["huge_allotment"] += 1
        if m != got:
            rep.violation("model-vs-impl", f"correspondence:C13:budget `{cmd}`", f"engine `{got}` model `{m}`", replay_ops=[cmd], no_input=True)
    check_share_model(rep, r, tier, stats)
    # ShareOK on the values met (the hypothesis of the monotonicity theorem), with Python's double arithmetic —
    # which the engine's `info time` agreed with above on every complete clock
    shares_seen.sort()
    for (a, sa), (b, sb) in zip(shares_seen, shares_seen[1:]):
        if sa > sb or sa > a:
            rep.violation("impl-vs-spec", f"share function not monotone/bounded at {a},{b}", f"{sa} {sb}", no_input=True)
    stats["share_points_checked"] = len(shares_seen)
    # announcement latency (partial: wall-clock), generous bound
    e = Engine()
    try:
        e.sync(20)
        timed = [("go movetime %d" % mt, mt, "movetime_%d" % mt) for mt in (0, 30, 120, 300)]
        timed += [("go wtime 3000 btime 3000 winc 0 binc 0", 3000, "clock_3000_inc_0"),
                  ("go wtime 100 btime 100 winc 40 binc 40", 100, "clock_100_inc_40")]
        for cmd, avail, key in timed:
            e.send("position startpos")
            t0 = time.time()
            e.send(cmd)
            lines, ok, eof = e.read_until(lambda l: l.startswith("bestmove"), 10)
            dt = (time.time() - t0) * 1000
            stats["latency_ms_" + key] = int(dt)
            if not ok:
                rep.violation("impl-vs-spec", f"no bestmove within 10 s for `{cmd}`", "", replay_ops=["position startpos", cmd])
                e.send("stop")
            elif dt > avail + 1500:
                rep.violation("impl-vs-spec", f"bestmove announced {int(dt)} ms after `{cmd}`", "", replay_ops=["position startpos", cmd])
            e.sync(10)
        # the budget of a search must not depend on what earlier searches left unused: a timed search that ends early
        # (one legal move / depth limit / stop) followed by a short timed one
        early = [(["position fen 1r5k/8/8/8/8/8/8/K7 w - - 0 1", "go movetime 2500"], "only_move"),
                 (["position startpos", "go depth 1 movetime 2500"], "depth_limit"),
                 (["position startpos", "go movetime 2500", "stop"], "stopped")]
        for pre, key in early:
            for c in pre:
                e.send(c)
            lines, ok, eof = e.read_until(lambda l: l.startswith("bestmove"), 10)
            e.sync(10)
            e.send("position startpos")
            t0 = time.time()
            e.send("go movetime 150")
            lines, ok, eof = e.read_until(lambda l: l.startswith("bestmove"), 10)
            dt = (time.time() - t0) * 1000
            stats["latency_ms_after_" + key] = int(dt)
            replay = pre + ["position startpos", "go movetime 150"]
            if not ok:
                rep.violation("impl-vs-spec", "no bestmove within 10 s for `go movetime 150` after an earlier timed search that ended early", "", replay_ops=replay)
                e.send("stop")
            elif dt > 150 + 1500:
                rep.violation("impl-vs-spec", f"bestmove announced {int(dt)} ms after `go movetime 150` (an earlier timed search had ended early: {key})", "", replay_ops=replay)
            e.sync(10)
        check_overshoot(rep, e, stats)
    finally:
        e.close()
    check_combined_limits(rep, "C13", stats)
    return stats, kinds, [r[2] for r in results[:8]]


def check_overshoot(rep, e, stats):
    """Wall-clock side of C13, with a tolerance that survives a loaded machine: for each move time the FASTEST of up
    to 16 announcements must arrive within the move time plus 25 ms. A timer that wakes late by design (coarse sleep
    slices, rounding the allotment up, a fixed extra delay) is late every time; scheduling noise is not."""
    slack = 25
    for mt in (60, 110, 160, 210):
        best = None
        for attempt in range(16):
            if attempt == 8:
                time.sleep(0.5)
            e.send("position startpos")
            if e.sync(10) is None:
                return
            t0 = time.time()
            e.send("go movetime %d" % mt)
            lines, ok, eof = e.read_until(lambda l: l.startswith("bestmove"), 10)
            dt = (time.time() - t0) * 1000
            e.sync(10)
            if not ok:
                rep.violation("impl-vs-spec", f"no bestmove within 10 s for `go movetime {mt}`", "", replay_ops=["position startpos", "go movetime %d" % mt])
                return
            best = dt if best is None else min(best, dt)
            stats["overshoot_tries"] += 1
            if best <= mt + slack:
                break
        stats["fastest_ms_movetime_%d" % mt] = int(best)
        if best > mt + slack:
            rep.violation("impl-vs-spec", f"`go movetime {mt}`: the fastest of 16 announcements came {int(best)} ms after the command "
                          f"(more than {slack} ms beyond the time available)", "", replay_ops=["position startpos", "go movetime %d" % mt])


# ----------------------------------------------------------------------------------------- C14

def run_session(script, env=None, final_timeout=15.0):
    env = dict(env or {})
    allow_none = bool(env.pop("allow_none", 0))      # a session over positions that have no legal move
    """script: list of (cmd, delay_ms_before, wait) where wait in (None, 'sync', 'bestmove').
    Returns dict(transcript, per-command answers, rc, err, problems)."""
    e = Engine(env=env)
    problems = []
    accepted, refused, best = 0, 0, 0
    answers = []
    alive = True
    quit_now = False
    try:
        for cmd, delay, wait in script:
            if delay:
                time.sleep(delay / 1000.0)
            if cmd == "quit":
                quit_now = True      # sent by e.close() below, WITHOUT a stop before it: the process must still exit
                break
            if not e.send(cmd):
                problems.append(f"engine gone before `{cmd}`")
                alive = False
                break
            if wait == "bestmove":
                lines, ok, eof = e.read_until(lambda l: l.startswith("bestmove"), final_timeout)
                got = [l for _, l in lines]
                if not ok:
                    problems.append(f"no bestmove within {final_timeout} s after `{cmd}`")
            else:
                t0 = time.time()
                if cmd.strip() == "isready":
                    # the command is its own barrier (a second isready would desynchronise the answers)
                    rl, ok, eof = e.read_until(lambda l: l == "readyok", 10.0)
                    lines = [l for _, l in rl[:-1]] if ok else None
                else:
                    lines = e.sync(10.0)
                dt = time.time() - t0
                if lines is None:
                    problems.append(f"isready not answered within 10 s after `{cmd}`")
                    alive = False
                    break
                got = lines
                if dt > 2.0:
                    # slow once is what a loaded machine does; an engine that makes `isready` wait is slow again
                    t1 = time.time()
                    again = e.sync(10.0)
                    dt2 = time.time() - t1
                    if again is None or dt > 4.0 or dt2 > 1.0:
                        problems.append(f"isready took {dt:.1f} s after `{cmd}` (and {dt2:.1f} s when asked again)")
                    elif again:
                        got = got + again
                if wait == "quiet" and any(l.startswith("bestmove") for l in got):
                    problems.append("bestmove announced although no stop was sent, no time budget applies and the depth limit is out of reach")
            answers.append((cmd, got))
            best += sum(1 for l in got if l.startswith("bestmove"))
            if cmd.split()[0] == "go":
                if any(l.startswith("error:") for l in got):
                    refused += 1
                else:
                    accepted += 1
        if alive and not quit_now:
            # drain: stop any running search and collect remaining bestmoves
            e.send("stop")
            lines = e.sync(final_timeout)
            if lines is None:
                problems.append("engine wedged at the end of the session (stop + isready unanswered)")
            else:
                best += sum(1 for l in lines if l.startswith("bestmove"))
                answers.append(("stop(final)", lines))
    finally:
        rc, err = e.close()
    if rc != 0:
        problems.append(f"exit status {rc} on quit")
    if (err or "").strip():
        problems.append("stderr: " + err.strip()[:300])
    if best != accepted and not quit_now:
        problems.append(f"{accepted} go commands accepted but {best} bestmove lines")
    if quit_now and best > accepted:
        problems.append(f"{accepted} go commands accepted but {best} bestmove lines")
    for cmd, got in answers:
        for l in got:
            if l.startswith("bestmove none") and not allow_none:
                problems.append(f"bestmove none after `{cmd}`")
    for l in e.log:
        # an answer of one thread inside a line of another (`info pv readyok`)
        if l.startswith("< ") and re.search(r"\S.*\b(readyok|bestmove|info depth|info score|info nodes|info time|info pv)\b", l[2:]) \
                and not l[2:].startswith(("id ", "option ")):
            problems.append(f"output lines interleaved: `{l[2:][:80]}`")
            break
    return {"answers": answers, "rc": rc, "err": err, "problems": problems, "accepted": accepted, "refused": refused,
            "bestmoves": best, "log": e.log}


ADVERSARIAL = [
    ("timer fires before the search thread exists", {"RUSTYBAIT_VERIF_BEFORE_FLAG_RAISE_MS": 120},
     [("position startpos", 0, None), ("go movetime 6", 0, "bestmove"), ("position startpos", 0, None), ("go depth 1", 0, "bestmove")]),
    ("commands sent right after bestmove", {"RUSTYBAIT_VERIF_AFTER_BESTMOVE_PRINT_MS": 300},
     [("position startpos", 0, None), ("go depth 2", 0, "bestmove"), ("position startpos moves e2e4", 0, None), ("go depth 2", 0, "bestmove")]),
    ("stop arrives at thread start", {"RUSTYBAIT_VERIF_SEARCH_THREAD_START_MS": 150},
     [("position startpos", 0, None), ("go infinite", 0, None), ("stop", 0, None), ("position startpos", 0, None), ("go depth 1", 0, "bestmove")]),
    ("search thread starts late, after its timer expired and the next go was accepted", {"RUSTYBAIT_VERIF_SEARCH_THREAD_START_MS": 300},
     [("position startpos", 0, None), ("go movetime 1", 0, None), ("position startpos", 30, None), ("go depth 1", 0, None),
      ("isready", 900, None), ("position startpos", 0, None), ("go depth 1", 0, "bestmove")]),
    ("search thread starts late, next position is invalid", {"RUSTYBAIT_VERIF_SEARCH_THREAD_START_MS": 300},
     [("position startpos", 0, None), ("go movetime 1", 0, None), ("position fen 8/8/8/8/8/8/8/8 w - -", 30, None),
      ("isready", 700, None), ("position startpos", 0, None), ("go depth 1", 0, "bestmove")]),
    ("isready answered while the principal variation is being written", {"RUSTYBAIT_VERIF_PV_WALK_MS": 40},
     [("position startpos", 0, None), ("go depth 3", 0, None), ("isready", 20, None), ("isready", 25, None), ("isready", 45, None),
      ("isready", 30, None), ("isready", 35, None), ("isready", 50, None), ("wait", 0, None), ("position startpos", 0, None),
      ("go depth 1", 0, "bestmove")]),
    ("timer of a stopped search must not end a later search", {},
     [("position startpos", 0, None), ("go movetime 400", 0, None), ("stop", 50, None), ("position startpos moves e2e4 e7e5", 0, None),
      ("go infinite", 0, None), ("isready", 700, "quiet"), ("stop", 0, None), ("position startpos", 0, None),
      ("go wtime 20000 btime 20000 winc 0 binc 0", 0, None), ("stop", 30, None), ("position startpos moves d2d4", 0, None),
      ("go depth 30", 0, None), ("isready", 600, "quiet"), ("stop", 0, None)]),
    ("go in positions without a legal move: one bestmove each all the same (`bestmove none`)", {"allow_none": 1},
     [("position fen 7k/5Q2/6K1/8/8/8/8/8 b - - 0 1", 0, None), ("go depth 3", 0, "bestmove"),
      ("position fen R5k1/5ppp/8/8/8/8/8/4K3 b - - 0 1", 0, None), ("go movetime 100", 0, "bestmove"),
      ("position fen 7k/5Q2/6K1/8/8/8/8/8 b - - 0 1", 0, None), ("go infinite", 0, None), ("stop", 100, None),
      ("position startpos moves f2f3 e7e5 g2g4 d8h4", 0, None), ("go depth 2", 0, "bestmove"),
      ("position startpos", 0, None), ("go depth 2", 0, "bestmove")]),
    ("timer wake-up stretched", {"RUSTYBAIT_VERIF_TIMER_WAKEUP_MS": 200},
     [("position startpos", 0, None), ("go movetime 20", 0, "bestmove"), ("position startpos", 0, None), ("go movetime 20", 0, "bestmove")]),
    ("ucinewgame and isready while searching", {},
     [("position startpos", 0, None), ("go infinite", 0, None), ("isready", 30, None), ("ucinewgame", 20, None),
      ("position startpos", 0, None), ("go depth 2", 0, "bestmove")]),
    ("second go while searching, show while searching", {},
     [("position startpos", 0, None), ("go infinite", 0, None), ("go depth 1", 10, None), ("show", 0, None), ("position startpos", 0, None),
      ("stop", 30, None), ("show", 0, None)]),
    ("go without position, wait, malformed input", {},
     [("go depth 1", 0, None), ("wait", 0, None), ("position fen 9/8/8/8/8/8/8/8 w - -", 0, None), ("position fen K6k9 w - -", 0, None),
      ("position startpos moves e2e5", 0, None), ("go depth 1", 0, None), ("position startpos", 0, None), ("go depth 1", 0, None), ("wait", 0, None)]),
    ("low clock", {},
     [("position startpos", 0, None), ("go wtime 1000 btime 1000 winc 0 binc 0", 0, "bestmove"), ("position startpos", 0, None),
      ("go wtime 7000 btime 7000 winc 0 binc 0", 0, "bestmove")]),
    ("quit while searching", {}, [("position startpos", 0, None), ("go infinite", 0, None), ("quit", 50, None)]),
    ("quit during a second, unbounded search", {},
     [("position startpos", 0, None), ("go depth 1", 0, "bestmove"), ("position startpos moves e2e4", 0, None), ("go", 0, None), ("quit", 80, None)]),
    ("quit at once after go infinite", {"RUSTYBAIT_VERIF_SEARCH_THREAD_START_MS": 100},
     [("position startpos", 0, None), ("go infinite", 0, None), ("quit", 0, None)]),
    ("uci, d, unknown words", {}, [("uci", 0, None), ("foo bar", 0, None), ("d", 0, None), ("position startpos", 0, None), ("d", 0, None)]),
]


def random_session(r, n):
    cmds = []
    for _ in range(n):
        k = r.random()
        if k < 0.22:
            cmds.append(("position startpos" + ("" if r.random() < 0.5 else " moves e2e4 e7e5"), r.choice([0, 0, 5, 30]), None))
        elif k < 0.55:
            go = r.choice(["go depth 1", "go depth 2", "go depth 3", "go movetime 5", "go movetime 40", "go infinite",
                           "go wtime 8000 btime 8000 winc 100 binc 100", "go wtime 100 btime 100 winc 0 binc 0", "go movetime 0"])
            cmds.append((go, r.choice([0, 0, 5, 30]), None))
        elif k < 0.7:
            cmds.append(("stop", r.choice([0, 0, 3, 20, 60]), None))
        elif k < 0.78:
            cmds.append(("isready", 0, None))
        elif k < 0.84:
            cmds.append(("ucinewgame", r.choice([0, 10]), None))
        elif k < 0.9:
            cmds.append(("wait", 0, None) if r.random() < 0.3 else ("show", 0, None))
        else:
            cmds.append((r.choice(["uci", "position fen 8/8/8/8/8/8/8/8 w - -", "position fen rnbqkbnr/pppppppp/8/8/8/8/PPPPPPPP/RNBQKBNR w KQkq - 0 1",
                                   "go depth 1 infinite", "position", "go"]), 0, None))
    # `wait` on an infinite search would block forever by design: make sure a stop precedes it
    fixed = []
    infinite_running = False
    for c in cmds:
        if c[0].startswith("go") and ("infinite" in c[0] or c[0] == "go"):
            infinite_running = True
        if c[0] in ("stop", "ucinewgame"):
            infinite_running = False
        if c[0] == "wait" and infinite_running:
            continue
        if c[0] == "go" or c[0] == "go depth 1 infinite":
            infinite_running = True
        fixed.append(c)
    return fixed


def check_c14(rep, tier):
    r = core.rng(rep.seed, "C14")
    stats, kinds = Counter(), Counter()
    sessions = [(name, env, script) for name, env, script in ADVERSARIAL]
    nrand = 12 if tier == "quick" else 900
    for i in range(nrand):
        env = {}
        if r.random() < 0.5:
            env[r.choice(["RUSTYBAIT_VERIF_BEFORE_FLAG_RAISE_MS", "RUSTYBAIT_VERIF_SEARCH_THREAD_START_MS",
                          "RUSTYBAIT_VERIF_AFTER_BESTMOVE_PRINT_MS", "RUSTYBAIT_VERIF_TIMER_WAKEUP_MS"])] = r.choice([5, 30, 90])
        sessions.append(("random-%d" % i, env, random_session(r, r.randint(6, 16))))
    samples = []
    import concurrent.futures as cf
    with cf.ThreadPoolExecutor(max_workers=6) as ex:
        results = list(ex.map(lambda s: run_session(s[2], env=s[1]), sessions))
    for (name, env, script), res in zip(sessions, results):
        stats["sessions"] += 1
        stats["go_accepted"] += res["accepted"]
        stats["go_refused"] += res["refused"]
        stats["bestmoves"] += res["bestmoves"]
        kinds["adversarial" if not name.startswith("random") else "random"] += 1
        for p in res["problems"]:
            rep.violation("impl-vs-spec", f"session `{name}`: {p}", "\n".join(res["log"][-40:]),
                          replay_ops=[f"env {env}"] + [f"{c} (+{d} ms, wait={w})" for c, d, w in script])
        if len(samples) < 2:
            samples.append({"name": name, "env": env, "log": res["log"][:30]})
    check_deep_tiny(rep, "C14", stats)
    return stats, kinds, samples


# ----------------------------------------------------------------------------------------- C19

def transcript_of(lines):
    return [l for l in lines if l.startswith("info depth") or l.startswith("info score") or l.startswith("info nodes")
            or l.startswith("info pv") or l.startswith("bestmove")]


def engine_search(fen, depth, env=None, prelude=()):
    e = Engine(env=env)
    try:
        for c in prelude:
            if c.startswith("sleep "):
                time.sleep(int(c.split()[1]) / 1000.0)
            else:
                e.send(c)
        if prelude and e.sync(120) is None:      # drain everything the unrelated searches printed
            return None
        e.send("position fen " + fen)
        e.send("go depth %d" % depth)
        lines, ok, eof = e.read_until(lambda l: l.startswith("bestmove"), 120)
        return transcript_of([l for _, l in lines]) if ok else None
    finally:
        e.close()


def check_c19(rep, tier):
    r = core.rng(rep.seed, "C19")
    stats, kinds = Counter(), Counter()
    fens = [roots.START, roots.PERFT[1], roots.PERFT[2], "8/8/4k3/8/8/3K4/4P3/8 w - - 0 1", "r3k2r/8/8/8/8/8/8/R3K2R w KQkq - 0 1",
            roots.PERFT[5], "6k1/5ppp/8/8/8/8/8/R3K3 w Q - 0 1"]
    if tier == "thorough":
        fens += roots.ALL[7:]
    depths = [2, 3, 4] if tier == "quick" else [2, 3, 4, 5]
    jobs = [(f, r.choice(depths)) for f in fens] + [(fens[0], 4), (fens[1], 3)]
    # the model is the witness function
    mcases = [["new " + f, "ttnew", "search %d -1 0" % d] for f, d in jobs]
    mres, _ = core.run_lean(mcases)
    unrelated = ["position startpos", "go depth 3", "wait", "position fen " + roots.PERFT[1], "go depth 2", "wait", "ucinewgame"]
    load = [subprocess.Popen(["sh", "-c", "while :; do :; done"]) for _ in range(core.NPROC)]
    try:
        loaded = [engine_search(f, d) for f, d in jobs[:4]]
    finally:
        for p in load:
            p.kill()
    import concurrent.futures as cf
    with cf.ThreadPoolExecutor(max_workers=8) as ex:
        fresh = list(ex.map(lambda j: engine_search(*j), jobs))
        again = list(ex.map(lambda j: engine_search(*j), jobs))
        after_reset = list(ex.map(lambda j: engine_search(j[0], j[1], prelude=unrelated), jobs))
        delayed = list(ex.map(lambda j: engine_search(j[0], j[1], env={"RUSTYBAIT_VERIF_SEARCH_THREAD_START_MS": 40,
                                                                          "RUSTYBAIT_VERIF_BEFORE_FLAG_RAISE_MS": 15}), jobs))
    for i, ((f, d), m) in enumerate(zip(jobs, mres)):
        model_t = []
        for l in m[2] or []:
            if l.startswith("info"):
                model_t.append(l)
            elif l.startswith("bestmove="):
                model_t.append("bestmove " + l.split()[0].split("=")[1])
        runs = {"fresh": fresh[i], "repeat": again[i], "after-ucinewgame": after_reset[i], "delayed-threads": delayed[i]}
        if i < len(loaded):
            runs["under-load"] = loaded[i]
        for name, t in runs.items():
            stats["runs"] += 1
            kinds[name] += 1
            if t is None:
                rep.violation("impl-vs-spec", f"no bestmove for go depth {d} ({name}) @ {f}", "", replay_ops=[f"position fen {f}", f"go depth {d}"])
            elif t != runs["fresh"]:
                rep.violation("impl-vs-spec", f"fixed-depth search not reproducible ({name} vs fresh), depth {d} @ {f}",
                              f"{name}: {t}\nfresh: {runs['fresh']}", replay_ops=[f"position fen {f}", f"go depth {d}"])
        if fresh[i] is not None and fresh[i] != model_t and not rep.violations:
            rep.violation("model-vs-impl", f"correspondence:C19:transcript depth {d} @ {f}", f"engine {fresh[i]}\nmodel {model_t}",
                          replay_ops=[f"position fen {f}", f"go depth {d}"], no_input=True)
    # games with a history (the engine's own last moves repeat: A B A B): the root looks at the move record, and whatever it
    # keeps about it must not depend on anything that differs between two processes (hash-map iteration order, addresses)
    HIST = ["position fen 8/1q5k/8/8/8/8/8/K5N1 w - - 0 1 moves g1f3 h7h8 f3g1 h8h7 g1f3 h7h8 f3g1 b7f3",
            "position startpos moves g1f3 g8f6 f3g1 f6g8 g1f3 g8f6 f3g1 f6g8 b1c3 b8c6 c3b1 c6b8 b1c3 b8c6 c3b1",
            "position fen 4k3/8/8/8/8/8/4P3/R3K2R w KQ - 0 1 moves a1b1 e8d8 b1a1 d8e8 a1b1 e8d8 b1a1 d8e8 h1g1 e8d8 g1h1 d8e8 h1g1 e8d8 g1h1 d8e8"]

    def hist_search(cmd, depth, reset):
        e = Engine()
        try:
            if reset:
                for c in ("position startpos", "go depth 2", "wait", "ucinewgame"):
                    e.send(c)
                if e.sync(60) is None:
                    return None
            e.send(cmd)
            e.send("go depth %d" % depth)
            lines, ok, eof = e.read_until(lambda l: l.startswith("bestmove"), 60)
            return transcript_of([l for _, l in lines]) if ok else None
        finally:
            e.close()

    with cf.ThreadPoolExecutor(max_workers=8) as ex:
        for cmd in HIST:
            for d in (3, 4):
                runs_h = list(ex.map(lambda k: hist_search(cmd, d, k % 2 == 1), range(10 if tier == "quick" else 40)))
                stats["runs"] += len(runs_h)
                kinds["history_runs"] += len(runs_h)
                bad = next((x for x in runs_h if x != runs_h[0]), "same")
                if bad != "same":
                    rep.violation("impl-vs-spec", f"fixed-depth search after a game with repeated moves is not reproducible across fresh processes, depth {d}",
                                  f"{runs_h[0]}\nvs\n{bad}", replay_ops=[cmd, "go depth %d" % d])
    # deeper searches, implementation only (the model is too slow there): quiet positions with many near-equal moves,
    # where anything that survives the reset (table, history counters, killers, a sleeping timer) changes the answer
    E2E4 = "rnbqkbnr/pppp1ppp/8/4p3/4P3/8/PPPP1PPP/RNBQKBNR w KQkq - 0 2"
    deep = [(roots.START, 6), (roots.START, 7), (E2E4, 6), (E2E4, 7), (roots.PERFT[1], 5), (roots.START, 8), (roots.START, 9), (roots.PERFT[1], 6)]
    if tier == "thorough":
        deep += [(f, 6) for f in roots.ALL[:12]]
    heavy = ["position startpos", "go depth 9", "wait", "position startpos moves e2e4 e7e5", "go depth 7", "wait",
             "position startpos", "go movetime 250", "stop", "ucinewgame"]
    with cf.ThreadPoolExecutor(max_workers=8) as ex:
        dfresh = list(ex.map(lambda j: engine_search(*j), deep))
        dreset = list(ex.map(lambda j: engine_search(j[0], j[1], prelude=heavy), deep))
    # the reset arrives WHILE a search is running (no stop before it), on the same and on another position
    for f, d in ((E2E4, 5), (roots.START, 5), (roots.PERFT[1], 4)):
        for other in (f, roots.START):
            pre = ["position fen " + other, "go infinite", "sleep 400", "ucinewgame"]
            a = engine_search(f, d)
            b = engine_search(f, d, prelude=pre)
            stats["runs"] += 2
            kinds["reset-while-searching"] += 1
            if a is None or b is None or a != b:
                rep.violation("impl-vs-spec", f"fixed-depth search not reproducible after `ucinewgame` sent while a search was running, depth {d} @ {f}",
                              f"after reset: {b[-4:] if b else b}\nfresh: {a[-4:] if a else a}", replay_ops=pre + [f"position fen {f}", f"go depth {d}"])
    # many resets in a row (a reset implemented by a wrapping generation counter comes back to old entries)
    counts = (256, 65536) if tier == "quick" else (255, 256, 257, 512, 1024, 65536)
    for n in counts:
        for f, d_first, d_then in ((roots.PERFT[1], 5, 3), (roots.START, 6, 4)):
            pre = ["position fen " + f, "go depth %d" % d_first, "wait"] + ["ucinewgame"] * n
            a = engine_search(f, d_then)
            b = engine_search(f, d_then, prelude=pre)
            stats["runs"] += 2
            kinds["after-%d-resets" % n] += 1
            if a is None or b is None or a != b:
                rep.violation("impl-vs-spec", f"fixed-depth search not reproducible after a search and {n} x ucinewgame, depth {d_then} @ {f}",
                              f"after resets: {b[-4:] if b else b}\nfresh: {a[-4:] if a else a}",
                              replay_ops=pre[:4] + [f"… {n} x ucinewgame", f"position fen {f}", f"go depth {d_then}"])
    for (f, d), a, b in zip(deep, dfresh, dreset):
        stats["runs"] += 2
        kinds["deep-fresh"] += 1
        kinds["deep-after-ucinewgame"] += 1
        if a is None or b is None:
            rep.violation("impl-vs-spec", f"no bestmove for go depth {d} (deep) @ {f}", "", replay_ops=heavy + [f"position fen {f}", f"go depth {d}"])
        elif a != b:
            rep.violation("impl-vs-spec", f"fixed-depth search not reproducible (after searches + ucinewgame vs fresh), depth {d} @ {f}",
                          f"after reset: {b[-4:]}\nfresh: {a[-4:]}", replay_ops=heavy + [f"position fen {f}", f"go depth {d}"])
    stats["jobs"] = len(jobs)
    return stats, kinds, [f"position fen {f} ; go depth {d}" for f, d in jobs[:5]]


# ----------------------------------------------------------------------------------------- combined limits (C08, C13)

COMBINED = [  # (command, depth limit, time available in ms)
    ("go depth 2 movetime 1500", 2, 1500), ("go movetime 1500 depth 2", 2, 1500),
    ("go depth 3 wtime 200000 btime 200000 winc 1000 binc 1000", 3, 4845),
    ("go depth 30 movetime 300", 30, 300), ("go movetime 300 depth 30", 30, 300),
    ("go wtime 3000 btime 3000 winc 0 binc 0 depth 20", 20, 0), ("go depth 20 wtime 20000 btime 20000 winc 0 binc 0", 20, 245),
]


def check_combined_limits(rep, pid, stats):
    """A `go` that carries BOTH a depth limit and a time limit: neither may switch the other off.
    C08 judges the depths reported, C13 the time until `bestmove`."""
    e = Engine()
    try:
        if e.sync(20) is None:
            return
        for cmd, dlim, avail in COMBINED:
            for pos in ("position startpos", "position fen " + BLACK_FEN):
                e.send(pos)
                t0 = time.time()
                e.send(cmd)
                lines, ok, eof = e.read_until(lambda l: l.startswith("bestmove"), 12)
                dt = (time.time() - t0) * 1000
                stats["combined_limit_runs"] += 1
                depths = [int(l.split()[2]) for _, l in lines if l.startswith("info depth ")]
                replay = [pos, cmd]
                if not ok:
                    e.send("stop")
                    e.sync(10)
                if pid == "C08":
                    if depths and max(depths) > dlim:
                        rep.violation("impl-vs-spec", f"`{cmd}` searched to depth {max(depths)}: the depth limit {dlim} was dropped", "", replay_ops=replay)
                else:
                    if not ok:
                        rep.violation("impl-vs-spec", f"no bestmove within 12 s for `{cmd}` ({avail} ms available)", "", replay_ops=replay)
                    elif dt > avail + 1500:
                        rep.violation("impl-vs-spec", f"bestmove announced {int(dt)} ms after `{cmd}` ({avail} ms available)", "", replay_ops=replay)
                e.sync(10)
    finally:
        e.close()


# ----------------------------------------------------------------------------------------- deepest iterations on the binary (C08, C14)

DEEP_TINY = ["8/8/8/p1k5/P7/8/1K6/8 w - - 0 1",                       # a few checks available on the way down
             "4k3/8/8/p1p1p1p1/PpPpPpPp/1P1P1P1P/8/4K3 w - - 0 1",     # fully blocked
             "8/6k1/8/6p1/6P1/8/6K1/8 b - - 0 1"]


def check_deep_tiny(rep, pid, stats):
    """Positions so small that iterative deepening reaches the engine's deepest iteration within a fraction of a second,
    searched on the REAL binary (its own search thread, stack and tables): an unlimited `go`, the limit itself, one below
    and far above. The search must end by itself with a bestmove, report no depth beyond the limit (nor beyond the
    engine's cap), and the session must stay alive and exit cleanly."""
    cap = 32
    for fen in DEEP_TINY:
        for cmd, lim in (("go", cap), ("go depth 31", 31), ("go depth 32", 32), ("go depth 200", cap), ("go infinite", cap)):
            e = Engine()
            try:
                if e.sync(20) is None:
                    return
                pos = "position fen " + fen
                e.send(pos)
                e.send(cmd)
                lines, ok, eof = e.read_until(lambda l: l.startswith("bestmove"), 25)
                stats["deep_tiny_runs"] += 1
                depths = [int(l.split()[2]) for _, l in lines if l.startswith("info depth ") and l.split()[2].isdigit()]
                replay = [pos, cmd]
                alive = e.sync(10) is not None
            finally:
                rc, err = e.close()
            if not ok:
                rep.violation("impl-vs-spec", f"`{cmd}` on a tiny position did not end by itself with a bestmove (deepest iteration "
                              f"{max(depths) if depths else 0}; engine {'gone' if eof or not alive else 'alive'})",
                              (err or "")[-600:], replay_ops=replay)
            elif not alive or rc != 0 or (err or "").strip():
                rep.violation("impl-vs-spec", f"the engine did not survive `{cmd}` on a tiny position (rc={rc})", (err or "")[-600:], replay_ops=replay)
            elif depths and max(depths) > lim:
                rep.violation("impl-vs-spec", f"`{cmd}` searched to depth {max(depths)}, beyond {lim}", "", replay_ops=replay)
            elif pid == "C08" and (not depths or max(depths) != lim):
                rep.violation("impl-vs-spec", f"`{cmd}` on a drawn tiny position stopped at depth {max(depths) if depths else 0} instead of {lim}", "", replay_ops=replay)


# ----------------------------------------------------------------------------------------- stop before the first iteration, on the binary (C07)

def check_immediate_stop(rep, stats):
    """`go` answered by `stop` BEFORE the search thread has done anything (its start is stretched through the schedule
    point, so the flag is down at the first poll), and `go movetime 1`: whatever the engine announces must be a legal
    move of the position on the board, judged by the Lean rules — `none` only when there is no legal move. Runs on the
    real binary and needs neither the in-process harness nor the model."""
    from . import searchchk, roots
    fens = [roots.START, BLACK_FEN, "k7/2P5/1K6/8/8/8/8/8 w - - 0 1", "7k/5Q2/5K2/8/8/8/8/8 w - - 0 1",
            "r3k2r/p1ppqpb1/bn2pnp1/3PN3/1p2P3/2N2Q1p/PPPBBPPP/R3K2R w KQkq - 0 1"] + [f for f in roots.ALL[3:40:4]]
    got = []
    for i, fen in enumerate(fens):
        for cmd, env in (("go infinite", {"RUSTYBAIT_VERIF_SEARCH_THREAD_START_MS": 40}), ("go movetime 1", {}), ("go infinite", {})):
            e = Engine(env=env)
            try:
                if e.sync(20) is None:
                    continue
                e.send("position fen " + fen)
                e.send(cmd)
                if cmd == "go infinite":
                    e.send("stop")
                lines, ok, eof = e.read_until(lambda l: l.startswith("bestmove"), 8)
                stats["immediate_stops"] += 1
                replay = ["env %s" % env, "position fen " + fen, cmd] + (["stop"] if cmd == "go infinite" else [])
                if not ok:
                    rep.violation("impl-vs-spec", f"`{cmd}` stopped at once: no bestmove within 8 s @ {core.fen4(fen)}", "", replay_ops=replay)
                    continue
                got.append((core.fen4(fen), (lines[-1][1].split() + ["none"])[1], replay))
            finally:
                e.close()
    # capture-heavy positions: whatever the engine does before its first iteration (ranking a fallback move, say) must
    # look at the stop flag too — the answer to an immediate stop comes at once (the fastest of three tries within 1.2 s)
    for fen in ("1QqQqQq1/r6Q/Q6q/q6Q/B2q4/q6Q/k6K/1q4R1 w - - 0 1", "1qQqQqQ1/R6q/q6Q/Q6q/b2Q4/Q6q/K6k/1Q4r1 b - - 0 1"):
        best = None
        for _ in range(3):
            e = Engine(env={"RUSTYBAIT_VERIF_SEARCH_THREAD_START_MS": 40})
            try:
                if e.sync(20) is None:
                    break
                e.send("position fen " + fen)
                ack = e.sync(10)
                if ack is None or any(l.startswith("error") for l in ack):
                    break                      # the reader refuses the position: nothing to measure
                t0 = time.time()
                e.send("go infinite")
                e.send("stop")
                lines, ok, eof = e.read_until(lambda l: l.startswith("bestmove"), 30)
                dt = time.time() - t0
                stats["immediate_stops"] += 1
                best = dt if best is None else min(best, dt)
                if ok:
                    got.append((core.fen4(fen), (lines[-1][1].split() + ["none"])[1], ["position fen " + fen, "go infinite", "stop"]))
                if dt < 1.2:
                    break
            finally:
                e.close()
        if best is not None and best >= 1.2:
            rep.violation("impl-vs-spec", f"`stop` right after `go infinite` answered only after {best:.1f} s (fastest of three tries) @ {core.fen4(fen)}",
                          "", replay_ops=["position fen " + fen, "go infinite", "stop"])
    q = []
    for f4, bm, _ in got:
        q.append("spec_status " + f4)
        if bm != "none":
            q.append("spec_line %s %s" % (bm, f4))
    ans = searchchk.spec_queries(q)
    for f4, bm, replay in got:
        st = ans.get("spec_status " + f4)
        nlegal = int(st.split()[0]) if st and st.split()[0].isdigit() else -1
        if bm == "none":
            if nlegal > 0:
                rep.violation("impl-vs-spec", f"stopped before the first iteration: `bestmove none` although {nlegal} legal moves exist @ {f4}", "", replay_ops=replay)
        elif ans.get("spec_line %s %s" % (bm, f4)) != "ok":
            rep.violation("impl-vs-spec", f"stopped before the first iteration: announced move {bm} is not legal @ {f4}", "", replay_ops=replay)


# ----------------------------------------------------------------------------------------- stop promptness on the binary (C07)

def check_stop_promptness(rep, stats):
    """`stop` during every kind of search is answered with a legal-looking bestmove at once (well under the thinking time)."""
    e = Engine()
    try:
        if e.sync(20) is None:
            return
        for cmd in ("go movetime 6000", "go wtime 600000 btime 600000 winc 0 binc 0", "go infinite", "go depth 30", "go depth 30 movetime 6000"):
            for pos in ("position startpos", "position fen " + BLACK_FEN):
                e.send(pos)
                e.send(cmd)
                time.sleep(0.15)
                t0 = time.time()
                e.send("stop")
                lines, ok, eof = e.read_until(lambda l: l.startswith("bestmove"), 8)
                dt = (time.time() - t0) * 1000
                stats["stop_latency_ms_max"] = max(stats["stop_latency_ms_max"], int(dt))
                stats["stops_on_the_binary"] += 1
                if not ok or dt > 1500:
                    rep.violation("impl-vs-spec", f"`stop` 150 ms into `{cmd}` answered after {int(dt)} ms" if ok else f"`stop` 150 ms into `{cmd}` not answered within 8 s",
                                  "", replay_ops=[pos, cmd, "(150 ms)", "stop"])
                    if not ok:
                        e.kill(); e = Engine(); e.sync(20)
                        continue
                elif ok and (lines[-1][1].split() + ["", ""])[1] in ("none", ""):
                    rep.violation("impl-vs-spec", f"`stop` during `{cmd}` answered `{lines[-1][1]}`", "", replay_ops=[pos, cmd, "stop"])
                e.sync(10)
    finally:
        e.close()
