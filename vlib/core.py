"""Shared machinery of ./check: build steps, runners, evidence, violation reports."""
import concurrent.futures as cf
import hashlib
import json
import os
import random
import re
import subprocess
import sys
import time

VERIF = os.path.dirname(os.path.dirname(os.path.abspath(__file__)))
REPO = os.environ.get("VERIF_REPO", "/repo")
LEAN = os.path.join(VERIF, "lean")
BUILD = os.path.join(VERIF, ".build")
DRV = os.path.join(LEAN, ".lake", "build", "bin", "chessdrv")
HARNESS = {
    "release": os.path.join(BUILD, "harness", "release", "chessharness"),
    "checked": os.path.join(BUILD, "harness", "checked", "chessharness"),
}
ENGINE = os.path.join(BUILD, "engine", "release", "rustybait")
ENV = dict(os.environ, CARGO_NET_OFFLINE="true")
NPROC = min(16, os.cpu_count() or 4)
ALLOWED_AXIOMS = {"propext", "Classical.choice", "Quot.sound"}


class Broken(Exception):
    """A tie or proof obligation no longer checks (not by itself a violation)."""

    def __init__(self, kind, name, detail=""):
        super().__init__(f"{kind}:{name}")
        self.kind, self.name, self.detail = kind, name, detail


def sh(cmd, cwd=None, timeout=None, env=None, inp=None):
    p = subprocess.run(cmd, cwd=cwd, env=env or ENV, input=inp, capture_output=True, text=True, timeout=timeout)
    return p.returncode, p.stdout, p.stderr


# ----------------------------------------------------------------------------- build steps

def extract():
    rc, out, err = sh([sys.executable, os.path.join(VERIF, "tools", "extract.py")])
    try:
        info = json.loads(out.strip().splitlines()[-1])
    except Exception:
        raise Broken("extract", "extractor-crashed", out + err)
    if not info.get("ok"):
        raise Broken("extract", info.get("item", "?"), info.get("msg", ""))
    LAST_EXTRACT.clear()
    LAST_EXTRACT.update(info)
    # the translator for LOGIC: leaf functions of the Rust source -> Chess/Gen/Fns.lean (tools/translate.py). When it
    # cannot parse a function it writes nothing (the last generated file stays, so the other properties still build)
    # and the tie is broken for the properties whose theorems consume that function.
    rc, out, err = sh([sys.executable, os.path.join(VERIF, "tools", "translate.py"), "-q"])
    if rc != 0:
        m = re.search(r"translate:(\S+?):? ", (err + out) + " ")
        item = m.group(1) if m else "translator-crashed"
        fn = re.split(r"[.:]+", item)[-1]
        if fn in TRANSLATED_SOFT:
            # the letter functions are exercised by every text of every case: not readable => drift (wider search)
            info.setdefault("drift", []).append({"item": "translate:" + item, "pattern": (err + out)[-200:], "kept_last_good": "Gen/Fns.lean"})
        else:
            props = TRANSLATED_FNS.get(fn) or sorted({p for key, ps in TRANSLATED_FILES.items() if key in item for p in ps}) \
                or sorted({p for ps in TRANSLATED_FILES.values() for p in ps})
            info.setdefault("broken", []).append({"group": "translated leaf functions", "item": "translate:" + item,
                                                   "msg": (err + out)[-400:], "properties": props})
    return info


def extract_for(pid):
    """Run the extractor; a group whose patterns are gone breaks the tie only of the properties
    whose theorems consume it (the others keep the last good values and rely on the correspondence)."""
    info = extract()
    for b in info.get("broken", []):
        if pid in b.get("properties", []):
            raise Broken("extract", b["item"], b["msg"])
    return info


def lake_build(targets):
    rc, out, err = sh(["lake", "build"] + list(targets), cwd=LEAN, timeout=3600)
    if rc != 0:
        m = re.findall(r"error: ([^\n]*)", out + err)
        first = next((x for x in m if ".lean:" in x), m[0] if m else "lake build failed")
        raise Broken("proof", first[:300], (out + err)[-4000:])
    return out


def strip_comments(text):
    text = re.sub(r"/-.*?-/", "", text, flags=re.S)
    return re.sub(r"--[^\n]*", "", text)


FORBIDDEN = re.compile(r"\bsorry\b|\badmit\b|^\s*axiom\s|native_decide|bv_decide|implemented_by|\bunsafe\s|maxHeartbeats\s+0\b", re.M)


def forbidden_tokens():
    hits = []
    for root, _, files in os.walk(os.path.join(LEAN, "Chess")):
        for fn in files:
            if fn.endswith(".lean"):
                p = os.path.join(root, fn)
                body = strip_comments(open(p, encoding="utf-8").read())
                for m in FORBIDDEN.finditer(body):
                    hits.append(f"{os.path.relpath(p, LEAN)}: {m.group(0).strip()}")
    main = os.path.join(LEAN, "Main.lean")
    body = strip_comments(open(main, encoding="utf-8").read())
    for m in FORBIDDEN.finditer(body):
        hits.append(f"Main.lean: {m.group(0).strip()}")
    return hits


def audit_props(pid):
    """Re-elaborate Chess/Props/<pid>.lean, collect `#print axioms` output.
    Returns (theorems: dict name -> [axioms])."""
    path = os.path.join("Chess", "Props", f"{pid}.lean")
    if not os.path.exists(os.path.join(LEAN, path)):
        raise Broken("proof", f"Chess.Props.{pid} missing")
    rc, out, err = sh(["lake", "env", "lean", path], cwd=LEAN, timeout=3600)
    if rc != 0:
        m = re.findall(r"error: ([^\n]*)", out + err)
        raise Broken("proof", (m[0] if m else "elaboration failed")[:300], (out + err)[-4000:])
    thms = {}
    for m in re.finditer(r"'([^']+)' depends on axioms: \[([^\]]*)\]", out):
        thms[m.group(1)] = [a.strip() for a in m.group(2).replace("\n", " ").split(",") if a.strip()]
    for m in re.finditer(r"'([^']+)' does not depend on any axioms", out):
        thms[m.group(1)] = []
    if not thms:
        raise Broken("proof", f"Chess.Props.{pid}: no theorem audited")
    for t, ax in thms.items():
        bad = [a for a in ax if a not in ALLOWED_AXIOMS]
        if bad:
            raise Broken("proof", f"{t} depends on {bad}")
    hits = forbidden_tokens()
    if hits:
        raise Broken("proof", "forbidden token: " + "; ".join(hits[:5]))
    return thms


def leanchecker(module):
    rc, out, err = sh(["lake", "env", "leanchecker", module], cwd=LEAN, timeout=3600)
    if rc != 0:
        raise Broken("proof", f"leanchecker {module}", (out + err)[-2000:])


HARNESS_NO_UCI = []


def cargo_harness(profile="release"):
    args = ["cargo", "build", "--offline", "--manifest-path", os.path.join(VERIF, "harness", "Cargo.toml"),
            "--target-dir", os.path.join(BUILD, "harness")]
    args += ["--release"] if profile == "release" else ["--profile", profile]
    rc, out, err = sh(args, timeout=1800)
    if rc != 0:
        # the harness names two private fields of uci.rs; when only that include no longer compiles, build without it:
        # every operation but the in-process `position` still works (HARNESS_NO_UCI is recorded in the evidence)
        rc2, out2, err2 = sh(args + ["--no-default-features"], timeout=1800)
        if rc2 != 0:
            raise Broken("build", f"harness-{profile}", err[-4000:])
        HARNESS_NO_UCI.append(err[-1500:])


def cargo_engine():
    env = dict(ENV, RUSTFLAGS="--cfg daniel729_chess_verif")
    rc, out, err = sh(["cargo", "build", "--offline", "--release", "--manifest-path", os.path.join(REPO, "Cargo.toml"),
                       "--target-dir", os.path.join(BUILD, "engine")], env=env, timeout=1800)
    if rc != 0:
        raise Broken("build", "engine", err[-4000:])


# ----------------------------------------------------------------------------- runners

def parse_blocks(text):
    """'@n' delimited output -> list of (n, [lines]) in order."""
    blocks = []
    cur = None
    for line in text.split("\n"):
        if line.startswith("@") and line[1:].isdigit():
            cur = (int(line[1:]), [])
            blocks.append(cur)
        elif cur is not None:
            cur[1].append(line)
    for b in blocks:
        while b[1] and b[1][-1] == "":
            b[1].pop()
    return blocks


def _run_chunk(args):
    exe, cases, timeout = args
    lines = []
    index = []  # (case_idx, op_idx) per emitted line
    for ci, case in cases:
        for oi, op in enumerate(case):
            lines.append(op)
            index.append((ci, oi))
    try:
        # bytes in, bytes out: a mutated implementation may print anything (invalid UTF-8 included)
        p = subprocess.run([exe], input=("\n".join(lines) + "\n").encode("utf-8"), capture_output=True, timeout=timeout)
        out, rc = p.stdout.decode("utf-8", "replace"), p.returncode
    except subprocess.TimeoutExpired as e:
        out, rc = (e.stdout or b"").decode("utf-8", "replace") if isinstance(e.stdout, bytes) else (e.stdout or ""), -9
    res = {}
    for n, blk in parse_blocks(out):
        if 1 <= n <= len(index):
            res[index[n - 1]] = blk
    return res, rc


def run_cases(exe, cases, timeout=600, procs=NPROC, per_case=False):
    """cases: list of list-of-op-lines. Returns list (per case) of list (per op) of output-line lists
    (None where the process died before answering). per_case: one process per case (a slow case then
    costs only itself; `timeout` is per case)."""
    indexed = list(enumerate(cases))
    nchunks = max(1, min(procs, len(indexed)))
    chunks = [indexed[i::nchunks] for i in range(nchunks)]
    if per_case:
        chunks = [[c] for c in indexed]
        nchunks = max(1, min(procs, len(chunks)))
    results = {}
    crashed = []
    with cf.ThreadPoolExecutor(max_workers=nchunks) as ex:
        for (res, rc), chunk in zip(ex.map(_run_chunk, [(exe, c, timeout) for c in chunks]), chunks):
            results.update(res)
            if rc != 0:
                crashed.append(rc)
    out = []
    for ci, case in indexed:
        out.append([results.get((ci, oi)) for oi in range(len(case))])
    return out, crashed


def run_rust(cases, profile="release", **kw):
    return run_cases(HARNESS[profile], cases, **kw)


def run_lean(cases, **kw):
    return run_cases(DRV, cases, **kw)


# ----------------------------------------------------------------------------- reporting

class Report:
    def __init__(self, pid, tier, seed):
        self.pid, self.tier, self.seed = pid, tier, seed
        self.t0 = time.time()
        self.violations = []  # dicts
        self.coverage = {}
        self.assumptions = []
        self.known = load_known()
        self.lines = []

    def violation(self, kind, signature, detail, replay_ops=None, no_input=False):
        """kind: impl-vs-spec | model-vs-impl | proof | extract | build"""
        self.violations.append({"kind": kind, "signature": signature, "detail": detail,
                                "replay_ops": replay_ops or [], "no_failing_input": no_input})

    def finish(self, level="proof"):
        os.makedirs(os.path.join(VERIF, "replays"), exist_ok=True)
        os.makedirs(os.path.join(VERIF, "evidence"), exist_ok=True)
        unknown = 0
        seen = set()
        # violations decided on the implementation (with a failing input) are reported before broken ties
        order = {"impl-vs-spec": 0, "model-vs-impl": 1}
        for v in sorted(self.violations, key=lambda v: (v["no_failing_input"], order.get(v["kind"], 2))):
            sig = v["signature"]
            if sig in seen:
                continue
            seen.add(sig)
            if (self.pid, sig) in self.known["finding"]:
                print(f"KNOWN-FINDING: property={self.pid} {sig}")
                continue
            unknown += 1
            h = hashlib.sha1((self.pid + sig).encode()).hexdigest()[:10]
            path = os.path.join(VERIF, "replays", f"{self.pid}-{h}.json")
            with open(path, "w") as f:
                json.dump({"property": self.pid, "seed": self.seed, "tier": self.tier, **v}, f, indent=1, ensure_ascii=False)
            tail = " no-failing-input-found" if v["no_failing_input"] else ""
            print(f"VIOLATION property={self.pid} replay={path}{tail}")
            if unknown >= 5:
                break
        if HARNESS_NO_UCI:
            self.coverage["harness_built_without_uci_include"] = HARNESS_NO_UCI[0][-300:]
        if LAST_EXTRACT.get("drift"):
            self.coverage["extractor_drift"] = LAST_EXTRACT["drift"]
        if getattr(self, "widened", None):
            self.coverage["widened"] = self.widened
        ev = {
            "property_id": self.pid, "tier": self.tier, "seed": self.seed, "level": level,
            "coverage": self.coverage, "assumptions": self.assumptions,
            "wall_s": round(time.time() - self.t0, 2), "violations": unknown,
        }
        with open(os.path.join(VERIF, "evidence", f"{self.pid}.json"), "w") as f:
            json.dump(ev, f, indent=1, ensure_ascii=False)
        print(f"{self.pid} {self.tier}: {'FAIL' if unknown else 'ok'} "
              f"({ev['wall_s']} s; coverage keys: {', '.join(sorted(self.coverage))})")
        return 1 if unknown else 0


def load_known():
    known = {"finding": set(), "fixed": []}
    p = os.path.join(VERIF, "known_findings.txt")
    if os.path.exists(p):
        for line in open(p, encoding="utf-8"):
            line = line.strip()
            m = re.match(r"finding: property=(\w+) (.*)", line)
            if m:
                known["finding"].add((m.group(1), m.group(2)))
            m = re.match(r"fixed: property=(\w+) (\w+) (.*)", line)
            if m:
                known["fixed"].append((m.group(1), m.group(2), m.group(3)))
    return known


def rng(seed, salt):
    return random.Random(f"{seed}:{salt}")


def fen4(fen):
    return " ".join(fen.split()[:4])


# ----------------------------------------------------------------------------- source fingerprint (widening the search)

FINGERPRINT = os.path.join(VERIF, "validated_source.json")


def _normalise_rust(text):
    """Rust text without comments and with whitespace runs collapsed (string/char literals kept verbatim)."""
    out = []
    i, n = 0, len(text)
    while i < n:
        c = text[i]
        if c == '"':
            j = i + 1
            while j < n and text[j] != '"':
                j += 2 if text[j] == "\\" else 1
            out.append(text[i : j + 1])
            i = j + 1
        elif text.startswith("//", i):
            j = text.find("\n", i)
            i = n if j < 0 else j
        elif text.startswith("/*", i):
            j = text.find("*/", i + 2)
            i = n if j < 0 else j + 2
        elif c == "'" and i + 2 < n and (text[i + 2] == "'" or text[i + 1] == "\\"):
            j = text.find("'", i + 2)
            out.append(text[i : j + 1])
            i = j + 1
        elif c.isspace():
            if out and out[-1] != " ":
                out.append(" ")
            i += 1
        else:
            out.append(c)
            i += 1
    return "".join(out).strip()


def source_fingerprint():
    fp = {}
    src = os.path.join(REPO, "src")
    for root, _, files in sorted(os.walk(src)):
        for fn in sorted(files):
            if fn.endswith(".rs"):
                p = os.path.join(root, fn)
                rel = os.path.relpath(p, REPO)
                with open(p, encoding="utf-8", errors="replace") as f:
                    fp[rel] = hashlib.sha256(_normalise_rust(f.read()).encode("utf-8")).hexdigest()
    for rel in ("zobrist_bytes.bin", "Cargo.toml", "Cargo.lock"):
        p = os.path.join(REPO, rel)
        if os.path.exists(p):
            with open(p, "rb") as f:
                fp[rel] = hashlib.sha256(f.read()).hexdigest()
    return fp


def changed_sources():
    """Files of /repo whose code (comments and layout aside) differs from the tree the model was last validated
    against (validated_source.json, committed; re-recorded by tools/record_fingerprint.py after a full
    thorough run on that tree). A difference is NOT a finding: it only widens the quick search (more seeds)."""
    try:
        with open(FINGERPRINT) as f:
            ref = json.load(f)["files"]
    except Exception:
        return ["(no recorded fingerprint)"]
    cur = source_fingerprint()
    return sorted(k for k in set(ref) | set(cur) if ref.get(k) != cur.get(k))


LAST_EXTRACT = {}
# which properties' theorems (Props/Cxx "Translation tie") consume a translated function (by name), else by source file;
# the translator writes nothing when ONE function cannot be parsed, so the others keep their last generated definitions
TRANSLATED_SOFT = {"as_char_ascii", "from_char_ascii", "as_str_pgn", "as_char"}
TRANSLATED_FNS = {
    "material_value": ["C09", "C16"], "as_index": ["C04", "C05"], "score": ["C16"], "hash": ["C04", "C05", "C15"],
    "is_tactical_move": ["C09"], "index_history": ["C08", "C15"], "move_score": ["C09", "C15", "C19"],
    "new_assert": ["C15"], "add_unsafe": ["C15"], "new_unsafe": ["C15"], "as_usize": ["C04", "C15"],
    "ENDGAME_THRESHOLD": ["C16"],
}
TRANSLATED_FILES = {
    "gamestate.rs": ["C02", "C04", "C05", "C15"], "position.rs": ["C01", "C02", "C04", "C15"],
    "piece.rs": ["C04", "C05", "C09", "C11", "C15", "C16", "C17", "C20"], "move_struct.rs": ["C08", "C09", "C15"],
    "search.rs": ["C09", "C15", "C19"], "scores.rs": ["C16"],
}


def widen_reasons():
    why = []
    ch = changed_sources()
    if ch:
        why.append("source differs from the validated fingerprint: " + ", ".join(ch[:6]))
    dr = LAST_EXTRACT.get("drift") or []
    if dr:
        why.append("extractor drift: " + ", ".join(sorted({d["item"] for d in dr})[:8]))
    return why
