"""Search-level checks: C06 C07 C08 C09 C10 C18 (in-process through the harness) — correspondence with the
Lean search model plus decisions on the implementation by the Lean specification."""
import os
import re
from collections import Counter

from . import core, roots

SMALL = roots.ENDGAMES + roots.EP + roots.PROMO + [
    "r3k2r/8/8/8/8/8/8/R3K2R w KQkq - 0 1", "4kr2/8/8/8/8/8/8/R3K2R w KQ - 0 1",
    "6k1/5ppp/8/8/8/8/8/R3K3 w Q - 0 1", "4k3/8/8/p1p1p1p1/PpPpPpPp/1P1P1P1P/8/4K3 w - - 0 1",
    "4k3/4r3/8/8/8/8/3N1n2/4K3 w - - 0 1", "8/2p5/3p4/KP5r/1R3p1k/8/4P1P1/8 w - - 0 1",
]

MATES = [  # composed mate-in-one positions (checked by the independent solver at run time)
    "6k1/5ppp/8/8/8/8/8/R3K3 w Q - 0 1",                       # back rank
    "6rk/6pp/8/6N1/8/8/8/4K3 w - - 0 1",                        # smothered: Nf7#
    "7k/5Q2/5K2/8/8/8/8/8 w - - 0 1",                            # queen mates
    "4k3/8/4K3/8/8/8/8/R7 w - - 0 1",                            # rook mate Ra8#
    "rnbqkbnr/pppp1ppp/8/4p3/6P1/5P2/PPPPP2P/RNBQKBNR b KQkq g3 0 2",  # fool's mate Qh4#
    "7k/4P1pp/8/8/8/8/8/4K3 w - - 0 1",                          # promotion mate e8=Q/R#
    "r1bqkb1r/pppp1ppp/2n2n2/4p2Q/2B1P3/8/PPPP1PPP/RNB1K1NR w KQkq - 4 4",  # scholar's mate Qxf7#
    "k7/2K5/8/8/8/8/8/1R6 w - - 0 1",                            # hmm: Rb8? not mate; solver filters
    "5rk1/5ppp/8/8/8/8/5PPP/3R2K1 w - - 0 1",
    "3k4/3P4/3K4/8/8/8/8/7R w - - 0 1",                          # Rh8#
    # mates delivered along a whole line of the board (the mating piece is seven squares from the king), by discovery too
    "7B/8/8/8/3P4/1K6/3N4/k7 w - - 0 1", "7b/8/8/8/3p4/1k6/3n4/K7 b - - 0 1", "b7/8/8/8/4p3/6k1/4n3/7K b - - 0 1",
    "R7/8/8/8/8/8/1K6/k7 w - - 0 1"[:0] or "6K1/8/8/8/8/8/R7/7k w - - 0 1", "7k/8/5K2/8/8/8/8/R7 w - - 0 1",
    "k7/8/1K6/8/8/8/7Q/8 w - - 0 1", "7k/8/6K1/8/8/8/Q7/8 w - - 0 1",
]

DEAD = ["7B/8/8/3P4/8/1K5n/3N4/k7 b - - 0 1", "7b/8/8/3p4/8/1k5N/3n4/K7 w - - 0 1", "R6k/8/6K1/8/8/8/8/8 b - - 0 1",
        "7k/5Q2/6K1/8/8/8/8/8 b - - 0 1", "R5k1/5ppp/8/8/8/8/8/4K3 b - - 0 1",
        "rnb1kbnr/pppp1ppp/8/4p3/6Pq/5P2/PPPPP2P/RNBQKBNR w KQkq - 1 3", "k7/2Q5/1K6/8/8/8/8/8 b - - 0 1"]


def parse_search(out):
    """-> (infos: list of dict(depth, score, nodes, pv list), result dict) from a `search` answer."""
    infos, cur, res = [], None, {}
    for l in out or []:
        if l.startswith("info depth "):
            cur = {"depth": int(l.split()[2])}
            infos.append(cur)
        elif l.startswith("info score cp ") and cur is not None:
            cur["score"] = int(l.split()[3])
        elif l.startswith("info nodes ") and cur is not None:
            cur["nodes"] = int(l.split()[2])
        elif l.startswith("info pv") and cur is not None:
            cur["pv"] = l.split()[2:]
        elif l.startswith("bestmove="):
            for kv in l.split():
                k, v = kv.split("=")
                res[k] = v
        elif l.startswith("fault:") or l in ("badargs", "badop"):
            res["fault"] = l
        elif l == "nogame":
            res["nogame"] = True      # the position was refused by the reader: nothing to search
    return infos, res


def walk_prefix(r, root, maxplies):
    ops = ["new " + root]
    for _ in range(r.randint(0, maxplies)):
        ops.append("pushbias %d" % r.randrange(1 << 30))
    ops.append("obs")
    return ops


def run_pair(rep, cases, profile="release", timeout=900):
    rust, rc = core.run_rust(cases, profile=profile, timeout=timeout)
    lean, lc = core.run_lean(cases, timeout=timeout)
    if rc:
        rep.violation("impl-vs-spec", "harness process died or timed out", f"exit codes {rc}", no_input=True)
    if lc:
        rep.violation("model-vs-impl", "model driver died or timed out", f"exit codes {lc}", no_input=True)
    return rust, lean


def correspondence(rep, pid, cases, rust, lean, stats, only_ops=None):
    bad = 0
    first = None
    for ci, case in enumerate(cases):
        for oi, op in enumerate(case):
            if only_ops and op.split(" ")[0] not in only_ops:
                continue
            ra, la = rust[ci][oi], lean[ci][oi]
            if pid not in ("C15",) and op == "obs" and ra and la and "|" in ra[0] and "|" in la[0] \
                    and ra[0].split("|")[0] != la[0].split("|")[0]:
                # the walk prefix led model and implementation to different positions: not this
                # property's abstraction (C02 decides successors) — stop comparing this case
                stats["cases_diverged_in_position"] += 1
                break
            if pid != "C15" and op.split(" ")[0] in ("pushbias", "pushh", "push", "playh"):
                continue     # move selection is C01's abstraction; a divergence shows at the next `obs`
            stats["ops_compared"] += 1
            if rust[ci][oi] != lean[ci][oi]:
                bad += 1
                if first is None:
                    first = (ci, oi)
                break
    stats["correspondence_failures"] = bad
    return first


def spec_queries(qlines, chunk=100, timeout=600):
    qlines = list(dict.fromkeys(qlines))
    chunk = max(1, min(chunk, -(-len(qlines) // core.NPROC)))      # spread over the cores
    qcases = [qlines[i:i + chunk] for i in range(0, len(qlines), chunk)]
    res = {}
    if qcases:
        out, _ = core.run_lean(qcases, timeout=timeout)
        for qc, rs in zip(qcases, out):
            for line, ans in zip(qc, rs):
                res[line] = ans[0] if ans else None
    return res


def fen_before(case, outs, oi):
    """FEN (4 fields) of the game at op index oi: last obs before it."""
    for j in range(oi, -1, -1):
        if case[j] == "obs" and outs[j] and "|" in outs[j][0]:
            return core.fen4(outs[j][0].split("|")[0])
    return None


def finish_corr(rep, pid, cases, first, rust, lean):
    if first and not rep.violations:
        ci, oi = first
        rep.violation("model-vs-impl", f"correspondence:{pid}:search `{cases[ci][oi]}`",
                      f"first differing op #{oi} `{cases[ci][oi]}` after {cases[ci][:oi][-3:]} impl={rust[ci][oi]} model={lean[ci][oi]}",
                      replay_ops=cases[ci][: oi + 1], no_input=True)


# ----------------------------------------------------------------------------------------- C06 / C18

def gen_histories(r, n, maxdepth, roots_list):
    cases = []
    for i in range(n):
        ops = ["ttnew"]
        nsearch = r.randint(1, 5)
        root = r.choice(roots_list)
        ops += walk_prefix(r, root, 6)
        for _ in range(nsearch):
            how = r.random()
            if how < 0.25:
                ops += walk_prefix(r, r.choice(roots_list), 6)          # other game, same table
            elif how < 0.7:
                ops += ["pushbias %d" % r.randrange(1 << 30), "obs"]    # next position of the same game
            d = r.randint(1, maxdepth)
            ops.append("search %d -1 0" % d)
        cases.append(ops)
    return cases


def load_single_reply_histories():
    out = []
    for line in open(os.path.join(core.VERIF, "corpus", "C06_history.txt"), encoding="utf-8"):
        if line.strip() and not line.startswith("#"):
            a, b, c = [x.strip() for x in line.split("|")]
            out.append((a, b, c))
    return out


def load_near_collisions():
    out = []
    p = os.path.join(core.VERIF, "corpus", "C06_near_collisions.txt")
    if os.path.exists(p):
        for line in open(p, encoding="utf-8"):
            parts = line.rstrip("\n").split("\t")
            if len(parts) == 5:
                out.append((parts[0], parts[1], parts[3]))
    return out


def check_legality(rep, pid, tier_sizes, seed):
    """C06 (announced move legal, none iff no legal move) and C18 (pv lines playable), shared runs."""
    n, maxdepth = tier_sizes
    r = core.rng(seed, pid)
    cases = []
    # corpus first: single-reply roots, dead roots, repetition history, deeper-then-shallower
    for f in DEAD:
        cases.append(["ttnew", "new " + f, "obs", "search 3 -1 0"])
    cases.append(["ttnew", "new 8/8/8/8/8/5k2/7p/7K w - - 0 1", "obs", "search 3 -1 0"])  # single reply? (Kxh2 only)
    cases.append(["ttnew", "new " + roots.START, "obs", "search 4 -1 0", "search 2 -1 0", "search 3 -1 0"])
    rep_game = "position startpos moves g1f3 g8f6 f3g1 f6g8 g1f3 g8f6 f3g1 f6g8"
    cases.append(["ttnew", rep_game, "obs", "search 3 -1 0"])
    # a position with an en-passant square, then the same placement without it (and vice versa), sharing the table:
    # a hash that forgets a feature makes the cached move of one the announced move of the other
    for f in roots.EP:
        parts = f.split()
        twin = " ".join(parts[:3] + ["-"] + parts[4:])
        for d1, d2 in ((4, 3), (3, 3), (3, 1)):
            cases.append(["ttnew", "new " + f, "obs", "search %d -1 0" % d1, "new " + twin, "obs", "search %d -1 0" % d2])
            cases.append(["ttnew", "new " + twin, "obs", "search %d -1 0" % d1, "new " + f, "obs", "search %d -1 0" % d2])
    # search a position that contains a mating / stalemating move, play it, search the dead position with the same table
    for f, mv in [("6k1/5ppp/8/8/8/8/8/R5K1 w - - 0 1", "a1a8"), ("7k/8/5K2/6Q1/8/8/8/8 w - - 0 1", "g5g6"),
                  ("7k/5Q2/5K2/8/8/8/8/8 w - - 0 1", "f7g7"), ("4k3/8/4K3/8/8/8/8/R7 w - - 0 1", "a1a8"),
                  ("k7/8/1K6/8/8/8/8/7R w - - 0 1", "h1h8")]:
        for d in (3, 4):
            cases.append(["ttnew", "new " + f, "obs", "search %d -1 0" % d, "playh " + mv, "obs",
                          "search 1 -1 0", "search 2 -1 0", "search 3 -1 0", "search 5 -1 0"])
    # the side to move has one legal move and it is the move the root's repetition guard would take out
    for start, ms, only in load_single_reply_histories():
        cases.append(["ttnew", "position fen %s moves %s" % (start, ms), "obs", "search 3 -1 0", "search 1 -1 0", "search - 0 0"])
    # unrelated positions whose hashes agree in 32 (24) of their 64 bits: ordinary for a table that keys and verifies its
    # entries by the whole hash; confused at once by one that uses less (corpus/C06_near_collisions.txt, tools/gen_near_collisions.py)
    per_kind = Counter()
    for kind, a, b in load_near_collisions():
        per_kind[kind] += 1
        if per_kind[kind] > (6 if n < 1000 else 40):
            continue
        for x, y in ((a, b), (b, a)):
            cases.append(["ttnew", "new " + x, "obs", "search 3 -1 0", "new " + y, "obs", "search 1 -1 0", "search 2 -1 0"])
    # the opponent has just repeated a move (X Y X) while the mover, clearly worse, played IRREVERSIBLE moves in between: the
    # mover's move of four plies ago — the one the root's repetition guard looks up in the record — no longer exists
    for line in ["position fen 3q2k1/8/8/8/8/8/P7/K7 b - - 0 1 moves g8h8 a2a3 h8g8 a3a4 g8h8",
                 "position fen 3q2k1/8/8/8/8/8/7P/7K b - - 0 1 moves g8f8 h2h3 f8g8 h3h4 g8f8",
                 "position fen k7/p7/8/8/8/8/8/3Q2K1 w - - 0 1 moves g1h1 a7a6 h1g1 a6a5 g1h1",
                 "position fen 6k1/8/8/8/8/8/PP6/K2r4 b - - 0 1 moves g8h8 b2b3 h8g8 b3b4 g8h8",
                 "position fen 2r3k1/8/8/8/8/8/1P6/K7 b - - 0 1 moves g8h8 b2b3 h8g8 b3b4 g8h8"]:
        cases.append(["ttnew", line, "obs", "search 1 -1 0", "search 2 -1 0", "search 4 -1 0"])
    # the longest lines the engine ever prints: unlimited searches of tiny positions (32 iterations, lines of up to 32 moves)
    for f in ("8/8/8/p1k5/P7/2K5/8/8 w - - 0 1", "4k3/8/8/p1p1p1p1/PpPpPpPp/1P1P1P1P/8/4K3 w - - 0 1", "8/6k1/8/6p1/6P1/8/6K1/8 b - - 0 1"):
        cases.append(["ttnew", "new " + f, "obs", "search - 60000 0"])
    cases += gen_histories(r, n, maxdepth, roots.ALL)
    stats, kinds = Counter(), Counter()
    stats["near_collision_pairs"] = sum(min(v, 6 if n < 1000 else 40) for v in per_kind.values())
    rust, lean = run_pair(rep, cases)
    first = correspondence(rep, pid, cases, rust, lean, stats)
    q = []
    items = []
    for ci, case in enumerate(cases):
        for oi, op in enumerate(case):
            if op.startswith("search "):
                out = rust[ci][oi]
                infos, res = parse_search(out)
                f4 = fen_before(case, rust[ci], oi)
                items.append((ci, oi, f4, infos, res))
                if f4:
                    q.append("spec_status " + f4)
                    if res.get("bestmove") not in (None, "none"):
                        q.append("spec_line %s %s" % (res["bestmove"], f4))
                    for inf in infos:
                        q.append("spec_line %s %s" % (",".join(inf.get("pv", [])) or "-", f4))
    ans = spec_queries(q)
    for ci, oi, f4, infos, res in items:
        case = cases[ci]
        stats["searches"] += 1
        if res.get("nogame"):
            continue
        if "fault" in res or "bestmove" not in res:
            rep.violation("impl-vs-spec", f"search failed @ {f4}", f"{rust[ci][oi]}", replay_ops=case[: oi + 1])
            continue
        if f4 is None:
            continue
        st = ans.get("spec_status " + f4)
        nlegal = int(st.split()[0]) if st else -1
        bm = res["bestmove"]
        kinds["dead_root" if nlegal == 0 else ("single_reply" if nlegal == 1 else "normal")] += 1
        kinds["table_history_len_%d" % min(5, sum(1 for o in case[:oi] if o.startswith("search ")))] += 1
        if pid == "C06":
            if bm == "none":
                if nlegal != 0:
                    rep.violation("impl-vs-spec", f"no move reported although {nlegal} legal moves exist @ {f4}",
                                  f"ops {case[: oi + 1]}", replay_ops=case[: oi + 1])
            else:
                v = ans.get("spec_line %s %s" % (bm, f4))
                if v != "ok":
                    rep.violation("impl-vs-spec", f"announced move {bm} is not legal @ {f4}", f"spec says {v}",
                                  replay_ops=case[: oi + 1])
            stats["announced_moves_checked"] += 1
        if pid == "C18":
            for inf in infos:
                pv = inf.get("pv", [])
                v = ans.get("spec_line %s %s" % (",".join(pv) or "-", f4))
                stats["pv_lines_checked"] += 1
                stats["pv_moves_checked"] += len(pv)
                if v != "ok":
                    rep.violation("impl-vs-spec", f"pv line not playable @ {f4}: {' '.join(pv)}", f"spec says {v}",
                                  replay_ops=case[: oi + 1])
    finish_corr(rep, pid, cases, first, rust, lean)
    stats["cases"] = len(cases)
    return stats, kinds, cases


# ----------------------------------------------------------------------------------------- C07

def check_stop(rep, tier, seed):
    r = core.rng(seed, "C07")
    cases = []
    positions = [roots.START, roots.PERFT[1], roots.PERFT[2], "8/8/4k3/8/8/3K4/4P3/8 w - - 0 1",
                 "r3k2r/8/8/8/8/8/8/R3K2R w KQkq - 0 1", "4k3/P6P/8/8/8/8/p6p/4K3 w - - 0 1",
                 # the first piece in scan order cannot move legally (side to move in check / pinned piece):
                 # a fallback taken from the unchecked list would be illegal here
                 "4r2k/8/8/8/8/8/8/R3K3 w - - 0 1", "7k/8/8/8/8/8/8/rNK5 w - - 0 1", "r3k3/8/8/8/8/8/8/4R2K b - - 0 1",
                 "k7/8/8/8/8/8/8/KNr5 w - - 0 1", "rnb1kbnr/pppp1ppp/8/4p3/6Pq/5P2/PPPPP2P/RNBQKBNR w KQkq - 1 3",
                 "4k3/4r3/8/8/8/8/3N1n2/4K3 w - - 0 1"]
    if tier == "thorough":
        positions += roots.ALL
    plan = []
    for f in positions:
        depth = 3 if tier == "quick" else 4
        cases.append(["new " + f, "obs", "ttnew", "search %d -1 0" % depth])
        plan.append((f, depth))
    rust0, _ = core.run_rust(cases)
    cases2 = []
    for (f, depth), outs in zip(plan, rust0):
        infos, res = parse_search(outs[3])
        total = int(res.get("polls", "0"))
        if tier == "thorough" and total <= 3000:
            ns = list(range(0, total + 1))
        else:
            ns = sorted({0, 1, 2, 3, max(0, total - 1), total} | {r.randrange(0, max(1, total)) for _ in range(10 if tier == "quick" else 60)})
        for n in ns:
            cases2.append(["new " + f, "obs", "ttnew", "search - %d 0" % n])
            # also with a table that already knows the position (stop while walking cached results)
        cases2.append(["new " + f, "obs", "ttnew", "search %d -1 0" % depth, "search - 0 0", "search - 1 0"])
        # … and a table in which the new root is an INNER node of an earlier search (bound entries, no exact one):
        # search the parent, play a move, stop at once
        for k in range(3 if tier == "quick" else 8):
            cases2.append(["new " + f, "obs", "ttnew", "search %d -1 0" % (depth + 1), "pushbias %d" % r.randrange(1 << 30), "obs",
                           "search - 0 0", "search - 1 0", "search - 2 0"])
    for start, ms, only in load_single_reply_histories():
        cases2.append(["position fen %s moves %s" % (start, ms), "obs", "ttnew", "search - 0 0", "search - 1 0", "search 3 -1 0", "search - 0 0"])
    stats, kinds = Counter(), Counter()
    rust, lean = run_pair(rep, cases2)
    first = correspondence(rep, "C07", cases2, rust, lean, stats)
    q = []
    for ci, case in enumerate(cases2):
        for oi, op in enumerate(case):
            if op.startswith("search "):
                f4 = fen_before(case, rust[ci], oi)          # the position THIS search was asked about
                if f4 is None:
                    continue
                q.append("spec_status " + f4)
                _, res = parse_search(rust[ci][oi])
                if res.get("bestmove") not in (None, "none"):
                    q.append("spec_line %s %s" % (res["bestmove"], f4))
    ans = spec_queries(q)
    for ci, case in enumerate(cases2):
        for oi, op in enumerate(case):
            if not op.startswith("search "):
                continue
            f4 = fen_before(case, rust[ci], oi)
            if f4 is None:
                continue
            nlegal = int(ans["spec_status " + f4].split()[0])
            infos, res = parse_search(rust[ci][oi])
            stats["stop_points"] += 1
            n = op.split()[2]
            if res.get("nogame"):
                continue
            if "fault" in res or "bestmove" not in res:
                rep.violation("impl-vs-spec", f"search failed @ {f4} `{op}`", f"{rust[ci][oi]}", replay_ops=case[: oi + 1])
                continue
            bm = res["bestmove"]
            if not infos:
                kinds["stopped_before_first_iteration"] += 1
            if bm == "none" and nlegal > 0:
                rep.violation("impl-vs-spec", f"stop after {n} polls yields no move although {nlegal} legal moves exist @ {f4}",
                              f"`{op}` answered {rust[ci][oi]}", replay_ops=case[: oi + 1])
            elif bm != "none" and ans.get("spec_line %s %s" % (bm, f4)) != "ok":
                rep.violation("impl-vs-spec", f"stop after {n} polls yields illegal move {bm} @ {f4}", "", replay_ops=case[: oi + 1])
            if n != "-1" and int(res.get("polls", 0)) > int(n) + 1:
                rep.violation("impl-vs-spec", f"nodes were entered after the failing poll @ {f4} `{op}`",
                              f"polls={res.get('polls')} expected <= {int(n) + 1}", replay_ops=case[: oi + 1])
    finish_corr(rep, "C07", cases2, first, rust, lean)
    stats["cases"] = len(cases2)
    return stats, kinds, cases2


# ----------------------------------------------------------------------------------------- C08

def check_depth_limit(rep, tier, seed):
    r = core.rng(seed, "C08")
    cases = []
    maxa = 4 if tier == "quick" else 5
    fens = [roots.START, "8/8/4k3/8/8/3K4/4P3/8 w - - 0 1", "r3k2r/8/8/8/8/8/8/R3K2R w KQkq - 0 1"]
    if tier == "thorough":
        fens += [roots.PERFT[2], "4k3/P6P/8/8/8/8/p6p/4K3 w - - 0 1", roots.PERFT[1]]
    budget = 400000
    for f in fens:
        for a in range(2, maxa + 1):
            for b in range(1, a):
                cases.append(["new " + f, "obs", "ttnew", "search %d -1 0" % a, "search %d %d 0" % (b, budget)])
        cases.append(["new " + f, "obs", "ttnew", "search 0 %d 0" % budget])       # go depth 0
        cases.append(["new " + f, "obs", "ttnew", "search 200 2000 0"])             # limit above the cap, stopped
    # unlimited runs on tiny trees: must end by themselves at the depth cap, without fault
    tiny = "4k3/8/8/p1p1p1p1/PpPpPpPp/1P1P1P1P/8/4K3 w - - 0 1"
    cases.append(["new " + tiny, "obs", "ttnew", "search - %d 0" % (30000 if tier == "quick" else 3000000)])
    cases.append(["new 8/8/8/8/8/5k2/7p/7K b - - 0 1", "obs", "ttnew", "search - %d 0" % (20000 if tier == "quick" else 1000000)])
    # a depth-limited search at EVERY game length up to the guard (a limit derived from the length of the game, a narrow
    # counter, a stack bound that bites at one particular ply count): random legal games, fresh positions at every ply
    for w in range(2 if tier == "quick" else 10):
        ops = ["new " + roots.START, "obs", "ttnew"]
        for k in range(398):
            ops += ["pushh %d" % r.randrange(1 << 30), "search %d -1 0" % (2 if k % 2 else 1)]
        cases.append(ops)
    stats, kinds = Counter(), Counter()
    rust, lean = run_pair(rep, cases, profile="checked")
    first = correspondence(rep, "C08", cases, rust, lean, stats)
    for ci, case in enumerate(cases):
        for oi, op in enumerate(case):
            if not op.startswith("search "):
                continue
            if rust[ci][oi] is None and len(case) > 100:
                continue        # a long game that ended early (mate, stalemate): the remaining operations were not run
            infos, res = parse_search(rust[ci][oi])
            stats["searches"] += 1
            a = op.split()
            if res.get("nogame"):
                continue
            if "fault" in res or "bestmove" not in res:
                rep.violation("impl-vs-spec", f"search crashed: `{op}` @ {case[0]}", f"{rust[ci][oi]}", replay_ops=case[: oi + 1])
                continue
            depths = [i["depth"] for i in infos]
            kinds["max_depth_reached_%d" % (max(depths) if depths else 0)] += 1
            if a[1].isdigit() and int(a[1]) >= 1:
                lim = int(a[1])
                if any(d > lim for d in depths):
                    rep.violation("impl-vs-spec", f"searched deeper than the limit {lim}: depths {depths} @ {case[0]}",
                                  f"ops {case[: oi + 1]}", replay_ops=case[: oi + 1])
                if a[2] != "-1" and int(res.get("polls", 0)) > int(a[2]) and lim <= 5:
                    rep.violation("impl-vs-spec", f"depth-{lim} search ran on until stopped (poll budget {a[2]} exhausted) @ {case[0]}",
                                  f"depths {depths}", replay_ops=case[: oi + 1])
                    kinds["ran_on"] += 1
            if any(d > 32 for d in depths):
                rep.violation("impl-vs-spec", f"depth beyond the cap: {max(depths)} @ {case[0]}", "", replay_ops=case[: oi + 1])
    finish_corr(rep, "C08", cases, first, rust, lean)
    stats["cases"] = len(cases)
    return stats, kinds, cases


# ----------------------------------------------------------------------------------------- C09

def check_pruning(rep, tier, seed):
    r = core.rng(seed, "C09")
    n = 60 if tier == "quick" else 600
    cases = []
    # hard cases kept from past failures (seeded change C09-m2: a pruning rule that forgets en passant one ply above the leaves)
    for f, d in [("8/8/4K3/8/3p4/8/2PkP3/8 w - - 0 1", 2), ("8/8/4K3/2P5/k1p5/P7/3P4/8 w - - 0 1", 2),
                 ("8/4pk2/8/5PK1/1P5p/8/6P1/8 w - - 0 1", 3), ("7k/8/1P6/4p3/3N4/8/8/6K1 w - - 0 1", 2)]:
        cases.append(["new " + f, "obs", "ttnew", "search %d -1 1" % d] + ["refroot %d" % k for k in range(1, d + 1)]
                     + ["ttnew", "searchroot %d -1 1" % d])
    # promotions in which the queen stalemates and an under-promotion is strictly best, at the root and one ply below it
    # (seeded change C09-r6m1: "dominated" promotions dropped at interior nodes)
    for f in ["8/6P1/7k/7p/7K/8/8/8 w - - 0 1", "8/6Pp/7k/8/6K1/8/8/8 w - - 0 1", "8/k1P5/2p5/2K5/8/8/8/8 w - - 0 1",
              "8/6P1/6k1/7p/7K/8/8/8 b - - 0 1", "8/6Pk/8/7p/7K/8/8/8 b - - 0 1", "8/6Pp/6k1/8/6K1/8/8/8 b - - 0 1",
              "8/2P5/k1p5/2K5/8/8/8/8 b - - 0 1", "8/1kP5/2p5/2K5/8/8/8/8 b - - 0 1", "k7/2P5/2p5/2K5/8/8/8/8 b - - 0 1",
              "8/8/8/8/7k/7P/6p1/6K1 b - - 0 1"[:0] or "8/8/8/7k/7P/7K/6p1/8 b - - 0 1", "8/8/8/8/6k1/8/6pP/7K w - - 0 1"]:
        cases.append(["new " + f, "obs", "ttnew", "search 3 -1 1", "refroot 1", "refroot 2", "refroot 3", "ttnew", "searchroot 3 -1 1"])
    # promotion races in which a rook or bishop promotion at an INTERIOR node decides the value (found by searching the
    # K+P v K+P family with that seeded change applied; kept as a regression corpus)
    for f in ["3K4/6P1/2k5/8/8/8/1p6/8 b - - 0 1", "8/1P6/3K4/7k/8/8/2p5/8 b - - 0 1", "8/2P5/5k1K/8/8/8/5p2/8 w - - 0 1",
              "8/3P4/8/5k2/8/3K4/p7/8 b - - 0 1", "8/6KP/8/1k6/8/8/3p4/8 b - - 0 1", "8/P1K5/4k3/8/8/8/4p3/8 w - - 0 1",
              "8/P5k1/8/8/K7/8/6p1/8 b - - 0 1", "8/P7/3K4/1k6/8/8/1p6/8 w - - 0 1", "8/P7/8/2k5/8/8/2p4K/8 w - - 0 1"]:
        cases.append(["new " + f, "obs", "ttnew", "search 4 -1 1", "refroot 1", "refroot 2", "refroot 3", "refroot 4"])
    # capture searches with more than 32 (and more than 40) tactical moves in one node: several pawns on the seventh rank,
    # each promotion counting four times (a fixed-size scratch list for the capture search would drop the last ones)
    for f in ["1n1n1bQr/P1P1P2P/8/7k/8/8/8/7K b - - 0 1", "1n1n1bq1/P1P1P2P/8/7k/8/8/8/K7 w - - 0 1", "n1n1n1n1/1P1P1P1P/8/8/8/8/8/K6k w - - 0 1",
              "1r1r1r1r/P1P1P1P1/8/8/8/8/8/K6k w - - 0 1", "k6K/8/8/8/8/8/1p1p1p1p/N1N1N1N1 b - - 0 1", "k6K/8/8/8/8/8/p1p1p1p1/1R1R1R1R b - - 0 1"]:
        cases.append(["new " + f, "obs", "ttnew", "search 1 -1 1", "refroot 1"])
    # regression corpus (corpus/C09_hard.txt): home-rank pawns with a man in front of them, depth 3
    hard = []
    hp = os.path.join(core.VERIF, "corpus", "C09_hard.txt")
    if os.path.exists(hp):
        for line in open(hp, encoding="utf-8"):
            if line.strip() and not line.startswith("#"):
                f, d = [x.strip() for x in line.split("|")]
                hard.append((f, int(d)))
    races = [x for x in hard if x[0].count("n") + x[0].count("N") >= 10]     # the long capture races always run
    hard = [x for x in hard if x not in races]
    for f, d in races + (hard if tier == "thorough" else core.rng(seed, "C09hard").sample(hard, min(len(hard), 16))):
        cases.append(["new " + f, "obs", "ttnew", "search %d -1 1" % d] + ["refroot %d" % k for k in range(1, d + 1)])
    # the family behind that corpus: sparse positions with pawns on their home ranks, some with a man on the square right
    # in front (a double step that must NOT be possible), some free; depth 3 (killer and table moves carry over between
    # sibling nodes only from remaining depth 2 upwards)
    for i in range(12 if tier == "quick" else 500):
        squares = {}
        for side, home, front in (("P", 1, 2), ("p", 6, 5)):
            for c in r.sample(range(8), r.randint(2, 4)):
                squares[(home, c)] = side
                if r.random() < 0.45:
                    squares.setdefault((front, c), r.choice("NnBbRrPp"))
        for _ in range(r.randint(0, 2)):
            squares.setdefault((r.randrange(2, 6), r.randrange(8)), r.choice("NnBbRr"))
        free = [(a, b) for a in range(8) for b in range(8) if (a, b) not in squares]
        wk = r.choice(free); free.remove(wk)
        free = [x for x in free if max(abs(x[0] - wk[0]), abs(x[1] - wk[1])) > 1]
        bk = r.choice(free)
        squares[wk] = "K"; squares[bk] = "k"
        if sum(1 for v in squares.values() if v == "P") > 8 or sum(1 for v in squares.values() if v == "p") > 8:
            continue
        rows = []
        for rr in range(7, -1, -1):
            row, e = "", 0
            for cc in range(8):
                if (rr, cc) in squares:
                    row += (str(e) if e else "") + squares[(rr, cc)]; e = 0
                else:
                    e += 1
            rows.append(row + (str(e) if e else ""))
        f = "/".join(rows) + r.choice([" w", " b"]) + " - - 0 1"
        cases.append(["new " + f, "obs", "ttnew", "search 3 -1 1", "refroot 1", "refroot 2", "refroot 3"])
    # sparse pawn endings built around a double push that lands beside an enemy pawn (en passant inside the tree)
    for i in range(40 if tier == "quick" else 1500):
        fl = r.randrange(8)
        nb = fl + r.choice([-1, 1])
        if not 0 <= nb < 8:
            continue
        white_pushes = r.random() < 0.5
        squares = {}
        if white_pushes:
            squares[(1, fl)] = "P"; squares[(3, nb)] = "p"
        else:
            squares[(6, fl)] = "p"; squares[(4, nb)] = "P"
        for _ in range(r.randint(0, 3)):
            rr, cc = r.randrange(1, 7), r.randrange(8)
            squares.setdefault((rr, cc), r.choice("Pp"))
        free = [(a, b) for a in range(8) for b in range(8) if (a, b) not in squares]
        wk = r.choice(free); free.remove(wk)
        free = [x for x in free if max(abs(x[0] - wk[0]), abs(x[1] - wk[1])) > 1]
        bk = r.choice(free)
        squares[wk] = "K"; squares[bk] = "k"
        rows = []
        for rr in range(7, -1, -1):
            row, e = "", 0
            for cc in range(8):
                if (rr, cc) in squares:
                    row += (str(e) if e else "") + squares[(rr, cc)]; e = 0
                else:
                    e += 1
            rows.append(row + (str(e) if e else ""))
        f = "/".join(rows) + (" w" if white_pushes else " b") + " - - 0 1"
        d = 2 if (tier == "quick" or len(squares) > 5) else r.choice([2, 3])
        cases.append(["new " + f, "obs", "ttnew", "search %d -1 1" % d] + ["refroot %d" % k for k in range(1, d + 1)])
    for i in range(n):
        root = SMALL[i % len(SMALL)]
        # the unpruned reference (in particular its quiescence) is exponential: depth 3 only on very small material
        men = sum(1 for ch in root.split()[0] if ch.isalpha())
        d = 2 if (tier == "quick" or men > 5) else r.choice([2, 3])
        ops = walk_prefix(r, root, 5) + ["ttnew", "search %d -1 1" % d] + ["refroot %d" % k for k in range(1, d + 1)]
        # a second search of the same root with a history table left by the first one is implied by iteration;
        # fresh single-depth root search as well
        ops += ["ttnew", "searchroot %d -1 1" % d]
        cases.append(ops)
    # shuffle histories o0 m o1 m' o2: the mover's move of four plies ago is available again while the opponent did not
    # repeat — the root's repetition guard must leave the move list alone (and take m out when o2 = o0)
    sh_roots = [f for f in SMALL if sum(1 for ch in f.split()[0] if ch.isalpha()) <= 7][: (12 if tier == "quick" else 60)]
    ph1 = [["new " + f, "pushh %d" % (1000 + i), "moves c"] for i, f in enumerate(sh_roots)]
    p1, _ = core.run_rust(ph1)
    for i, (f, o) in enumerate(zip(sh_roots, p1)):
        if not o[2] or " " not in o[2][0]:
            continue
        quiet = [d.split(":")[0] for d in o[2][0].split(" ", 1)[1].split(",")
                 if d.count(":") >= 3 and d.split(":")[1] == "N" and d.split(":")[2].lower() != "p" and d.split(":")[3] == "-"]
        r.shuffle(quiet)
        for m in quiet[: (3 if tier == "quick" else 8)]:
            k1, k2 = r.randrange(1 << 30), r.randrange(1 << 30)
            cases.append(["new " + f, "pushh %d" % (1000 + i), "playh " + m, "pushh %d" % k1, "playh " + m[2:4] + m[0:2], "pushh %d" % k2,
                          "obs", "ttnew", "search 2 -1 1", "refroot 1", "refroot 2"])
    stats, kinds = Counter(), Counter()
    rust, rc = core.run_rust(cases)
    # the unpruned reference is exponential: one process per case, and a case that exceeds its budget is dropped
    # (counted in the evidence) — running out of my own budget says nothing about the property
    lean, lc = core.run_lean(cases, timeout=(120 if tier == "quick" else 400), per_case=True)
    over = [ci for ci, lo in enumerate(lean) if any(x is None for x in lo)]
    stats["cases_dropped_model_budget"] = len(over)
    if [c for c in lc if c != -9]:
        rep.violation("model-vs-impl", "model driver died", f"{lc}", no_input=True)
    keep = [ci for ci in range(len(cases)) if ci not in set(over)]
    cases, rust, lean = [cases[i] for i in keep], [rust[i] for i in keep], [lean[i] for i in keep]
    first = correspondence(rep, "C09", cases, rust, lean, stats, only_ops={"search", "searchroot", "obs", "new", "pushbias", "pushh", "playh"})
    for ci, case in enumerate(cases):
        refs = {}
        for oi, op in enumerate(case):
            if op.startswith("refroot ") and lean[ci][oi]:
                m = re.match(r"ref=(-?\d+) live=(\d) moves=(\d+) liveK=(\d)", lean[ci][oi][0])
                if m:
                    refs[int(op.split()[1])] = (int(m.group(1)), m.group(2) == "1", int(m.group(3)), m.group(4) == "1")
        for oi, op in enumerate(case):
            if op.startswith("search "):
                infos, res = parse_search(rust[ci][oi])
                for inf in infos:
                    ref = refs.get(inf["depth"])
                    if not ref:
                        continue
                    v, live, nm, livek = ref
                    if nm == 1:
                        kinds["single_reply_skipped"] += 1
                        continue
                    if not livek:
                        kinds["tree_outside_hypotheses_skipped"] += 1
                        continue
                    stats["values_compared"] += 1
                    kinds["depth_%d" % inf["depth"]] += 1
                    kinds["exact_hypotheses" if live else "clamped_hypotheses_only"] += 1
                    clamp = (lambda x: x) if live else (lambda x: max(-9000, min(9000, x)))
                    if clamp(inf["score"]) != clamp(v):
                        rep.violation("impl-vs-spec", f"pruned search value {inf['score']} differs from exhaustive value {v} at depth {inf['depth']} @ {fen_before(case, rust[ci], oi)}",
                                      f"ops {case[: oi + 1]}", replay_ops=case[: oi + 1])
            if op.startswith("searchroot ") and rust[ci][oi]:
                m = re.match(r"best=(\S+) score=(-?\d+) only=(\d)", rust[ci][oi][0])
                d = int(op.split()[1])
                ref = refs.get(d)
                if m and ref and ref[3] and ref[2] != 1:
                    stats["values_compared"] += 1
                    clamp = (lambda x: x) if ref[1] else (lambda x: max(-9000, min(9000, x)))
                    if clamp(int(m.group(2))) != clamp(ref[0]):
                        rep.violation("impl-vs-spec", f"root value {m.group(2)} differs from exhaustive value {ref[0]} at depth {d} @ {fen_before(case, rust[ci], oi)}",
                                      "", replay_ops=case[: oi + 1])
    finish_corr(rep, "C09", cases, first, rust, lean)
    stats["cases"] = len(cases)
    return stats, kinds, cases


# ----------------------------------------------------------------------------------------- C10

def check_mates(rep, tier, seed):
    r = core.rng(seed, "C10")
    # candidate positions: composed mates + positions from walks; the independent solver decides
    cand = list(MATES) + list(DEAD)
    prefix_cases = [walk_prefix(r, r.choice(roots.ALL), 30) for _ in range(150 if tier == "quick" else 12000)]
    outs, _ = core.run_rust(prefix_cases)
    for case, o in zip(prefix_cases, outs):
        if o[-1] and "|" in o[-1][0]:
            cand.append(o[-1][0].split("|")[0])
    cand = list(dict.fromkeys(cand))
    sane = spec_queries(["spec_sane " + core.fen4(f) for f in cand])
    cand = [f for f in cand if sane.get("spec_sane " + core.fen4(f)) == "sane"]      # the quantifier is over reachable positions
    ans = spec_queries(["spec_mate1 " + core.fen4(f) for f in cand] + ["spec_status " + core.fen4(f) for f in cand])
    cases, meta = [], []
    for f in cand:
        m1 = ans.get("spec_mate1 " + core.fen4(f)) or "0 "
        st = ans.get("spec_status " + core.fen4(f)) or "-1 x"
        mates = m1.split(" ", 1)[1].split(",") if m1.split(" ", 1)[1:] and m1.split(" ", 1)[1] else []
        nlegal = int(st.split()[0])
        if mates:
            for d in ("3", "4", "-"):
                cases.append(["new " + f, "obs", "ttnew", "search %s 2000000 0" % d])
                meta.append(("mate1", f, mates, d))
        elif nlegal == 0:
            cases.append(["new " + f, "obs", "ttnew", "search 3 -1 0"])
            meta.append(("dead", f, [], "3"))
            cases.append(["new " + f, "obs", "ttnew", "search - 100000 0"])
            meta.append(("dead", f, [], "-"))
    stats, kinds = Counter(), Counter()
    rust, lean = run_pair(rep, cases)
    first = correspondence(rep, "C10", cases, rust, lean, stats)
    for (kind, f, mates, d), case, outs in zip(meta, cases, rust):
        infos, res = parse_search(outs[3])
        stats["searches"] += 1
        kinds[kind] += 1
        if res.get("nogame"):
            continue
        if "fault" in res or "bestmove" not in res:
            rep.violation("impl-vs-spec", f"search failed @ {f}", f"{outs[3]}", replay_ops=case)
            continue
        if kind == "dead":
            if res["bestmove"] != "none":
                rep.violation("impl-vs-spec", f"a move was invented in a position without legal moves @ {f}", res["bestmove"], replay_ops=case)
        else:
            if res["bestmove"] not in mates:
                rep.violation("impl-vs-spec", f"mate in one missed (limit {d}): played {res['bestmove']}, mates {mates} @ {f}", "", replay_ops=case)
            depths = [i["depth"] for i in infos]
            if depths and max(depths) > 3:
                rep.violation("impl-vs-spec", f"search did not stop by itself once the mate was seen: depths {depths} @ {f}", "", replay_ops=case)
    finish_corr(rep, "C10", cases, first, rust, lean)
    stats["cases"] = len(cases)
    stats["candidate_positions"] = len(cand)
    check_mate_in_two(rep, tier, r, stats, kinds)
    return stats, kinds, cases


MATE_RANGE = 31767


def load_mate2():
    out = []
    for line in open(os.path.join(core.VERIF, "corpus", "C10_mate2.txt"), encoding="utf-8"):
        line = line.strip()
        if line and not line.startswith("#") and "|" in line:
            parts = [x.strip() for x in line.split("|")]
            out.append((parts[0], [m for m in parts[1].split(",") if m]))
            if len(parts) > 2:          # moves known to keep a mate within three (answers of `spec_mate 3`, re-solved in the thorough tier)
                KEEP3[parts[0]] = [m for m in parts[2].split(",") if m]
    return out


KEEP3 = {}


def spec_mate(n, fens, timeout=600):
    """fen -> (shortest mate length or None, moves keeping a mate of that length, moves keeping a mate within n)"""
    ans = spec_queries(["spec_mate %d %s" % (n, f) for f in fens], chunk=(100 if n <= 2 else 1), timeout=timeout)
    res = {}
    for f in fens:
        a = ans.get("spec_mate %d %s" % (n, f))
        if not a or "|" not in a:
            res[f] = None
            continue
        k, best, within = [x.strip() for x in a.split("|")]
        lst = lambda x: (x.split(" ", 1)[1].split(",") if " " in x and x.split(" ", 1)[1] else [])
        res[f] = (int(k) if k.isdigit() else None, lst(best), lst(within))
    return res


def check_mate_in_two(rep, tier, r, stats, kinds):
    """The second half of C10, decided on the implementation: from a fresh table a search to depth >= 5 plays a
    move that keeps the forced mate, and no iteration follows one that reported a mate-range score.
    The corpus lists candidate positions with the solver's answers; the solver (Chess/Spec/Mates.lean) is run
    again here on a seeded sample (all in the thorough tier) and on EVERY position where the engine's move is not
    in the listed set, so a reported violation never rests on the file."""
    corpus = load_mate2()
    sample = corpus if tier == "thorough" else r.sample(corpus, 48) + corpus[-1:]
    fresh = spec_mate(2, [f for f, _ in sample])
    for f, keep in sample:
        got = fresh.get(f)
        stats["mate2_resolved"] += 1
        if not got or got[0] != 2 or sorted(got[1]) != sorted(keep):
            rep.violation("extract", f"corpus:C10_mate2 entry disagrees with the solver @ {f}", f"file {keep} solver {got}", no_input=True)
    cases, meta = [], []
    for f, keep in corpus:
        for d in (("5", "-") if tier == "quick" else ("5", "6", "9", "-")):
            cases.append(["new " + f + " 0 1", "ttnew", "search %s 5000000 0" % d])
            meta.append((f, d, keep))
    rust, rc = core.run_rust(cases)
    if rc:
        rep.violation("impl-vs-spec", "harness process died or timed out (mate in two)", f"exit codes {rc}", no_input=True)
    suspects = []
    for (f, d, keep), case, outs in zip(meta, cases, rust):
        infos, res = parse_search(outs[2])
        stats["mate2_searches"] += 1
        if res.get("nogame"):
            continue
        if "fault" in res or "bestmove" not in res:
            rep.violation("impl-vs-spec", f"search failed @ {f}", f"{outs[2]}", replay_ops=case)
            continue
        scores = [i.get("score", 0) for i in infos]
        for j, sc in enumerate(scores[:-1]):
            if abs(sc) > MATE_RANGE:
                rep.violation("impl-vs-spec", f"search went on after reporting a mate score: scores {scores} (limit {d}) @ {f}", "", replay_ops=case)
                break
        if res["bestmove"] not in keep:
            if tier == "quick" and res["bestmove"] in KEEP3.get(f, []):
                stats["mate2_kept_but_lengthened"] += 1
                kinds["mate2_lengthened"] += 1
                continue
            suspects.append((f, d, res["bestmove"], case, scores))
    # every suspect is decided by the solver now: does the move keep the mate in two? a longer forced mate?
    if suspects:
        fens = list(dict.fromkeys(f for f, *_ in suspects))[:40]
        deep = spec_mate(3, fens)
        again = [f for f, d, mv, *_ in suspects if deep.get(f) and mv not in deep[f][1] and mv not in deep[f][2]]
        if tier == "thorough":
            deep.update({f: v for f, v in spec_mate(4, list(dict.fromkeys(again))[:3], timeout=300).items() if v})
        for f, d, mv, case, scores in suspects:
            got = deep.get(f)
            if not got:
                continue
            if mv in got[1]:
                continue                      # the file was stale; the solver accepts the move
            if mv in got[2]:
                # the mate is still forced, one or two moves later than necessary (a table entry met at another
                # distance from the root carries a mate score of the wrong length): the property asks for a move
                # that KEEPS the forced mate, which this does — counted, not reported
                stats["mate2_kept_but_lengthened"] += 1
                kinds["mate2_lengthened"] += 1
                continue
            rep.violation("impl-vs-spec", f"forced mate in two given up (limit {d}): played {mv}, keeping moves {got[1]}, scores {scores} @ {f}",
                          "", replay_ops=case)
    kinds["mate2"] += len(cases)
    check_mate_histories(rep, tier, r, stats, kinds, dict(corpus))
    # the model on a sample of the same searches
    pick = r.sample(range(len(cases)), 12 if tier == "quick" else 200)
    sub = [cases[i] for i in pick]
    lean, lc = core.run_lean(sub, timeout=900)
    if lc:
        rep.violation("model-vs-impl", "model driver died or timed out (mate in two)", f"exit codes {lc}", no_input=True)
    for i, lo in zip(pick, lean):
        stats["mate2_model_searches"] += 1
        if lo[2] != rust[i][2] and not rep.violations:
            rep.violation("model-vs-impl", f"correspondence:C10:search `{cases[i][2]}` @ {cases[i][0]}",
                          f"impl={rust[i][2]} model={lo[2]}", replay_ops=cases[i], no_input=True)


# ----------------------------------------------------------------------------------------- C15

def check_bounds(rep, tier, seed):
    import subprocess, time
    r = core.rng(seed, "C15")
    cases = []
    ngames = 6 if tier == "quick" else 240
    for i in range(ngames):
        root = [roots.START, roots.PERFT[1], roots.PERFT[5], "8/8/8/4k3/8/8/3QK3/8 w - - 0 1"][i % 4]
        ops = ["new " + root]
        n = 398 if i % 2 == 0 else r.randint(150, 398)
        for _ in range(n):
            ops.append("pushh %d" % r.randrange(1 << 30))
        ops += ["obs", "ttnew", "search 3 -1 0", "search - %d 0" % (3000 if tier == "quick" else 60000), "moves u", "moves c"]
        cases.append(ops)
    special = ["1P2k3/8/8/8/8/8/8/4K3 w - - 0 1", "4k3/8/8/8/8/8/8/1p2K3 b - - 0 1", "1p2k3/8/8/8/8/8/8/4K3 b - - 0 1",
               "4k3/8/8/8/8/8/8/1P2K3 w - - 0 1", "P3k2P/8/8/8/8/8/8/p3K2p w - - 0 1",
               roots.SPECIAL[0], "4k3/P6P/8/8/8/8/p6p/4K3 w - - 0 1", "r3k2r/1P4P1/8/8/8/8/1p4p1/R3K2R w KQkq - 0 1",
               "QQQQQQQQ/8/8/8/8/8/k7/4K2Q w - - 0 1", "3Q4/1Q4Q1/4Q3/2Q4R/Q4Q2/3Q4/1Q4Rp/1K1BBNNk w - - 0 1",
               "n1n1k3/1P6/8/8/8/8/6p1/4K1N1 w - - 0 1", "1QQQQQQQ/Q6Q/Q6Q/Q3k2Q/Q6Q/Q6Q/Q6Q/QQQQQQQK w - -"]
    for f in special:
        cases.append(["new " + f, "obs", "moves u", "moves c", "ttnew", "search 2 -1 0", "search - 5000 0"])
    # games given to the interface as text: `position startpos moves …` with knight shuffles up to and beyond the length guard
    # (position_keeps_games_short: an accepted game is shorter than the guard, so the search keeps its stack room)
    shuffle = ["g1f3", "g8f6", "f3g1", "f6g8"]
    for n in (0, 5, 396, 397, 398, 399, 400, 401, 450, 511, 512, 515, 600):
        ms = " ".join(shuffle[i % 4] for i in range(n))
        cases.append([("position startpos moves " + ms).strip(), "obs", "ttnew", "search 2 -1 0", "moves c"])
    # the longest game the interface accepts, in the smallest position (two kings: iterations are cheap, so an unlimited
    # search reaches the depth limit at once): game length + search depth + quiescence must stay inside the state stack
    kshuffle = ["e2d2", "e5d5", "d2e2", "d5e5"]
    for n in (398, 397, 200):
        ms = " ".join(kshuffle[i % 4] for i in range(n))
        cases.append(["position fen 8/8/8/4k3/8/8/4K3/8 w - - 0 1 moves " + ms, "obs", "ttnew", "search - 400000000 0", "moves c"])
    # everything the reader accepts from a mutation stream, followed by generation and a shallow search
    from . import textchk
    for f in roots.ALL[::7]:
        for s in textchk.mutations(r, f, 60 if tier == "quick" else 600):
            if "\n" in s or "\r" in s:
                continue
            cases.append(["new " + s, "moves u", "moves c", "ttnew", "search 1 -1 0"])
    stats, kinds = Counter(), Counter()
    rust, _ = core.run_rust(cases, profile="checked", timeout=1500)
    # the model is compared on everything except the 32-iteration searches after a maximal game (a minute of model time each;
    # those cases are there for the checked build's assertions)
    slow = {ci for ci, c in enumerate(cases) if c[0].startswith("position fen 8/8/8/4k3/8/8/4K3/8")}
    mcases = [c for ci, c in enumerate(cases) if ci not in slow]
    mlean, lc = core.run_lean(mcases, timeout=1500)
    first = correspondence(rep, "C15", mcases, [rust[ci] for ci in range(len(cases)) if ci not in slow], mlean, stats)
    if first:       # index back into the full list for the replay
        first = (cases.index(mcases[first[0]]), first[1])
    it = iter(mlean)
    lean = [([None] * len(c) if ci in slow else next(it)) for ci, c in enumerate(cases)]
    maxlen = 0
    for ci, case in enumerate(cases):
        for oi, op in enumerate(case):
            out = rust[ci][oi]
            if out is None:
                rep.violation("impl-vs-spec", f"harness died during `{op[:60]}` @ {case[0][:80]}", "", replay_ops=case[: oi + 1])
                break
            if op.startswith("position ") and out and out[0].startswith("ok ") and oi + 1 < len(case) and rust[ci][oi + 1] \
                    and "|" in rust[ci][oi + 1][0]:
                glen = int(rust[ci][oi + 1][0].split("|")[-1])
                stats["longest_game_accepted_by_position"] = max(stats["longest_game_accepted_by_position"], glen)
                if glen >= 400:
                    rep.violation("impl-vs-spec", f"`position` accepted a game of length {glen} (the state stack has 512 entries and the search needs room)",
                                  "", replay_ops=[op[:200] + " …"])
                    break
            flt = next((l for l in (out or []) if l.startswith("fault:")), None)      # a search prints its info lines first
            if flt:
                rep.violation("impl-vs-spec", f"checked build panicked: {flt[:120]} on `{op[:60]}` @ {case[0][:80]}", "", replay_ops=case[: oi + 1])
                break
            if op.startswith("moves u") and out and out[0].split(" ")[0].isdigit():
                n = int(out[0].split(" ")[0])
                stats["max_unchecked_list_length"] = max(stats["max_unchecked_list_length"], n)
                if n > 256:
                    rep.violation("impl-vs-spec", f"{n} pseudo-legal moves exceed the 256-entry buffer @ {case[0]}", "", replay_ops=case[: oi + 1])
            if op == "obs" and out and "|" in out[0]:
                maxlen = max(maxlen, int(out[0].split("|")[6]))
            if op.startswith("new ") and out == ["ok"]:
                kinds["accepted_positions"] += 1
            if op.startswith("search "):
                stats["searches"] += 1
    stats["max_game_length_before_search"] = maxlen
    finish_corr(rep, "C15", cases, first, rust, lean)
    # self-play of unbounded length: must stop by itself below the stack capacity
    t0 = time.time()
    import concurrent.futures as cf

    def selfplay(ms):
        try:
            return ms, subprocess.run([core.ENGINE, "auto", str(ms)], capture_output=True, text=True, errors="replace", timeout=300 if tier == "quick" else 1200)
        except subprocess.TimeoutExpired:
            return ms, None
    games = [0, 1, 2, 3] if tier == "quick" else [0, 0, 1, 1, 2, 3, 5, 8, 13, 20]
    with cf.ThreadPoolExecutor(max_workers=len(games)) as ex:
        played = list(ex.map(selfplay, games))
    q = []
    for ms, p in played:
        replay = ["rustybait auto %d" % ms]
        if p is None:
            rep.violation("impl-vs-spec", "self-play did not end within the time limit", "", replay_ops=replay, no_input=True)
            continue
        plies = p.stdout.count("Hash: ")
        stats["selfplay_games"] += 1
        stats["selfplay_positions_printed_max"] = max(stats["selfplay_positions_printed_max"], plies)
        if plies >= 399:
            stats["selfplay_games_ended_by_the_guard"] += 1
        if p.returncode != 0 or "panicked" in p.stderr:
            rep.violation("impl-vs-spec", f"self-play ended abnormally after {plies} positions", p.stderr[-600:], replay_ops=replay)
        if plies > 401:
            rep.violation("impl-vs-spec", f"self-play ran to {plies} positions: no length guard", "", replay_ops=replay)
        # the game it played is a legal game: every printed position is a legal successor (by the rules) of the one before
        fens = [core.fen4(l[5:]) for l in p.stdout.split("\n") if l.startswith("Fen: ")]
        q += [("spec_succ %s | %s" % (a, b), a, b, replay) for a, b in zip(fens, fens[1:])]
    ans = spec_queries([x[0] for x in q])
    stats["selfplay_steps_checked"] = len(q)
    for line, a, b, replay in q:
        got = ans.get(line) or ""
        if not got.split(" ")[0].isdigit() or int(got.split(" ")[0]) < 1:
            rep.violation("impl-vs-spec", f"self-play: position {b} is not a legal successor of {a}", got, replay_ops=replay)
            break
    stats["selfplay_wall_s"] = int(time.time() - t0)
    check_session_growth(rep, stats)
    stats["cases"] = len(cases)
    return stats, kinds, cases


def check_session_growth(rep, stats):
    """A UCI session that sends `go` far more often than the state stack has entries — without a new `position`, and
    after a game of maximal accepted length: whatever the engine does with its game between commands, nothing may
    grow past a capacity. The session must stay alive (isready answered) and end with exit status 0."""
    from .engine import Engine
    shuffle = "g1f3 g8f6 f3g1 f6g8"
    long_game = "position startpos moves " + " ".join([shuffle] * 99)     # 396 plies: accepted (guard at 400)
    for name, pre, n in (("bare kings", "position fen 4k3/8/8/8/8/8/8/4K3 w - - 0 1", 560), ("after a 396-ply game", long_game, 130)):
        e = Engine()
        replay = [pre] + ["go depth 1 (x%d)" % n]
        try:
            if e.sync(20) is None:
                return
            e.send(pre)
            alive = True
            for k in range(n):
                e.send("go depth 1")
                # every command is answered — by a bestmove or by a refusal — before the next one is sent
                lines, ok, eof = e.read_until(lambda l: l.startswith("bestmove") or l.startswith("error"), 10)
                if eof or (not ok and e.sync(10) is None):
                    alive = False
                    break
            stats["session_growth_go_commands"] += n
        finally:
            rc, err = e.close()
        if not alive or rc != 0 or "panicked" in (err or ""):
            rep.violation("impl-vs-spec", f"session `{name}`: the engine did not survive {n} `go` commands without a new `position` (rc={rc})",
                          (err or "")[-600:], replay_ops=replay)


REPETITION_FINDING = ("the repetition guard of get_best_move_entry (search.rs) takes the only move that keeps a forced mate in two out of the "
                      "root move list when the opponent has just repeated its move (history x M x' M' x): the forced mate is given up")


def check_mate_histories(rep, tier, r, stats, kinds, keep_of):
    """Mate-in-two positions reached through a history in which the opponent repeats its move, so that the root's
    repetition guard fires on the mover's move of four plies ago — which here is the only move that keeps the mate."""
    lines = []
    for line in open(os.path.join(core.VERIF, "corpus", "C10_history.txt"), encoding="utf-8"):
        if line.startswith("rep |"):
            parts = [x.strip() for x in line.split("|")]
            lines.append((parts[1], parts[2].split(), parts[3]))
            if len(parts) > 4:
                KEEP3.setdefault(parts[3], [m for m in parts[4].split(",") if m])
    if tier == "quick":
        lines = r.sample(lines, 40)
    cases = [["position fen %s moves %s" % (start, " ".join(ms)), "ttnew", "search 5 5000000 0"] for start, ms, _ in lines]
    rust, rc = core.run_rust(cases)
    suspects = []
    for (start, ms, reached), case, outs in zip(lines, cases, rust):
        if not outs[0] or not outs[0][0].startswith("ok ") or core.fen4(outs[0][0][3:]) != reached:
            rep.violation("extract", f"corpus:C10_history line no longer leads to its position @ {start} {ms}", f"{outs[0]}", no_input=True)
            continue
        keep = keep_of.get(reached)
        infos, res = parse_search(outs[2])
        stats["mate2_history_searches"] += 1
        if keep is None or "bestmove" not in res:
            continue
        if res["bestmove"] not in keep:
            suspects.append((reached, ms, res["bestmove"], case, keep))
    if suspects:
        # quick tier: the listed answers of `spec_mate 3` decide the cases that fall under the known finding (guard fired on the only
        # keeping move); everything else, and everything in the thorough tier, is solved now
        def guard_case(f, ms, keep):
            return len(ms) >= 5 and ms[-1] == ms[-5] and keep == [ms[-4]]
        need = [f for f, ms, mv, case, keep in suspects if tier != "quick" or f not in KEEP3 or not guard_case(f, ms, keep)]
        fens = list(dict.fromkeys(need))[: (5 if tier == "quick" else 60)]
        deep = spec_mate(3, fens) if fens else {}
        for f, ms, mv, case, keep in suspects:
            got = deep.get(f)
            if got is None and tier == "quick" and f in KEEP3 and guard_case(f, ms, keep):
                got = (2, keep, KEEP3[f])
            if not got or got[0] != 2:
                continue
            if mv in got[1]:
                continue
            if mv in got[2]:
                stats["mate2_kept_but_lengthened"] += 1
                continue
            guard = len(ms) >= 5 and ms[-1] == ms[-5] and got[1] == [ms[-4]]
            if guard:
                kinds["repetition_guard_drops_the_mate"] += 1
                rep.violation("impl-vs-spec", REPETITION_FINDING, f"e.g. {case[0]}: played {mv}, the only keeping move is {got[1]}", replay_ops=case)
            else:
                rep.violation("impl-vs-spec", f"forced mate in two given up after history {' '.join(ms)}: played {mv}, keeping moves {got[1]} @ {f}",
                              "", replay_ops=case)
