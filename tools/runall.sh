#!/bin/sh
# run every quick check, validate evidence against the schema
cd "$(dirname "$0")/.."
rc=0
for i in 01 02 03 04 05 06 07 08 09 10 11 12 13 14 15 16 17 18 19 20; do
  ./check C$i --tier ${1:-quick} | tail -3 || rc=1
done
python3-vt - <<'PY'
import json,jsonschema,glob
sch=json.load(open('/root/.vp/EVIDENCE.schema.json'))
for p in sorted(glob.glob('evidence/C*.json')):
    try: jsonschema.validate(json.load(open(p)),sch)
    except Exception as e: print('INVALID',p,str(e)[:200])
jsonschema.validate(json.load(open('MANIFEST.json')), json.load(open('/root/.vp/MANIFEST.schema.json')))
print('schemas ok')
PY
exit $rc
