#!/usr/bin/env python3
"""Regenerate Chess/Gen/*.lean and gen/constants.json from /repo's working tree.

Every item is REQUIRED. The items are extracted in GROUPS (zobrist, scores, deltas, letters,
constants, unsafe inventory); when a pattern of a group is missing the group is reported as a
BROKEN TIE together with the properties that consume it (./check reports exactly those as
`extract:<item>` obligations), and the group's LAST GOOD values (gen/extract_cache.json, written
only by fully successful runs) keep the model buildable so that the other properties can still be
checked and the search for a failing input can still run. Nothing is ever defaulted: without a
cached good value the run fails.
"""
import hashlib
import json
import os
import re
import sys

REPO = os.environ.get("VERIF_REPO", "/repo")
OUT = os.path.join(os.path.dirname(os.path.abspath(__file__)), "..", "lean", "Chess", "Gen")
GEN_JSON = os.path.join(os.path.dirname(os.path.abspath(__file__)), "..", "gen", "constants.json")


class ExtractError(Exception):
    def __init__(self, item, msg=""):
        super().__init__(f"extract:{item} {msg}")
        self.item = item


def strip_rust_comments(text):
    """Rust text with comments blanked out (newlines and string/char literals kept), so that patterns see code only."""
    out = []
    i, n = 0, len(text)
    while i < n:
        c = text[i]
        if c == '"':
            j = i + 1
            while j < n and text[j] != '"':
                j += 2 if text[j] == "\\" else 1
            out.append(text[i : j + 1])
            i = j + 1
        elif text.startswith("//", i):
            j = text.find("\n", i)
            i = n if j < 0 else j
        elif text.startswith("/*", i):
            j = text.find("*/", i + 2)
            j = n if j < 0 else j + 2
            out.append("\n" * text.count("\n", i, j))
            i = j
        elif c == "'" and i + 2 < n and (text[i + 2] == "'" or text[i + 1] == "\\"):
            j = text.find("'", i + 2)
            out.append(text[i : j + 1])
            i = j + 1
        else:
            out.append(c)
            i += 1
    return "".join(out)


def read(rel, raw=False):
    with open(os.path.join(REPO, rel), "r", encoding="utf-8") as f:
        text = f.read()
    return text if raw else strip_rust_comments(text)


DRIFT = []  # shape pins that no longer match: not a broken tie, a reason to search wider (see need_shape)


def need_shape(item, pattern, text, flags=re.S):
    """A SHAPE PIN: a pattern that only says "this piece of hand-modelled logic still reads the way it did".
    The tie of hand-modelled logic is the correspondence check, so a pin that is gone is recorded as drift
    (./check widens its search and lists it in the evidence); it is not a broken obligation by itself."""
    m = re.search(pattern, text, flags)
    if not m:
        DRIFT.append({"item": item, "pattern": pattern[:80]})
    return m


_INT = r"(?:0x[0-9a-fA-F_]+|0b[01_]+|0o[0-7_]+|\d[\d_]*)(?:_?(?:u8|u16|u32|u64|usize|i8|i16|i32|i64|isize))?"


def const_defs(*texts):
    """name -> defining expression of every `const NAME: T = expr;` in the given texts"""
    d = {}
    for t in texts:
        for m in re.finditer(r"\bconst\s+(\w+)\s*:\s*[^=;]+?=\s*([^;]+);", t):
            d.setdefault(m.group(1), m.group(2).strip())
    return d


def cexpr(item, expr, defs, depth=0):
    """Value of an integer constant expression: literals in any base, + - * / ( ), `as T`, named constants
    (optionally path-qualified) resolved through `defs`. Anything else is an error, never a guess."""
    if depth > 8:
        raise ExtractError(item, "constant definitions nest too deep")
    s = re.sub(r"\bas\s+(?:u8|u16|u32|u64|usize|i8|i16|i32|i64|isize|Score)\b", "", expr)
    toks = re.findall(r"\s*(" + _INT + r"|[A-Za-z_][\w:]*|[-+*/()])", s)
    if "".join(toks).replace(" ", "") != re.sub(r"\s+", "", s):
        raise ExtractError(item, f"not a constant expression: {expr[:60]!r}")
    py = []
    for tk in toks:
        if re.fullmatch(_INT, tk):
            lit = re.sub(r"_?(?:u8|u16|u32|u64|usize|i8|i16|i32|i64|isize)$", "", tk).replace("_", "")
            py.append(str(int(lit, 0)))
        elif tk in "+-*()":
            py.append(tk)
        elif tk == "/":
            py.append("//")
        else:
            name = tk.split("::")[-1]
            if name not in defs:
                raise ExtractError(item, f"unknown constant {tk}")
            py.append("(" + str(cexpr(item, defs[name], defs, depth + 1)) + ")")
    try:
        return int(eval(" ".join(py), {"__builtins__": {}}))
    except Exception:
        raise ExtractError(item, f"cannot evaluate {expr[:60]!r}")


def array_expr(item, expr, text):
    """The bracketed literal an expression denotes: itself, or the definition of the named const/static it names."""
    e = expr.strip()
    if e.startswith("["):
        return e
    name = e.lstrip("&").split("::")[-1]
    m = re.search(rf"\b(?:const|static)\s+{re.escape(name)}\s*:\s*[^=]+=\s*(\[.*?\])\s*;", text, re.S)
    if not m:
        raise ExtractError(item, f"no array literal or named constant array: {e[:40]!r}")
    return m.group(1)


def lineno(text, idx):
    return text.count("\n", 0, idx) + 1


def need(item, pattern, text, flags=re.S):
    m = re.search(pattern, text, flags)
    if not m:
        raise ExtractError(item, f"pattern not found: {pattern[:60]!r}")
    return m


def fn_body(item, text, header_re):
    """Return (body, start_index) of the brace-delimited block after header_re."""
    m = need(item, header_re, text)
    i = text.index("{", m.end() - 1) if text[m.end() - 1] != "{" else m.end() - 1
    depth = 0
    j = i
    while j < len(text):
        c = text[j]
        if c == "{":
            depth += 1
        elif c == "}":
            depth -= 1
            if depth == 0:
                return text[i : j + 1], i
        j += 1
    raise ExtractError(item, "unbalanced braces")


def pairs(item, s):
    ps = re.findall(r"\(\s*(-?\d+)\s*,\s*(-?\d+)\s*\)", s)
    if not ps:
        raise ExtractError(item, "no pairs")
    return [(int(a), int(b)) for a, b in ps]


RAY = {
    "(0,x)": (0, 1), "(0,-x)": (0, -1), "(x,0)": (1, 0), "(-x,0)": (-1, 0),
    "(x,x)": (1, 1), "(-x,-x)": (-1, -1), "(x,-x)": (1, -1), "(-x,x)": (-1, 1),
}


def rays(item, s):
    out = []
    for m in re.finditer(r"\(1\.\.\)\.map\(\|x\|\s*(\([^)]*\))\)", s):
        k = m.group(1).replace(" ", "")
        if k not in RAY:
            raise ExtractError(item, f"unknown ray closure {k}")
        out.append(RAY[k])
    if not out:
        raise ExtractError(item, "no rays")
    return out


CACHE = {}      # last good values per group (gen/extract_cache.json), filled by main()
GROUP = [None]  # name of the group being extracted


def soft(item, key, thunk):
    """A LOGIC LITERAL (a delta list, a row number, a mate offset inside hand-modelled code): read it when the text
    still has a shape I can read; otherwise keep the last good value, record drift, and let the correspondence
    check (which ties hand-modelled logic to the code) decide. Never defaulted: without a last good value it fails."""
    try:
        return thunk()
    except ExtractError as e:
        last = CACHE.get(GROUP[0], {})
        if key not in last:
            raise
        DRIFT.append({"item": e.item, "pattern": str(e)[:100], "kept_last_good": key})
        return last[key]


def probe():
    """Build and run /verif/probe (compiles zobrist.rs, scores.rs, constants.rs of the working tree): the constant
    data as the compiler evaluates it."""
    import subprocess
    here = os.path.dirname(os.path.abspath(__file__))
    pdir = os.path.join(here, "..", "probe")
    tdir = os.path.join(here, "..", ".build", "probe")
    env = dict(os.environ, CARGO_NET_OFFLINE="true", VERIF_REPO=REPO)
    r = subprocess.run(["cargo", "build", "--offline", "--release", "--manifest-path", os.path.join(pdir, "Cargo.toml"),
                        "--target-dir", tdir], capture_output=True, text=True, env=env)
    if r.returncode != 0:
        raise ExtractError("probe.build", r.stderr[-400:])
    r = subprocess.run([os.path.join(tdir, "release", "chessprobe")], capture_output=True, text=True)
    if r.returncode != 0:
        raise ExtractError("probe.run", r.stderr[-400:])
    try:
        return json.loads(r.stdout)
    except Exception:
        raise ExtractError("probe.output", r.stdout[:200])


PROBE = {}


def get_probe():
    if "v" not in PROBE:
        PROBE["v"] = probe()
    return PROBE["v"]


def g_zobrist(C):
    # ------------------------------------------------------------ zobrist: VALUES from the compiled probe
    P = get_probe()
    btm, emp, state, piece = P["BLACK_TO_MOVE"], P["EMPTY_PLACE"], P["STATE"], P["PIECE"]
    if len(state) != 256:
        raise ExtractError("zobrist.STATE", f"{len(state)} keys")
    if (P["PIECE_ROWS"], P["PIECE_COLS"]) != (64, 12) or len(piece) != 768:
        raise ExtractError("zobrist.PIECE", f"{P['PIECE_ROWS']}x{P['PIECE_COLS']}")
    z = read("src/chess/zobrist.rs")
    m = need_shape("zobrist.file", r'include_bytes!\("\.\./\.\./(zobrist_bytes\.bin)"\)', z)
    with open(os.path.join(REPO, m.group(1) if m else "zobrist_bytes.bin"), "rb") as f:
        zb = f.read()

    def nums(count, start):
        return [int.from_bytes(zb[start + i * 8 : start + i * 8 + 8], "little") for i in range(count)]

    def window(item, vals):
        """byte offset of a contiguous little-endian window of the key file holding exactly these values (-1: none)"""
        off = zb.find(vals[0].to_bytes(8, "little"))
        while off >= 0:
            if nums(len(vals), off) == vals:
                return off
            off = zb.find(vals[0].to_bytes(8, "little"), off + 1)
        DRIFT.append({"item": item, "pattern": "keys are not a contiguous little-endian window of the key file"})
        return -1

    s_btm, s_emp, s_st, s_pc = window("zobrist.BLACK_TO_MOVE", [btm]), window("zobrist.EMPTY_PLACE", [emp]), window("zobrist.STATE", state), window("zobrist.PIECE", piece)
    # shape pins of the layout code (drift only: the values above are what the compiler computed)
    need_shape("zobrist.le", r"u64::from_le_bytes\(bytes\)", z)
    need_shape("zobrist.PIECE.layout", r"array\[i\]\[j\] = flat_array\[i \* 12 \+ j\];", z)
    C["zobrist"] = {"offsets": [s_btm, s_emp, s_st, s_pc], "BLACK_TO_MOVE": f"{btm:016X}", "EMPTY_PLACE": f"{emp:016X}", "source": "compiled probe"}
    digest = hashlib.sha256(b"".join(x.to_bytes(8, "little") for x in [btm, emp] + state + piece)).hexdigest()
    C["zobrist"]["sha256"] = digest

    readme = read("README.md", raw=True)
    m = need("readme.starthash", r"starting position hash is always `([0-9A-F]{16})`", readme)
    start_hash = int(m.group(1), 16)
    C["start_hash"] = m.group(1)
    return dict(btm=btm, emp=emp, state=state, piece=piece, s_btm=s_btm, s_emp=s_emp, s_st=s_st, s_pc=s_pc, start_hash=start_hash, digest=digest)


def g_scores(C):
    # ------------------------------------------------------------ scores: VALUES from the compiled probe
    P = get_probe()
    tables = {}
    for name in ["PAWN_SCORES", "KNIGHT_SCORES", "BISHOP_SCORES", "ROOK_SCORES", "QUEEN_SCORES",
                 "KING_SCORES_MIDDLE", "KING_SCORES_END"]:
        vals = P[name]
        if len(vals) != 64:
            raise ExtractError(f"scores.{name}", "not 64 entries")
        tables[name] = vals
    thr = P["ENDGAME_THRESHOLD"]
    C["ENDGAME_THRESHOLD"] = thr

    return dict(tables=tables, thr=thr)


def g_piece_facts(C):
    """Facts about the piece enums that every hash, score and text exercises on every case (SOFT group: when the text can
    no longer be read the last good values are kept and recorded as drift; a changed value shows up in the first case)."""
    mod = read("src/chess/mod.rs")
    # table order in Game::new must match PieceType order
    m = need("mod.piece_scores_order", r"let piece_scores: \[Cell<&\[i16; 64\]>; 6\] = \[(.*?)\];", mod)
    order = re.findall(r"Cell::new\(&scores::(\w+)\)", m.group(1))
    if order != ["QUEEN_SCORES", "ROOK_SCORES", "BISHOP_SCORES", "KNIGHT_SCORES", "PAWN_SCORES", "KING_SCORES_MIDDLE"]:
        raise ExtractError("mod.piece_scores_order", str(order))
    need_shape("mod.update_phase.table", r"self\.piece_scores\[PieceType::King as usize\]\.set\(&scores::KING_SCORES_END\)", mod)
    need_shape("mod.is_endgame.cmp", r"total_piece_score < 2 \* ENDGAME_THRESHOLD", mod)
    m = need("mod.Player", r"pub enum Player \{\s*White = (-?\d+),\s*Black = (-?\d+),?\s*\}", mod)
    if (int(m.group(1)), int(m.group(2))) != (1, -1):
        raise ExtractError("mod.Player", "discriminants changed")

    pc = read("src/chess/piece.rs")
    defs = const_defs(pc, read("src/constants.rs"))
    m = need("piece.PieceType", r"pub enum PieceType \{(.*?)\}", pc)
    ptorder = re.findall(r"\w+", m.group(1))
    if ptorder != ["Queen", "Rook", "Bishop", "Knight", "Pawn", "King"]:
        raise ExtractError("piece.PieceType", str(ptorder))
    body, _ = fn_body("piece.material_value", pc, r"fn material_value\(self\) -> u8 \{")
    mat = {}
    for name in ptorder:
        mm = need(f"piece.material_value.{name}", rf"(?:PieceType|Self)::{name} => ([^,}}]+)", body)
        mat[name] = cexpr(f"piece.material_value.{name}", mm.group(1), defs)
    C["material"] = mat
    need_shape("piece.as_index", r"let mut index = self\.piece_type as usize;\s*if self\.owner == Player::Black \{\s*index \+= 6;", pc)
    need_shape("piece.score.row", r"Player::White => 7 - pos\.row\(\),\s*Player::Black => pos\.row\(\),", pc)
    need_shape("piece.score.sign", r"piece_score \* self\.owner as Score", pc)
    return dict(mat=mat, ptorder=ptorder)


def g_deltas(C):
    mod = read("src/chess/mod.rs")
    pc = read("src/chess/piece.rs")
    # ------------------------------------------------------------ deltas (logic literals: soft)
    def ray_set(item, kind):
        body, _ = fn_body("piece.get_moves", pc, r"pub fn get_moves\(self, mut push: impl FnMut\(Move\), game: &Game, pos: Position\) \{")
        m = need(item, rf"PieceType::{kind} => \{{\s*search_deltas!\[(.*?)\];", body)
        return rays(item, m.group(1))

    rook_rays = soft("piece.rays.rook", "rook_rays", lambda: ray_set("piece.rays.rook", "Rook"))
    bishop_rays = soft("piece.rays.bishop", "bishop_rays", lambda: ray_set("piece.rays.bishop", "Bishop"))
    queen_rays = soft("piece.rays.queen", "queen_rays", lambda: ray_set("piece.rays.queen", "Queen"))

    def step_list(item, fn_re):
        b, _ = fn_body(item, pc, fn_re)
        m = need(item, r"for delta in ([^{]*?)\s*\{", b)
        return pairs(item, array_expr(item, m.group(1), pc))

    king_deltas = soft("piece.king_deltas", "king_deltas", lambda: step_list("piece.king_deltas", r"fn get_king_moves\(self, mut push: impl FnMut\(Move\), game: &Game, pos: Position\) \{"))
    knight_deltas = soft("piece.knight_deltas", "knight_deltas", lambda: step_list("piece.knight_deltas", r"fn get_knight_moves\(self, mut push: impl FnMut\(Move\), game: &Game, pos: Position\) \{"))

    def pawn_body():
        return fn_body("piece.get_pawn_moves", pc, r"fn get_pawn_moves\(self, mut push: impl FnMut\(Move\), game: &Game, pos: Position\) \{")[0]

    def two(item, name, kind="int"):
        def go():
            pb = pawn_body()
            mm = need(item, rf"let {name} = match self\.owner \{{\s*Player::White => (.*?),\s*Player::Black => (.*?),?\s*\}};", pb)
            if kind == "int":
                d = const_defs(pc)
                return cexpr(item, mm.group(1), d), cexpr(item, mm.group(2), d)
            return pairs(item, mm.group(1)), pairs(item, mm.group(2))
        return soft(item, {"en_passant_row": "ep_row", "first_row_delta": "first_delta"}.get(name, name), go)

    first_row = two("piece.pawn.first_row", "first_row")
    last_row = two("piece.pawn.last_row", "last_row")
    ep_row = two("piece.pawn.en_passant_row", "en_passant_row")
    normal_delta = two("piece.pawn.normal_delta", "normal_delta", "pairs")
    first_delta = two("piece.pawn.first_row_delta", "first_row_delta", "pairs")
    side_deltas = two("piece.pawn.side_deltas", "side_deltas", "pairs")

    def promo():
        pb = pawn_body()
        loops = re.findall(r"for new_piece in ([^{]*?)\s*\{", pb)
        if len(loops) != 2:
            raise ExtractError("piece.pawn.promo_order", "expected two promotion loops")
        orders = [re.findall(r"PieceType::(\w+)", array_expr("piece.pawn.promo_order", l, pc)) for l in loops]
        if orders[0] != orders[1] or not orders[0]:
            raise ExtractError("piece.pawn.promo_order", "the two loops differ")
        return orders

    promo_orders = soft("piece.pawn.promo_order", "promo_orders", promo)
    need_shape("piece.pawn.ep_rule", r"pos\.row\(\) == en_passant_row\s*&& valid_en_passant < 8\s*&& i8::abs\(valid_en_passant - pos\.col\(\)\) == 1", pawn_body() if re.search(r"fn get_pawn_moves", pc) else pc)

    def targeted():
        tb, _ = fn_body("mod.is_targeted", mod, r"pub fn is_targeted\(&self, position: Position, player: Player\) -> bool \{")
        exprs = [l for l in re.findall(r"for delta in ([^{]*?)\s*\{", tb, re.S) if re.match(r"\[|&?(?:\w+::)*[A-Z][A-Z0-9_]*$", l.strip())]
        loops = [pairs("mod.is_targeted.loops", array_expr("mod.is_targeted.loops", l, mod)) for l in exprs]
        kings = [l for l in loops if len(l) == 8 and all(max(abs(a), abs(b)) == 1 for a, b in l)]
        knights = [l for l in loops if len(l) == 8 and all(sorted((abs(a), abs(b))) == [1, 2] for a, b in l)]
        if len(kings) != 1 or len(knights) != 1:
            raise ExtractError("mod.is_targeted.loops", f"{len(kings)} king-step and {len(knights)} knight-jump loops")
        m = need("mod.is_targeted.pawn", r"Player::White => \{(.*?)\}\s*Player::Black => \{(.*?)\}\s*\};", tb)
        t_pawn_w = [tuple(map(int, x)) for x in re.findall(r"position\.add\(\((-?\d+), (-?\d+)\)\)", m.group(1))]
        t_pawn_b = [tuple(map(int, x)) for x in re.findall(r"position\.add\(\((-?\d+), (-?\d+)\)\)", m.group(2))]
        if len(t_pawn_w) != 2 or len(t_pawn_b) != 2:
            raise ExtractError("mod.is_targeted.pawn", "expected two pawn squares per colour")
        m = need("mod.is_targeted.lines", r"search_enemies_loops!\[\s*PieceType::Rook,\s*PieceType::Queen,(.*?)\];", tb)
        t_lines = rays("mod.is_targeted.lines", m.group(1))
        m = need("mod.is_targeted.diags", r"search_enemies_loops!\[\s*PieceType::Bishop,\s*PieceType::Queen,(.*?)\];", tb)
        t_diags = rays("mod.is_targeted.diags", m.group(1))
        return dict(t_king=kings[0], t_knight=knights[0], t_pawn_w=t_pawn_w, t_pawn_b=t_pawn_b, t_lines=t_lines, t_diags=t_diags)

    def targeted_soft():
        try:
            return targeted()
        except ExtractError as e:
            last = CACHE.get(GROUP[0], {})
            keys = ["t_king", "t_knight", "t_pawn_w", "t_pawn_b", "t_lines", "t_diags"]
            if not all(k in last for k in keys):
                raise
            DRIFT.append({"item": e.item, "pattern": str(e)[:100], "kept_last_good": "is_targeted deltas"})
            return {k: last[k] for k in keys}

    T = targeted_soft()

    pos = read("src/chess/position.rs")
    pdefs = const_defs(pos)
    homes = {}
    for name in ["WHITE_QUEEN_ROOK", "WHITE_KING_ROOK", "BLACK_QUEEN_ROOK", "BLACK_KING_ROOK"]:
        mm = need(f"position.{name}", rf"pub const {name}: Self = Self\(([^,]+), ([^)]+)\);", pos)
        homes[name] = (cexpr(f"position.{name}", mm.group(1), pdefs), cexpr(f"position.{name}", mm.group(2), pdefs))
    need_shape("position.as_usize", r"\(self\.0 \* 8 \+ self\.1\) as usize", pos)
    C["homes"] = homes
    return dict(rook_rays=rook_rays, bishop_rays=bishop_rays, queen_rays=queen_rays, king_deltas=king_deltas, knight_deltas=knight_deltas, first_row=first_row, last_row=last_row, ep_row=ep_row, normal_delta=normal_delta, first_row_delta=first_delta, first_delta=first_delta, side_deltas=side_deltas, promo_orders=promo_orders, homes=homes, **T)


def g_letters(C):
    pc = read("src/chess/piece.rs")
    ptorder = ["Queen", "Rook", "Bishop", "Knight", "Pawn", "King"]
    # ------------------------------------------------------------ letters
    def letters(item, text, fn_re, keyre=r"PieceType::(\w+) => '(.)'"):
        b, _ = fn_body(item, text, fn_re)
        return dict(re.findall(keyre, b))

    ascii_tab = letters("piece.as_char_ascii", pc, r"pub fn as_char_ascii\(self\) -> char \{")
    pgn_tab = dict(re.findall(r'PieceType::(\w+) => "(\w?)"', fn_body("piece.as_str_pgn", pc, r"pub fn as_str_pgn\(self\) -> &'static str \{")[0]))
    b, _ = fn_body("piece.from_char_ascii", pc, r"pub fn from_char_ascii\(piece: char\) -> Option<Self> \{")
    from_tab = dict((v, k) for k, v in re.findall(r"'(.)' => PieceType::(\w+)", b))
    ab, _ = fn_body("piece.as_char", pc, r"pub fn as_char\(self\) -> char \{")
    m = need("piece.as_char.split", r"Player::White => match self\.piece_type \{(.*?)\},\s*Player::Black => match self\.piece_type \{(.*?)\},", ab)
    glyph_w = dict(re.findall(r"PieceType::(\w+) => '(.)'", m.group(1)))
    glyph_b = dict(re.findall(r"PieceType::(\w+) => '(.)'", m.group(2)))
    for t, n in [(ascii_tab, 6), (pgn_tab, 6), (from_tab, 6), (glyph_w, 6), (glyph_b, 6)]:
        if len(t) != n:
            raise ExtractError("piece.letters", f"table size {len(t)}")
    ms = read("src/chess/move_struct.rs")
    ub, _ = fn_body("move.uci_notation", ms, r"pub fn uci_notation\(&self\) -> String \{")
    uci_promo = dict(re.findall(r"PieceType::(\w+) => '(.)'", ub))
    pb2, _ = fn_body("move.pgn_notation", ms, r"pub fn pgn_notation\(&self\) -> String \{")
    pgn_promo = dict(re.findall(r"PieceType::(\w+) => '(.)'", pb2))
    if len(uci_promo) != 4 or len(pgn_promo) != 4:
        raise ExtractError("move.promo_letters", "expected 4 letters each")
    C["letters"] = {"ascii": ascii_tab, "pgn": pgn_tab, "from": from_tab, "uci_promo": uci_promo, "pgn_promo": pgn_promo}
    return dict(ascii_tab=ascii_tab, pgn_tab=pgn_tab, from_tab=from_tab, glyph_w=glyph_w, glyph_b=glyph_b, uci_promo=uci_promo, pgn_promo=pgn_promo)


def g_constants(C):
    mod = read("src/chess/mod.rs")
    se = read("src/search.rs")
    uci = read("src/uci.rs")
    auto = read("src/autoplay.rs")
    con = read("src/constants.rs")
    sdefs = const_defs(se, con)
    udefs = const_defs(uci, con)
    adefs = const_defs(auto, con)
    mdefs = const_defs(mod, con)
    # ------------------------------------------------------------ capacities (DATA: must be readable) & search constants
    m = need("mod.state_cap", r"state: ArrayVec<GameState, ([^>]+)>", mod)
    state_cap = cexpr("mod.state_cap", m.group(1), mdefs)
    m = need("mod.moves_cap", r"pub fn get_moves\(&mut self, \w+: &mut ArrayVec<Move, ([^>]+)>", mod)
    moves_cap = cexpr("mod.moves_cap", m.group(1), mdefs)
    m = need("search.killer_len", r"let mut killer_moves = \[None; ([^\]]+)\];", se)
    killer_len = cexpr("search.killer_len", m.group(1), sdefs)
    max_depth_const = cexpr("search.MAX_DEPTH", "MAX_DEPTH", sdefs)
    need_shape("search.limit", r"let limit = max_depth\.unwrap_or\(MAX_DEPTH\)\.clamp\(1, MAX_DEPTH\);", se)
    need_shape("search.loop", r"for depth in starting_depth\.\.=limit \{", se)
    need_shape("search.exit_at_limit", r"if depth == limit\s*\|\| is_only_move", se)
    m = need("search.history_len", r"history: &mut \[u16; ([^\]]+)\]", se)
    history_len = cexpr("search.history_len", m.group(1), sdefs)

    def guard(item, text, defs, tail=r""):
        m = need(item, r"if game\.len\(\) (>=|>) ([^{]+?) \{" + tail, text)
        v = cexpr(item, m.group(2), defs)
        return v if m.group(1) == ">=" else v + 1

    len_guard = guard("uci.len_guard", uci, udefs)
    auto_len_guard = guard("autoplay.len_guard", auto, adefs, r"\s*break;")
    need_shape("autoplay.loop", r"get_best_move_until_stop\(&game, &mut cache, &search_is_running, None\)", auto)
    m = need("uci.FRACTION", r"const FRACTION_OF_TOTAL_TIME: f64 = ([\d._]+);", uci)
    fraction = m.group(1).replace("_", "")
    latency = cexpr("uci.LATENCY", "LATENCY_MS_COMPENSATE", udefs)
    # the trim of the timer's sleep: a Duration subtracted from a Duration, inline or through a named Duration constant
    dconst = dict(re.findall(r"const\s+(\w+)\s*:\s*Duration\s*=\s*Duration::from_millis\(([^)]+)\)\s*;", uci))
    cands = re.findall(r"\.saturating_sub\(\s*(?:Duration::from_millis\(([^)]+)\)|([A-Z_][A-Z0-9_]*))\s*\)", uci)
    vals = [a if a else dconst.get(b) for a, b in cands if a or b in dconst]
    if len(vals) != 1:
        raise ExtractError("uci.cut", f"{len(vals)} Duration trims found")
    cut = cexpr("uci.cut", vals[0], udefs)
    tt_cap = get_probe()["TT_CAPACITY"]

    def mate_of(name, pat):
        def go():
            mm = need(f"search.{name}", pat, se)
            return cexpr(f"search.{name}", mm.group(1), sdefs)
        return go

    last = CACHE.get(GROUP[0], {}).get("mate", {})
    mate = {}
    for name, pat in [("mate_node", r"return Some\(Score::MIN \+ ([\w:]+) \+ real_depth as Score\);"),
                      ("mate_d1", r"fn get_best_move_score_depth_1.*?return Score::MIN \+ ([\w:]+) \+ real_depth as Score;"),
                      ("mate_q", r"fn quiescence_search.*?return Score::MIN \+ ([\w:]+) \+ real_depth as Score;")]:
        try:
            mate[name] = mate_of(name, pat)()
        except ExtractError as e:
            if name not in last:
                raise
            DRIFT.append({"item": e.item, "pattern": str(e)[:100], "kept_last_good": name})
            mate[name] = last[name]

    def exit_hi_f():
        m = need("search.exit_hi", r"best_score (>=|>) Score::MAX - ([\w:]+)", se)
        v = cexpr("search.exit_hi", m.group(2), sdefs)
        return v if m.group(1) == ">" else v + 1

    def exit_lo_f():
        m = need("search.exit_lo", r"best_score (<=|<) Score::MIN \+ ([\w:]+)", se)
        v = cexpr("search.exit_lo", m.group(2), sdefs)
        return v if m.group(1) == "<" else v + 1

    exit_hi = soft("search.exit_hi", "exit_hi", exit_hi_f)
    exit_lo = soft("search.exit_lo", "exit_lo", exit_lo_f)

    def fw():
        found = re.findall(r"if index (<=|<) ([\w:]+) \{", se)
        vals = [cexpr("search.full_window", v, sdefs) - (0 if op == "<=" else 1) for op, v in found]
        if len(vals) != 2 or len(set(vals)) != 1:
            raise ExtractError("search.full_window", str(found))
        return [str(vals[0]), str(vals[1])]

    full_window = soft("search.full_window", "full_window", fw)
    need_shape("search.root_window", r"let mut best_score = Score::MIN \+ 1;", se)
    C["caps"] = {"state": state_cap, "moves": moves_cap, "killer": killer_len, "history": history_len,
                 "len_guard": len_guard, "tt": tt_cap, "max_depth": max_depth_const}
    C["search"] = {"mate": mate, "exit_hi": exit_hi, "exit_lo": exit_lo, "full_window": int(full_window[0])}
    C["time"] = {"fraction": fraction, "latency": latency, "cut": cut}
    return dict(state_cap=state_cap, moves_cap=moves_cap, killer_len=killer_len, history_len=history_len, len_guard=len_guard, max_depth_const=max_depth_const, mate=mate, exit_hi=exit_hi, exit_lo=exit_lo, full_window=full_window, latency=latency, cut=cut, fraction=fraction, tt_cap=tt_cap, auto_len_guard=auto_len_guard)


def g_unsafe(C):
    # ------------------------------------------------------------ unchecked-site inventory
    sites = []
    srcdir = os.path.join(REPO, "src")
    for root, _, files in sorted(os.walk(srcdir)):
        for fn in sorted(files):
            if not fn.endswith(".rs") or fn == "verif_hooks.rs":
                continue
            rel = os.path.relpath(os.path.join(root, fn), REPO)
            text = read(rel)
            cur_fn = None
            for ln, line in enumerate(text.split("\n"), 1):
                s = line.strip()
                if s.startswith("//"):
                    continue
                mm = re.search(r"\bfn (\w+)", line)
                if mm:
                    cur_fn = mm.group(1)
                for kind, pat in [("unsafe_block", r"\bunsafe \{"), ("get_unchecked_mut", r"get_unchecked_mut\("),
                                  ("get_unchecked", r"get_unchecked\("), ("push_unchecked", r"push_unchecked\("),
                                  ("unwrap_unchecked", r"unwrap_unchecked\("), ("add_unsafe", r"\.add_unsafe\("),
                                  ("new_unsafe", r"::new_unsafe\(")]:
                    for _ in re.finditer(pat, line):
                        sites.append({"file": rel, "fn": cur_fn, "kind": kind, "line": ln})
    C["unsafe_sites"] = sites
    return dict(sites=sites)


GROUPS = [
    ('zobrist', g_zobrist, ['C03', 'C04', 'C05', 'C06', 'C11', 'C17', 'C18', 'C19']),
    ('scores', g_scores, ['C03', 'C09', 'C10', 'C16', 'C19']),
    ('piece facts', g_piece_facts, ['C04', 'C09', 'C16']),
    ('deltas', g_deltas, ['C01', 'C02', 'C03', 'C06', 'C07', 'C09', 'C10', 'C12', 'C15', 'C18', 'C19']),
    ('letters', g_letters, ['C11', 'C12', 'C17', 'C20']),
    ('capacities & search constants', g_constants, ['C06', 'C07', 'C08', 'C09', 'C10', 'C13', 'C15', 'C18', 'C19']),
    ('unchecked-site inventory', g_unsafe, ['C15']),
]


# groups whose values every single case exercises (letters in every text, piece order / colours / material values in every
# hash and score): unreadable => last good values + drift (widened search), not a broken tie
SOFT_GROUPS = {"letters", "piece facts"}


def f64_mant(text):
    """(m, e) with float(text) == m * 2**-e exactly and 2**52 <= m < 2**53 (normal positive doubles below 1)"""
    import math
    x = float(text)
    if not (0 < x < 1):
        return (0, 0)
    m, e = math.frexp(x)                # x = m * 2**e, 0.5 <= m < 1
    mant = int(m * (1 << 53))
    assert mant * 2.0 ** (e - 53) == x
    return (mant, 53 - e)


def emit(V, C, broken):
    btm = V['btm']
    emp = V['emp']
    state = V['state']
    piece = V['piece']
    s_btm = V['s_btm']
    s_emp = V['s_emp']
    s_st = V['s_st']
    s_pc = V['s_pc']
    start_hash = V['start_hash']
    digest = V['digest']
    tables = V['tables']
    thr = V['thr']
    mat = V['mat']
    ptorder = V['ptorder']
    rook_rays = V['rook_rays']
    bishop_rays = V['bishop_rays']
    queen_rays = V['queen_rays']
    king_deltas = V['king_deltas']
    knight_deltas = V['knight_deltas']
    first_row = V['first_row']
    last_row = V['last_row']
    ep_row = V['ep_row']
    normal_delta = V['normal_delta']
    first_delta = V['first_delta']
    side_deltas = V['side_deltas']
    promo_orders = V['promo_orders']
    t_king = V['t_king']
    t_knight = V['t_knight']
    t_pawn_w = V['t_pawn_w']
    t_pawn_b = V['t_pawn_b']
    t_lines = V['t_lines']
    t_diags = V['t_diags']
    homes = V['homes']
    ascii_tab = V['ascii_tab']
    pgn_tab = V['pgn_tab']
    from_tab = V['from_tab']
    glyph_w = V['glyph_w']
    glyph_b = V['glyph_b']
    uci_promo = V['uci_promo']
    pgn_promo = V['pgn_promo']
    state_cap = V['state_cap']
    moves_cap = V['moves_cap']
    killer_len = V['killer_len']
    history_len = V['history_len']
    len_guard = V['len_guard']
    auto_len_guard = V.get('auto_len_guard', V['len_guard'])
    max_depth_const = V['max_depth_const']
    mate = V['mate']
    exit_hi = V['exit_hi']
    exit_lo = V['exit_lo']
    full_window = V['full_window']
    latency = V['latency']
    cut = V['cut']
    fraction = V['fraction']
    tt_cap = V['tt_cap']
    sites = V['sites']
    os.makedirs(OUT, exist_ok=True)
    os.makedirs(os.path.dirname(GEN_JSON), exist_ok=True)

    def u64arr(vals):
        return "#[" + ",\n  ".join(", ".join(f"0x{v:016X}" for v in vals[i:i + 4]) for i in range(0, len(vals), 4)) + "]"

    def intarr(vals):
        return "#[" + ", ".join(str(v) for v in vals) + "]"

    def pairlist(ps):
        return "[" + ", ".join(f"(({a} : Int), ({b} : Int))" for a, b in ps) + "]"

    zl = f"""-- GENERATED by tools/extract.py from src/chess/zobrist.rs + zobrist_bytes.bin + README.md of the repository working tree. Do not edit.
namespace Chess.Gen

def blackToMove : UInt64 := 0x{btm:016X}
def emptyPlace : UInt64 := 0x{emp:016X}
/-- `zobrist::STATE`, 256 keys (byte offset {s_st}). -/
def stateKeys : Array UInt64 := {u64arr(state)}
/-- `zobrist::PIECE` flattened: index `sq * 12 + piece.as_index()` (byte offset {s_pc}). -/
def pieceKeys : Array UInt64 := {u64arr(piece)}
/-- The start-position hash published in README.md. -/
def readmeStartHash : UInt64 := 0x{start_hash:016X}

end Chess.Gen
"""
    lt = lambda d, k: "'" + d[k] + "'"
    tl = f"""-- GENERATED by tools/extract.py from src/ of the repository working tree. Do not edit.
namespace Chess.Gen

def queenScores : Array Int := {intarr(tables['QUEEN_SCORES'])}
def rookScores : Array Int := {intarr(tables['ROOK_SCORES'])}
def bishopScores : Array Int := {intarr(tables['BISHOP_SCORES'])}
def knightScores : Array Int := {intarr(tables['KNIGHT_SCORES'])}
def pawnScores : Array Int := {intarr(tables['PAWN_SCORES'])}
def kingScoresMiddle : Array Int := {intarr(tables['KING_SCORES_MIDDLE'])}
def kingScoresEnd : Array Int := {intarr(tables['KING_SCORES_END'])}
def endgameThreshold : Nat := {thr}

def matQueen : Nat := {mat['Queen']}
def matRook : Nat := {mat['Rook']}
def matBishop : Nat := {mat['Bishop']}
def matKnight : Nat := {mat['Knight']}
def matPawn : Nat := {mat['Pawn']}
def matKing : Nat := {mat['King']}

-- move generation (piece.rs), in source order
def rookRays : List (Int × Int) := {pairlist(rook_rays)}
def bishopRays : List (Int × Int) := {pairlist(bishop_rays)}
def queenRays : List (Int × Int) := {pairlist(queen_rays)}
def kingDeltas : List (Int × Int) := {pairlist(king_deltas)}
def knightDeltas : List (Int × Int) := {pairlist(knight_deltas)}
def pawnFirstRowW : Int := {first_row[0]}
def pawnFirstRowB : Int := {first_row[1]}
def pawnLastRowW : Int := {last_row[0]}
def pawnLastRowB : Int := {last_row[1]}
def pawnEpRowW : Int := {ep_row[0]}
def pawnEpRowB : Int := {ep_row[1]}
def pawnDeltaW : Int × Int := {pairlist(normal_delta[0])[1:-1]}
def pawnDeltaB : Int × Int := {pairlist(normal_delta[1])[1:-1]}
def pawnFirstDeltaW : Int × Int := {pairlist(first_delta[0])[1:-1]}
def pawnFirstDeltaB : Int × Int := {pairlist(first_delta[1])[1:-1]}
def pawnSideDeltasW : List (Int × Int) := {pairlist(side_deltas[0])}
def pawnSideDeltasB : List (Int × Int) := {pairlist(side_deltas[1])}
/-- promotion order as indices into PieceType (Queen=0, Rook=1, Bishop=2, Knight=3) -/
def promoOrder : List Nat := {[ptorder.index(p) for p in promo_orders[0]]}

-- attack detection (mod.rs is_targeted), in source order
def tKingDeltas : List (Int × Int) := {pairlist(t_king)}
def tKnightDeltas : List (Int × Int) := {pairlist(t_knight)}
def tPawnW : List (Int × Int) := {pairlist(t_pawn_w)}
def tPawnB : List (Int × Int) := {pairlist(t_pawn_b)}
def tLineRays : List (Int × Int) := {pairlist(t_lines)}
def tDiagRays : List (Int × Int) := {pairlist(t_diags)}

-- rook home squares (position.rs) as (row, col)
def whiteQueenRook : Int × Int := (({homes['WHITE_QUEEN_ROOK'][0]} : Int), ({homes['WHITE_QUEEN_ROOK'][1]} : Int))
def whiteKingRook : Int × Int := (({homes['WHITE_KING_ROOK'][0]} : Int), ({homes['WHITE_KING_ROOK'][1]} : Int))
def blackQueenRook : Int × Int := (({homes['BLACK_QUEEN_ROOK'][0]} : Int), ({homes['BLACK_QUEEN_ROOK'][1]} : Int))
def blackKingRook : Int × Int := (({homes['BLACK_KING_ROOK'][0]} : Int), ({homes['BLACK_KING_ROOK'][1]} : Int))

-- letter tables: index = PieceType order Queen, Rook, Bishop, Knight, Pawn, King
def asciiLetters : List Char := [{', '.join(lt(ascii_tab, k) for k in ptorder)}]
def pgnLetters : List String := [{', '.join('"' + pgn_tab[k] + '"' for k in ptorder)}]
def fromLetters : List Char := [{', '.join(lt(from_tab, k) for k in ptorder)}]
def glyphsWhite : List Char := [{', '.join(lt(glyph_w, k) for k in ptorder)}]
def glyphsBlack : List Char := [{', '.join(lt(glyph_b, k) for k in ptorder)}]
def uciPromoLetters : List Char := [{', '.join(lt(uci_promo, k) for k in ptorder[:4])}]
def pgnPromoLetters : List Char := [{', '.join(lt(pgn_promo, k) for k in ptorder[:4])}]

-- capacities and guards
def stateCap : Nat := {state_cap}
def movesCap : Nat := {moves_cap}
def killerLen : Nat := {killer_len}
def historyLen : Nat := {history_len}
def lenGuard : Nat := {len_guard}
/-- the guard of the self-play loop (autoplay.rs) -/
def autoLenGuard : Nat := {auto_len_guard}
def maxDepth : Nat := {max_depth_const}

-- search constants
def mateNode : Int := {mate['mate_node']}
def mateD1 : Int := {mate['mate_d1']}
def mateQ : Int := {mate['mate_q']}
def exitHi : Int := {exit_hi}
def exitLo : Int := {exit_lo}
def fullWindowMaxIndex : Nat := {int(full_window[0])}

-- time constants (uci.rs); fraction is per-mille to stay in Nat
def latencyMs : Nat := {latency}
def sleepCutMs : Nat := {cut}
def fractionText : String := "{fraction}"
/-- the literal as an IEEE-754 binary64: value = fractionMant * 2^-fractionExp (53-bit significand) -/
def fractionMant : Nat := {f64_mant(fraction)[0]}
def fractionExp : Nat := {f64_mant(fraction)[1]}

/-- Number of unchecked sites found in src/ (inventory in gen/constants.json). -/
def unsafeSiteCount : Nat := {len(sites)}
/-- (file, fn, kind) multiset of unchecked sites, sorted. -/
def unsafeSites : List (String × String × String) := [
  {(',' + chr(10) + '  ').join('("%s", "%s", "%s")' % (s['file'], s['fn'], s['kind']) for s in sorted(sites, key=lambda s: (s['file'], s['fn'] or '', s['kind'], s['line'])))}]

end Chess.Gen
"""

    def write_if_changed(path, content):
        try:
            with open(path, "r", encoding="utf-8") as f:
                if f.read() == content:
                    return False
        except FileNotFoundError:
            pass
        tmp = path + ".tmp%d" % os.getpid()        # several checks may run at once: atomic replace
        with open(tmp, "w", encoding="utf-8") as f:
            f.write(content)
        os.replace(tmp, path)
        return True

    ch1 = write_if_changed(os.path.join(OUT, "Zobrist.lean"), zl)
    ch2 = write_if_changed(os.path.join(OUT, "Tables.lean"), tl)
    write_if_changed(GEN_JSON, json.dumps(C, indent=1, sort_keys=True, ensure_ascii=False) + "\n")
    print(json.dumps({"ok": True, "changed": [ch1, ch2], "zobrist_sha256": digest, "unsafe_sites": len(sites), "broken": broken, "drift": DRIFT}))




# which properties' THEOREMS consume an item (longest matching prefix wins); every other property is
# tied to the code behind the item by the correspondence check alone, which reports real
# behavioural differences by itself
ITEM_PROPS = [
    ("zobrist.", ["C04", "C05"]), ("readme.", ["C04"]),
    ("scores.", ["C16"]), ("mod.piece_scores_order", ["C16"]), ("mod.update_phase", ["C16"]), ("mod.is_endgame", ["C16"]),
    ("mod.Player", ["C16", "C04"]), ("piece.PieceType", ["C16", "C04"]), ("piece.material_value", ["C09"]),
    ("piece.as_index", ["C04"]), ("piece.score", ["C16"]),
    ("mod.is_targeted", ["C01", "C02"]), ("piece.rays", ["C01", "C02"]), ("piece.get_moves", ["C01", "C02"]),
    ("piece.king_deltas", ["C01", "C02"]), ("piece.get_king_moves", ["C01", "C02"]),
    ("piece.knight_deltas", ["C01", "C02"]), ("piece.get_knight_moves", ["C01", "C02"]),
    ("piece.pawn", ["C01", "C02", "C15"]), ("piece.get_pawn_moves", ["C01", "C02", "C15"]),
    ("position.", ["C02", "C15"]),
    ("piece.as_char_ascii", ["C11"]), ("piece.from_char_ascii", ["C17"]), ("piece.as_str_pgn", ["C20"]),
    ("piece.as_char", ["C20"]), ("piece.letters", ["C11", "C17", "C20"]),
    ("move.uci_notation", ["C12"]), ("move.pgn_notation", ["C20"]), ("move.promo_letters", ["C12", "C20"]),
    ("mod.state_cap", ["C15"]), ("mod.moves_cap", ["C15"]), ("uci.len_guard", ["C15", "C12"]), ("autoplay.", ["C15"]),
    ("search.killer_len", ["C08", "C15"]), ("search.MAX_DEPTH", ["C08", "C15"]), ("search.limit", ["C08"]),
    ("search.loop", ["C08"]), ("search.exit_at_limit", ["C08"]), ("search.history_len", ["C08", "C15"]),
    ("search.mate", ["C10"]), ("search.exit_", ["C10", "C08"]), ("search.full_window", ["C09"]), ("search.root_window", ["C09"]),
    ("uci.FRACTION", ["C13"]), ("uci.LATENCY", ["C13"]), ("uci.cut", ["C13"]), ("constants.", []),
]


def props_of_item(item, default):
    best = None
    for pre, props in ITEM_PROPS:
        if item.startswith(pre) and (best is None or len(pre) > len(best[0])):
            best = (pre, props)
    return best[1] if best else default


def main():
    cache_path = os.path.join(os.path.dirname(GEN_JSON), "extract_cache.json")
    try:
        with open(cache_path) as f:
            cache = json.load(f)
    except Exception:
        # no run on this checkout yet: the values recorded on the validated tree (committed next to validated_source.json)
        try:
            with open(os.path.join(os.path.dirname(os.path.abspath(__file__)), "..", "validated_extract.json")) as f:
                cache = json.load(f)
        except Exception:
            cache = {}
    V, C, broken = {}, {}, []
    CACHE.update(cache)
    for name, fn, props in GROUPS:
        GROUP[0] = name
        try:
            vals = json.loads(json.dumps(fn(C)))          # normalise (tuples -> lists) exactly as the cache does
            cache[name] = vals
        except ExtractError as e:
            if name not in cache:
                raise
            if name in SOFT_GROUPS:
                DRIFT.append({"item": e.item, "pattern": str(e)[:100], "kept_last_good": "group " + name})
                V.update(cache[name])
                continue
            broken.append({"group": name, "item": e.item, "msg": str(e)[:300], "properties": props_of_item(e.item, props)})
            vals = cache[name]
        V.update(vals)
    os.makedirs(os.path.dirname(GEN_JSON), exist_ok=True)
    if not broken and not DRIFT:
        tmp = cache_path + ".tmp%d" % os.getpid()
        with open(tmp, "w") as f:
            json.dump(cache, f)
        os.replace(tmp, cache_path)
    emit(V, C, broken)


if __name__ == "__main__":
    try:
        main()
    except ExtractError as e:
        print(json.dumps({"ok": False, "item": e.item, "msg": str(e)}))
        sys.exit(2)
