#!/usr/bin/env python3
"""Regenerate Chess/Gen/*.lean and gen/constants.json from /repo's working tree.

Every item is REQUIRED. The items are extracted in GROUPS (zobrist, scores, deltas, letters,
constants, unsafe inventory); when a pattern of a group is missing the group is reported as a
BROKEN TIE together with the properties that consume it (./check reports exactly those as
`extract:<item>` obligations), and the group's LAST GOOD values (gen/extract_cache.json, written
only by fully successful runs) keep the model buildable so that the other properties can still be
checked and the search for a failing input can still run. Nothing is ever defaulted: without a
cached good value the run fails.
"""
import hashlib
import json
import os
import re
import sys

REPO = os.environ.get("VERIF_REPO", "/repo")
OUT = os.path.join(os.path.dirname(os.path.abspath(__file__)), "..", "lean", "Chess", "Gen")
GEN_JSON = os.path.join(os.path.dirname(os.path.abspath(__file__)), "..", "gen", "constants.json")


class ExtractError(Exception):
    def __init__(self, item, msg=""):
        super().__init__(f"extract:{item} {msg}")
        self.item = item


def read(rel):
    with open(os.path.join(REPO, rel), "r", encoding="utf-8") as f:
        return f.read()


def lineno(text, idx):
    return text.count("\n", 0, idx) + 1


def need(item, pattern, text, flags=re.S):
    m = re.search(pattern, text, flags)
    if not m:
        raise ExtractError(item, f"pattern not found: {pattern[:60]!r}")
    return m


def fn_body(item, text, header_re):
    """Return (body, start_index) of the brace-delimited block after header_re."""
    m = need(item, header_re, text)
    i = text.index("{", m.end() - 1) if text[m.end() - 1] != "{" else m.end() - 1
    depth = 0
    j = i
    while j < len(text):
        c = text[j]
        if c == "{":
            depth += 1
        elif c == "}":
            depth -= 1
            if depth == 0:
                return text[i : j + 1], i
        j += 1
    raise ExtractError(item, "unbalanced braces")


def pairs(item, s):
    ps = re.findall(r"\(\s*(-?\d+)\s*,\s*(-?\d+)\s*\)", s)
    if not ps:
        raise ExtractError(item, "no pairs")
    return [(int(a), int(b)) for a, b in ps]


RAY = {
    "(0,x)": (0, 1), "(0,-x)": (0, -1), "(x,0)": (1, 0), "(-x,0)": (-1, 0),
    "(x,x)": (1, 1), "(-x,-x)": (-1, -1), "(x,-x)": (1, -1), "(-x,x)": (-1, 1),
}


def rays(item, s):
    out = []
    for m in re.finditer(r"\(1\.\.\)\.map\(\|x\|\s*(\([^)]*\))\)", s):
        k = m.group(1).replace(" ", "")
        if k not in RAY:
            raise ExtractError(item, f"unknown ray closure {k}")
        out.append(RAY[k])
    if not out:
        raise ExtractError(item, "no rays")
    return out


def g_zobrist(C):
    # ------------------------------------------------------------ zobrist
    z = read("src/chess/zobrist.rs")
    m = need("zobrist.file", r'include_bytes!\("\.\./\.\./(zobrist_bytes\.bin)"\)', z)
    with open(os.path.join(REPO, m.group(1)), "rb") as f:
        zb = f.read()
    m = need("zobrist.filelen", r"&\[u8;\s*(\d+)\]", z)
    if int(m.group(1)) != len(zb):
        raise ExtractError("zobrist.filelen", "declared length differs from file")
    need("zobrist.le", r"u64::from_le_bytes\(bytes\)", z)
    body, _ = fn_body("zobrist.window", z, r"const fn get_random_nums<const COUNT: usize>\(start: usize\)[^{]*\{")
    for k in range(8):
        pat = r"ZOBRIST_NUMS\[start \+ i \* 8\]" if k == 0 else rf"ZOBRIST_NUMS\[start \+ i \* 8 \+ {k}\]"
        need(f"zobrist.window.byte{k}", pat, body)
    need("zobrist.window.order", r"let bytes = \[\s*" + r",\s*".join(
        [r"ZOBRIST_NUMS\[start \+ i \* 8\]"] + [rf"ZOBRIST_NUMS\[start \+ i \* 8 \+ {k}\]" for k in range(1, 8)]) + r",?\s*\]", body)

    def nums(count, start):
        return [int.from_bytes(zb[start + i * 8 : start + i * 8 + 8], "little") for i in range(count)]

    def start_expr(item, name, cnt):
        m = need(item, rf"{name}[^=]*=\s*(?:\{{\s*let flat_array = )?get_random_nums::<{cnt}>\(([^)]*)\)", z)
        e = m.group(1).replace(" ", "")
        if not re.fullmatch(r"\d+(\+\d+)*", e):
            raise ExtractError(item, "start expression not a sum of literals")
        return sum(int(t) for t in e.split("+"))

    s_btm = start_expr("zobrist.BLACK_TO_MOVE", "BLACK_TO_MOVE", 1)
    s_emp = start_expr("zobrist.EMPTY_PLACE", "EMPTY_PLACE", 1)
    s_st = start_expr("zobrist.STATE", r"STATE: \[u64; 256\]", 256)
    s_pc = start_expr("zobrist.PIECE", r"PIECE: \[\[u64; 12\]; 64\]", 768)
    need("zobrist.PIECE.layout", r"array\[i\]\[j\] = flat_array\[i \* 12 \+ j\];", z)
    need("zobrist.PIECE.i", r"while i < 64", z)
    need("zobrist.PIECE.j", r"while j < 12", z)
    btm = nums(1, s_btm)[0]
    emp = nums(1, s_emp)[0]
    state = nums(256, s_st)
    piece = nums(768, s_pc)
    C["zobrist"] = {"offsets": [s_btm, s_emp, s_st, s_pc], "BLACK_TO_MOVE": f"{btm:016X}", "EMPTY_PLACE": f"{emp:016X}"}
    digest = hashlib.sha256(b"".join(x.to_bytes(8, "little") for x in [btm, emp] + state + piece)).hexdigest()
    C["zobrist"]["sha256"] = digest

    readme = read("README.md")
    m = need("readme.starthash", r"starting position hash is always `([0-9A-F]{16})`", readme)
    start_hash = int(m.group(1), 16)
    C["start_hash"] = m.group(1)
    return dict(btm=btm, emp=emp, state=state, piece=piece, s_btm=s_btm, s_emp=s_emp, s_st=s_st, s_pc=s_pc, start_hash=start_hash, digest=digest)


def g_scores(C):
    # ------------------------------------------------------------ scores
    sc = read("src/chess/scores.rs")
    tables = {}
    for name in ["PAWN_SCORES", "KNIGHT_SCORES", "BISHOP_SCORES", "ROOK_SCORES", "QUEEN_SCORES",
                 "KING_SCORES_MIDDLE", "KING_SCORES_END"]:
        m = need(f"scores.{name}", rf"pub const {name}: \[i16; 64\] = \[(.*?)\];", sc)
        vals = [int(v) for v in re.findall(r"-?\d+", m.group(1))]
        if len(vals) != 64:
            raise ExtractError(f"scores.{name}", "not 64 entries")
        tables[name] = vals
    m = need("scores.ENDGAME_THRESHOLD", r"pub const ENDGAME_THRESHOLD: u32 = ([\d_ +]+);", sc)
    thr = sum(int(t.replace("_", "")) for t in m.group(1).split("+"))
    C["ENDGAME_THRESHOLD"] = thr

    mod = read("src/chess/mod.rs")
    # table order in Game::new must match PieceType order
    m = need("mod.piece_scores_order", r"let piece_scores: \[Cell<&\[i16; 64\]>; 6\] = \[(.*?)\];", mod)
    order = re.findall(r"Cell::new\(&scores::(\w+)\)", m.group(1))
    if order != ["QUEEN_SCORES", "ROOK_SCORES", "BISHOP_SCORES", "KNIGHT_SCORES", "PAWN_SCORES", "KING_SCORES_MIDDLE"]:
        raise ExtractError("mod.piece_scores_order", str(order))
    need("mod.update_phase.table", r"self\.piece_scores\[PieceType::King as usize\]\.set\(&scores::KING_SCORES_END\)", mod)
    need("mod.is_endgame.cmp", r"total_piece_score < 2 \* ENDGAME_THRESHOLD", mod)
    m = need("mod.Player", r"pub enum Player \{\s*White = (-?\d+),\s*Black = (-?\d+),\s*\}", mod)
    if (int(m.group(1)), int(m.group(2))) != (1, -1):
        raise ExtractError("mod.Player", "discriminants changed")

    pc = read("src/chess/piece.rs")
    m = need("piece.PieceType", r"pub enum PieceType \{(.*?)\}", pc)
    ptorder = re.findall(r"\w+", m.group(1))
    if ptorder != ["Queen", "Rook", "Bishop", "Knight", "Pawn", "King"]:
        raise ExtractError("piece.PieceType", str(ptorder))
    body, _ = fn_body("piece.material_value", pc, r"pub fn material_value\(self\) -> u8 \{\s*match self \{")
    mat = {}
    for name in ptorder:
        mm = need(f"piece.material_value.{name}", rf"PieceType::{name} => (\d+)", body)
        mat[name] = int(mm.group(1))
    C["material"] = mat
    need("piece.as_index", r"let mut index = self\.piece_type as usize;\s*if self\.owner == Player::Black \{\s*index \+= 6;", pc)
    need("piece.score.row", r"Player::White => 7 - pos\.row\(\),\s*Player::Black => pos\.row\(\),", pc)
    need("piece.score.sign", r"piece_score \* self\.owner as Score", pc)
    return dict(tables=tables, thr=thr, mat=mat, ptorder=ptorder)


def g_deltas(C):
    mod = read("src/chess/mod.rs")
    pc = read("src/chess/piece.rs")
    ptorder = ["Queen", "Rook", "Bishop", "Knight", "Pawn", "King"]
    # ------------------------------------------------------------ deltas
    body, _ = fn_body("piece.get_moves", pc, r"pub fn get_moves\(self, mut push: impl FnMut\(Move\), game: &Game, pos: Position\) \{")
    m = need("piece.rays.rook", r"PieceType::Rook => \{\s*search_deltas!\[(.*?)\];", body)
    rook_rays = rays("piece.rays.rook", m.group(1))
    m = need("piece.rays.bishop", r"PieceType::Bishop => \{\s*search_deltas!\[(.*?)\];", body)
    bishop_rays = rays("piece.rays.bishop", m.group(1))
    m = need("piece.rays.queen", r"PieceType::Queen => \{\s*search_deltas!\[(.*?)\];", body)
    queen_rays = rays("piece.rays.queen", m.group(1))
    kb, _ = fn_body("piece.get_king_moves", pc, r"fn get_king_moves\(self, mut push: impl FnMut\(Move\), game: &Game, pos: Position\) \{")
    m = need("piece.king_deltas", r"for delta in \[(.*?)\] \{", kb)
    king_deltas = pairs("piece.king_deltas", m.group(1))
    nb, _ = fn_body("piece.get_knight_moves", pc, r"fn get_knight_moves\(self, mut push: impl FnMut\(Move\), game: &Game, pos: Position\) \{")
    m = need("piece.knight_deltas", r"for delta in \[(.*?)\] \{", nb)
    knight_deltas = pairs("piece.knight_deltas", m.group(1))
    pb, _ = fn_body("piece.get_pawn_moves", pc, r"fn get_pawn_moves\(self, mut push: impl FnMut\(Move\), game: &Game, pos: Position\) \{")

    def two(item, name, kind="int"):
        mm = need(item, rf"let {name} = match self\.owner \{{\s*Player::White => (.*?),\s*Player::Black => (.*?),\s*\}};", pb)
        if kind == "int":
            return int(mm.group(1)), int(mm.group(2))
        return pairs(item, mm.group(1)), pairs(item, mm.group(2))

    first_row = two("piece.pawn.first_row", "first_row")
    last_row = two("piece.pawn.last_row", "last_row")
    ep_row = two("piece.pawn.en_passant_row", "en_passant_row")
    normal_delta = two("piece.pawn.normal_delta", "normal_delta", "pairs")
    first_delta = two("piece.pawn.first_row_delta", "first_row_delta", "pairs")
    side_deltas = two("piece.pawn.side_deltas", "side_deltas", "pairs")
    promo = re.findall(r"for new_piece in \[\s*((?:PieceType::\w+,?\s*)+)\]", pb)
    if len(promo) != 2:
        raise ExtractError("piece.pawn.promo_order", "expected two promotion loops")
    promo_orders = [re.findall(r"PieceType::(\w+)", p) for p in promo]
    if promo_orders[0] != promo_orders[1]:
        raise ExtractError("piece.pawn.promo_order", "the two loops differ")
    need("piece.pawn.ep_rule", r"pos\.row\(\) == en_passant_row\s*&& valid_en_passant < 8\s*&& i8::abs\(valid_en_passant - pos\.col\(\)\) == 1", pb)

    tb, _ = fn_body("mod.is_targeted", mod, r"pub fn is_targeted\(&self, position: Position, player: Player\) -> bool \{")
    loops = re.findall(r"for delta in \[(.*?)\] \{", tb, re.S)
    if len(loops) != 2:
        raise ExtractError("mod.is_targeted.loops", f"{len(loops)} literal delta loops")
    t_king = pairs("mod.is_targeted.king", loops[0])
    t_knight = pairs("mod.is_targeted.knight", loops[1])
    m = need("mod.is_targeted.pawn", r"Player::White => \{(.*?)\}\s*Player::Black => \{(.*?)\}\s*\};\s*// Helpful macro", tb)
    t_pawn_w = [tuple(map(int, x)) for x in re.findall(r"position\.add\(\((-?\d+), (-?\d+)\)\)", m.group(1))]
    t_pawn_b = [tuple(map(int, x)) for x in re.findall(r"position\.add\(\((-?\d+), (-?\d+)\)\)", m.group(2))]
    if len(t_pawn_w) != 2 or len(t_pawn_b) != 2:
        raise ExtractError("mod.is_targeted.pawn", "expected two pawn squares per colour")
    m = need("mod.is_targeted.lines", r"search_enemies_loops!\[\s*PieceType::Rook,\s*PieceType::Queen,(.*?)\];", tb)
    t_lines = rays("mod.is_targeted.lines", m.group(1))
    m = need("mod.is_targeted.diags", r"search_enemies_loops!\[\s*PieceType::Bishop,\s*PieceType::Queen,(.*?)\];", tb)
    t_diags = rays("mod.is_targeted.diags", m.group(1))

    pos = read("src/chess/position.rs")
    homes = {}
    for name in ["WHITE_QUEEN_ROOK", "WHITE_KING_ROOK", "BLACK_QUEEN_ROOK", "BLACK_KING_ROOK"]:
        mm = need(f"position.{name}", rf"pub const {name}: Self = Self\((\d), (\d)\);", pos)
        homes[name] = (int(mm.group(1)), int(mm.group(2)))
    need("position.as_usize", r"\(self\.0 \* 8 \+ self\.1\) as usize", pos)
    C["homes"] = homes
    return dict(rook_rays=rook_rays, bishop_rays=bishop_rays, queen_rays=queen_rays, king_deltas=king_deltas, knight_deltas=knight_deltas, first_row=first_row, last_row=last_row, ep_row=ep_row, normal_delta=normal_delta, first_delta=first_delta, side_deltas=side_deltas, promo_orders=promo_orders, t_king=t_king, t_knight=t_knight, t_pawn_w=t_pawn_w, t_pawn_b=t_pawn_b, t_lines=t_lines, t_diags=t_diags, homes=homes)


def g_letters(C):
    pc = read("src/chess/piece.rs")
    ptorder = ["Queen", "Rook", "Bishop", "Knight", "Pawn", "King"]
    # ------------------------------------------------------------ letters
    def letters(item, text, fn_re, keyre=r"PieceType::(\w+) => '(.)'"):
        b, _ = fn_body(item, text, fn_re)
        return dict(re.findall(keyre, b))

    ascii_tab = letters("piece.as_char_ascii", pc, r"pub fn as_char_ascii\(self\) -> char \{")
    pgn_tab = dict(re.findall(r'PieceType::(\w+) => "(\w?)"', fn_body("piece.as_str_pgn", pc, r"pub fn as_str_pgn\(self\) -> &'static str \{")[0]))
    b, _ = fn_body("piece.from_char_ascii", pc, r"pub fn from_char_ascii\(piece: char\) -> Option<Self> \{")
    from_tab = dict((v, k) for k, v in re.findall(r"'(.)' => PieceType::(\w+)", b))
    ab, _ = fn_body("piece.as_char", pc, r"pub fn as_char\(self\) -> char \{")
    m = need("piece.as_char.split", r"Player::White => match self\.piece_type \{(.*?)\},\s*Player::Black => match self\.piece_type \{(.*?)\},", ab)
    glyph_w = dict(re.findall(r"PieceType::(\w+) => '(.)'", m.group(1)))
    glyph_b = dict(re.findall(r"PieceType::(\w+) => '(.)'", m.group(2)))
    for t, n in [(ascii_tab, 6), (pgn_tab, 6), (from_tab, 6), (glyph_w, 6), (glyph_b, 6)]:
        if len(t) != n:
            raise ExtractError("piece.letters", f"table size {len(t)}")
    ms = read("src/chess/move_struct.rs")
    ub, _ = fn_body("move.uci_notation", ms, r"pub fn uci_notation\(&self\) -> String \{")
    uci_promo = dict(re.findall(r"PieceType::(\w+) => '(.)'", ub))
    pb2, _ = fn_body("move.pgn_notation", ms, r"pub fn pgn_notation\(&self\) -> String \{")
    pgn_promo = dict(re.findall(r"PieceType::(\w+) => '(.)'", pb2))
    if len(uci_promo) != 4 or len(pgn_promo) != 4:
        raise ExtractError("move.promo_letters", "expected 4 letters each")
    C["letters"] = {"ascii": ascii_tab, "pgn": pgn_tab, "from": from_tab, "uci_promo": uci_promo, "pgn_promo": pgn_promo}
    return dict(ascii_tab=ascii_tab, pgn_tab=pgn_tab, from_tab=from_tab, glyph_w=glyph_w, glyph_b=glyph_b, uci_promo=uci_promo, pgn_promo=pgn_promo)


def g_constants(C):
    mod = read("src/chess/mod.rs")
    # ------------------------------------------------------------ capacities & search constants
    m = need("mod.state_cap", r"state: ArrayVec<GameState, (\d+)>", mod)
    state_cap = int(m.group(1))
    m = need("mod.moves_cap", r"pub fn get_moves\(&mut self, moves: &mut ArrayVec<Move, (\d+)>", mod)
    moves_cap = int(m.group(1))
    se = read("src/search.rs")
    m = need("search.killer_len", r"let mut killer_moves = \[None; (\d+|MAX_DEPTH as usize)\];", se)
    kl = m.group(1)
    m = need("search.MAX_DEPTH", r"const MAX_DEPTH: u8 = (\d+);", se)
    max_depth_const = int(m.group(1))
    killer_len = int(kl) if kl.isdigit() else max_depth_const
    need("search.limit", r"let limit = max_depth\.unwrap_or\(MAX_DEPTH\)\.clamp\(1, MAX_DEPTH\);", se)
    need("search.loop", r"for depth in starting_depth\.\.=limit \{", se)
    need("search.exit_at_limit", r"if depth == limit\s*\|\| is_only_move", se)
    m = need("search.history_len", r"history: &mut \[u16; (\d+) \* (\d+)\]", se)
    history_len = int(m.group(1)) * int(m.group(2))
    uci = read("src/uci.rs")
    m = need("uci.len_guard", r"if game\.len\(\) >= (\d+) \{", uci)
    len_guard = int(m.group(1))
    auto = read("src/autoplay.rs")
    m = need("autoplay.len_guard", r"if game\.len\(\) >= (\d+) \{\s*break;", auto)
    auto_len_guard = int(m.group(1))
    need("autoplay.loop", r"get_best_move_until_stop\(&game, &mut cache, &search_is_running, None\)", auto)
    m = need("uci.FRACTION", r"const FRACTION_OF_TOTAL_TIME: f64 = ([\d.]+);", uci)
    fraction = m.group(1)
    m = need("uci.LATENCY", r"const LATENCY_MS_COMPENSATE: u64 = (\d+);", uci)
    latency = int(m.group(1))
    m = need("uci.cut", r"time\.saturating_sub\(Duration::from_millis\((\d+)\)\)", uci)
    cut = int(m.group(1))
    con = read("src/constants.rs")
    m = need("constants.TT_CAPACITY", r"pub const TT_CAPACITY: usize = ([\d_]+);", con)
    tt_cap = int(m.group(1).replace("_", ""))
    mate = {}
    for name, pat in [("mate_node", r"return Some\(Score::MIN \+ (\d+) \+ real_depth as Score\);"),
                      ("mate_d1", r"fn get_best_move_score_depth_1.*?return Score::MIN \+ (\d+) \+ real_depth as Score;"),
                      ("mate_q", r"fn quiescence_search.*?return Score::MIN \+ (\d+) \+ real_depth as Score;")]:
        mm = need(f"search.{name}", pat, se)
        mate[name] = int(mm.group(1))
    m = need("search.exit_hi", r"best_score > Score::MAX - (\d+)", se)
    exit_hi = int(m.group(1))
    m = need("search.exit_lo", r"best_score < Score::MIN \+ (\d+)", se)
    exit_lo = int(m.group(1))
    full_window = re.findall(r"if index <= (\d+) \{", se)
    if len(full_window) != 2 or len(set(full_window)) != 1:
        raise ExtractError("search.full_window", str(full_window))
    need("search.root_window", r"let mut best_score = Score::MIN \+ 1;", se)
    C["caps"] = {"state": state_cap, "moves": moves_cap, "killer": killer_len, "history": history_len,
                 "len_guard": len_guard, "tt": tt_cap, "max_depth": max_depth_const}
    C["search"] = {"mate": mate, "exit_hi": exit_hi, "exit_lo": exit_lo, "full_window": int(full_window[0])}
    C["time"] = {"fraction": fraction, "latency": latency, "cut": cut}
    return dict(state_cap=state_cap, moves_cap=moves_cap, killer_len=killer_len, history_len=history_len, len_guard=len_guard, max_depth_const=max_depth_const, mate=mate, exit_hi=exit_hi, exit_lo=exit_lo, full_window=full_window, latency=latency, cut=cut, fraction=fraction, tt_cap=tt_cap, auto_len_guard=auto_len_guard)


def g_unsafe(C):
    # ------------------------------------------------------------ unchecked-site inventory
    sites = []
    srcdir = os.path.join(REPO, "src")
    for root, _, files in sorted(os.walk(srcdir)):
        for fn in sorted(files):
            if not fn.endswith(".rs") or fn == "verif_hooks.rs":
                continue
            rel = os.path.relpath(os.path.join(root, fn), REPO)
            text = read(rel)
            cur_fn = None
            for ln, line in enumerate(text.split("\n"), 1):
                s = line.strip()
                if s.startswith("//"):
                    continue
                mm = re.search(r"\bfn (\w+)", line)
                if mm:
                    cur_fn = mm.group(1)
                for kind, pat in [("unsafe_block", r"\bunsafe \{"), ("get_unchecked_mut", r"get_unchecked_mut\("),
                                  ("get_unchecked", r"get_unchecked\("), ("push_unchecked", r"push_unchecked\("),
                                  ("unwrap_unchecked", r"unwrap_unchecked\("), ("add_unsafe", r"\.add_unsafe\("),
                                  ("new_unsafe", r"::new_unsafe\(")]:
                    for _ in re.finditer(pat, line):
                        sites.append({"file": rel, "fn": cur_fn, "kind": kind, "line": ln})
    C["unsafe_sites"] = sites
    return dict(sites=sites)


GROUPS = [
    ('zobrist', g_zobrist, ['C03', 'C04', 'C05', 'C06', 'C11', 'C17', 'C18', 'C19']),
    ('scores', g_scores, ['C03', 'C09', 'C10', 'C16', 'C19']),
    ('deltas', g_deltas, ['C01', 'C02', 'C03', 'C06', 'C07', 'C09', 'C10', 'C12', 'C15', 'C18', 'C19']),
    ('letters', g_letters, ['C11', 'C12', 'C17', 'C20']),
    ('capacities & search constants', g_constants, ['C06', 'C07', 'C08', 'C09', 'C10', 'C13', 'C15', 'C18', 'C19']),
    ('unchecked-site inventory', g_unsafe, ['C15']),
]


def f64_mant(text):
    """(m, e) with float(text) == m * 2**-e exactly and 2**52 <= m < 2**53 (normal positive doubles below 1)"""
    import math
    x = float(text)
    if not (0 < x < 1):
        return (0, 0)
    m, e = math.frexp(x)                # x = m * 2**e, 0.5 <= m < 1
    mant = int(m * (1 << 53))
    assert mant * 2.0 ** (e - 53) == x
    return (mant, 53 - e)


def emit(V, C, broken):
    btm = V['btm']
    emp = V['emp']
    state = V['state']
    piece = V['piece']
    s_btm = V['s_btm']
    s_emp = V['s_emp']
    s_st = V['s_st']
    s_pc = V['s_pc']
    start_hash = V['start_hash']
    digest = V['digest']
    tables = V['tables']
    thr = V['thr']
    mat = V['mat']
    ptorder = V['ptorder']
    rook_rays = V['rook_rays']
    bishop_rays = V['bishop_rays']
    queen_rays = V['queen_rays']
    king_deltas = V['king_deltas']
    knight_deltas = V['knight_deltas']
    first_row = V['first_row']
    last_row = V['last_row']
    ep_row = V['ep_row']
    normal_delta = V['normal_delta']
    first_delta = V['first_delta']
    side_deltas = V['side_deltas']
    promo_orders = V['promo_orders']
    t_king = V['t_king']
    t_knight = V['t_knight']
    t_pawn_w = V['t_pawn_w']
    t_pawn_b = V['t_pawn_b']
    t_lines = V['t_lines']
    t_diags = V['t_diags']
    homes = V['homes']
    ascii_tab = V['ascii_tab']
    pgn_tab = V['pgn_tab']
    from_tab = V['from_tab']
    glyph_w = V['glyph_w']
    glyph_b = V['glyph_b']
    uci_promo = V['uci_promo']
    pgn_promo = V['pgn_promo']
    state_cap = V['state_cap']
    moves_cap = V['moves_cap']
    killer_len = V['killer_len']
    history_len = V['history_len']
    len_guard = V['len_guard']
    auto_len_guard = V.get('auto_len_guard', V['len_guard'])
    max_depth_const = V['max_depth_const']
    mate = V['mate']
    exit_hi = V['exit_hi']
    exit_lo = V['exit_lo']
    full_window = V['full_window']
    latency = V['latency']
    cut = V['cut']
    fraction = V['fraction']
    tt_cap = V['tt_cap']
    sites = V['sites']
    os.makedirs(OUT, exist_ok=True)
    os.makedirs(os.path.dirname(GEN_JSON), exist_ok=True)

    def u64arr(vals):
        return "#[" + ",\n  ".join(", ".join(f"0x{v:016X}" for v in vals[i:i + 4]) for i in range(0, len(vals), 4)) + "]"

    def intarr(vals):
        return "#[" + ", ".join(str(v) for v in vals) + "]"

    def pairlist(ps):
        return "[" + ", ".join(f"(({a} : Int), ({b} : Int))" for a, b in ps) + "]"

    zl = f"""-- GENERATED by tools/extract.py from {REPO}/src/chess/zobrist.rs + zobrist_bytes.bin + README.md. Do not edit.
namespace Chess.Gen

def blackToMove : UInt64 := 0x{btm:016X}
def emptyPlace : UInt64 := 0x{emp:016X}
/-- `zobrist::STATE`, 256 keys (byte offset {s_st}). -/
def stateKeys : Array UInt64 := {u64arr(state)}
/-- `zobrist::PIECE` flattened: index `sq * 12 + piece.as_index()` (byte offset {s_pc}). -/
def pieceKeys : Array UInt64 := {u64arr(piece)}
/-- The start-position hash published in README.md. -/
def readmeStartHash : UInt64 := 0x{start_hash:016X}

end Chess.Gen
"""
    lt = lambda d, k: "'" + d[k] + "'"
    tl = f"""-- GENERATED by tools/extract.py from {REPO}/src. Do not edit.
namespace Chess.Gen

def queenScores : Array Int := {intarr(tables['QUEEN_SCORES'])}
def rookScores : Array Int := {intarr(tables['ROOK_SCORES'])}
def bishopScores : Array Int := {intarr(tables['BISHOP_SCORES'])}
def knightScores : Array Int := {intarr(tables['KNIGHT_SCORES'])}
def pawnScores : Array Int := {intarr(tables['PAWN_SCORES'])}
def kingScoresMiddle : Array Int := {intarr(tables['KING_SCORES_MIDDLE'])}
def kingScoresEnd : Array Int := {intarr(tables['KING_SCORES_END'])}
def endgameThreshold : Nat := {thr}

def matQueen : Nat := {mat['Queen']}
def matRook : Nat := {mat['Rook']}
def matBishop : Nat := {mat['Bishop']}
def matKnight : Nat := {mat['Knight']}
def matPawn : Nat := {mat['Pawn']}
def matKing : Nat := {mat['King']}

-- move generation (piece.rs), in source order
def rookRays : List (Int × Int) := {pairlist(rook_rays)}
def bishopRays : List (Int × Int) := {pairlist(bishop_rays)}
def queenRays : List (Int × Int) := {pairlist(queen_rays)}
def kingDeltas : List (Int × Int) := {pairlist(king_deltas)}
def knightDeltas : List (Int × Int) := {pairlist(knight_deltas)}
def pawnFirstRowW : Int := {first_row[0]}
def pawnFirstRowB : Int := {first_row[1]}
def pawnLastRowW : Int := {last_row[0]}
def pawnLastRowB : Int := {last_row[1]}
def pawnEpRowW : Int := {ep_row[0]}
def pawnEpRowB : Int := {ep_row[1]}
def pawnDeltaW : Int × Int := {pairlist(normal_delta[0])[1:-1]}
def pawnDeltaB : Int × Int := {pairlist(normal_delta[1])[1:-1]}
def pawnFirstDeltaW : Int × Int := {pairlist(first_delta[0])[1:-1]}
def pawnFirstDeltaB : Int × Int := {pairlist(first_delta[1])[1:-1]}
def pawnSideDeltasW : List (Int × Int) := {pairlist(side_deltas[0])}
def pawnSideDeltasB : List (Int × Int) := {pairlist(side_deltas[1])}
/-- promotion order as indices into PieceType (Queen=0, Rook=1, Bishop=2, Knight=3) -/
def promoOrder : List Nat := {[ptorder.index(p) for p in promo_orders[0]]}

-- attack detection (mod.rs is_targeted), in source order
def tKingDeltas : List (Int × Int) := {pairlist(t_king)}
def tKnightDeltas : List (Int × Int) := {pairlist(t_knight)}
def tPawnW : List (Int × Int) := {pairlist(t_pawn_w)}
def tPawnB : List (Int × Int) := {pairlist(t_pawn_b)}
def tLineRays : List (Int × Int) := {pairlist(t_lines)}
def tDiagRays : List (Int × Int) := {pairlist(t_diags)}

-- rook home squares (position.rs) as (row, col)
def whiteQueenRook : Int × Int := (({homes['WHITE_QUEEN_ROOK'][0]} : Int), ({homes['WHITE_QUEEN_ROOK'][1]} : Int))
def whiteKingRook : Int × Int := (({homes['WHITE_KING_ROOK'][0]} : Int), ({homes['WHITE_KING_ROOK'][1]} : Int))
def blackQueenRook : Int × Int := (({homes['BLACK_QUEEN_ROOK'][0]} : Int), ({homes['BLACK_QUEEN_ROOK'][1]} : Int))
def blackKingRook : Int × Int := (({homes['BLACK_KING_ROOK'][0]} : Int), ({homes['BLACK_KING_ROOK'][1]} : Int))

-- letter tables: index = PieceType order Queen, Rook, Bishop, Knight, Pawn, King
def asciiLetters : List Char := [{', '.join(lt(ascii_tab, k) for k in ptorder)}]
def pgnLetters : List String := [{', '.join('"' + pgn_tab[k] + '"' for k in ptorder)}]
def fromLetters : List Char := [{', '.join(lt(from_tab, k) for k in ptorder)}]
def glyphsWhite : List Char := [{', '.join(lt(glyph_w, k) for k in ptorder)}]
def glyphsBlack : List Char := [{', '.join(lt(glyph_b, k) for k in ptorder)}]
def uciPromoLetters : List Char := [{', '.join(lt(uci_promo, k) for k in ptorder[:4])}]
def pgnPromoLetters : List Char := [{', '.join(lt(pgn_promo, k) for k in ptorder[:4])}]

-- capacities and guards
def stateCap : Nat := {state_cap}
def movesCap : Nat := {moves_cap}
def killerLen : Nat := {killer_len}
def historyLen : Nat := {history_len}
def lenGuard : Nat := {len_guard}
/-- the guard of the self-play loop (autoplay.rs) -/
def autoLenGuard : Nat := {auto_len_guard}
def maxDepth : Nat := {max_depth_const}

-- search constants
def mateNode : Int := {mate['mate_node']}
def mateD1 : Int := {mate['mate_d1']}
def mateQ : Int := {mate['mate_q']}
def exitHi : Int := {exit_hi}
def exitLo : Int := {exit_lo}
def fullWindowMaxIndex : Nat := {int(full_window[0])}

-- time constants (uci.rs); fraction is per-mille to stay in Nat
def latencyMs : Nat := {latency}
def sleepCutMs : Nat := {cut}
def fractionText : String := "{fraction}"
/-- the literal as an IEEE-754 binary64: value = fractionMant * 2^-fractionExp (53-bit significand) -/
def fractionMant : Nat := {f64_mant(fraction)[0]}
def fractionExp : Nat := {f64_mant(fraction)[1]}

/-- Number of unchecked sites found in src/ (inventory in gen/constants.json). -/
def unsafeSiteCount : Nat := {len(sites)}
/-- (file, fn, kind) multiset of unchecked sites, sorted. -/
def unsafeSites : List (String × String × String) := [
  {(',' + chr(10) + '  ').join('("%s", "%s", "%s")' % (s['file'], s['fn'], s['kind']) for s in sorted(sites, key=lambda s: (s['file'], s['fn'] or '', s['kind'], s['line'])))}]

end Chess.Gen
"""

    def write_if_changed(path, content):
        try:
            with open(path, "r", encoding="utf-8") as f:
                if f.read() == content:
                    return False
        except FileNotFoundError:
            pass
        with open(path, "w", encoding="utf-8") as f:
            f.write(content)
        return True

    ch1 = write_if_changed(os.path.join(OUT, "Zobrist.lean"), zl)
    ch2 = write_if_changed(os.path.join(OUT, "Tables.lean"), tl)
    write_if_changed(GEN_JSON, json.dumps(C, indent=1, sort_keys=True, ensure_ascii=False) + "\n")
    print(json.dumps({"ok": True, "changed": [ch1, ch2], "zobrist_sha256": digest, "unsafe_sites": len(sites), "broken": broken}))




# which properties' THEOREMS consume an item (longest matching prefix wins); every other property is
# tied to the code behind the item by the correspondence check alone, which reports real
# behavioural differences by itself
ITEM_PROPS = [
    ("zobrist.", ["C04", "C05"]), ("readme.", ["C04"]),
    ("scores.", ["C16"]), ("mod.piece_scores_order", ["C16"]), ("mod.update_phase", ["C16"]), ("mod.is_endgame", ["C16"]),
    ("mod.Player", ["C16", "C04"]), ("piece.PieceType", ["C16", "C04"]), ("piece.material_value", ["C09"]),
    ("piece.as_index", ["C04"]), ("piece.score", ["C16"]),
    ("mod.is_targeted", ["C01", "C02"]), ("piece.rays", ["C01", "C02"]), ("piece.get_moves", ["C01", "C02"]),
    ("piece.king_deltas", ["C01", "C02"]), ("piece.get_king_moves", ["C01", "C02"]),
    ("piece.knight_deltas", ["C01", "C02"]), ("piece.get_knight_moves", ["C01", "C02"]),
    ("piece.pawn", ["C01", "C02", "C15"]), ("piece.get_pawn_moves", ["C01", "C02", "C15"]),
    ("position.", ["C02", "C15"]),
    ("piece.as_char_ascii", ["C11"]), ("piece.from_char_ascii", ["C17"]), ("piece.as_str_pgn", ["C20"]),
    ("piece.as_char", ["C20"]), ("piece.letters", ["C11", "C17", "C20"]),
    ("move.uci_notation", ["C12"]), ("move.pgn_notation", ["C20"]), ("move.promo_letters", ["C12", "C20"]),
    ("mod.state_cap", ["C15"]), ("mod.moves_cap", ["C15"]), ("uci.len_guard", ["C15", "C12"]), ("autoplay.", ["C15"]),
    ("search.killer_len", ["C08", "C15"]), ("search.MAX_DEPTH", ["C08", "C15"]), ("search.limit", ["C08"]),
    ("search.loop", ["C08"]), ("search.exit_at_limit", ["C08"]), ("search.history_len", ["C08", "C15"]),
    ("search.mate", ["C10"]), ("search.exit_", ["C10", "C08"]), ("search.full_window", ["C09"]), ("search.root_window", ["C09"]),
    ("uci.FRACTION", ["C13"]), ("uci.LATENCY", ["C13"]), ("uci.cut", ["C13"]), ("constants.", []),
]


def props_of_item(item, default):
    best = None
    for pre, props in ITEM_PROPS:
        if item.startswith(pre) and (best is None or len(pre) > len(best[0])):
            best = (pre, props)
    return best[1] if best else default


def main():
    cache_path = os.path.join(os.path.dirname(GEN_JSON), "extract_cache.json")
    try:
        with open(cache_path) as f:
            cache = json.load(f)
    except Exception:
        cache = {}
    V, C, broken = {}, {}, []
    for name, fn, props in GROUPS:
        try:
            vals = json.loads(json.dumps(fn(C)))          # normalise (tuples -> lists) exactly as the cache does
            cache[name] = vals
        except ExtractError as e:
            if name not in cache:
                raise
            broken.append({"group": name, "item": e.item, "msg": str(e)[:300], "properties": props_of_item(e.item, props)})
            vals = cache[name]
        V.update(vals)
    os.makedirs(os.path.dirname(GEN_JSON), exist_ok=True)
    if not broken:
        with open(cache_path, "w") as f:
            json.dump(cache, f)
    emit(V, C, broken)


if __name__ == "__main__":
    try:
        main()
    except ExtractError as e:
        print(json.dumps({"ok": False, "item": e.item, "msg": str(e)}))
        sys.exit(2)
