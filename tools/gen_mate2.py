#!/usr/bin/env python3
"""Development tool: propose candidate positions with a forced mate in two (sparse endgames with random
placement); the Lean specification solver (`spec_mate`) decides, and decides AGAIN at check time —
the corpus file only saves the search for candidates.   usage: tools/gen_mate2.py <n candidates> <seed>"""
import os, random, sys
sys.path.insert(0, os.path.dirname(os.path.dirname(os.path.abspath(__file__))))
from vlib import core, searchchk

ATT = ["Q", "RR", "QR", "RB", "QN", "RN", "QP", "RP", "BBN", "QB", "RRP", "NBP", "QQ", "RBP"]
DEF = ["", "", "P", "N", "B", "R", "PP", "Q"]


def fen_of(placed, side):
    rows = []
    for r in range(7, -1, -1):
        row, gap = "", 0
        for c in range(8):
            p = placed.get((r, c))
            if p:
                row += (str(gap) if gap else "") + p
                gap = 0
            else:
                gap += 1
        rows.append(row + (str(gap) if gap else ""))
    return "/".join(rows) + f" {side} - - 0 1"


def main():
    n, seed = int(sys.argv[1]), int(sys.argv[2])
    r = random.Random(seed)
    cands = []
    for _ in range(n):
        side = r.choice("wb")
        att, dfn = r.choice(ATT), r.choice(DEF)
        pieces = ["K"] + list(att) if side == "w" else ["k"] + list(att.lower())
        pieces += (["k"] + list(dfn.lower())) if side == "w" else (["K"] + list(dfn))
        sq = r.sample([(a, b) for a in range(8) for b in range(8)], len(pieces))
        placed = {}
        ok = True
        for p, s in zip(pieces, sq):
            if p in "Pp" and s[0] in (0, 7):
                ok = False
            placed[s] = p
        if ok:
            cands.append(fen_of(placed, side))
    ans = searchchk.spec_queries(["spec_sane " + core.fen4(f) for f in cands])
    sane = [f for f in cands if ans.get("spec_sane " + core.fen4(f)) == "sane"]
    ans = searchchk.spec_queries(["spec_mate 2 " + core.fen4(f) for f in sane])
    out = [f for f in sane if (ans.get("spec_mate 2 " + core.fen4(f)) or "-").startswith("2 ")]
    for f in out:
        print(f)
    print(f"# {len(cands)} candidates, {len(sane)} sane, {len(out)} with a forced mate in exactly two", file=sys.stderr)


if __name__ == "__main__":
    main()
