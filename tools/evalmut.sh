#!/bin/sh
# usage: tools/evalmut.sh <worktree> <mutant dir> [checks…]   — confirm a seeded mutant and run the checks against it
# (development tool; applies the patch to /repo, runs the checks, and undoes it)
WT=$1; M=$2; shift 2
CHECKS=${@:-"C01 C02 C03 C04 C05 C06 C07 C08 C09 C10 C11 C12 C13 C14 C15 C16 C17 C18 C19 C20"}

cd $WT
git checkout -q -- src 2>/dev/null || true
echo "== demo on clean worktree"
cargo build --release --offline 2>&1 | grep -E "^error|Finished" | head -2
if [ -f $M/demo.sh ]; then (bash $M/demo.sh > /tmp/demo_clean.log 2>&1; echo "clean exit=$?"); fi
if [ -f $M/demo_test.rs ]; then cat $M/demo_test.rs >> src/chess/mod.rs; cargo test --release --offline demo_ 2>&1 | grep -E "^test result|panicked" | head -3; git checkout -q -- src; fi
git apply $M/patch.diff
cargo build --release --offline 2>&1 | grep -E "^error|Finished" | head -2
if [ -f $M/demo.sh ]; then (bash $M/demo.sh > /tmp/demo_mut.log 2>&1; echo "mutant exit=$?"); fi
if [ -f $M/demo_test.rs ]; then cat $M/demo_test.rs >> src/chess/mod.rs; cargo test --release --offline demo_ 2>&1 | grep -E "^test result|panicked" | head -3; fi
git checkout -q -- src
cd /verif
git -C /repo apply $M/patch.diff
echo "== checks against the mutant"
for c in $CHECKS; do VERIF_DEV_SKIP_PROOF=1 ./check $c --tier quick 2>&1 | grep -E "VIOLATION|FAIL|KNOWN" | head -4 | cut -c1-160; done
git -C /repo checkout -q -- .
echo "== undone: $(git -C /repo status --short | wc -l) modified files in /repo"
# leave clean binaries behind (the harness and engine were last built from the mutated tree)
python3 -c "
import sys; sys.path.insert(0,'/verif')
from vlib import core
core.cargo_harness('release'); core.cargo_harness('checked'); core.cargo_engine()" 2>/dev/null
