#!/bin/sh
# usage: tools/evalharmless.sh <patch.diff> [checks…] — apply a behaviour-preserving patch to /repo, run the quick checks
# WITH the proof/extract steps, print every alarm, undo the patch and rebuild clean binaries (development tool)
P=$1; shift
CHECKS=${@:-"C01 C02 C03 C04 C05 C06 C07 C08 C09 C10 C11 C12 C13 C14 C15 C16 C17 C18 C19 C20"}
cd /verif
git -C /repo apply $P || exit 2
for c in $CHECKS; do ./check $c --tier quick 2>&1 | grep -E "VIOLATION|FAIL|widening" | head -4 | cut -c1-200; done
git -C /repo checkout -q -- .
echo "== undone: $(git -C /repo status --short | wc -l) modified files in /repo"
python3 tools/extract.py > /dev/null
python3 -c "
import sys; sys.path.insert(0,'/verif')
from vlib import core
core.lake_build(['chessdrv']); core.cargo_harness('release'); core.cargo_harness('checked'); core.cargo_engine()" 2>/dev/null
