#!/usr/bin/env python3
"""Translate the small pure "leaf" functions of /repo/src into Lean definitions.

    REPO=/path/to/tree python3 tools/translate.py        (default REPO=/repo)

writes lean/Chess/Gen/Fns.lean (namespace Chess.Gen.Fns).  The functions are found BY NAME
(`impl GameState { fn en_passant`), their bodies are delimited by brace matching on TOKENS
(comments, strings and char literals are skipped by the tokenizer), parsed by a recursive-descent
/ precedence-climbing parser for the subset of Rust that these functions use, type-checked far
enough to give every literal and operator its machine type, and printed as a Lean term that
mirrors the Rust expression tree.  The meaning of the operators Lean lacks is in the hand-written
lean/Chess/Model/RustSem.lean.  lean/Chess/Lemmas/FnsEquiv.lean proves every generated definition
equal to the hand-written model's.

Also in the subset: `char` / `&str` literals (escapes decoded; `b'x'` is a `u8`), `match` on a `char`
(printed as a chain of `==`), `let x = match … { …, _ => return e };` (the rest of the body becomes a local
function of `x`), the ASCII methods of `char`, array literals, `assert!(c);` (`RustSem.assert`), and the
compile-time tables of EXTERN_FILES (`zobrist::STATE`, `zobrist::PIECE`), which become PARAMETERS of the
generated function and of its callers (type read from the declaration, value not).

Anything outside the subset raises TranslateError `translate:<file>.<fn>: ...` and the run
fails (exit 2) without writing the output: nothing is guessed or defaulted.
"""
import os
import sys

REPO = os.environ.get("VERIF_REPO") or os.environ.get("REPO", "/repo")
HERE = os.path.dirname(os.path.abspath(__file__))
OUT = os.environ.get("TRANSLATE_OUT", os.path.join(HERE, "..", "lean", "Chess", "Gen", "Fns.lean"))


class TranslateError(Exception):
    pass


class NeedType(Exception):
    """an integer literal whose type cannot be determined without a hint"""


# ----------------------------------------------------------------------------- tokenizer
class Tok:
    __slots__ = ("k", "v", "line", "extra")

    def __init__(self, k, v, line, extra=None):
        self.k, self.v, self.line, self.extra = k, v, line, extra

    def __repr__(self):
        return f"{self.k}:{self.v!r}@{self.line}"


PUNCT3 = ["<<=", ">>=", "...", "..="]
PUNCT2 = ["::", "->", "=>", "==", "!=", "<=", ">=", "&&", "||", "+=", "-=", "*=", "/=", "%=", "^=",
          "&=", "|=", "<<", ">>", ".."]
INT_SUFFIXES = ["u8", "i8", "u16", "i16", "u32", "i32", "u64", "i64", "u128", "i128", "usize", "isize"]


def tokenize(text, where):
    toks = []
    i, n, line = 0, len(text), 1

    def err(msg):
        raise TranslateError(f"translate:{where}: tokenizer, line {line}: {msg}")

    while i < n:
        c = text[i]
        if c == "\n":
            line += 1
            i += 1
            continue
        if c in " \t\r":
            i += 1
            continue
        if text.startswith("//", i):
            j = text.find("\n", i)
            i = n if j < 0 else j
            continue
        if text.startswith("/*", i):
            depth, j = 1, i + 2
            while j < n and depth:
                if text.startswith("/*", j):
                    depth += 1
                    j += 2
                elif text.startswith("*/", j):
                    depth -= 1
                    j += 2
                else:
                    if text[j] == "\n":
                        line += 1
                    j += 1
            if depth:
                err("unterminated block comment")
            i = j
            continue
        # raw strings  r"..."  r#"..."#  br#"..."#
        if c in "rb":
            j = i
            if text.startswith("br", j):
                j += 2
            elif c == "r":
                j += 1
            else:
                j = -1
            if j > 0:
                h = 0
                while j < n and text[j] == "#":
                    h += 1
                    j += 1
                if j < n and text[j] == '"':
                    end = text.find('"' + "#" * h, j + 1)
                    if end < 0:
                        err("unterminated raw string")
                    s = text[i:end + 1 + h]
                    toks.append(Tok("str", s, line))
                    line += s.count("\n")
                    i = end + 1 + h
                    continue
        if c == '"' or (c == "b" and i + 1 < n and text[i + 1] == '"'):
            j = i + (2 if c == "b" else 1)
            while j < n and text[j] != '"':
                if text[j] == "\\":
                    j += 1
                if j < n and text[j] == "\n":
                    line += 1
                j += 1
            if j >= n:
                err("unterminated string")
            toks.append(Tok("str", text[i:j + 1], line))
            i = j + 1
            continue
        if c == "'" or (c == "b" and i + 1 < n and text[i + 1] == "'"):
            j = i + (2 if c == "b" else 1)
            # char literal or lifetime
            if j < n and text[j] == "\\":
                k = text.find("'", j + 2)
                if k < 0:
                    err("unterminated char literal")
                toks.append(Tok("char", text[i:k + 1], line))
                i = k + 1
                continue
            if j + 1 < n and text[j + 1] == "'":
                toks.append(Tok("char", text[i:j + 2], line))
                i = j + 2
                continue
            if c == "'":
                k = j
                while k < n and (text[k].isalnum() or text[k] == "_"):
                    k += 1
                toks.append(Tok("life", text[i:k], line))
                i = k
                continue
            err("bad char literal")
        if c.isdigit():
            j = i
            base = 10
            if text.startswith(("0x", "0X"), i):
                base, j = 16, i + 2
            elif text.startswith(("0o", "0O"), i):
                base, j = 8, i + 2
            elif text.startswith(("0b", "0B"), i):
                base, j = 2, i + 2
            digs = "0123456789abcdefABCDEF"[: {10: 10, 16: 22, 8: 8, 2: 2}[base]]
            k = j
            while k < n and (text[k] in digs or text[k] == "_"):
                # do not swallow the `e`/`f` of a suffix-less hex digit run: hex digits are digits
                k += 1
            body = text[j:k].replace("_", "")
            # a hex literal may have swallowed nothing of a suffix (suffixes start with u/i)
            if body == "":
                err("integer literal without digits")
            isfloat = False
            if base == 10 and k < n and text[k] == "." and not text.startswith("..", k) \
                    and not (k + 1 < n and (text[k + 1].isalpha() or text[k + 1] == "_")):
                isfloat = True
                k += 1
                while k < n and (text[k].isdigit() or text[k] == "_"):
                    k += 1
            if base == 10 and k < n and text[k] in "eE" and k + 1 < n and (text[k + 1].isdigit() or text[k + 1] in "+-"):
                isfloat = True
                k += 2
                while k < n and (text[k].isdigit() or text[k] == "_"):
                    k += 1
            suffix = None
            m = k
            while m < n and (text[m].isalnum() or text[m] == "_"):
                m += 1
            if m > k:
                suffix = text[k:m]
                if suffix in ("f32", "f64"):
                    isfloat = True
                elif suffix not in INT_SUFFIXES:
                    err(f"unknown literal suffix {suffix!r}")
            if isfloat:
                toks.append(Tok("float", text[i:m], line))
            else:
                toks.append(Tok("int", int(body, base), line, suffix))
            i = m
            continue
        if c.isalpha() or c == "_":
            j = i
            while j < n and (text[j].isalnum() or text[j] == "_"):
                j += 1
            toks.append(Tok("id", text[i:j], line))
            i = j
            continue
        for group in (PUNCT3, PUNCT2):
            for p in group:
                if text.startswith(p, i):
                    toks.append(Tok("p", p, line))
                    i += len(p)
                    break
            else:
                continue
            break
        else:
            if c in "+-*/%^!&|=<>@.,;:#$?~()[]{}":
                toks.append(Tok("p", c, line))
                i += 1
            else:
                err(f"unexpected character {c!r}")
    toks.append(Tok("eof", None, line))
    return toks


OPEN = {"(": ")", "[": "]", "{": "}"}


def match_close(toks, i, where):
    """index of the token closing the bracket opened at toks[i]"""
    stack = []
    j = i
    while toks[j].k != "eof":
        t = toks[j]
        if t.k == "p" and t.v in OPEN:
            stack.append(OPEN[t.v])
        elif t.k == "p" and t.v in (")", "]", "}"):
            if not stack or stack.pop() != t.v:
                raise TranslateError(f"translate:{where}: unbalanced {t.v!r} at line {t.line}")
            if not stack:
                return j
        j += 1
    raise TranslateError(f"translate:{where}: unbalanced bracket opened at line {toks[i].line}")


# ----------------------------------------------------------------------------- item scanner
class SourceFile:
    """token-level index of the items of one file: structs, enums, aliases, consts, fns by name"""

    def __init__(self, rel):
        self.rel = rel
        path = os.path.join(REPO, "src", rel)
        try:
            with open(path, "r", encoding="utf-8") as f:
                self.text = f.read()
        except OSError as e:
            raise TranslateError(f"translate:{rel}: cannot read {path}: {e}")
        self.toks = tokenize(self.text, rel)
        self.structs, self.enums, self.aliases = {}, {}, {}
        self.consts = {}      # (owner or None, name) -> token index of `const`
        self.fns = {}         # (owner or None, name) -> token index of `fn`
        self.derives = {}     # type name -> set of derive names
        self._scan(0, len(self.toks) - 1, None)

    def _scan(self, lo, hi, owner):
        t = self.toks
        i = lo
        pending_derives = set()
        while i < hi:
            tk = t[i]
            if tk.k == "p" and tk.v == "#":
                # attribute  #[...]  or  #![...]
                j = i + 1
                if t[j].k == "p" and t[j].v == "!":
                    j += 1
                if t[j].k == "p" and t[j].v == "[":
                    k = match_close(t, j, self.rel)
                    if t[j + 1].k == "id" and t[j + 1].v == "derive":
                        pending_derives |= {x.v for x in t[j + 2:k] if x.k == "id"}
                    i = k + 1
                    continue
            if tk.k == "p" and tk.v in OPEN:
                i = match_close(t, i, self.rel) + 1
                continue
            if tk.k == "id":
                if tk.v in ("struct", "enum") and t[i + 1].k == "id":
                    name = t[i + 1].v
                    (self.structs if tk.v == "struct" else self.enums)[name] = i
                    self.derives[name] = pending_derives
                    pending_derives = set()
                elif tk.v == "type" and t[i + 1].k == "id":
                    self.aliases[t[i + 1].v] = i
                elif tk.v == "fn" and t[i + 1].k == "id":
                    self.fns.setdefault((owner, t[i + 1].v), i)
                    pending_derives = set()
                elif tk.v in ("const", "static") and t[i + 1].k == "id" and t[i + 1].v not in ("fn", "unsafe"):
                    j = i + 1
                    if t[j].v == "mut":
                        j += 1
                    self.consts[(owner, t[j].v)] = i
                elif tk.v == "impl" and owner is None:
                    j = i + 1
                    while not (t[j].k == "p" and t[j].v == "{"):
                        if t[j].k == "eof":
                            raise TranslateError(f"translate:{self.rel}: impl without body at line {tk.line}")
                        j += 1
                    head = t[i + 1:j]
                    # type name: the last path (ignoring generics) after `for`, or of the whole head
                    k = max((x for x, h in enumerate(head) if h.k == "id" and h.v == "for"), default=-1)
                    seg = head[k + 1:]
                    name, depth = None, 0
                    for h in seg:
                        if h.k == "p" and h.v == "<":
                            depth += 1
                        elif h.k == "p" and h.v == ">":
                            depth -= 1
                        elif h.k == "p" and h.v == ">>":
                            depth -= 2
                        elif h.k == "id" and depth == 0 and h.v != "where":
                            name = h.v
                        elif h.k == "id" and h.v == "where":
                            break
                    close = match_close(t, j, self.rel)
                    if name is not None:
                        self._scan(j + 1, close, name)
                    i = close + 1
                    pending_derives = set()
                    continue
            i += 1


# ----------------------------------------------------------------------------- parser
BINOPS = [  # (precedence level, operators); higher binds tighter
    (1, ["||"]), (2, ["&&"]), (3, ["==", "!=", "<", ">", "<=", ">="]), (4, ["|"]), (5, ["^"]),
    (6, ["&"]), (7, ["<<", ">>"]), (8, ["+", "-"]), (9, ["*", "/", "%"]),
]
PREC = {op: lvl for lvl, ops in BINOPS for op in ops}
ASSIGN_OPS = ["=", "+=", "-=", "*=", "/=", "%=", "^=", "&=", "|=", "<<=", ">>="]
PRIMS = INT_SUFFIXES + ["bool", "char", "str", "f32", "f64"]


def unescape(body, err, byte):
    """the scalar values of the body of a Rust char / string literal (escapes decoded)"""
    out, i, n = [], 0, len(body)
    simple = {"n": 10, "r": 13, "t": 9, "\\": 92, "0": 0, "'": 39, '"': 34}
    while i < n:
        c = body[i]
        if c != "\\":
            if byte and ord(c) > 127:
                err("non-ASCII character in a byte literal")
            out.append(ord(c))
            i += 1
            continue
        if i + 1 >= n:
            err("dangling backslash in a literal")
        d = body[i + 1]
        if d in simple:
            out.append(simple[d])
            i += 2
        elif d == "x":
            h = body[i + 2:i + 4]
            if len(h) != 2 or any(x not in "0123456789abcdefABCDEF" for x in h):
                err("bad \\x escape")
            v = int(h, 16)
            if v > 127 and not byte:
                err("\\x escape above 7F in a char/str literal (rustc rejects it)")
            out.append(v)
            i += 4
        elif d == "u" and not byte:
            k = body.find("}", i)
            h = body[i + 3:k].replace("_", "") if body[i + 2:i + 3] == "{" and k > 0 else ""
            if not (1 <= len(h) <= 6) or any(x not in "0123456789abcdefABCDEF" for x in h):
                err("bad \\u{…} escape")
            v = int(h, 16)
            if v > 0x10FFFF or 0xD800 <= v <= 0xDFFF:
                err("\\u{…} escape is not a Unicode scalar value")
            out.append(v)
            i = k + 1
        else:
            err(f"escape \\{d} in a literal is not supported")
    return out


def lean_char(cp):
    ch = chr(cp)
    if (32 <= cp < 127 and ch not in "'\\") or (cp >= 0xA1 and ch.isprintable()):
        return f"'{ch}'"
    return f"(Char.ofNat {cp})"


class Parser:
    def __init__(self, toks, lo, hi, where):
        self.t, self.i, self.hi, self.where = toks, lo, hi, where

    # -- helpers
    def err(self, msg):
        tk = self.t[self.i]
        raise TranslateError(f"translate:{self.where}: line {tk.line}: {msg} (at {tk.v!r})")

    def peek(self, off=0):
        j = self.i + off
        return self.t[j] if j < self.hi else Tok("eof", None, self.t[min(j, len(self.t) - 1)].line)

    def at_p(self, v, off=0):
        tk = self.peek(off)
        return tk.k == "p" and tk.v == v

    def at_id(self, v=None, off=0):
        tk = self.peek(off)
        return tk.k == "id" and (v is None or tk.v == v)

    def eat_p(self, v):
        if self.at_p(v):
            self.i += 1
            return True
        return False

    def need_p(self, v):
        if not self.eat_p(v):
            self.err(f"expected {v!r}")

    def need_id(self):
        tk = self.peek()
        if tk.k != "id":
            self.err("expected identifier")
        self.i += 1
        return tk.v

    def done(self):
        return self.i >= self.hi

    def split_shift(self):
        """turn a `>>` token into two `>` (closing two generic lists)"""
        tk = self.t[self.i]
        if tk.k == "p" and tk.v == ">>":
            self.t[self.i:self.i + 1] = [Tok("p", ">", tk.line), Tok("p", ">", tk.line)]
            self.hi += 1
            return True
        return False

    # -- types
    def parse_type(self):
        if self.eat_p("&") or self.at_p("&&"):
            if self.at_p("&&"):
                tk = self.t[self.i]
                self.t[self.i:self.i + 1] = [Tok("p", "&", tk.line), Tok("p", "&", tk.line)]
                self.hi += 1
                self.i += 1
            if self.peek().k == "life":
                self.i += 1
            if self.at_id("mut"):
                self.i += 1
            return ("ref", self.parse_type())
        if self.eat_p("["):
            el = self.parse_type()
            n = None
            if self.eat_p(";"):
                n = self.parse_expr()
            self.need_p("]")
            return ("array", el, n)
        if self.eat_p("("):
            els = []
            while not self.at_p(")"):
                els.append(self.parse_type())
                if not self.eat_p(","):
                    break
            self.need_p(")")
            if len(els) == 1:
                return els[0]
            return ("tuple", els) if els else ("unit",)
        if self.at_id():
            segs, gen = [], []
            while True:
                segs.append(self.need_id())
                if self.at_p("<"):
                    self.i += 1
                    while True:
                        if self.at_p(">>"):
                            self.split_shift()
                        if self.at_p(">"):
                            break
                        if self.peek().k == "life":
                            self.i += 1
                        else:
                            gen.append(self.parse_type())
                        if not self.eat_p(","):
                            break
                    if self.at_p(">>"):
                        self.split_shift()
                    self.need_p(">")
                if not self.eat_p("::"):
                    break
            return ("named", segs[-1], gen)
        self.err("unsupported type syntax")

    def char_token(self, tk):
        """(is a byte literal, scalar value) of a `char` token"""
        byte = tk.v.startswith("b")
        cps = unescape(tk.v[(2 if byte else 1):-1], self.err, byte)
        if len(cps) != 1:
            self.err(f"char literal {tk.v} does not hold exactly one character")
        return byte, cps[0]

    def str_token(self, tk):
        """the scalar values of a `str` token (plain or raw; byte strings are refused)"""
        v = tk.v
        if v.startswith("b"):
            self.err("byte string literals are not supported")
        if v.startswith("r"):
            h = len(v) - len(v[1:].lstrip("#")) - 1
            return [ord(c) for c in v[2 + h:len(v) - 1 - h]]
        if "\\\n" in v:
            self.err("line continuation inside a string literal is not supported")
        return unescape(v[1:-1], self.err, False)

    # -- patterns
    def parse_pattern(self):
        alts = [self.parse_pattern1()]
        while self.eat_p("|"):
            alts.append(self.parse_pattern1())
        return alts[0] if len(alts) == 1 else ("por", alts)

    def parse_pattern1(self):
        tk = self.peek()
        if tk.k == "p" and tk.v == "&":
            self.i += 1
            if self.at_id("mut"):
                self.i += 1
            return self.parse_pattern1()
        if tk.k == "p" and tk.v == "-" and self.peek(1).k == "int":
            self.i += 2
            return ("plit", -self.t[self.i - 1].v, self.t[self.i - 1].extra)
        if tk.k == "int":
            self.i += 1
            if self.at_p("..=") or self.at_p(".."):
                self.err("range patterns are not supported")
            return ("plit", tk.v, tk.extra)
        if tk.k == "char":
            self.i += 1
            byte, cp = self.char_token(tk)
            if self.at_p("..=") or self.at_p(".."):
                self.err("range patterns are not supported")
            return ("plit", cp, "u8") if byte else ("pchar", cp)
        if tk.k == "str":
            self.err("string literal patterns are not supported")
        if tk.k == "p" and tk.v == "(":
            self.i += 1
            els = []
            while not self.at_p(")"):
                els.append(self.parse_pattern())
                if not self.eat_p(","):
                    break
            self.need_p(")")
            return els[0] if len(els) == 1 else ("ptuple", els)
        if tk.k == "id":
            if tk.v == "_":
                self.i += 1
                return ("pwild",)
            if tk.v in ("true", "false"):
                self.i += 1
                return ("pbool", tk.v == "true")
            if tk.v in ("ref", "mut") and self.peek(1).k == "id":
                self.i += 1
                return self.parse_pattern1()
            segs = [self.need_id()]
            while self.eat_p("::"):
                segs.append(self.need_id())
            if self.eat_p("("):
                els = []
                while not self.at_p(")"):
                    els.append(self.parse_pattern())
                    if not self.eat_p(","):
                        break
                self.need_p(")")
                return ("ptstruct", segs, els)
            if self.at_p("{"):
                self.i += 1
                fields, rest = [], False
                while not self.at_p("}"):
                    if self.eat_p(".."):
                        rest = True
                        break
                    name = self.need_id()
                    if name in ("ref", "mut") and self.at_id():
                        name = self.need_id()
                    if self.eat_p(":"):
                        fields.append((name, self.parse_pattern()))
                    else:
                        fields.append((name, ("pbind", name)))
                    if not self.eat_p(","):
                        break
                self.need_p("}")
                return ("pstruct", segs, fields, rest)
            if len(segs) == 1 and segs[0] != "None" and not segs[0][0].isupper():
                return ("pbind", segs[0])
            return ("ppath", segs)
        self.err("unsupported pattern")

    # -- expressions
    def parse_expr(self, no_struct=False):
        return self.parse_range(no_struct)

    def parse_range(self, ns):
        lo = self.parse_bin(1, ns)
        for op in ("..=", ".."):
            if self.at_p(op):
                self.i += 1
                hi = None
                if not (self.at_p(")") or self.at_p("]") or self.at_p("{") or self.at_p(";") or self.at_p(",") or self.done()):
                    hi = self.parse_bin(1, ns)
                return ("range", lo, hi, op == "..=", self.peek().line)
        return lo

    def parse_bin(self, minp, ns):
        lhs = self.parse_cast(ns)
        while True:
            tk = self.peek()
            if tk.k != "p" or tk.v not in PREC or PREC[tk.v] < minp:
                return lhs
            op, p = tk.v, PREC[tk.v]
            self.i += 1
            rhs = self.parse_bin(p + 1, ns)
            if p == 3:
                nx = self.peek()
                if nx.k == "p" and nx.v in PREC and PREC[nx.v] == 3:
                    self.err("comparison operators cannot be chained")
            lhs = ("bin", op, lhs, rhs, tk.line)

    def parse_cast(self, ns):
        e = self.parse_unary(ns)
        while self.at_id("as"):
            line = self.peek().line
            self.i += 1
            e = ("cast", e, self.parse_type(), line)
        return e

    def parse_unary(self, ns):
        tk = self.peek()
        if tk.k == "p" and tk.v in ("-", "!", "*"):
            self.i += 1
            return ("un", tk.v, self.parse_unary(ns), tk.line)
        if tk.k == "p" and tk.v in ("&", "&&"):
            self.i += 1
            if self.at_id("mut"):
                self.i += 1
            return ("un", "&", self.parse_unary(ns), tk.line)
        return self.parse_postfix(ns)

    def parse_args(self):
        self.need_p("(")
        args = []
        while not self.at_p(")"):
            args.append(self.parse_expr())
            if not self.eat_p(","):
                break
        self.need_p(")")
        return args

    def parse_postfix(self, ns):
        e = self.parse_primary(ns)
        while True:
            tk = self.peek()
            if tk.k == "p" and tk.v == ".":
                nx = self.peek(1)
                if nx.k == "int" and nx.extra is None:
                    self.i += 2
                    e = ("field", e, str(nx.v), nx.line)
                elif nx.k == "float" and all(p.isdigit() for p in nx.v.split(".")) and nx.v.count(".") == 1:
                    self.i += 2
                    a, b = nx.v.split(".")
                    e = ("field", ("field", e, a, nx.line), b, nx.line)
                elif nx.k == "id":
                    self.i += 2
                    if self.at_p("::"):
                        self.err("turbofish is not supported")
                    if self.at_p("("):
                        e = ("mcall", e, nx.v, self.parse_args(), nx.line)
                    else:
                        e = ("field", e, nx.v, nx.line)
                else:
                    self.err("unsupported postfix after '.'")
            elif tk.k == "p" and tk.v == "(":
                e = ("call", e, self.parse_args(), tk.line)
            elif tk.k == "p" and tk.v == "[":
                self.i += 1
                ix = self.parse_expr()
                self.need_p("]")
                e = ("index", e, ix, tk.line)
            elif tk.k == "p" and tk.v == "?":
                self.err("the `?` operator is not supported")
            else:
                return e

    def parse_block(self):
        """`{ stmts; tail }` -> ("block", stmts, tail, line)"""
        line = self.peek().line
        self.need_p("{")
        stmts, tail = [], None
        while not self.at_p("}"):
            if self.done():
                self.err("unterminated block")
            if self.eat_p(";"):
                continue
            if self.at_id("let"):
                ln = self.peek().line
                self.i += 1
                pat = self.parse_pattern()
                ty = None
                if self.eat_p(":"):
                    ty = self.parse_type()
                if not self.eat_p("="):
                    self.err("`let` without initialiser is not supported")
                val = self.parse_expr()
                if self.at_id("else"):
                    self.err("`let … else` is not supported")
                self.need_p(";")
                stmts.append(("let", pat, ty, val, ln))
                continue
            if self.peek().k == "id" and self.peek().v not in ("if", "match", "return", "while") \
                    and self.at_p("!", 1) and self.at_p("(", 2):
                # macro invocation in statement position
                ln = self.peek().line
                name = self.need_id()
                self.i += 1
                close = match_close(self.t, self.i, self.where)
                body = self.t[self.i + 1:close]
                self.i = close + 1
                m = ("macro", name, body, ln)
                if self.eat_p(";") or self.at_p("}"):
                    if self.t[self.i - 1].v == ";":
                        stmts.append(("expr", m, True, ln))
                    else:
                        tail = m
                    continue
                self.err("macro invocation inside an expression is not supported")
            ln = self.peek().line
            if self.at_id("if") or self.at_id("match") or (self.at_id("unsafe") and self.at_p("{", 1)) or self.at_p("{"):
                # block-like expression statement: ends at its closing brace (Rust's statement rule)
                e = self.parse_primary(False)
                if self.at_p(".") or self.at_p("?"):
                    self.err("method call on a block-like expression statement is not supported")
                if self.at_p("}"):
                    tail = e
                else:
                    semi = self.eat_p(";")
                    stmts.append(("expr", e, semi, ln))
                continue
            e = self.parse_expr()
            if any(self.at_p(op) for op in ASSIGN_OPS):
                op = self.peek().v
                self.i += 1
                rhs = self.parse_expr()
                self.need_p(";") if not self.at_p("}") else None
                stmts.append(("assign", e, op, rhs, ln))
                continue
            if self.eat_p(";"):
                stmts.append(("expr", e, True, ln))
            elif self.at_p("}"):
                tail = e
            elif e[0] in ("if", "iflet", "match", "block"):
                stmts.append(("expr", e, False, ln))
            else:
                self.err("expected `;` or `}` after expression")
        self.need_p("}")
        return ("block", stmts, tail, line)

    def parse_if(self):
        line = self.peek().line
        self.i += 1  # `if`
        if self.at_id("let"):
            self.i += 1
            pat = self.parse_pattern()
            self.need_p("=")
            scrut = self.parse_expr(no_struct=True)
            if self.at_p("&&"):
                self.err("let-chains are not supported")
            then = self.parse_block()
            els = self.parse_else()
            return ("iflet", pat, scrut, then, els, line)
        cond = self.parse_expr(no_struct=True)
        then = self.parse_block()
        els = self.parse_else()
        return ("if", cond, then, els, line)

    def parse_else(self):
        if self.at_id("else"):
            self.i += 1
            if self.at_id("if"):
                e = self.parse_if()
                return ("block", [], e, e[-1])
            return self.parse_block()
        return None

    def parse_primary(self, ns):
        tk = self.peek()
        if tk.k == "int":
            self.i += 1
            return ("lit", tk.v, tk.extra, tk.line)
        if tk.k == "float":
            self.err("float literals are not supported")
        if tk.k == "char":
            self.i += 1
            byte, cps = self.char_token(tk)
            if byte:
                return ("lit", cps, "u8", tk.line)
            return ("char", cps, tk.line)
        if tk.k == "str":
            self.i += 1
            return ("str", self.str_token(tk), tk.line)
        if tk.k == "p" and tk.v == "(":
            self.i += 1
            els, trailing = [], False
            while not self.at_p(")"):
                els.append(self.parse_expr())
                trailing = False
                if not self.eat_p(","):
                    break
                trailing = True
            self.need_p(")")
            if len(els) == 1 and not trailing:
                return ("paren", els[0], tk.line)
            return ("tuple", els, tk.line)
        if tk.k == "p" and tk.v == "{":
            return self.parse_block()
        if tk.k == "p" and tk.v == "[":
            self.i += 1
            els = []
            while not self.at_p("]"):
                els.append(self.parse_expr())
                if self.at_p(";"):
                    self.err("array repeat expressions `[x; n]` are not supported")
                if not self.eat_p(","):
                    break
            self.need_p("]")
            if not els:
                self.err("empty array literals are not supported")
            return ("array", els, tk.line)
        if tk.k == "p" and tk.v in ("|", "||"):
            self.i += 1
            params = []
            if tk.v == "|":
                while not self.at_p("|"):
                    p = self.parse_pattern1()
                    ty = None
                    if self.eat_p(":"):
                        ty = self.parse_type()
                    params.append((p, ty))
                    if not self.eat_p(","):
                        break
                self.need_p("|")
            body = self.parse_expr()
            return ("closure", params, body, tk.line)
        if tk.k == "id":
            v = tk.v
            if v in ("true", "false"):
                self.i += 1
                return ("bool", v == "true", tk.line)
            if v == "if":
                return self.parse_if()
            if v == "unsafe" and self.at_p("{", 1):
                self.i += 1
                return self.parse_block()
            if v == "match":
                self.i += 1
                scrut = self.parse_expr(no_struct=True)
                self.need_p("{")
                arms = []
                while not self.at_p("}"):
                    pat = self.parse_pattern()
                    if self.at_id("if"):
                        self.err("match guards are not supported")
                    self.need_p("=>")
                    body = self.parse_expr()
                    arms.append((pat, body))
                    if not self.eat_p(","):
                        if body[0] not in ("block", "if", "iflet", "match") and not self.at_p("}"):
                            self.err("expected `,` after match arm")
                self.need_p("}")
                return ("match", scrut, arms, tk.line)
            if v == "return":
                self.i += 1
                val = None
                if not (self.at_p(";") or self.at_p("}")):
                    val = self.parse_expr()
                return ("return", val, tk.line)
            if v in ("for", "while", "loop", "break", "continue", "move", "async", "await", "dyn", "impl", "let"):
                self.err(f"`{v}` is not supported")
            segs = [self.need_id()]
            while self.at_p("::"):
                self.i += 1
                if self.at_p("<"):
                    self.err("turbofish is not supported")
                segs.append(self.need_id())
            if self.at_p("!") and not self.at_p("=", 1) and (self.at_p("(", 1) or self.at_p("[", 1) or self.at_p("{", 1)):
                self.err(f"macro `{segs[-1]}!` inside an expression is not supported")
            if self.at_p("{") and not ns and (segs[-1][0].isupper()):
                self.i += 1
                fields = []
                while not self.at_p("}"):
                    if self.at_p(".."):
                        self.err("struct update syntax is not supported")
                    name = self.need_id()
                    if self.eat_p(":"):
                        fields.append((name, self.parse_expr()))
                    else:
                        fields.append((name, ("path", [name], tk.line)))
                    if not self.eat_p(","):
                        break
                self.need_p("}")
                return ("struct", segs, fields, tk.line)
            return ("path", segs, tk.line)
        self.err("unsupported expression")


# ----------------------------------------------------------------------------- types
INT_INFO = {  # name -> (bits, signed, Lean type)
    "u8": (8, False, "UInt8"), "i8": (8, True, "Int8"), "u16": (16, False, "UInt16"), "i16": (16, True, "Int16"),
    "u32": (32, False, "UInt32"), "i32": (32, True, "Int32"), "u64": (64, False, "UInt64"), "i64": (64, True, "Int64"),
    "usize": (64, False, "RustSem.Usize"),
}
BOOL, UNIT, CHAR, STR = ("bool",), ("unit",), ("char",), ("str",)
LEAN_KW = {
    "end", "from", "at", "with", "do", "then", "else", "if", "fun", "let", "have", "show", "match", "open", "in",
    "instance", "structure", "class", "def", "theorem", "where", "deriving", "namespace", "section", "variable",
    "universe", "import", "local", "private", "protected", "macro", "syntax", "notation", "by", "Type", "Prop",
    "Sort", "mut", "for", "return", "inductive", "abbrev", "example", "axiom", "opaque", "export", "using",
    "calc", "nomatch", "nofun", "extends", "partial", "unsafe", "noncomputable", "mutual", "prefix", "infix",
    "infixl", "infixr", "postfix", "attribute", "set_option", "unless", "try", "catch", "finally", "break",
    "continue", "this", "suffices", "obtain", "exact", "termination_by", "decreasing_by", "true", "false", "fun",
    "λ", "forall", "exists", "Pi", "default", "none", "some", "id",
}
# `default`, `none`, `some`, `id` are not keywords but shadowing them by a local would change the meaning
# of generated references to them; quoting does not help there, so they are renamed instead
RENAME = {"default": "default_", "none": "none_", "some": "some_", "id": "id_", "true": "true_", "false": "false_", "this": "this_"}


def mangle(name):
    if name in RENAME:
        return RENAME[name]
    if name in LEAN_KW:
        return "«" + name + "»"
    return name


def is_int(t):
    return t is not None and t[0] == "int"


def ind(code, n):
    pad = " " * n
    return code.replace("\n", "\n" + pad)


class Fn:
    """a parsed function: signature and body"""
    pass


FILES = ["chess/gamestate.rs", "chess/position.rs", "chess/piece.rs", "chess/move_struct.rs", "chess/mod.rs",
         "chess/scores.rs", "search.rs"]


# modules whose `const` tables are computed at compile time from a binary file: a generated function that
# reads `<module>::<NAME>` takes the table as a parameter (type read from the declaration, value not)
EXTERN_FILES = ["chess/zobrist.rs"]


class Translator:
    def __init__(self):
        self.files = {}
        for rel in FILES:
            self.files[rel] = SourceFile(rel)
        self.extern_files = {rel: SourceFile(rel) for rel in EXTERN_FILES}
        self.out = []          # (key, lean text) in dependency order
        self.state = {}        # key -> "busy" | result
        self.adts = {}         # name -> parsed declaration
        self.summary = []      # (lean name, rust location)

    # -- lookup by NAME
    def find_type_file(self, name):
        hits = [(f, k) for f in self.files.values() for k in ("structs", "enums", "aliases") if name in getattr(f, k)]
        if len(hits) > 1:
            raise TranslateError(f"translate:{hits[0][0].rel}.{name}: type `{name}` is declared more than once "
                                 f"({', '.join(h[0].rel for h in hits)})")
        return hits[0] if hits else None

    def find_fn(self, owner, name, where):
        hits = [f for f in self.files.values() if (owner, name) in f.fns]
        if not hits:
            o = f"{owner}::" if owner else ""
            raise TranslateError(f"translate:{where}: function `{o}{name}` not found in {', '.join(FILES)}")
        if len(hits) > 1:
            raise TranslateError(f"translate:{where}: function `{name}` found in several files")
        return hits[0]

    def find_const(self, owner, name):
        hits = [f for f in self.files.values() if (owner, name) in f.consts]
        return hits[0] if len(hits) == 1 else None

    def find_extern(self, module, name, where):
        """`module::NAME` declared `const NAME: <array type> = …` in an EXTERN_FILES module ->
        (NAME, type, note) or None"""
        for rel, f in self.extern_files.items():
            if os.path.splitext(os.path.basename(rel))[0] != module or (None, name) not in f.consts:
                continue
            i = f.consts[(None, name)]
            w = f"{rel}.{name}"
            p = Parser(f.toks, i + 2, len(f.toks) - 1, w)
            p.need_p(":")
            j = p.i
            ty = self.resolve_type(p.parse_type(), None, w)
            text = " ".join(self.tok_text(x) for x in f.toks[j:p.i])
            p.need_p("=")
            if ty[0] != "array":
                raise TranslateError(f"translate:{where}: external constant `{module}::{name}` is not an array "
                                     f"(only tables are taken as parameters)")
            return name, ty, (f"`{module}::{name}` (`{rel}:{f.toks[i].line}`, `{text}`, computed at compile time) "
                              f"is the parameter `{name}`")
        return None

    # -- declarations of structs / enums / aliases
    def resolve_type(self, ty, self_name, where):
        k = ty[0]
        if k == "ref":
            return self.resolve_type(ty[1], self_name, where)
        if k == "unit":
            return UNIT
        if k == "array":
            return ("array", self.resolve_type(ty[1], self_name, where))
        if k == "tuple":
            return ("tuple", [self.resolve_type(x, self_name, where) for x in ty[1]])
        if k == "named":
            name, gen = ty[1], ty[2]
            if name in INT_INFO and not gen:
                return ("int", name)
            if name == "bool" and not gen:
                return BOOL
            if name == "char" and not gen:
                return CHAR
            if name == "str" and not gen:
                return STR       # only behind `&` (checked by rustc); `&str` is an immutable string value
            if name in PRIMS:
                raise TranslateError(f"translate:{where}: type `{name}` is not supported")
            if name == "Self":
                if self_name is None:
                    raise TranslateError(f"translate:{where}: `Self` outside an impl")
                return ("adt", self_name)
            if name == "Option" and len(gen) == 1:
                return ("option", self.resolve_type(gen[0], self_name, where))
            if name == "Cell" and len(gen) == 1:
                return ("cell", self.resolve_type(gen[0], self_name, where))
            if gen:
                raise TranslateError(f"translate:{where}: generic type `{name}<…>` is not supported")
            hit = self.find_type_file(name)
            if hit is None:
                raise TranslateError(f"translate:{where}: unknown type `{name}`")
            f, kind = hit
            if kind == "aliases":
                i = f.aliases[name]
                p = Parser(f.toks, i + 2, len(f.toks) - 1, f"{f.rel}.{name}")
                p.need_p("=")
                target = p.parse_type()
                p.need_p(";")
                return self.resolve_type(target, None, f"{f.rel}.{name}")
            self.need_adt(name)
            return ("adt", name)
        raise TranslateError(f"translate:{where}: unsupported type {ty!r}")

    def need_adt(self, name):
        """parse and emit the declaration of struct/enum `name` (once)"""
        key = ("type", name)
        if key in self.state:
            if self.state[key] == "busy":
                raise TranslateError(f"translate:{name}: recursive type")
            return self.adts[name]
        self.state[key] = "busy"
        f, kind = self.find_type_file(name)
        where = f"{f.rel}.{name}"
        t = f.toks
        if kind == "structs":
            i = f.structs[name]
            p = Parser(t, i + 2, len(t) - 1, where)
            if p.at_p("<"):
                p.err("generic struct is not supported")
            fields = []
            if p.at_p("{"):
                close = match_close(t, p.i, where)
                p.i += 1
                while p.i < close:
                    self.skip_attrs_vis(p)
                    if p.i >= close:
                        break
                    fname = p.need_id()
                    p.need_p(":")
                    fields.append((fname, p.parse_type()))
                    if not p.eat_p(","):
                        break
                if p.i != close:
                    p.err("cannot parse struct fields")
                tuple_like = False
            elif p.at_p("("):
                close = match_close(t, p.i, where)
                p.i += 1
                n = 0
                while p.i < close:
                    self.skip_attrs_vis(p)
                    fields.append((str(n), p.parse_type()))
                    n += 1
                    if not p.eat_p(","):
                        break
                if p.i != close:
                    p.err("cannot parse tuple struct fields")
                tuple_like = True
            else:
                p.err("unit struct is not supported")
            decl = {"kind": "struct", "name": name, "tuple": tuple_like, "file": f.rel, "line": t[i].line,
                    "derives": f.derives.get(name, set())}
            self.adts[name] = decl
            decl["fields"] = [(fn_, self.resolve_type(ft, name, where)) for fn_, ft in fields]
            lines = [f"/-- `{f.rel}:{t[i].line}` `struct {name}` -/", f"structure {name} where"]
            for fn_, ft in decl["fields"]:
                lines.append(f"  {self.field_name(fn_)} : {self.lean_ty(ft)}")
            lines.append("  deriving DecidableEq, Repr")
            self.out.append((key, "\n".join(lines)))
        else:
            i = f.enums[name]
            p = Parser(t, i + 2, len(t) - 1, where)
            if not p.at_p("{"):
                p.err("generic enum is not supported")
            close = match_close(t, p.i, where)
            p.i += 1
            variants = []
            while p.i < close:
                self.skip_attrs_vis(p)
                if p.i >= close:
                    break
                vname = p.need_id()
                vfields, vkind, disc = [], "unit", None
                if p.at_p("{"):
                    vkind = "struct"
                    c2 = match_close(t, p.i, where)
                    p.i += 1
                    while p.i < c2:
                        self.skip_attrs_vis(p)
                        if p.i >= c2:
                            break
                        fname = p.need_id()
                        p.need_p(":")
                        vfields.append((fname, p.parse_type()))
                        if not p.eat_p(","):
                            break
                    if p.i != c2:
                        p.err("cannot parse variant fields")
                    p.i = c2 + 1
                elif p.at_p("("):
                    vkind = "tuple"
                    c2 = match_close(t, p.i, where)
                    p.i += 1
                    n = 0
                    while p.i < c2:
                        vfields.append((str(n), p.parse_type()))
                        n += 1
                        if not p.eat_p(","):
                            break
                    p.i = c2 + 1
                if p.eat_p("="):
                    disc = self.const_eval(p.parse_expr(), where)
                variants.append([vname, vkind, vfields, disc])
                if not p.eat_p(","):
                    break
            if p.i != close:
                p.err("cannot parse enum variants")
            decl = {"kind": "enum", "name": name, "file": f.rel, "line": t[i].line,
                    "derives": f.derives.get(name, set())}
            self.adts[name] = decl
            nxt = 0
            vs = []
            for vname, vkind, vfields, disc in variants:
                d = disc if disc is not None else nxt
                nxt = d + 1
                vs.append({"name": vname, "kind": vkind, "disc": d,
                           "fields": [(a, self.resolve_type(b, name, where)) for a, b in vfields]})
            decl["variants"] = vs
            decl["fieldless"] = all(v["kind"] == "unit" for v in vs)
            lines = [f"/-- `{f.rel}:{t[i].line}` `enum {name}` -/", f"inductive {name} where"]
            for v in vs:
                args = "".join(f" ({self.field_name(a)} : {self.lean_ty(b)})" for a, b in v["fields"])
                lines.append(f"  | {v['name']}{args}")
            lines.append("  deriving DecidableEq, Repr")
            if decl["fieldless"]:
                lines.append(f"/-- discriminants of `{name}` (declaration order unless written `= n`) -/")
                lines.append(f"def {name}.discr : {name} → Int")
                for v in vs:
                    lines.append(f"  | .{v['name']} => {v['disc']}")
            lines.append(f"instance : Inhabited {name} := ⟨" + self.enum_default(vs, name) + "⟩")
            self.out.append((key, "\n".join(lines)))
        if decl["kind"] == "struct":
            self.out.append((("inh", name), f"instance : Inhabited {name} := ⟨⟨" +
                             ", ".join("default" for _ in decl["fields"]) + "⟩⟩"))
        self.state[key] = decl
        return decl

    def enum_default(self, vs, name):
        v = vs[0]
        return f"{name}.{v['name']}" + "".join(" default" for _ in v["fields"])

    @staticmethod
    def skip_attrs_vis(p):
        while True:
            if p.at_p("#"):
                p.i += 1
                p.i = match_close(p.t, p.i, p.where) + 1
                continue
            if p.at_id("pub"):
                p.i += 1
                if p.at_p("("):
                    p.i = match_close(p.t, p.i, p.where) + 1
                continue
            return

    @staticmethod
    def field_name(n):
        return "_" + n if n.isdigit() else mangle(n)

    def lean_ty(self, t):
        k = t[0]
        if k == "int":
            return INT_INFO[t[1]][2]
        if k == "bool":
            return "Bool"
        if k == "unit":
            return "Unit"
        if k == "char":
            return "Char"
        if k == "str":
            return "String"
        if k == "adt":
            return t[1]
        if k == "option":
            return f"(Option {self.lean_ty(t[1])})"
        if k == "tuple":
            return "(" + " × ".join(self.lean_ty(x) for x in t[1]) + ")"
        if k == "array":
            return f"(Array {self.lean_ty(t[1])})"
        if k == "cell":
            return self.lean_ty(t[1])
        raise TranslateError(f"internal: no Lean type for {t!r}")

    def const_eval(self, e, where):
        """integer constant expressions (discriminants, shift amounts, array lengths)"""
        k = e[0]
        if k == "lit":
            return e[1]
        if k == "paren":
            return self.const_eval(e[1], where)
        if k == "un" and e[1] == "-":
            return -self.const_eval(e[2], where)
        if k == "bin" and e[1] in ("+", "-", "*"):
            a, b = self.const_eval(e[2], where), self.const_eval(e[3], where)
            return a + b if e[1] == "+" else a - b if e[1] == "-" else a * b
        raise TranslateError(f"translate:{where}: expected an integer constant expression")


    # ------------------------------------------------------------------------- functions
    def parse_fn(self, owner, name, where_from):
        f = self.find_fn(owner, name, where_from)
        where = f"{f.rel}.{owner + '::' if owner else ''}{name}"
        t = f.toks
        i = f.fns[(owner, name)]
        p = Parser(t, i + 2, len(t) - 1, where)
        if p.at_p("<"):
            p.err("generic functions are not supported")
        if not p.at_p("("):
            p.err("expected parameter list")
        close = match_close(t, p.i, where)
        p.i += 1
        params, self_kind = [], None
        while p.i < close:
            if p.at_p("&") and (p.at_id("self", 1) or (p.at_id("mut", 1) and p.at_id("self", 2))):
                self_kind = "mut" if p.at_id("mut", 1) else "ref"
                p.i += 3 if self_kind == "mut" else 2
            elif p.at_id("self") or (p.at_id("mut") and p.at_id("self", 1)):
                self_kind = "val"
                p.i += 2 if p.at_id("mut") else 1
                if p.at_p(":"):
                    p.err("typed `self` is not supported")
            else:
                if p.at_id("mut"):
                    p.i += 1
                pname = p.need_id()
                p.need_p(":")
                params.append((pname, self.resolve_type(p.parse_type(), owner, where)))
            if not p.eat_p(","):
                break
        if p.i != close:
            p.err("cannot parse parameter list")
        p.i = close + 1
        ret = UNIT
        if p.eat_p("->"):
            ret = self.resolve_type(p.parse_type(), owner, where)
        if not p.at_p("{"):
            p.err("expected function body (where-clauses are not supported)")
        bclose = match_close(t, p.i, where)     # the body, by brace matching on tokens
        bp = Parser(t, p.i, bclose + 1, where)
        body = bp.parse_block()
        if bp.i != bclose + 1:
            bp.err("function body not consumed to its closing brace")
        fn = Fn()
        fn.owner, fn.name, fn.where, fn.file, fn.line = owner, name, where, f.rel, t[i].line
        fn.params, fn.self_kind, fn.ret, fn.body = params, self_kind, ret, body
        fn.externs = []
        if self_kind and owner is None:
            raise TranslateError(f"translate:{where}: `self` outside an impl")
        # the Rust text of the signature, for the doc comment
        fn.sig = " ".join(self.tok_text(x) for x in t[i:p.i]).replace("`", "'")
        return fn

    @staticmethod
    def tok_text(tk):
        if tk.k == "int":
            return str(tk.v) + (tk.extra or "")
        return str(tk.v)

    def lean_fn_name(self, owner, name):
        n = "«" + name + "»" if name in LEAN_KW and name not in RENAME else name
        if owner is None and name in RENAME:
            n = RENAME[name]
        return (owner + "." if owner else "") + n

    def need_fn(self, owner, name, where_from):
        """translate `owner::name` (once); returns its Fn (signature)"""
        key = ("fn", owner, name)
        if key in self.state:
            if self.state[key] == "busy":
                raise TranslateError(f"translate:{where_from}: recursion through `{name}` is not supported")
            return self.state[key]
        self.state[key] = "busy"
        fn = self.parse_fn(owner, name, where_from)
        if owner:
            self.need_adt(owner)
        env = {}
        binders = []
        if fn.self_kind:
            env["self"] = ("adt", owner)
            binders.append(f"(self : {owner})")
        for pn, pt in fn.params:
            env[pn] = pt
            binders.append(f"({mangle(pn)} : {self.lean_ty(pt)})")
        cx = Ctx(self, fn, owner)
        try:
            return self._emit_fn(cx, fn, owner, name, env, binders, key)
        except NeedType:
            raise TranslateError(f"translate:{fn.where}: cannot determine the type of an integer literal "
                                 "(rustc would default to i32; write a suffix or a type)")

    def _emit_fn(self, cx, fn, owner, name, env, binders, key):
        if fn.self_kind == "mut":
            if fn.ret != UNIT:
                raise TranslateError(f"translate:{fn.where}: `&mut self` method returning a value is not supported")
            lines, _ = cx.stmts(fn.body[1], fn.body[2], dict(env), None, True, final="self")
            ret_lean = owner
            note = " (state-passing: returns the updated `self`)"
        else:
            lines, ty = cx.stmts(fn.body[1], fn.body[2], dict(env), fn.ret, True)
            cx.same(ty, fn.ret, fn.line, "returned value")
            ret_lean = self.lean_ty(fn.ret)
            note = ""
        notes = "".join(f"\n{n}" for n in cx.notes)
        lname = self.lean_fn_name(owner, name)
        fn.externs = list(cx.externs)
        for xn, xt in fn.externs:
            if xn in env:
                raise TranslateError(f"translate:{fn.where}: line {fn.line}: the external table `{xn}` has the name of a parameter")
        binders = [f"({xn} : {self.lean_ty(xt)})" for xn, xt in fn.externs] + binders
        text = (f"/-- `{fn.file}:{fn.line}` `{fn.sig}`{note}{notes} -/\n"
                f"def {lname} {' '.join(binders)} : {ret_lean} :=\n  " + ind("\n".join(lines), 2))
        self.out.append((key, text))
        self.summary.append((lname, f"{fn.file}:{fn.line}"))
        self.state[key] = fn
        return fn

    def need_const(self, owner, name, where_from):
        key = ("const", owner, name)
        if key in self.state:
            if self.state[key] == "busy":
                raise TranslateError(f"translate:{where_from}: recursive constant `{name}`")
            return self.state[key]
        self.state[key] = "busy"
        f = self.find_const(owner, name)
        if f is None:
            raise TranslateError(f"translate:{where_from}: constant `{(owner + '::') if owner else ''}{name}` not found")
        where = f"{f.rel}.{owner + '::' if owner else ''}{name}"
        t = f.toks
        i = f.consts[(owner, name)]
        p = Parser(t, i + 2, len(t) - 1, where)
        p.need_p(":")
        ty = self.resolve_type(p.parse_type(), owner, where)
        p.need_p("=")
        e = p.parse_expr()
        p.need_p(";")
        fn = Fn()
        fn.owner, fn.name, fn.where, fn.file, fn.line, fn.ret = owner, name, where, f.rel, t[i].line, ty
        cx = Ctx(self, fn, owner)
        try:
            code, ety = cx.expr(e, {}, ty)
        except NeedType:
            raise TranslateError(f"translate:{where}: cannot determine the type of an integer literal")
        cx.same(ety, ty, t[i].line, "constant")
        if cx.externs:
            raise TranslateError(f"translate:{where}: line {t[i].line}: a constant that reads an external table is not supported")
        lname = self.lean_fn_name(owner, name)
        self.out.append((key, f"/-- `{f.rel}:{t[i].line}` `const {name}` -/\ndef {lname} : {self.lean_ty(ty)} :=\n  {ind(code, 2)}"))
        self.summary.append((lname, f"{f.rel}:{t[i].line}"))
        self.state[key] = (lname, ty)
        return self.state[key]


# ----------------------------------------------------------------------------- elaboration
class Pending:
    """`let x = <unsuffixed literal expression>;` whose integer type is fixed by the first typed use"""

    def __init__(self, name, ast, env, lines, idx, line):
        self.name, self.ast, self.env, self.lines, self.idx, self.line, self.ty = name, ast, env, lines, idx, line, None


class Ctx:
    """typing + Lean printing of one function body"""

    def __init__(self, tr, fn, owner):
        self.tr, self.fn, self.owner = tr, fn, owner
        self.notes = []
        self.externs = []      # (name, type) of the external tables read, in order of first use

    def err(self, line, msg):
        raise TranslateError(f"translate:{self.fn.where}: line {line}: {msg}")

    def same(self, a, b, line, what):
        if a != b:
            self.err(line, f"type mismatch in {what}: {self.show(a)} vs {self.show(b)}")

    def show(self, t):
        if t is None:
            return "?"
        if t[0] == "int":
            return t[1]
        if t[0] in ("adt",):
            return t[1]
        if t[0] in ("option", "array", "cell"):
            return f"{t[0]}<{self.show(t[1])}>"
        if t[0] == "tuple":
            return "(" + ", ".join(self.show(x) for x in t[1]) + ")"
        return t[0]

    # -- literals
    def lit(self, v, ity, line):
        bits, signed, lean = INT_INFO[ity]
        lo, hi = (-(1 << (bits - 1)), (1 << (bits - 1)) - 1) if signed else (0, (1 << bits) - 1)
        if not (lo <= v <= hi):
            self.err(line, f"literal {v} out of range for {ity}")
        return f"({v} : {lean})", ("int", ity)

    def type_name(self, seg, line):
        """resolve a path segment naming a type to an adt name (None if it is not a type)"""
        if seg == "Self":
            if self.owner is None:
                self.err(line, "`Self` outside an impl")
            return self.owner
        hit = self.tr.find_type_file(seg)
        if hit is None:
            return None
        t = self.tr.resolve_type(("named", seg, []), self.owner, self.fn.where)
        return t[1] if t[0] == "adt" else None

    def variant(self, adt, vname, line):
        decl = self.tr.need_adt(adt)
        if decl["kind"] != "enum":
            self.err(line, f"`{adt}` is not an enum")
        for v in decl["variants"]:
            if v["name"] == vname:
                return v
        self.err(line, f"enum `{adt}` has no variant `{vname}`")

    # -- expressions: returns (lean code, type)
    def expr(self, e, env, exp):
        k = e[0]
        m = getattr(self, "e_" + k, None)
        if m is None:
            self.err(e[-1] if isinstance(e[-1], int) else self.fn.line, f"unsupported expression kind `{k}`")
        return m(e, env, exp)

    def e_paren(self, e, env, exp):
        return self.expr(e[1], env, exp)

    def e_lit(self, e, env, exp):
        _, v, suffix, line = e
        if suffix is not None:
            if suffix not in INT_INFO:
                self.err(line, f"integer type {suffix} is not supported")
            return self.lit(v, suffix, line)
        if is_int(exp):
            return self.lit(v, exp[1], line)
        if exp is not None:
            self.err(line, f"integer literal where {self.show(exp)} is expected")
        raise NeedType()

    def e_bool(self, e, env, exp):
        return ("true" if e[1] else "false"), BOOL

    def e_char(self, e, env, exp):
        return lean_char(e[1]), CHAR

    def e_str(self, e, env, exp):
        out = []
        for cp in e[1]:
            ch = chr(cp)
            if ch in '"\\':
                out.append("\\" + ch)
            elif 32 <= cp < 127 or (cp >= 0xA1 and ch.isprintable()):
                out.append(ch)
            elif cp < 256:
                out.append(f"\\x{cp:02x}")
            else:
                self.err(e[2], f"string literal with the unprintable character U+{cp:04X} is not supported")
        return '"' + "".join(out) + '"', STR

    def e_un(self, e, env, exp):
        _, op, x, line = e
        if op in ("&", "*"):
            return self.expr(x, env, exp)      # references are erased
        if op == "-":
            y = x
            while y[0] == "paren":
                y = y[1]
            if y[0] == "lit":
                ity = y[2] or (exp[1] if is_int(exp) else None)
                if ity is None:
                    raise NeedType()
                if ity not in INT_INFO:
                    self.err(line, f"integer type {ity} is not supported")
                if not INT_INFO[ity][1]:
                    self.err(line, f"negative literal of unsigned type {ity}")
                return self.lit(-y[1], ity, line)
            c, t = self.expr(x, env, exp)
            if not is_int(t) or not INT_INFO[t[1]][1]:
                self.err(line, f"unary `-` on {self.show(t)}")
            return f"(-{c})", t
        if op == "!":
            c, t = self.expr(x, env, exp)
            if t == BOOL:
                return f"(!{c})", t
            if is_int(t):
                if t[1] == "usize":
                    self.err(line, "`!` on usize is not supported")
                return f"(~~~{c})", t
            self.err(line, f"`!` on {self.show(t)}")
        self.err(line, f"unsupported unary operator {op}")

    def unify2(self, l, r, env, exp):
        try:
            cl, tl = self.expr(l, env, exp)
        except NeedType:
            cr, tr_ = self.expr(r, env, exp)      # may raise NeedType again: both sides untyped
            cl, tl = self.expr(l, env, tr_)
            return cl, tl, cr, tr_
        cr, tr_ = self.expr(r, env, tl)
        return cl, tl, cr, tr_

    def e_bin(self, e, env, exp):
        _, op, l, r, line = e
        if op in ("&&", "||"):
            cl, tl = self.expr(l, env, BOOL)
            cr, tr_ = self.expr(r, env, BOOL)
            self.same(tl, BOOL, line, f"left operand of {op}")
            self.same(tr_, BOOL, line, f"right operand of {op}")
            return f"({cl} {op} {cr})", BOOL
        if op in ("<<", ">>"):
            cl, tl = self.expr(l, env, exp if is_int(exp) else None)
            if not is_int(tl):
                self.err(line, f"`{op}` on {self.show(tl)}")
            if tl[1] == "usize":
                self.err(line, f"`{op}` on usize is not supported")
            try:
                n = self.tr.const_eval(r, self.fn.where)
            except TranslateError:
                self.err(line, f"the amount of `{op}` must be an integer literal")
            bits = INT_INFO[tl[1]][0]
            if not (0 <= n < bits):
                self.err(line, f"shift amount {n} out of range for {tl[1]} (rustc rejects it)")
            lop = "<<<" if op == "<<" else ">>>"
            return f"({cl} {lop} ({n} : {INT_INFO[tl[1]][2]}))", tl
        if op in ("==", "!=", "<", ">", "<=", ">="):
            try:
                cl, tl, cr, tr_ = self.unify2(l, r, env, None)
            except NeedType:
                self.err(line, f"cannot determine the integer type of the operands of `{op}` "
                               "(rustc would default to i32; write a suffix)")
            self.same(tl, tr_, line, f"operands of {op}")
            if op in ("==", "!="):
                self.need_eq(tl, line)
                return f"({cl} {op} {cr})", BOOL
            if not is_int(tl) and tl != CHAR:
                self.err(line, f"`{op}` on {self.show(tl)} is not supported")
            lop = {"<": "<", ">": ">", "<=": "≤", ">=": "≥"}[op]
            return f"(decide ({cl} {lop} {cr}))", BOOL
        if op in ("+", "-", "*", "&", "|", "^"):
            cl, tl, cr, tr_ = self.unify2(l, r, env, exp if (is_int(exp) or exp == BOOL) else None)
            self.same(tl, tr_, line, f"operands of {op}")
            if tl == BOOL and op in ("&", "|", "^"):
                lop = {"&": "&&", "|": "||", "^": "!="}[op]
                return f"({cl} {lop} {cr})", BOOL
            if not is_int(tl):
                self.err(line, f"`{op}` on {self.show(tl)} is not supported")
            if tl[1] == "usize" and op in ("+", "-", "*"):
                f = {"+": "add", "-": "sub", "*": "mul"}[op]
                return f"(RustSem.Usize.{f} {cl} {cr})", tl
            lop = {"+": "+", "-": "-", "*": "*", "&": "&&&", "|": "|||", "^": "^^^"}[op]
            return f"({cl} {lop} {cr})", tl
        self.err(line, f"operator `{op}` is not supported")

    def need_eq(self, t, line):
        if t[0] == "adt":
            d = self.tr.need_adt(t[1])
            if "PartialEq" not in d["derives"]:
                self.err(line, f"`==` on `{t[1]}`, which does not derive PartialEq")
            if d["kind"] == "struct":
                for _, ft in d["fields"]:
                    self.need_eq(ft, line)
            else:
                for v in d["variants"]:
                    for _, ft in v["fields"]:
                        self.need_eq(ft, line)
        elif t[0] in ("option", "array", "cell"):
            self.need_eq(t[1], line)
        elif t[0] == "tuple":
            for x in t[1]:
                self.need_eq(x, line)

    def e_cast(self, e, env, exp):
        _, x, ty, line = e
        target = self.tr.resolve_type(ty, self.owner, self.fn.where)
        if target == CHAR:
            # rustc accepts `as char` only from `u8` (and from `char`)
            c, t = self.expr(x, env, ("int", "u8"))
            if t == CHAR:
                return c, t
            if t != ("int", "u8"):
                self.err(line, f"cast from {self.show(t)} to char (rustc accepts only u8)")
            return f"(RustSem.u8ToChar {c})", CHAR
        if not is_int(target):
            self.err(line, f"cast to {self.show(target)} is not supported")
        try:
            c, t = self.expr(x, env, None)
        except NeedType:
            return self.expr(x, env, target)     # `1 as u8`: the literal takes the target type
        lt = INT_INFO[target[1]][2]
        if t == target:
            return c, t
        if is_int(t):
            return f"(RustSem.cast {c} : {lt})", target
        if t == BOOL:
            return f"(if {c} then (1 : {lt}) else (0 : {lt}))", target
        if t == CHAR:
            return f"(RustSem.charCast {c} : {lt})", target
        if t[0] == "adt":
            d = self.tr.need_adt(t[1])
            if d["kind"] == "enum" and d["fieldless"]:
                return f"(RustSem.cast ({t[1]}.discr {c}) : {lt})", target
        self.err(line, f"cast from {self.show(t)} to {self.show(target)} is not supported")

    def e_path(self, e, env, exp):
        _, segs, line = e
        if len(segs) == 1:
            n = segs[0]
            if n in env:
                v = env[n]
                if isinstance(v, Pending):
                    if v.ty is None:
                        if not is_int(exp):
                            raise NeedType()
                        c, t = self.expr(v.ast, v.env, exp)
                        v.ty = t
                        v.lines[v.idx] = f"let {mangle(n)} : {self.tr.lean_ty(t)} := {ind(c, 2)}"
                    return mangle(n), v.ty
                return mangle(n), v
            if n == "None":
                if exp is not None and exp[0] == "option":
                    return f"(none : {self.tr.lean_ty(exp)})", exp
                self.err(line, "cannot determine the type of `None`")
            if n == "self":
                self.err(line, "`self` is not a parameter here")
            if self.tr.find_const(None, n) is not None:
                return self.tr.need_const(None, n, self.fn.where)
            self.err(line, f"unknown name `{n}`")
        owner = self.type_name(segs[-2], line)
        if owner is None:
            x = self.tr.find_extern(segs[-2], segs[-1], self.fn.where)
            if x is not None:
                xn, xt, xnote = x
                if xn in env:
                    self.err(line, f"the external table `{xn}` has the name of a local variable")
                if (xn, xt) not in self.externs:
                    self.externs.append((xn, xt))
                self.note(xnote)
                return xn, xt
            # module path to a constant:  scores::ENDGAME_THRESHOLD
            if self.tr.find_const(None, segs[-1]) is not None:
                return self.tr.need_const(None, segs[-1], self.fn.where)
            self.err(line, f"unknown path `{'::'.join(segs)}`")
        d = self.tr.need_adt(owner)
        if d["kind"] == "enum" and any(v["name"] == segs[-1] for v in d["variants"]):
            v = self.variant(owner, segs[-1], line)
            if v["kind"] != "unit":
                self.err(line, f"variant `{owner}::{segs[-1]}` needs fields")
            return f"{owner}.{v['name']}", ("adt", owner)
        if self.tr.find_const(owner, segs[-1]) is not None:
            return self.tr.need_const(owner, segs[-1], self.fn.where)
        self.err(line, f"unknown path `{'::'.join(segs)}`")

    def e_field(self, e, env, exp):
        _, b, name, line = e
        c, t = self.expr(b, env, None)
        if t[0] == "adt":
            d = self.tr.need_adt(t[1])
            if d["kind"] != "struct":
                self.err(line, f"field access on enum `{t[1]}`")
            for fn_, ft in d["fields"]:
                if fn_ == name:
                    return f"{c}.{self.tr.field_name(fn_)}", ft
            self.err(line, f"struct `{t[1]}` has no field `{name}`")
        if t[0] == "tuple" and name.isdigit():
            k, n = int(name), len(t[1])
            if k >= n:
                self.err(line, f"tuple index {k} out of range")
            proj = ".2" * k + (".1" if k < n - 1 else "")
            return f"{c}{proj}", t[1][k]
        self.err(line, f"field `{name}` of {self.show(t)}")

    def call_fn(self, owner, name, recv, args, env, line):
        sig = self.tr.need_fn(owner, name, self.fn.where)
        if sig.self_kind == "mut":
            self.err(line, f"call of `&mut self` method `{name}` inside an expression is not supported")
        if (recv is not None) != (sig.self_kind is not None):
            self.err(line, f"`{name}` called with the wrong receiver form")
        if len(args) != len(sig.params):
            self.err(line, f"`{name}` expects {len(sig.params)} argument(s)")
        for x in sig.externs:
            if x[0] in env:
                self.err(line, f"the external table `{x[0]}` (read by `{name}`) has the name of a local variable")
            if x not in self.externs:
                self.externs.append(x)
        codes = [x[0] for x in sig.externs] + ([] if recv is None else [recv])
        for a, (pn, pt) in zip(args, sig.params):
            c, t = self.expr(a, env, pt)
            self.same(t, pt, line, f"argument `{pn}` of `{name}`")
            codes.append(c)
        return f"({self.tr.lean_fn_name(owner, name)} {' '.join(codes)})", sig.ret

    def e_call(self, e, env, exp):
        _, callee, args, line = e
        if callee[0] != "path":
            self.err(line, "only calls of named functions are supported")
        segs = callee[1]
        if segs == ["Some"]:
            if len(args) != 1:
                self.err(line, "`Some` takes one argument")
            inner = exp[1] if exp is not None and exp[0] == "option" else None
            c, t = self.expr(args[0], env, inner)
            return f"(some {c})", ("option", t)
        if len(segs) == 1:
            owner = self.type_name(segs[0], line) if segs[0][0].isupper() else None
            if owner is not None:
                d = self.tr.need_adt(owner)
                if d["kind"] == "struct" and d["tuple"]:
                    if len(args) != len(d["fields"]):
                        self.err(line, f"`{owner}(…)` expects {len(d['fields'])} fields")
                    cs = []
                    for a, (fn_, ft) in zip(args, d["fields"]):
                        c, t = self.expr(a, env, ft)
                        self.same(t, ft, line, f"field {fn_} of `{owner}`")
                        cs.append(c)
                    return f"({owner}.mk {' '.join(cs)})", ("adt", owner)
                self.err(line, f"`{segs[0]}(…)` is not a tuple struct")
            return self.call_fn(None, segs[0], None, args, env, line)
        owner = self.type_name(segs[-2], line)
        if owner is None:
            return self.call_fn(None, segs[-1], None, args, env, line)   # module::function
        d = self.tr.need_adt(owner)
        if d["kind"] == "enum" and any(v["name"] == segs[-1] for v in d["variants"]):
            v = self.variant(owner, segs[-1], line)
            if v["kind"] != "tuple" or len(args) != len(v["fields"]):
                self.err(line, f"variant `{owner}::{segs[-1]}` is not a tuple variant of that arity")
            cs = []
            for a, (fn_, ft) in zip(args, v["fields"]):
                c, t = self.expr(a, env, ft)
                self.same(t, ft, line, f"field of `{owner}::{segs[-1]}`")
                cs.append(c)
            return f"({owner}.{v['name']} {' '.join(cs)})", ("adt", owner)
        return self.call_fn(owner, segs[-1], None, args, env, line)

    def closure1(self, a, pty, env, exp, line, what):
        while a[0] == "paren":
            a = a[1]
        if a[0] != "closure" or len(a[1]) != 1:
            self.err(line, f"`{what}` expects a one-parameter closure")
        (pat, ty), body = a[1][0], a[2]
        if ty is not None:
            self.same(self.tr.resolve_type(ty, self.owner, self.fn.where), pty, line, "closure parameter")
        env2 = dict(env)
        pc = self.pattern(pat, pty, env2, line)
        if pat[0] not in ("pbind", "pwild"):
            self.err(line, "closure parameter must be a name")
        c, t = self.expr(body, env2, exp)
        return f"(fun {pc} => {c})", t

    def e_mcall(self, e, env, exp):
        _, recv, name, args, line = e
        r = recv
        while r[0] == "paren":
            r = r[1]
        if r[0] == "range":
            if name != "contains" or len(args) != 1:
                self.err(line, f"method `{name}` of a range is not supported")
            _, lo, hi, incl, _l = r
            if hi is None:
                self.err(line, "half-open range without end in `contains`")
            cx, tx = self.expr(args[0], env, None)
            if not is_int(tx):
                self.err(line, f"`contains` on a range of {self.show(tx)}")
            clo, tlo = self.expr(lo, env, tx)
            chi, thi = self.expr(hi, env, tx)
            self.same(tlo, tx, line, "range start")
            self.same(thi, tx, line, "range end")
            f = "rangeInclContains" if incl else "rangeContains"
            return f"(RustSem.{f} {clo} {chi} {cx})", BOOL
        c, t = self.expr(recv, env, None)
        if t[0] == "option":
            if name in ("is_some_and", "is_none_or") and len(args) == 1:
                cc, ct = self.closure1(args[0], t[1], env, BOOL, line, name)
                self.same(ct, BOOL, line, f"closure of {name}")
                f = "isSomeAnd" if name == "is_some_and" else "isNoneOr"
                return f"(RustSem.{f} {c} {cc})", BOOL
            if name in ("is_some", "is_none") and not args:
                return f"({c}.{'isSome' if name == 'is_some' else 'isNone'})", BOOL
            if name == "unwrap" and not args:
                self.note("`unwrap()` of `None` panics in Rust; `RustSem.unwrap` returns `default` there")
                return f"(RustSem.unwrap {c})", t[1]
            self.err(line, f"method `{name}` of Option is not supported")
        if t[0] == "cell":
            if name == "get" and not args:
                return c, t[1]
            self.err(line, f"method `{name}` of Cell is not supported")
        if t[0] == "array":
            if name == "get_unchecked" and len(args) == 1:
                ci, ti = self.expr(args[0], env, ("int", "usize"))
                self.same(ti, ("int", "usize"), line, "index")
                self.note("`get_unchecked` out of bounds is undefined in Rust; `RustSem.index` returns `default` there")
                return f"(RustSem.index {c} {ci})", t[1]
            self.err(line, f"method `{name}` of an array is not supported")
        if t == CHAR:
            preds = {"is_ascii_lowercase": "isAsciiLowercase", "is_ascii_uppercase": "isAsciiUppercase",
                     "is_ascii_digit": "isAsciiDigit", "is_ascii_alphabetic": "isAsciiAlphabetic", "is_ascii": "isAscii"}
            convs = {"to_ascii_lowercase": "toAsciiLowercase", "to_ascii_uppercase": "toAsciiUppercase"}
            if name in preds and not args:
                return f"(RustSem.{preds[name]} {c})", BOOL
            if name in convs and not args:
                return f"(RustSem.{convs[name]} {c})", CHAR
            if name == "clone" and not args:
                return c, t
            self.err(line, f"method `{name}` of char is not supported")
        if is_int(t):
            if name in ("wrapping_add", "wrapping_sub", "wrapping_mul") and len(args) == 1:
                op = {"wrapping_add": "+", "wrapping_sub": "-", "wrapping_mul": "*"}[name]
                return self.e_bin(("bin", op, ("inject", c, t, line), args[0], line), env, t)
            if name in ("min", "max") and len(args) == 1 and t[1] != "usize":
                ca, ta = self.expr(args[0], env, t)
                self.same(ta, t, line, name)
                cmp_ = "≤" if name == "min" else "≥"
                return f"(if {c} {cmp_} {ca} then {c} else {ca})", t
            self.err(line, f"method `{name}` of {t[1]} is not supported")
        if t[0] == "adt":
            if name in ("clone",) and not args:
                return c, t
            return self.call_fn(t[1], name, c, args, env, line)
        self.err(line, f"method `{name}` on {self.show(t)} is not supported")

    def e_inject(self, e, env, exp):
        return e[1], e[2]

    def note(self, s):
        if s not in self.notes:
            self.notes.append(s)

    def e_index(self, e, env, exp):
        _, a, ix, line = e
        c, t = self.expr(a, env, None)
        if t[0] != "array":
            self.err(line, f"indexing of {self.show(t)}")
        ci, ti = self.expr(ix, env, ("int", "usize"))
        self.same(ti, ("int", "usize"), line, "index")
        self.note("`a[i]` out of bounds panics in Rust; `RustSem.index` returns `default` there")
        return f"(RustSem.index {c} {ci})", t[1]

    def e_if(self, e, env, exp):
        _, cond, then, els, line = e
        if els is None:
            self.err(line, "`if` without `else` used as a value")
        cc, ct = self.expr(cond, env, BOOL)
        self.same(ct, BOOL, line, "condition")
        try:
            c1, t1 = self.e_block(then, env, exp)
        except NeedType:
            c2, t2 = self.e_block(els, env, exp)
            c1, t1 = self.e_block(then, env, t2)
        else:
            c2, t2 = self.e_block(els, env, t1 if exp is None else exp)
        self.same(t1, t2, line, "branches of `if`")
        return f"(if {cc} then {c1}\n else {c2})", t1

    def e_iflet(self, e, env, exp):
        _, pat, scrut, then, els, line = e
        if els is None:
            self.err(line, "`if let` without `else` used as a value")
        return self.e_match(("match", scrut, [(pat, then), (("pwild",), els)], line), env, exp)

    @staticmethod
    def ret_arm(body):
        """the `return …` node if a match arm is `return e`, `{ return e }` or `{ return e; }`"""
        while body[0] == "paren":
            body = body[1]
        if body[0] == "return":
            return body
        if body[0] == "block":
            if not body[1] and body[2] is not None:
                return Ctx.ret_arm(body[2])
            if len(body[1]) == 1 and body[2] is None and body[1][0][0] == "expr":
                return Ctx.ret_arm(body[1][0][1])
        return None

    def has_ret_arm(self, e):
        while e[0] == "paren":
            e = e[1]
        return e[0] == "match" and any(self.ret_arm(b) is not None for _, b in e[2])

    def arm(self, body, env, ty, cont):
        """one match arm -> (code, type of the arm's VALUE or None for an arm that returns).
        `cont` is None (an ordinary match) or the Lean name of the continuation that receives the
        arm's value ("" for the identity, when the match is the function's last expression); only
        then may an arm be `return e`, and its code is `e` itself."""
        r = self.ret_arm(body) if cont is not None else None
        if r is not None:
            if r[1] is None:
                self.err(r[-1], "`return;` in a function that returns a value")
            c, t = self.expr(r[1], env, self.fn.ret)
            self.same(t, self.fn.ret, r[-1], "returned value")
            return c, None
        c, t = self.expr(body, env, ty)
        return (f"({cont} {c})" if cont else c), t

    def e_match(self, e, env, exp, cont=None):
        _, scrut, arms, line = e
        cs, ts = self.expr(scrut, env, None)
        if is_int(ts) or ts == CHAR:
            return self.int_match(cs, ts, arms, env, exp, line, cont)
        out, ty = [], exp
        pend = []
        for pat, body in arms:
            env2 = dict(env)
            pc = self.pattern(pat, ts, env2, line, top=True)
            try:
                cb, tb = self.arm(body, env2, ty, cont)
            except NeedType:
                pend.append((pc, body, env2))
                out.append(None)
                continue
            if tb is not None:
                if ty is None:
                    ty = tb
                self.same(tb, ty, line, "match arms")
            out.append((pc, cb))
        for k, o in enumerate(out):
            if o is None:
                pc, body, env2 = pend.pop(0)
                if ty is None:
                    raise NeedType()
                cb, tb = self.arm(body, env2, ty, cont)
                self.same(tb, ty, line, "match arms")
                out[k] = (pc, cb)
        if ty is None:
            self.err(line, "every arm of this match returns; its value has no type")
        text = f"(match {cs} with" + "".join(f"\n | {pc} => {ind(cb, 3)}" for pc, cb in out) + ")"
        return text, ty

    def int_match(self, cs, ts, arms, env, exp, line, cont=None):
        """match on an integer or a char: printed as a chain of `if … == literal`"""
        ty, chain, default = exp, [], None
        want = "pchar" if ts == CHAR else "plit"
        what = "a char" if ts == CHAR else "an integer"
        for pat, body in arms:
            alts = pat[1] if pat[0] == "por" else [pat]
            if default is not None:
                self.err(line, "match arm after a catch-all arm")
            if all(a[0] == want for a in alts):
                if ts == CHAR:
                    conds = [f"(m__ == {lean_char(a[1])})" for a in alts]
                else:
                    for a in alts:
                        if a[2] is not None and a[2] != ts[1]:
                            self.err(line, f"literal pattern of type {a[2]} in a match on {ts[1]}")
                    conds = [f"(m__ == {self.lit(a[1], ts[1], line)[0]})" for a in alts]
                cb, tb = self.arm(body, env, ty, cont)
                chain.append((" || ".join(conds), cb))
            elif len(alts) == 1 and alts[0][0] in ("pwild", "pbind"):
                env2 = dict(env)
                pre = ""
                if alts[0][0] == "pbind":
                    env2[alts[0][1]] = ts
                    pre = f"let {mangle(alts[0][1])} := m__; "
                cb, tb = self.arm(body, env2, ty, cont)
                default = pre + cb
            else:
                self.err(line, f"unsupported pattern in a match on {what}")
            if tb is not None:
                if ty is None:
                    ty = tb
                self.same(tb, ty, line, "match arms")
        if default is None:
            self.err(line, f"match on {what} needs a catch-all arm")
        if ty is None:
            self.err(line, "every arm of this match returns; its value has no type")
        text = f"(let m__ := {cs}; "
        for c, b in chain:
            text += f"if {c} then {ind(b, 2)}\n else "
        return text + f"({ind(default, 2)}))", ty

    def pattern(self, pat, ty, env, line, top=False):
        k = pat[0]
        if k == "pwild":
            return "_"
        if k == "pbind":
            env[pat[1]] = ty
            return mangle(pat[1])
        if k == "pbool":
            self.same(ty, BOOL, line, "pattern")
            return "true" if pat[1] else "false"
        if k == "por":
            if not top:
                self.err(line, "nested or-patterns are not supported")
            parts = []
            for a in pat[1]:
                e2 = {}
                parts.append(self.pattern(a, ty, e2, line))
                if e2:
                    self.err(line, "bindings inside an or-pattern are not supported")
            return " | ".join(parts)
        if k == "ptuple":
            if ty[0] != "tuple" or len(ty[1]) != len(pat[1]):
                self.err(line, "tuple pattern does not match the type")
            return "(" + ", ".join(self.pattern(p, t, env, line) for p, t in zip(pat[1], ty[1])) + ")"
        if k == "plit":
            self.err(line, "integer literal pattern inside a non-integer match is not supported")
        segs = pat[1]
        if ty[0] == "option":
            if k == "ppath" and segs == ["None"]:
                return "none"
            if k == "ptstruct" and segs == ["Some"] and len(pat[2]) == 1:
                return f"(some {self.pattern(pat[2][0], ty[1], env, line)})"
            self.err(line, "unsupported pattern for an Option")
        if ty[0] != "adt":
            self.err(line, f"unsupported pattern for {self.show(ty)}")
        d = self.tr.need_adt(ty[1])
        if d["kind"] != "enum":
            self.err(line, "patterns on structs are not supported")
        if len(segs) < 2 or self.type_name(segs[-2], line) != ty[1]:
            self.err(line, f"pattern `{'::'.join(segs)}` does not name a variant of `{ty[1]}`")
        v = self.variant(ty[1], segs[-1], line)
        if k == "ppath":
            if v["kind"] != "unit":
                self.err(line, f"variant `{segs[-1]}` has fields")
            return f".{v['name']}"
        if k == "ptstruct":
            if v["kind"] != "tuple" or len(pat[2]) != len(v["fields"]):
                self.err(line, f"variant `{segs[-1]}` is not a tuple variant of that arity")
            return "(." + v["name"] + "".join(" " + self.pattern(p, ft, env, line) for p, (_, ft) in zip(pat[2], v["fields"])) + ")"
        if k == "pstruct":
            if v["kind"] == "tuple":
                self.err(line, f"variant `{segs[-1]}` is a tuple variant")
            given = dict()
            for fname, fp in pat[2]:
                if fname in given:
                    self.err(line, f"field `{fname}` bound twice")
                given[fname] = fp
            names = [a for a, _ in v["fields"]]
            for fname in given:
                if fname not in names:
                    self.err(line, f"variant `{segs[-1]}` has no field `{fname}`")
            if not pat[3] and set(given) != set(names):
                self.err(line, f"pattern for `{segs[-1]}` misses fields and has no `..`")
            parts = [self.pattern(given[a], ft, env, line) if a in given else "_" for a, ft in v["fields"]]
            return "(." + v["name"] + "".join(" " + p for p in parts) + ")" if parts else f".{v['name']}"
        self.err(line, "unsupported pattern")

    def e_struct(self, e, env, exp):
        _, segs, fields, line = e
        owner = self.type_name(segs[-1], line)
        if owner is None or len(segs) > 1 and self.type_name(segs[-2], line) is not None:
            self.err(line, "only plain struct literals are supported")
        d = self.tr.need_adt(owner)
        if d["kind"] != "struct" or d["tuple"]:
            self.err(line, f"`{owner}` is not a struct with named fields")
        given = {}
        for fname, fe in fields:
            if fname in given:
                self.err(line, f"field `{fname}` given twice")
            given[fname] = fe
        if set(given) != {a for a, _ in d["fields"]}:
            self.err(line, f"struct literal of `{owner}` must give exactly its fields")
        parts = []
        for a, ft in d["fields"]:
            c, t = self.expr(given[a], env, ft)
            self.same(t, ft, line, f"field `{a}`")
            parts.append(f"{self.tr.field_name(a)} := {c}")
        return "({ " + ", ".join(parts) + " } : " + owner + ")", ("adt", owner)

    def e_tuple(self, e, env, exp):
        _, els, line = e
        if not els:
            return "()", UNIT
        exps = exp[1] if exp is not None and exp[0] == "tuple" and len(exp[1]) == len(els) else [None] * len(els)
        cs, ts = [], []
        for x, xe in zip(els, exps):
            c, t = self.expr(x, env, xe)
            cs.append(c)
            ts.append(t)
        return "(" + ", ".join(cs) + ")", ("tuple", ts)

    def e_array(self, e, env, exp):
        _, els, line = e
        want = exp[1] if exp is not None and exp[0] == "array" else None
        cs, ty, todo = [None] * len(els), want, []
        for k, x in enumerate(els):
            try:
                cs[k], t = self.expr(x, env, ty)
            except NeedType:
                todo.append(k)
                continue
            if ty is None:
                ty = t
            self.same(t, ty, line, "array elements")
        if todo and ty is None:
            raise NeedType()
        for k in todo:
            cs[k], t = self.expr(els[k], env, ty)
            self.same(t, ty, line, "array elements")
        return "#[" + ", ".join(cs) + "]", ("array", ty)

    def e_block(self, e, env, exp):
        lines, ty = self.stmts(e[1], e[2], dict(env), exp, False)
        if len(lines) == 1:
            return lines[0], ty
        return "(" + "; ".join(lines) + ")", ty

    def e_return(self, e, env, exp):
        self.err(e[-1], "`return` is supported only as a statement of the function body")

    def e_closure(self, e, env, exp):
        self.err(e[-1], "closures are supported only as the argument of `is_some_and` / `is_none_or`")

    def e_range(self, e, env, exp):
        self.err(e[-1], "ranges are supported only in `(a..b).contains(&x)`")

    def e_macro(self, e, env, exp):
        self.err(e[-1], f"macro `{e[1]}!` is not supported here")

    # -- statements
    @staticmethod
    def always_returns(blk):
        if blk is None:
            return False
        stmts, tail = blk[1], blk[2]
        if tail is not None:
            return tail[0] == "return"
        return bool(stmts) and stmts[-1][0] == "expr" and stmts[-1][1][0] == "return"

    def assigned(self, blk, env):
        """names of outer variables assigned inside a block (through nested ifs)"""
        out, local = [], set()

        def walk_e(x):
            if x is None:
                return
            if x[0] == "block":
                for n in self.assigned(x, {k: v for k, v in env.items() if k not in local}):
                    if n not in out:
                        out.append(n)
            elif x[0] == "if":
                walk_e(x[2])
                walk_e(x[3])
            elif x[0] == "iflet":
                walk_e(x[3])
                walk_e(x[4])

        for s in blk[1]:
            if s[0] == "let":
                if s[1][0] == "pbind":
                    local.add(s[1][1])
            elif s[0] == "assign":
                base = s[1]
                while base[0] in ("field", "paren"):
                    base = base[1]
                if base[0] == "path" and len(base[1]) == 1 and base[1][0] in env and base[1][0] not in local:
                    if base[1][0] not in out:
                        out.append(base[1][0])
            elif s[0] == "expr":
                walk_e(s[1])
        walk_e(blk[2])
        return out

    def stmts(self, stmts, tail, env, exp, fn_level, final=None):
        """returns (lines, type); every line but the last is a `let`, the last is the value.
        `final`: the value is this code (unit blocks that only mutate); `fn_level`: the value of this
        statement list is the function's result, so an early `return` may cut it."""
        lines, pendings = [], []
        out = self._stmts(stmts, tail, env, exp, fn_level, final, lines, pendings)
        for pend in pendings:
            if pend.ty is None:
                self.err(pend.line, f"cannot determine the integer type of `let {pend.name}` (no typed use; rustc "
                                    "would default to i32; write the type)")
        return out

    def _stmts(self, stmts, tail, env, exp, fn_level, final, lines, pendings):
        for idx, s in enumerate(stmts):
            k, line = s[0], s[-1]
            rest = stmts[idx + 1:]
            if k == "let":
                _, pat, ty, val, _ = s
                if pat[0] not in ("pbind", "pwild"):
                    self.err(line, "only `let name = …` is supported")
                want = self.tr.resolve_type(ty, self.owner, self.fn.where) if ty is not None else None
                if self.has_ret_arm(val):
                    # `let x = match s { p => v, …, q => return r };  rest`: the rest of the function becomes a
                    # local function of `x`; an arm with a value passes it on, an arm that returns does not
                    if not fn_level or final is not None:
                        self.err(line, "`return` inside a nested block is not supported")
                    m = val
                    while m[0] == "paren":
                        m = m[1]
                    self.kcount = getattr(self, "kcount", 0) + 1
                    k = f"k{self.kcount}__"
                    try:
                        c, t = self.e_match(m, env, want, cont=k)
                    except NeedType:
                        self.err(line, "cannot determine the integer type of this `let` (write its type)")
                    if want is not None:
                        self.same(t, want, line, "let")
                    env2 = dict(env)
                    if pat[0] == "pbind":
                        env2[pat[1]] = t
                    l2, t2 = self.stmts(rest, tail, env2, exp, True)
                    arg = mangle(pat[1]) if pat[0] == "pbind" else "_"
                    lines.append(f"let {k} : {self.tr.lean_ty(t)} → {self.tr.lean_ty(self.fn.ret)} := (fun {arg} =>\n  "
                                 + ind(self.join_top(l2), 2) + ")")
                    lines.append(c)
                    return lines, t2
                try:
                    c, t = self.expr(val, env, want)
                except NeedType:
                    if pat[0] != "pbind":
                        self.err(line, "cannot determine the integer type of this `let`")
                    # the type comes from the first typed use (as rustc infers it); patched in then
                    pend = Pending(pat[1], val, dict(env), lines, len(lines), line)
                    pendings.append(pend)
                    lines.append(None)
                    env[pat[1]] = pend
                    continue
                if want is not None:
                    self.same(t, want, line, "let")
                if pat[0] == "pbind":
                    env[pat[1]] = t
                    lines.append(f"let {mangle(pat[1])} : {self.tr.lean_ty(t)} := {ind(c, 2)}")
                continue
            if k == "assign":
                lines.append(self.assign(s, env))
                continue
            e = s[1]
            if e[0] == "macro":
                if e[1] == "debug_assert":
                    self.note("`debug_assert!` omitted (no-op in the release profile)")
                    continue
                if e[1] == "assert":
                    if not fn_level or final is not None:
                        self.err(line, "`assert!` is supported only as a statement of the body of a function that returns a value")
                    body = list(e[2]) + [Tok("eof", None, line)]
                    ap = Parser(body, 0, len(body) - 1, self.fn.where)
                    cond = ap.parse_expr()
                    if not (ap.done() or ap.at_p(",")):
                        ap.err("cannot parse the condition of `assert!`")
                    cc, ct = self.expr(cond, env, BOOL)
                    self.same(ct, BOOL, line, "condition of `assert!`")
                    self.note("a failed `assert!` panics in Rust; `RustSem.assert` returns `default` there")
                    l2, t2 = self.stmts(rest, tail, env, exp, True)
                    lines.append(f"(RustSem.assert {cc} ({self.join(l2)}))")
                    return lines, t2
                self.err(line, f"macro `{e[1]}!` is not supported")
            if e[0] == "return":
                if not fn_level:
                    self.err(line, "`return` inside a nested block is not supported")
                if rest or tail is not None:
                    self.err(line, "code after `return`")
                if e[1] is None:
                    if final is None:
                        self.err(line, "`return;` in a function that returns a value")
                    lines.append(final)
                    return lines, None
                if final is not None:
                    self.err(line, "`return value` in a unit function")
                c, t = self.expr(e[1], env, self.fn.ret)
                lines.append(c)
                return lines, t
            if e[0] == "if" and self.always_returns(e[2]) and (e[3] is None or self.always_returns(e[3])):
                if not fn_level:
                    self.err(line, "`return` inside a nested block is not supported")
                cc, ct = self.expr(e[1], env, BOOL)
                self.same(ct, BOOL, line, "condition")
                l1, t1 = self.stmts(e[2][1], e[2][2], dict(env), exp, True, final)
                if e[3] is not None:
                    if rest or tail is not None:
                        self.err(line, "code after an `if` whose branches both return")
                    l2, t2 = self.stmts(e[3][1], e[3][2], dict(env), exp, True, final)
                else:
                    l2, t2 = self.stmts(rest, tail, env, exp, True, final)
                if final is None:
                    self.same(t1, t2, line, "returned values")
                lines.append(f"if {cc} then {self.join(l1)}\nelse\n  {ind(self.join_top(l2), 2)}")
                return lines, t2
            if e[0] in ("if", "iflet", "block"):
                lines.append(self.mutating(e, env, line))
                continue
            self.err(line, f"expression statement of kind `{e[0]}` is not supported")
        if final is not None:
            if tail is not None:
                if tail[0] == "return" and tail[1] is None:
                    pass
                else:
                    # a tail that is itself a mutating if / block
                    if tail[0] in ("if", "iflet", "block"):
                        lines.append(self.mutating(tail, env, tail[-1]))
                    else:
                        self.err(tail[-1], "value expression at the end of a unit block")
            lines.append(final)
            return lines, None
        if tail is None:
            self.err(self.fn.line, "block without a value where a value is expected")
        if tail[0] == "return":
            if not fn_level:
                self.err(tail[-1], "`return` inside a nested block is not supported")
            if tail[1] is None:
                self.err(tail[-1], "`return;` in a function that returns a value")
            c, t = self.expr(tail[1], env, self.fn.ret)
        elif tail[0] == "if" and fn_level and tail[3] is not None and (self.always_returns(tail[2]) or self.always_returns(tail[3])):
            cc, ct = self.expr(tail[1], env, BOOL)
            self.same(ct, BOOL, tail[-1], "condition")
            l1, t1 = self.stmts(tail[2][1], tail[2][2], dict(env), exp, True)
            l2, t2 = self.stmts(tail[3][1], tail[3][2], dict(env), exp, True)
            self.same(t1, t2, tail[-1], "branches of `if`")
            c, t = f"(if {cc} then {self.join(l1)}\n else {self.join(l2)})", t1
        elif fn_level and self.has_ret_arm(tail):
            m = tail
            while m[0] == "paren":
                m = m[1]
            c, t = self.e_match(m, env, self.fn.ret, cont="")
        else:
            c, t = self.expr(tail, env, exp)
        lines.append(c)
        return lines, t

    @staticmethod
    def join(lines):
        return lines[0] if len(lines) == 1 else "(" + "; ".join(lines) + ")"

    @staticmethod
    def join_top(lines):
        return "\n".join(lines)

    def assign(self, s, env):
        _, lhs, op, rhs, line = s
        while lhs[0] == "paren":
            lhs = lhs[1]
        # current value and type of the place
        try:
            cur, t = self.expr(lhs, env, None)
        except NeedType:
            self.err(line, "assignment to a variable whose integer type is not yet determined (write its type)")
        if op == "=":
            c, tv = self.expr(rhs, env, t)
            self.same(tv, t, line, "assignment")
        else:
            bop = op[:-1]
            c, tv = self.e_bin(("bin", bop, ("inject", cur, t, line), rhs, line), env, t)
            self.same(tv, t, line, "compound assignment")
        if lhs[0] == "path" and len(lhs[1]) == 1:
            n = lhs[1][0]
            return f"let {mangle(n)} : {self.tr.lean_ty(t)} := {ind(c, 2)}"
        if lhs[0] == "field" and lhs[1][0] == "path" and len(lhs[1][1]) == 1 and lhs[1][1][0] in env:
            n = lhs[1][1][0]
            bt = env[n]
            if bt[0] != "adt":
                self.err(line, "assignment to a field of a non-struct")
            return f"let {mangle(n)} : {bt[1]} := {{ {mangle(n)} with {self.tr.field_name(lhs[2])} := {ind(c, 2)} }}"
        self.err(line, "unsupported assignment target")

    def mutating(self, e, env, line):
        """a unit `if`/block statement that assigns outer variables: `let vars := if … then … else vars`"""
        if e[0] == "block":
            names = self.assigned(e, env)
        elif e[0] == "if":
            names = self.assigned(e[2], env) + ([n for n in self.assigned(e[3], env)] if e[3] else [])
        else:
            names = self.assigned(e[3], env) + ([n for n in self.assigned(e[4], env)] if e[4] else [])
        names = sorted(set(names))
        if not names:
            self.err(line, "statement has no effect that can be translated (no assignment inside)")
        val = mangle(names[0]) if len(names) == 1 else "(" + ", ".join(mangle(n) for n in names) + ")"

        def branch(blk):
            if blk is None:
                return val
            l, _ = self.stmts(blk[1], blk[2], dict(env), None, False, final=val)
            return self.join(l)

        if e[0] == "block":
            return f"let {val} := {branch(e)}"
        if e[0] == "if":
            cc, ct = self.expr(e[1], env, BOOL)
            self.same(ct, BOOL, line, "condition")
            return f"let {val} := if {cc} then {branch(e[2])} else {branch(e[3])}"
        # if let
        cs, ts = self.expr(e[2], env, None)
        env2 = dict(env)
        pc = self.pattern(e[1], ts, env2, line, top=True)
        l, _ = self.stmts(e[3][1], e[3][2], env2, None, False, final=val)
        return f"let {val} := (match {cs} with | {pc} => {self.join(l)} | _ => {branch(e[4])})"


# ----------------------------------------------------------------------------- what is translated
# (owner type or None, function name) — looked up BY NAME in the files of FILES; callees are added on demand
ROOT_FNS = [(f, o, n) for f, o, ns in [
    ("chess/gamestate.rs", "GameState", [
        "en_passant", "set_en_passant",
        "white_king_castling", "set_white_king_castling_false", "set_white_king_castling_true",
        "white_queen_castling", "set_white_queen_castling_false", "set_white_queen_castling_true",
        "black_king_castling", "set_black_king_castling_false", "set_black_king_castling_true",
        "black_queen_castling", "set_black_queen_castling_false", "set_black_queen_castling_true",
        "default", "hash"]),
    ("chess/position.rs", "Position", ["new", "add", "as_usize", "row", "col", "new_unsafe", "new_assert", "add_unsafe"]),
    ("chess/piece.rs", "PieceType", ["material_value"]),
    ("chess/piece.rs", "Piece", ["material_value", "as_index", "score", "hash",
                                 "as_char", "as_str_pgn", "as_char_ascii", "from_char_ascii"]),
    ("chess/move_struct.rs", "Move", ["is_tactical_move", "index_history"]),
    ("search.rs", None, ["move_score"]),
] for n in ns]
ROOT_CONSTS = [
    ("chess/position.rs", "Position", "WHITE_QUEEN_ROOK"), ("chess/position.rs", "Position", "WHITE_KING_ROOK"),
    ("chess/position.rs", "Position", "BLACK_QUEEN_ROOK"), ("chess/position.rs", "Position", "BLACK_KING_ROOK"),
    ("chess/scores.rs", None, "ENDGAME_THRESHOLD"),
]


def main():
    try:
        tr = Translator()
        for rel, owner, name in ROOT_FNS:
            where = f"{rel}.{owner + '::' if owner else ''}{name}"
            if (owner, name) not in tr.files[rel].fns:
                raise TranslateError(f"translate:{where}: function not found (looked for `fn {name}` in "
                                     f"{'`impl ' + owner + '`' if owner else 'the top level'} of src/{rel})")
            tr.need_fn(owner, name, where)
        for rel, owner, name in ROOT_CONSTS:
            where = f"{rel}.{owner + '::' if owner else ''}{name}"
            if (owner, name) not in tr.files[rel].consts:
                raise TranslateError(f"translate:{where}: constant not found in src/{rel}")
            tr.need_const(owner, name, where)
    except NeedType:
        print("translate: internal: unresolved literal type escaped", file=sys.stderr)
        return 2
    except TranslateError as e:
        print(str(e), file=sys.stderr)
        return 2
    head = (
        "-- GENERATED by tools/translate.py from /repo/src. Do not edit.\n"
        "-- Each definition mirrors the expression tree of the Rust function named in its doc comment;\n"
        "-- `Chess/Lemmas/FnsEquiv.lean` proves each of them equal to the hand-written model.\n"
        "import Chess.Model.RustSem\n\n"
        "set_option linter.unusedVariables false\n\n"
        "namespace Chess.Gen.Fns\n\n"
    )
    body = "\n\n".join(text for _, text in tr.out)
    tail = "\n\nend Chess.Gen.Fns\n"
    os.makedirs(os.path.dirname(OUT), exist_ok=True)
    text = head + body + tail
    try:
        with open(OUT, encoding="utf-8") as f:
            same = f.read() == text
    except OSError:
        same = False
    if not same:                                   # several checks may run at once: private temporary name, atomic replace
        tmp = OUT + ".tmp%d" % os.getpid()
        with open(tmp, "w", encoding="utf-8") as f:
            f.write(text)
        os.replace(tmp, OUT)
    if "-q" not in sys.argv:
        for lname, loc in tr.summary:
            print(f"translate: {lname:45s} <- {loc}")
        print(f"translate: wrote {os.path.normpath(OUT)} ({len(tr.summary)} definitions)")
    return 0


if __name__ == "__main__":
    sys.exit(main())
