#!/usr/bin/env python3
"""Development tool: histories that end in a mate position and exercise the root's repetition guard.
  rep   : x M x' M' x  -> position with a forced mate in two whose ONLY keeping move is M (the guard fires: the opponent repeated)
Legality of every history is decided by the engine's own `position … moves …` and again at check time; the mates by the
Lean solver at check time.   usage: tools/gen_history.py <seed> > corpus/C10_history.txt"""
import os, random, sys
sys.path.insert(0, os.path.dirname(os.path.dirname(os.path.abspath(__file__))))
from vlib import core, searchchk


def board(fen):
    rows = fen.split()[0].split('/'); b = {}
    for ri, row in enumerate(rows):
        c = 0
        for ch in row:
            if ch.isdigit(): c += int(ch)
            else: b[(7 - ri, c)] = ch; c += 1
    return b


def tofen(b, side):
    rows = []
    for r in range(7, -1, -1):
        row = ''; gap = 0
        for c in range(8):
            p = b.get((r, c))
            if p: row += (str(gap) if gap else '') + p; gap = 0
            else: gap += 1
        rows.append(row + (str(gap) if gap else ''))
    return '/'.join(rows) + f' {side} - - 0 1'


sq = lambda s: (int(s[1]) - 1, ord(s[0]) - 97)
name = lambda p: chr(97 + p[1]) + str(p[0] + 1)
inv = lambda m: m[2:4] + m[0:2]


def main():
    r = random.Random(int(sys.argv[1]))
    corpus = searchchk.load_mate2()
    out = []
    # ---- rep
    cands = []
    for f, keep in corpus:
        if len(keep) != 1 or len(keep[0]) != 4: continue
        M = keep[0]; b = board(f)
        pc = b.get(sq(M[:2]))
        if pc is None or pc.lower() == 'p' or sq(M[2:]) in b: continue
        cands.append((f, M))
    res, _ = core.run_rust([["new " + f + " 0 1", "playh " + M, "moves c"] for f, M in cands])
    tests = []
    for (f, M), o in zip(cands, res):
        if not o[2]: continue
        b = board(f); side = f.split()[1]; other = 'b' if side == 'w' else 'w'
        parts = o[2][0].split(" ", 1)
        if len(parts) < 2: continue
        for d in parts[1].split(","):
            u = d.split(":")[0]
            if len(u) != 4: continue
            pc = b.get(sq(u[:2]))
            if pc is None or pc.lower() == 'p' or sq(u[2:]) in b or sq(u[2:]) == sq(M[2:]): continue
            rb = dict(b); rb[sq(u[2:])] = rb.pop(sq(u[:2]))
            tests.append(("rep", f, tofen(rb, other), [inv(u), M, u, inv(M), inv(u)]))
    # (a "norep" family — the same piece shuffling M, M' while the opponent makes three different moves and M then mates —
    # does not exist in practice: the square the king came from is covered in the mate, so the position before M' would
    # have the king in check with the wrong side to move; the guard's must-not-fire case is covered by the shuffle
    # histories of the C09 check instead)
    res, _ = core.run_rust([["position fen %s moves %s" % (R, " ".join(ms))] for _, f, R, ms in tests])
    seen = set()
    for (kind, f, R, ms), o in zip(tests, res):
        if not o[0] or not o[0][0].startswith("ok ") or core.fen4(o[0][0][3:]) != core.fen4(f): continue
        key = (kind, core.fen4(f))
        if key in seen: continue
        seen.add(key)
        out.append(f"{kind} | {R} | {' '.join(ms)} | {core.fen4(f)}")
    print("# histories for the C10 check (tools/gen_history.py): kind | start FEN | moves | position reached")
    for l in out: print(l)
    print("# %d rep, %d norep" % (sum(l.startswith("rep") for l in out), sum(l.startswith("norep") for l in out)), file=sys.stderr)


if __name__ == "__main__":
    main()
