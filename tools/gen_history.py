#!/usr/bin/env python3
"""Development tool: histories that end in a mate position and exercise the root's repetition guard.
  rep   : x M x' M' x  -> position with a forced mate in two whose ONLY keeping move is M (the guard fires: the opponent repeated)
  norep : o1 M o2 M' o3 -> position in which M mates at once, the opponent did NOT repeat (the guard must not fire)
Legality of every history is decided by the engine's own `position … moves …` and again at check time; the mates by the
Lean solver at check time.   usage: tools/gen_history.py <seed> > corpus/C10_history.txt"""
import os, random, sys
sys.path.insert(0, os.path.dirname(os.path.dirname(os.path.abspath(__file__))))
from vlib import core, searchchk


def board(fen):
    rows = fen.split()[0].split('/'); b = {}
    for ri, row in enumerate(rows):
        c = 0
        for ch in row:
            if ch.isdigit(): c += int(ch)
            else: b[(7 - ri, c)] = ch; c += 1
    return b


def tofen(b, side):
    rows = []
    for r in range(7, -1, -1):
        row = ''; gap = 0
        for c in range(8):
            p = b.get((r, c))
            if p: row += (str(gap) if gap else '') + p; gap = 0
            else: gap += 1
        rows.append(row + (str(gap) if gap else ''))
    return '/'.join(rows) + f' {side} - - 0 1'


sq = lambda s: (int(s[1]) - 1, ord(s[0]) - 97)
name = lambda p: chr(97 + p[1]) + str(p[0] + 1)
inv = lambda m: m[2:4] + m[0:2]


def main():
    r = random.Random(int(sys.argv[1]))
    corpus = searchchk.load_mate2()
    out = []
    # ---- rep
    cands = []
    for f, keep in corpus:
        if len(keep) != 1 or len(keep[0]) != 4: continue
        M = keep[0]; b = board(f)
        pc = b.get(sq(M[:2]))
        if pc is None or pc.lower() == 'p' or sq(M[2:]) in b: continue
        cands.append((f, M))
    res, _ = core.run_rust([["new " + f + " 0 1", "playh " + M, "moves c"] for f, M in cands])
    tests = []
    for (f, M), o in zip(cands, res):
        if not o[2]: continue
        b = board(f); side = f.split()[1]; other = 'b' if side == 'w' else 'w'
        parts = o[2][0].split(" ", 1)
        if len(parts) < 2: continue
        for d in parts[1].split(","):
            u = d.split(":")[0]
            if len(u) != 4: continue
            pc = b.get(sq(u[:2]))
            if pc is None or pc.lower() == 'p' or sq(u[2:]) in b or sq(u[2:]) == sq(M[2:]): continue
            rb = dict(b); rb[sq(u[2:])] = rb.pop(sq(u[:2]))
            tests.append(("rep", f, tofen(rb, other), [inv(u), M, u, inv(M), inv(u)]))
    # ---- norep: mate in one reached after three different moves of the opponent's king
    m1 = []
    for f, keep in corpus:                      # positions after a keeping move and a reply hold a mate in one
        m1.append(f)
    res, _ = core.run_rust([["new " + f + " 0 1", "playh " + k[0], "pushh %d" % r.randrange(1 << 30), "obs"] for f, k in corpus])
    p1 = [o[3][0].split("|")[0] for o in res if o[3] and "|" in o[3][0]]
    ans = searchchk.spec_queries(["spec_mate1 " + core.fen4(f) for f in p1])
    for f in p1:
        a = ans.get("spec_mate1 " + core.fen4(f)) or "0 "
        mates = a.split(" ", 1)[1].split(",") if a.split(" ", 1)[1:] and a.split(" ", 1)[1] else []
        b = board(f); side = f.split()[1]; other = 'b' if side == 'w' else 'w'
        ok = [M for M in mates if len(M) == 4 and b.get(sq(M[:2]), 'p').lower() != 'p' and sq(M[2:]) not in b]
        if len(mates) != 1 or not ok: continue
        M = ok[0]
        own = [p for p, c in b.items() if c.lower() != 'p' and (c.islower() if other == 'b' else c.isupper())]
        a_, b_ = sq(M[:2]), sq(M[2:])

        def origins(cur, p):
            c = cur[p].lower()
            if c == 'k':
                cand = [(p[0] + dr, p[1] + dc) for dr in (-1, 0, 1) for dc in (-1, 0, 1) if (dr, dc) != (0, 0)]
            elif c == 'n':
                cand = [(p[0] + dr, p[1] + dc) for dr, dc in ((1, 2), (2, 1), (-1, 2), (-2, 1), (1, -2), (2, -1), (-1, -2), (-2, -1))]
            else:
                dirs = [(1, 0), (-1, 0), (0, 1), (0, -1)] if c == 'r' else [(1, 1), (1, -1), (-1, 1), (-1, -1)] if c == 'b' else \
                    [(1, 0), (-1, 0), (0, 1), (0, -1), (1, 1), (1, -1), (-1, 1), (-1, -1)]
                cand = []
                for dr, dc in dirs:
                    q = (p[0] + dr, p[1] + dc)
                    while 0 <= q[0] < 8 and 0 <= q[1] < 8 and q not in cur and q not in (a_, b_):
                        cand.append(q); q = (q[0] + dr, q[1] + dc)
            return [q for q in cand if 0 <= q[0] < 8 and 0 <= q[1] < 8 and q not in cur and q not in (a_, b_)]

        for _ in range(120):
            cur = dict(b)
            moves = []
            good = True
            for _ in range(3):
                p = r.choice(own if not moves else [x for x in cur if cur[x].lower() != 'p' and (cur[x].islower() if other == 'b' else cur[x].isupper())])
                og = origins(cur, p)
                if not og: good = False; break
                q = r.choice(og)
                cur[q] = cur.pop(p)
                moves.append(name(q) + name(p))
            if not good or moves[0] == moves[2]: continue
            o3, o2, o1 = moves
            if o1 == o3: continue
            tests.append(("norep", f, tofen(cur, other), [o1, M, o2, inv(M), o3]))
    res, _ = core.run_rust([["position fen %s moves %s" % (R, " ".join(ms))] for _, f, R, ms in tests])
    seen = set()
    for (kind, f, R, ms), o in zip(tests, res):
        if not o[0] or not o[0][0].startswith("ok ") or core.fen4(o[0][0][3:]) != core.fen4(f): continue
        key = (kind, core.fen4(f))
        if key in seen: continue
        seen.add(key)
        out.append(f"{kind} | {R} | {' '.join(ms)} | {core.fen4(f)}")
    print("# histories for the C10 check (tools/gen_history.py): kind | start FEN | moves | position reached")
    for l in out: print(l)
    print("# %d rep, %d norep" % (sum(l.startswith("rep") for l in out), sum(l.startswith("norep") for l in out)), file=sys.stderr)


if __name__ == "__main__":
    main()
