#!/usr/bin/env python3
"""Self-test of tools/translate.py + lean/Chess/Lemmas/FnsEquiv*.

For every rewrite below: copy /repo (without target/ and .git) to scratch/<name>/, apply the textual
replacement (it must match exactly once), run the translator with REPO pointing at the copy, rebuild
Chess.Gen.Fns + Chess.Lemmas.FnsEquiv, record what happened, delete the copy.
 * HARMLESS rewrites keep the meaning: expected = translator ok, build ok.
 * MEANING rewrites change it: expected = build FAILS (a named theorem no longer checks) or the
   translator refuses with a named error.
 * REFUSE rewrites leave the subset: expected = translator error `translate:<file>.<fn>`.
Finally regenerates from the real /repo and rebuilds (must pass). Writes tools/translate_selftest.md.
"""
import os
import re
import shutil
import subprocess
import sys
import time

HERE = os.path.dirname(os.path.abspath(__file__))
ROOT = os.path.normpath(os.path.join(HERE, ".."))
LEAN = os.path.join(ROOT, "lean")
SCRATCH = os.path.join(ROOT, "scratch")
SRC_REPO = os.environ.get("SELFTEST_REPO", "/repo")

GS, POS, PC, MV, SE = "src/chess/gamestate.rs", "src/chess/position.rs", "src/chess/piece.rs", "src/chess/move_struct.rs", "src/search.rs"
MOD = "src/chess/mod.rs"

H, M, R = "harmless", "meaning", "refuse"
CASES = [
    # ---------------------------------------------------------------- harmless
    ("h01_mask_hex", H, GS, "(self.bitfield & 0b1111) as i8", "(self.bitfield & 0x0F_u8) as i8", "other literal base + suffix"),
    ("h02_shift_to_literal", H, GS, "(self.bitfield & (1 << 4)) != 0", "(self.bitfield & 0x10) != 0", "`1 << 4` -> `0x10`"),
    ("h03_compound_to_plain", H, GS, "self.bitfield &= !(1 << 4);", "self.bitfield = self.bitfield & !(1 << 4);", "`x &= !m` -> `x = x & !m`"),
    ("h04_commute_octal", H, GS, "self.bitfield = (self.bitfield & 0b11110000) + (value as u8);",
     "self.bitfield = (value as u8) + (0o360 & self.bitfield);", "commuted `+` and `&`, octal literal"),
    ("h05_let_flip_ne", H, GS, "(self.bitfield & (1 << 7)) != 0", "let mask: u8 = 1 << 7;\n        0 != (mask & (self.bitfield))", "introduced `let`, flipped `!=`, extra parentheses"),
    ("h06_or_plain_decimal", H, GS, "self.bitfield |= 1 << 6;", "self.bitfield = ((self.bitfield) | (64));", "`|=` -> `=`, decimal literal, parentheses"),
    ("h07_default_expr", H, GS, "bitfield: 8,", "bitfield: 1 << 3,", "`8` -> `1 << 3`"),
    ("h08_new_match", H, POS, """        if (0..8).contains(&row) && (0..8).contains(&col) {
            Some(Self(row, col))
        } else {
            None
        }
    }

    #[inline]
    pub fn new_assert""", """        match (0..8).contains(&row) && (0..8).contains(&col) {
            true => Some(Self(row, col)),
            false => None,
        }
    }

    #[inline]
    pub fn new_assert""", "`if/else` -> `match` on the bool"),
    ("h09_new_comparisons", H, POS, """    pub fn new(row: i8, col: i8) -> Option<Self> {
        if (0..8).contains(&row) && (0..8).contains(&col) {""", """    pub fn new(row: i8, col: i8) -> Option<Self> {
        if row >= 0 && 8 > row && (0..=7).contains(&col) {""", "range test written with comparisons / inclusive range"),
    ("h10_add_rename_return", H, POS, """        let row = self.0 + delta.0;
        let col = self.1 + delta.1;
        if (0..8).contains(&row) && (0..8).contains(&col) {
            Some(Self(row, col))
        } else {
            None
        }
    }

    /// # Safety
    /// Same as self.add""", """        let r = delta.0 + self.0;
        let c = delta.1 + self.1;
        if !((0..8).contains(&r) && (0..8).contains(&c)) {
            return None;
        }
        Some(Self(r, c))
    }

    /// # Safety
    /// Same as self.add""", "renamed locals, commuted `+`, early `return`"),
    ("h11_as_usize_shift", H, POS, "(self.0 * 8 + self.1) as usize", "(self.1 + (self.0 << 3)) as usize", "`* 8` -> `<< 3`, commuted"),
    ("h12_material_reorder_or", H, PC, """            PieceType::Pawn => 1,
            PieceType::Bishop => 3,
            PieceType::Knight => 3,
            PieceType::Rook => 5,
            PieceType::Queen => 9,
            PieceType::King => 100,""", """            PieceType::King => 0x64,
            PieceType::Queen => 9,
            PieceType::Bishop | PieceType::Knight => 3,
            PieceType::Rook => 5,
            _ => 1,""", "arms reordered, or-pattern, hex, catch-all"),
    ("h13_as_index_match", H, PC, """        let mut index = self.piece_type as usize;
        if self.owner == Player::Black {
            index += 6;
        }
        index""", """        let base = self.piece_type as usize;
        match self.owner {
            Player::White => base,
            Player::Black => 6 + base,
        }""", "`let mut` + `if` + `+=` -> `match`"),
    ("h14_score_if", H, PC, """        let row = match self.owner {
            Player::White => 7 - pos.row(),
            Player::Black => pos.row(),
        };""", """        let row = if self.owner == Player::Black { pos.row() } else { 0b111 - pos.row() };""", "`match` -> `if/else`, binary literal"),
    ("h15_tactical_match", H, MV, """            } => captured_piece.is_some_and(|captured_piece| {
                piece.material_value() <= captured_piece.material_value()
            }),""", """            } => match captured_piece {
                Some(victim) => victim.material_value() >= piece.material_value(),
                None => false,
            },""", "`is_some_and` closure -> `match`, flipped comparison"),
    ("h16_history_iflet", H, MV, """            } => match captured_piece {
                Some(_) => None,
                None => Some(piece.as_index() * 64 + end.as_usize()),
            },""", """            } => {
                if let Some(_) = captured_piece {
                    None
                } else {
                    let square = end.as_usize();
                    Some(square + 0x40 * piece.as_index())
                }
            }""", "`match` -> `if let`, `let`, commuted, hex"),
    ("h17_score_arms", H, SE, """        Move::Promotion { new_piece, .. } => 9 - new_piece.material_value() as u32 + 2,
        Move::EnPassant { .. } => 12,
        Move::CastlingLong { .. } => 100000,
        Move::CastlingShort { .. } => 100000,""", """        Move::EnPassant { .. } => 0xC,
        Move::CastlingLong { .. } | Move::CastlingShort { .. } => 100_000,
        Move::Promotion { new_piece, .. } => 2 + (9 - (new_piece.material_value() as u32)),""", "arms reordered/merged, `_` in literal, commuted"),
    ("h18_score_match_capture", H, SE, """            if let Some(captured_piece) = capture {
                1000 + piece.material_value() as u32 - captured_piece.material_value() as u32
            } else {
                10000000 - history[_move.index_history().unwrap()] as u32
            }""", """            match capture {
                Some(victim) => piece.material_value() as u32 + 1000 - victim.material_value() as u32,
                None => {
                    let slot = _move.index_history().unwrap();
                    10_000_000 - history[slot] as u32
                }
            }""", "`if let` -> `match`, `let`, renamed binding"),
    ("h19_score_eq_some", H, SE, "if killer_move.is_some_and(|killer_move| killer_move == _move) {", "if killer_move.is_some_and(|k| _move == k) {", "renamed closure parameter, flipped `==`"),
    ("h21_untyped_let", H, GS, "(self.bitfield & (1 << 6)) != 0", "let mask = 1 << 6;\n        (mask & self.bitfield) != 0", "`let` of unsuffixed literals (type fixed by the later use)"),
    ("h22_comments_braces", H, GS, """    pub const fn en_passant(self) -> i8 {
        (self.bitfield & 0b1111) as i8""", """    // fn en_passant(self) -> i8 { 0 }}}  <- a comment, not the function
    pub const fn en_passant(self) -> i8 {
        /* } a closing brace in a block comment /* nested } */ */
        (self.bitfield & /* mask */ 0b1111) as i8 // }""", "comments with braces and a fake `fn` before/inside the body"),
    ("h20_rook_const", H, POS, "pub const BLACK_KING_ROOK: Self = Self(7, 7);", "pub const BLACK_KING_ROOK: Self = Self(0x7, 8 - 1);", "constant written differently"),
    # ---------------------------------------------------------------- meaning
    ("m01_ep_mask", M, GS, "(self.bitfield & 0b1111) as i8", "(self.bitfield & 0b0111) as i8", "wrong mask bit"),
    ("m02_wk_bit", M, GS, "(self.bitfield & (1 << 4)) != 0", "(self.bitfield & (1 << 5)) != 0", "wrong bit in getter"),
    ("m03_dropped_not", M, GS, "self.bitfield &= !(1 << 5);", "self.bitfield &= 1 << 5;", "dropped `!`"),
    ("m04_or_to_and", M, GS, "self.bitfield |= 1 << 6;", "self.bitfield &= 1 << 6;", "`|` -> `&`"),
    ("m05_set_ep_mask", M, GS, "(self.bitfield & 0b11110000) + (value as u8)", "(self.bitfield & 0b11100000) + (value as u8)", "wrong keep-mask"),
    ("m06_default", M, GS, "bitfield: 8,", "bitfield: 0,", "default state 8 -> 0"),
    ("m07_new_inclusive", M, POS, """    pub fn new(row: i8, col: i8) -> Option<Self> {
        if (0..8).contains(&row)""", """    pub fn new(row: i8, col: i8) -> Option<Self> {
        if (0..=8).contains(&row)""", "`<` -> `<=` in the range test"),
    ("m08_new_swapped", M, POS, """            Some(Self(row, col))
        } else {
            None
        }
    }

    #[inline]
    pub fn new_assert""", """            Some(Self(col, row))
        } else {
            None
        }
    }

    #[inline]
    pub fn new_assert""", "swapped row/col"),
    ("m09_add_component", M, POS, """        let col = self.1 + delta.1;
        if (0..8).contains(&row) && (0..8).contains(&col) {
            Some""", """        let col = self.1 + delta.0;
        if (0..8).contains(&row) && (0..8).contains(&col) {
            Some""", "wrong delta component"),
    ("m10_times7", M, POS, "(self.0 * 8 + self.1) as usize", "(self.0 * 7 + self.1) as usize", "`* 8` -> `* 7`"),
    ("m11_plus5", M, PC, "index += 6;", "index += 5;", "`+6` -> `+5`"),
    ("m12_material", M, PC, "PieceType::Knight => 3,", "PieceType::Knight => 4,", "wrong material value"),
    ("m13_score_rows", M, PC, """            Player::White => 7 - pos.row(),
            Player::Black => pos.row(),""", """            Player::White => pos.row(),
            Player::Black => 7 - pos.row(),""", "row flip on the wrong side"),
    ("m14_tactical_lt", M, MV, "piece.material_value() <= captured_piece.material_value()", "piece.material_value() < captured_piece.material_value()", "`<=` -> `<`"),
    ("m15_history_63", M, MV, "piece.as_index() * 64 + end.as_usize()", "piece.as_index() * 63 + end.as_usize()", "`* 64` -> `* 63`"),
    ("m16_promotion_const", M, SE, "9 - new_piece.material_value() as u32 + 2,", "9 - new_piece.material_value() as u32 + 3,", "wrong promotion score constant"),
    ("m17_killer_value", M, SE, "return 1;", "return 2;", "killer move scored 2"),
    ("m18_ep_const", M, SE, "Move::EnPassant { .. } => 12,", "Move::EnPassant { .. } => 13,", "en-passant score 13"),
    ("m19_rook_home", M, POS, "pub const WHITE_KING_ROOK: Self = Self(0, 7);", "pub const WHITE_KING_ROOK: Self = Self(0, 6);", "wrong rook home"),
    ("m20_enum_order", M, PC, "    Queen,\n    Rook,\n", "    Rook,\n    Queen,\n", "PieceType declaration order (`as usize`)"),
    ("m21_sign", M, MOD, "    Black = -1,", "    Black = 1,", "Player discriminant"),
    ("m22_score_sign_dropped", M, PC, "piece_score * self.owner as Score", "piece_score", "sign dropped"),
    ("m23_capture_order", M, SE, "1000 + piece.material_value() as u32 - captured_piece.material_value() as u32",
     "1000 + captured_piece.material_value() as u32 - piece.material_value() as u32", "attacker/victim swapped"),
    ("m24_history_quiet_const", M, SE, "10000000 - history", "1000000 - history", "quiet-move base constant"),
    ("m25_add_wrapping_sub", M, POS, """        let row = self.0 + delta.0;
        let col = self.1 + delta.1;
        if (0..8).contains(&row) && (0..8).contains(&col) {
            Some""", """        let row = self.0 - delta.0;
        let col = self.1 + delta.1;
        if (0..8).contains(&row) && (0..8).contains(&col) {
            Some""", "`+` -> `-`"),
    # ---------------------------------------------------------------- outside the subset
    ("r01_loop", R, PC, """        let mut index = self.piece_type as usize;
        if self.owner == Player::Black {
            index += 6;
        }
        index""", """        let mut index = self.piece_type as usize;
        while self.owner == Player::Black && index < 6 {
            index += 6;
        }
        index""", "a `while` loop"),
    ("r02_renamed_fn", R, GS, "pub const fn en_passant(self) -> i8", "pub const fn en_passant_file(self) -> i8", "function renamed"),
    ("r03_untyped_let", R, GS, "(self.bitfield & (1 << 7)) != 0", "let mask = 1 << 7;\n        mask != 0", "`let` of an unsuffixed literal with no typed use (rustc: i32)"),
    ("r04_division", R, POS, "(self.0 * 8 + self.1) as usize", "(self.0 * 16 / 2 + self.1) as usize", "operator `/`"),
]

# ---------------------------------------------------------------- rows for the letter functions and the key-table indices
ASCII_MATCH = """        let piece = match self.piece_type {
            PieceType::King => 'K',
            PieceType::Queen => 'Q',
            PieceType::Rook => 'R',
            PieceType::Bishop => 'B',
            PieceType::Knight => 'N',
            PieceType::Pawn => 'P',
        };"""
FROM_MATCH = """        let piece_type = match piece.to_ascii_uppercase() {
            'K' => PieceType::King,
            'Q' => PieceType::Queen,
            'R' => PieceType::Rook,
            'B' => PieceType::Bishop,
            'N' => PieceType::Knight,
            'P' => PieceType::Pawn,
            _ => return None,
        };"""
PGN_MATCH = """            PieceType::King => "K",
            PieceType::Queen => "Q",
            PieceType::Rook => "R",
            PieceType::Bishop => "B",
            PieceType::Knight => "N",
            PieceType::Pawn => "","""
PIECE_HASH = """            *zobrist::PIECE
                .get_unchecked(pos.as_usize())
                .get_unchecked(self.as_index())"""
STATE_HASH = "unsafe { *zobrist::STATE.get_unchecked(self.bitfield as usize) }"
CASES += [
    ("h23_ascii_lookup_array", H, PC, ASCII_MATCH, "        let piece = ['Q', 'R', 'B', 'N', 'P', 'K'][self.piece_type as usize];",
     "`match` -> lookup array indexed by `self.piece_type as usize`"),
    ("h24_ascii_reorder_bytes", H, PC, ASCII_MATCH, """        let piece = match self.piece_type {
            PieceType::Pawn => b'P' as char,
            PieceType::Knight => 'N',
            PieceType::Bishop => '\\u{42}',
            PieceType::Rook => 'R',
            PieceType::Queen => b'Q' as char,
            PieceType::King => '\\x4B',
        };""", "arms reordered, `'Q'` -> `b'Q' as char`, `\\u{42}`, `\\x4B`"),
    ("h25_ascii_black_if", H, PC, """        match self.owner {
            Player::White => piece,
            Player::Black => piece.to_ascii_lowercase(),
        }
    }""", """        if self.owner == Player::Black { piece.to_ascii_lowercase() } else { piece }
    }""", "`match` on the owner -> `if/else`"),
    ("h26_from_lowercase_or", H, PC, FROM_MATCH, """        let piece_type = match piece.to_ascii_lowercase() {
            'p' => PieceType::Pawn,
            'n' => PieceType::Knight,
            'b' => PieceType::Bishop,
            'r' => PieceType::Rook,
            'q' => PieceType::Queen,
            'k' => PieceType::King,
            _ => { return None; }
        };""", "match on the lowercase letter, arms reordered, `return` in a block"),
    ("h27_from_direct_or", H, PC, FROM_MATCH, """        let piece_type = match piece {
            'K' | 'k' => PieceType::King,
            'Q' | 'q' => PieceType::Queen,
            'R' | 'r' => PieceType::Rook,
            'B' | 'b' => PieceType::Bishop,
            'N' | 'n' => PieceType::Knight,
            'P' | 'p' => PieceType::Pawn,
            _ => return None,
        };""", "or-patterns on the char itself instead of `to_ascii_uppercase`"),
    ("h28_pgn_reorder_wild", H, PC, PGN_MATCH, """            PieceType::Queen => "Q",
            PieceType::Knight => "N",
            PieceType::Rook => "\\u{52}",
            PieceType::King => r"K",
            PieceType::Bishop => "B",
            _ => "",""", "arms reordered, catch-all, escape and raw string"),
    ("h29_glyph_escape", H, PC, "PieceType::King => '♔',", "PieceType::King => '\\u{2654}',", "glyph written as `\\u{2654}`"),
    ("h30_piece_hash_indexing", H, PC, "        unsafe {\n" + PIECE_HASH + "\n        }", "        let row = &zobrist::PIECE[pos.as_usize()];\n        row[self.as_index()]",
     "`get_unchecked` -> `[]`, `let` for the row, no `unsafe`"),
    ("h31_state_hash_let", H, GS, STATE_HASH, "let i = self.bitfield as usize;\n        zobrist::STATE[i]", "`get_unchecked` -> `[]`, `let`"),
    ("h32_new_assert_cmp", H, POS, "        assert!((0..8).contains(&row) && (0..8).contains(&col));", "        assert!(row >= 0 && row < 8 && (0..=7).contains(&col), \"off the board\");",
     "assertion with comparisons and a message"),
    ("m26_ascii_n_b", M, PC, "            PieceType::Bishop => 'B',\n            PieceType::Knight => 'N',\n            PieceType::Pawn => 'P',",
     "            PieceType::Bishop => 'N',\n            PieceType::Knight => 'B',\n            PieceType::Pawn => 'P',", "letters 'N'/'B' swapped in `as_char_ascii`"),
    ("m27_glyph_colour", M, PC, "PieceType::King => '♔',", "PieceType::King => '♚',", "white king shown with the black glyph"),
    ("m28_from_k_q", M, PC, "            'K' => PieceType::King,\n            'Q' => PieceType::Queen,", "            'Q' => PieceType::King,\n            'K' => PieceType::Queen,", "'K' <-> 'Q' in `from_char_ascii`"),
    ("m29_pgn_pawn", M, PC, "PieceType::Pawn => \"\",", "PieceType::Pawn => \"P\",", "pawn gets a PGN letter"),
    ("m30_from_owner", M, PC, "let owner = if piece.is_ascii_lowercase() {", "let owner = if piece.is_ascii_uppercase() {", "colour test inverted"),
    ("m31_ascii_no_lower", M, PC, "Player::Black => piece.to_ascii_lowercase(),", "Player::Black => piece.to_ascii_uppercase(),", "black letters not lowered"),
    ("m32_from_catch_all", M, PC, "            _ => return None,\n        };", "            _ => PieceType::Pawn,\n        };", "unknown letters (also non-ASCII) read as pawns"),
    ("m33_piece_hash_swapped", M, PC, PIECE_HASH, """            *zobrist::PIECE
                .get_unchecked(self.as_index())
                .get_unchecked(pos.as_usize())""", "index order swapped"),
    ("m34_piece_hash_col", M, PC, PIECE_HASH, """            *zobrist::PIECE
                .get_unchecked(pos.col() as usize)
                .get_unchecked(self.as_index())""", "square index replaced by the column"),
    ("m35_state_hash_shift", M, GS, STATE_HASH, "unsafe { *zobrist::STATE.get_unchecked((self.bitfield >> 1) as usize) }", "state byte shifted before the lookup"),
    ("m36_piece_hash_type_only", M, PC, PIECE_HASH, """            *zobrist::PIECE
                .get_unchecked(pos.as_usize())
                .get_unchecked(self.piece_type as usize)""", "dropped `+ 6` for Black (piece type as the column)"),
    ("m37_glyph_knight_bishop", M, PC, "PieceType::Bishop => '♝',\n                PieceType::Knight => '♞',", "PieceType::Bishop => '♞',\n                PieceType::Knight => '♝',", "black knight/bishop glyphs swapped"),
    ("m38_new_assert_range", M, POS, "        assert!((0..8).contains(&row) && (0..8).contains(&col));", "        assert!((0..8).contains(&row) && (0..=8).contains(&col));", "assertion admits column 8"),
    ("r05_char_range_pattern", R, PC, "            'K' => PieceType::King,\n            'Q'", "            'K'..='K' => PieceType::King,\n            'Q'", "a range pattern"),
    ("r06_format_macro", R, PC, "PieceType::Pawn => \"\",", "PieceType::Pawn => concat!(\"\", \"\"),", "a macro in expression position"),
]


def sh(cmd, **kw):
    return subprocess.run(cmd, stdout=subprocess.PIPE, stderr=subprocess.STDOUT, text=True, **kw)


def failing_theorems(out):
    """map `error: file:line` of the lake output to the enclosing theorem names"""
    names = []
    for m in re.finditer(r"error: (Chess/[\w/]+\.lean):(\d+):", out):
        path, line = os.path.join(LEAN, m.group(1)), int(m.group(2))
        try:
            lines = open(path, encoding="utf-8").read().split("\n")
        except OSError:
            continue
        for k in range(min(line, len(lines)) - 1, -1, -1):
            mm = re.match(r"\s*(?:private )?(?:theorem|def|instance|structure|inductive) (\S+)", lines[k])
            if mm:
                nm = mm.group(1)
                if "Gen/Fns" in m.group(1):
                    nm = "Gen.Fns:" + nm
                if nm not in names:
                    names.append(nm)
                break
    return names


def build():
    t0 = time.time()
    r = sh(["lake", "build", "Chess.Gen.Fns", "Chess.Lemmas.FnsEquiv"], cwd=LEAN)
    return r.returncode == 0, r.stdout, time.time() - t0


def run_case(name, kind, rel, old, new, what):
    dst = os.path.join(SCRATCH, name)
    shutil.rmtree(dst, ignore_errors=True)
    shutil.copytree(SRC_REPO, dst, ignore=shutil.ignore_patterns("target", ".git"))
    path = os.path.join(dst, rel)
    text = open(path, encoding="utf-8").read()
    if text.count(old) != 1:
        shutil.rmtree(dst, ignore_errors=True)
        return {"name": name, "observed": f"SELFTEST ERROR: pattern occurs {text.count(old)} times", "ok": False}
    open(path, "w", encoding="utf-8").write(text.replace(old, new))
    env = dict(os.environ, REPO=dst)
    r = sh([sys.executable, os.path.join(HERE, "translate.py"), "-q"], env=env)
    res = {"name": name, "kind": kind, "what": what, "file": rel}
    if r.returncode != 0:
        msg = r.stdout.strip().split("\n")[-1]
        res["observed"] = "translator refused: `" + msg[:150] + "`"
        res["ok"] = kind in (R, M) and msg.startswith("translate:")
        if kind == M:
            res["observed"] += " (named error instead of a failing theorem)"
    else:
        ok, out, dt = build()
        if ok:
            res["observed"] = f"translator ok, build ok ({dt:.0f} s)"
            res["ok"] = kind == H
        else:
            names = failing_theorems(out)
            res["observed"] = f"translator ok, build FAILED ({dt:.0f} s): " + ", ".join(names[:6])
            res["ok"] = kind == M
    shutil.rmtree(dst, ignore_errors=True)
    return res


def main():
    only = set(sys.argv[1:])
    os.makedirs(SCRATCH, exist_ok=True)
    results = []
    for c in CASES:
        if only and c[0] not in only and c[1] not in only:
            continue
        res = run_case(*c)
        res.setdefault("kind", c[1])
        res.setdefault("what", c[5])
        res.setdefault("file", c[2])
        results.append(res)
        print(("PASS " if res["ok"] else "FAIL ") + res["name"] + ": " + res["observed"], flush=True)
    # leave the tree in the passing state
    r = sh([sys.executable, os.path.join(HERE, "translate.py"), "-q"], env=dict(os.environ, REPO=SRC_REPO))
    ok, out, dt = build()
    final = f"regenerated from {SRC_REPO}: translator rc={r.returncode}, build {'ok' if ok else 'FAILED'} ({dt:.0f} s)"
    print(final)
    expected = {H: "translator ok, build ok", M: "build fails (or named translator error)", R: "translator error `translate:<file>.<fn>`"}
    if only and os.environ.get("SELFTEST_APPEND"):
        with open(os.path.join(HERE, "translate_selftest.md"), "a", encoding="utf-8") as f:
            n_ok = sum(1 for x in results if x["ok"])
            f.write(f"## {os.environ['SELFTEST_APPEND']}\n\n{n_ok}/{len(results)} as expected (rows run on their own: "
                    f"`SELFTEST_APPEND=… tools/translate_selftest.py {' '.join(sys.argv[1:])}`). {final}.\n\n"
                    "| # | kind | file | rewrite | expected | observed | as expected |\n|---|---|---|---|---|---|---|\n")
            for x in results:
                what = x["what"].replace("|", "\\|")
                obs = x["observed"].replace("|", "\\|")
                f.write(f"| {x['name']} | {x['kind']} | {os.path.basename(x['file'])} | {what} | {expected[x['kind']]} | "
                        f"{obs} | {'yes' if x['ok'] else '**NO**'} |\n")
            f.write("\n")
    if not only:
        expected = {H: "translator ok, build ok", M: "build fails (or named translator error)", R: "translator error `translate:<file>.<fn>`"}
        with open(os.path.join(HERE, "translate_selftest.md"), "w", encoding="utf-8") as f:
            f.write("# Self-test of `tools/translate.py` + `Chess/Lemmas/FnsEquiv*` (written by `tools/translate_selftest.py`)\n\n")
            n_ok = sum(1 for x in results if x["ok"])
            f.write(f"{n_ok}/{len(results)} as expected. {final}.\n\n")
            f.write("Each row: scratch copy of the repo, one textual replacement, `REPO=<copy> tools/translate.py`, then "
                    "`lake build Chess.Gen.Fns Chess.Lemmas.FnsEquiv`. A build of 0-3 s means the regenerated Lean text was "
                    "identical (the rewrite disappears in the parse, e.g. another literal base) and lake reused its cache; "
                    "otherwise every `FnsEquiv` module was re-checked against the new term. For a failed build the column "
                    "lists the theorems that no longer check (the broken obligations).\n\n")
            for kind, title in ((H, "Harmless rewrites (meaning kept)"), (M, "Meaning-changing rewrites"), (R, "Rewrites that leave the supported subset")):
                f.write(f"## {title}\n\n| # | file | rewrite | expected | observed | as expected |\n|---|---|---|---|---|---|\n")
                for x in results:
                    if x["kind"] == kind:
                        what = x["what"].replace("|", "\\|")
                        obs = x["observed"].replace("|", "\\|")
                        f.write(f"| {x['name']} | {os.path.basename(x['file'])} | {what} | {expected[kind]} | "
                                f"{obs} | {'yes' if x['ok'] else '**NO**'} |\n")
                f.write("\n")
    return 0 if all(x["ok"] for x in results) and ok else 1


if __name__ == "__main__":
    sys.exit(main())
