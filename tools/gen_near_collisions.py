#!/usr/bin/env python3
"""Development tool: pairs of DIFFERENT positions whose 64-bit hashes agree in the low 32, the high 32, the low 24 or
the high 24 bits (found by the birthday effect among a few hundred thousand positions near well-known roots, hashed by
the implementation). A table that keys or verifies its entries by less than the whole hash confuses such a pair at
once; with the whole hash they are ordinary, unrelated positions. Output: corpus/C06_near_collisions.txt
(`kind<TAB>fenA<TAB>hashA<TAB>fenB<TAB>hashB`)."""
import os, sys
sys.path.insert(0, os.path.join(os.path.dirname(os.path.abspath(__file__)), ".."))
from vlib import core, roots

TARGET = int(sys.argv[1]) if len(sys.argv) > 1 else 400000
seen = {}        # fen4 -> hash
frontier = [roots.START, roots.KIWIPETE] if hasattr(roots, "KIWIPETE") else [roots.START]
frontier += [f for f in roots.ALL[:12] if f not in frontier]
for f in frontier:
    seen.setdefault(core.fen4(f), None)
while len(seen) < TARGET and frontier:
    c1 = [["new " + f, "moves c"] for f in frontier]
    r1, _ = core.run_rust(c1)
    c2 = []
    for f, out in zip(frontier, r1):
        n = int(out[1][0].split()[0]) if out[1] and out[1][0].split()[0].isdigit() else 0
        ops = ["new " + f]
        for k in range(n):
            ops += ["push c %d" % k, "obs", "undo"]
        c2.append(ops)
    r2, _ = core.run_rust(c2)
    nxt = []
    for ops, out in zip(c2, r2):
        for i in range(2, len(ops), 3):
            if out[i] and "|" in out[i][0]:
                fen, h = out[i][0].split("|")[:2]
                k4 = core.fen4(fen)
                if seen.get(k4) is None:
                    if k4 not in seen:
                        nxt.append(k4 + " 0 1")
                    seen[k4] = h
    frontier = nxt[: max(0, TARGET - len(seen)) + 20000]
    print(len(seen), "positions", file=sys.stderr)
hashed = [(f, int(h, 16)) for f, h in seen.items() if h]
out = []
for kind, key in (("low32", lambda h: h & 0xFFFFFFFF), ("high32", lambda h: h >> 32), ("low24", lambda h: h & 0xFFFFFF), ("high24", lambda h: h >> 40)):
    buckets = {}
    n = 0
    for f, h in hashed:
        k = key(h)
        if k in buckets and buckets[k][1] != h and n < 40:
            g, hg = buckets[k]
            # same side to move (a cached move of the other colour is the clearest symptom, but both kinds are kept)
            out.append("%s\t%s 0 1\t%016X\t%s 0 1\t%016X" % (kind, g, hg, f, h))
            n += 1
        buckets.setdefault(k, (f, h))
    print(kind, n, "pairs", file=sys.stderr)
with open(os.path.join(core.VERIF, "corpus", "C06_near_collisions.txt"), "w") as fh:
    fh.write("\n".join(out) + "\n")
