#!/bin/bash
# usage: tools/confirm.sh <worktree> <mutant dir>  — confirm a seeded change in ITS OWN scratch worktree:
# demo passes on the clean tree, patch applies, the 42 baseline tests pass with it, demo fails with it.
WT=$1; M=$2
cd $WT || exit 2
git checkout -q -- src
T="--test-threads 8 --skip fen_startpos --skip perft5_kiwipete --skip perft6_position_4 --skip perft7_position_3"
demo() {  # $1 = label
  if [ -f $M/demo.sh ]; then (bash $M/demo.sh > /tmp/demo_$$.log 2>&1; echo "$1 demo.sh exit=$?"); fi
  if [ -f $M/demo_test.rs ]; then
    cp src/chess/mod.rs /tmp/mod_$$.rs; cat $M/demo_test.rs >> src/chess/mod.rs
    echo "$1 demo_test: $(cargo test --release --offline demo_ 2>&1 | grep -E '^test result' | head -1)"
    cp /tmp/mod_$$.rs src/chess/mod.rs; rm -f /tmp/mod_$$.rs
  fi
}
cargo build --release --offline 2>&1 | grep -E "^error" | head -2
demo clean
git apply $M/patch.diff || { echo "PATCH DOES NOT APPLY"; exit 1; }
cargo build --release --offline 2>&1 | grep -E "^error" | head -2
echo "patched tests: $(cargo test --release --offline -- $T 2>&1 | grep -E '^test result' | head -1)"
demo patched
git checkout -q -- src
cargo build --release --offline 2>&1 | grep -E "^error" | head -2
