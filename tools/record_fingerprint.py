#!/usr/bin/env python3
"""Record the fingerprint of /repo's source (comments and layout aside) as the tree the model was last validated
against. Run it only after the thorough tier has passed on that tree; ./check widens the quick search when the
working tree differs from this record (a difference is never a finding by itself)."""
import json, os, subprocess, sys
sys.path.insert(0, os.path.join(os.path.dirname(os.path.abspath(__file__)), ".."))
from vlib import core
commit = subprocess.run(["git", "-C", core.REPO, "rev-parse", "HEAD"], capture_output=True, text=True).stdout.strip()
json.dump({"recorded_at_repo_commit": commit, "files": core.source_fingerprint()}, open(core.FINGERPRINT, "w"), indent=1, sort_keys=True)
print("recorded", core.FINGERPRINT, commit)
import shutil
src = os.path.join(core.VERIF, "gen", "extract_cache.json")
if os.path.exists(src):
    shutil.copy(src, os.path.join(core.VERIF, "validated_extract.json"))
    print("recorded validated_extract.json")
