#!/bin/bash
# usage: tools/evalq.sh <queue name> <mode: mut|harmless> <patch.diff>...
# Development tool: evaluates patches WITHOUT touching /repo or /verif. It takes a snapshot of /verif (with build
# output) under /tmp/vq/<name>, a scratch worktree of /repo under /tmp/vq/<name>-repo, points the snapshot's harness at
# the worktree (harness/repo symlink, VERIF_REPO), and for each patch: apply, run every quick check, print alarms, undo.
# mode mut: proof audit skipped (VERIF_DEV_SKIP_PROOF) ; mode harmless: full checks.
Q=$1; MODE=$2; shift 2
S=/tmp/vq/$Q; R=/tmp/vq/$Q-repo
mkdir -p /tmp/vq
if [ -z "$KEEP" ] || [ ! -d $S ]; then
rsync -a --delete --exclude .git --exclude replays --exclude seeded /verif/ $S/
git -C /repo worktree remove --force $R 2>/dev/null; git -C /repo worktree add -q --detach $R HEAD || exit 2
rm -f $S/harness/repo; ln -s $R $S/harness/repo
rm -f $S/probe/repo; ln -s $R $S/probe/repo
rm -rf $S/.build   # cargo fingerprints copied from /verif name /repo: force a rebuild against the worktree
else   # KEEP=1: reuse the snapshot's build output, refresh the scripts only
rsync -a --exclude .git --exclude replays --exclude seeded --exclude .build --exclude lean/.lake --exclude harness/repo --exclude probe/repo /verif/ $S/
fi
export VERIF_REPO=$R
[ "$MODE" = mut ] && export VERIF_DEV_SKIP_PROOF=1
cd $S; rm -rf $S/replays
for P in "$@"; do
  echo "### $P"
  git -C $R checkout -q -- . ; git -C $R apply $P || { echo "PATCH DOES NOT APPLY"; continue; }
  for c in ${CHECKS:-C01 C02 C03 C04 C05 C06 C07 C08 C09 C10 C11 C12 C13 C14 C15 C16 C17 C18 C19 C20}; do
    ./check $c --tier quick 2>&1 | grep -E "VIOLATION|FAIL|widening" | head -4 | sed "s|^|$c: |" | cut -c1-220
  done
  for f in $S/replays/*.json; do [ -f "$f" ] && python3 -c "
import json,sys;d=json.load(open('$f'));print('   replay',d['property'],d['kind'],d['signature'][:160].replace('\n',' '))"; done
  rm -rf $S/replays
done
git -C $R checkout -q -- .
echo "### queue $Q done"
