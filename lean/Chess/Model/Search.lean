import Std.Data.HashMap
import Chess.Model.Text

/-!
# The search (mirrors `search.rs`), written over an abstract game interface

`quiescence_search`, `get_best_move_score_depth_1`, `get_best_move_score`,
`get_best_move_entry`, `get_best_move_until_stop`, function by function. Take-back is not
threaded: `push` returns a new value and the old one is kept (that `pop` restores it is C03).
The stop flag is an oracle on the index of the poll; `?` is `Option`.
-/
namespace Chess.Search

/-- what the search needs from a game -/
structure Ops (G M : Type) where
  /-- `get_moves(.., true)` -/
  checked : G → List M
  /-- `get_moves(.., false)` -/
  unchecked : G → List M
  push : G → M → G
  /-- `game.score() * game.player() as Score` -/
  eval : G → Int
  /-- `king_exists(player) && !is_targeted(king, player)`: a node without moves scores 0 if this holds -/
  safe : G → Bool
  hash : G → UInt64
  tactical : M → Bool
  histIdx : M → Option Nat
  /-- `move_score` for a move that is neither the table move nor the killer move -/
  orderKey : M → (Nat → Nat) → Nat
  /-- the last five entries of `move_stack` repeat: `some (repetition move)` -/
  repetition : G → Option M

inductive Flag where
  | exact | lower | upper
  deriving DecidableEq, Repr, Inhabited

structure Entry (M : Type) where
  score : Int
  pv : Option M
  depth : Nat
  flag : Flag
  deriving Repr, Inhabited

abbrev Table (M : Type) := Std.HashMap UInt64 (Entry M)

/-- mutable search state threaded through the interior nodes -/
structure St (M : Type) where
  tt : Table M
  killers : Array (Option M)
  history : Array Nat
  /-- number of node-entry polls performed so far -/
  polls : Nat
  /-- the C09 hook is on: the table is emptied at every poll -/
  ttOff : Bool := false

def scoreMin : Int := -32768
def scoreMax : Int := 32767

variable {G M : Type} [DecidableEq M]

/-- the capture loop of `quiescence_search`, given the function for the children -/
def qLoop (o : Ops G M) (child : G → Int → Int → Int → Int) (g : G) (beta rd : Int) :
    List M → Int → Int
  | [], alpha => alpha
  | m :: ms, alpha =>
    if !o.tactical m then qLoop o child g beta rd ms alpha else
    let score := -(child (o.push g m) (-beta) (-alpha) (rd + 1))
    let alpha := if score > alpha then score else alpha
    if alpha ≥ beta then beta else qLoop o child g beta rd ms alpha

/-- `quiescence_search` -/
def qsearch (o : Ops G M) : Nat → G → Int → Int → Int → Int
  | 0, g, alpha, _, _ => max alpha (o.eval g)   -- fuel exhausted; never reached (bound proved separately)
  | fuel + 1, g, alpha, beta, rd =>
    let alpha := max alpha (o.eval g)
    if alpha ≥ beta then beta else
    let moves := o.unchecked g
    if moves.isEmpty then
      (if o.safe g then 0 else scoreMin + Gen.mateQ + rd)
    else qLoop o (qsearch o fuel) g beta rd moves alpha

/-- fuel for the quiescence recursion: every tactical move captures or promotes, so 64 + 16 plies
more than suffice for any board -/
def qFuel : Nat := 100

/-- the move loop of `get_best_move_score_depth_1` -/
def d1Loop (o : Ops G M) (g : G) (beta rd : Int) : List M → Int → Int
  | [], alpha => alpha
  | m :: ms, alpha =>
    let score := -(qsearch o qFuel (o.push g m) (-beta) (-alpha) (rd + 1))
    let alpha := if score > alpha then score else alpha
    if alpha ≥ beta then alpha else d1Loop o g beta rd ms alpha

/-- `get_best_move_score_depth_1` -/
def depth1 (o : Ops G M) (g : G) (alpha beta rd : Int) : Int :=
  let moves := o.unchecked g
  if moves.isEmpty then
    (if o.safe g then 0 else scoreMin + Gen.mateD1 + rd)
  else d1Loop o g beta rd moves alpha

/-- `move_score` -/
def moveKey (o : Ops G M) (pv killer : Option M) (history : Array Nat) (m : M) : Nat :=
  if pv = some m then 0
  else if killer = some m then 1
  else o.orderKey m (fun i => history.getD i 0)

/-- `sort_by_cached_key` (stable) -/
def sortMoves (key : M → Nat) (ms : List M) : List M :=
  (ms.map (fun m => (key m, m))).mergeSort (fun a b => a.1 ≤ b.1) |>.map (·.2)

def ttGet (s : St M) (h : UInt64) : Option (Entry M) := s.tt[h]?

/-- the history bonus: `(d as f64).powf(3.0) * (1.0 - h as f64 / 10000.0)` then `as u16`, `+=` -/
def historyBonus (depth : Nat) (h : Nat) : Nat :=
  let bonus := Float.pow depth.toFloat 3.0
  let real := bonus * (1.0 - h.toFloat / 10000.0)
  (h + real.toUInt16.toNat) % 65536

/-- result of the move loop of an interior node -/
structure LoopOut (M : Type) where
  alpha : Int
  bestScore : Int
  bestMove : Option M
  st : St M

/-- the move loop of `get_best_move_score`, given the function for the children -/
def nodeLoop (o : Ops G M) (child : G → Int → Int → Int → St M → Option (Int × St M))
    (g : G) (remaining : Nat) (rd : Int) (beta : Int) :
    List M → Nat → Int → Int → Option M → St M → Option (LoopOut M)
  | [], _, alpha, bestScore, bestMove, st => some ⟨alpha, bestScore, bestMove, st⟩
  | m :: ms, index, alpha, bestScore, bestMove, st =>
    let g' := o.push g m
    let step : Option (Int × Int × Option M × St M) :=
      if index ≤ Gen.fullWindowMaxIndex then
        match child g' (-beta) (-alpha) (rd + 1) st with
        | none => none
        | some (v, st) =>
          let score := -v
          let (bestScore, bestMove) := if score > bestScore then (score, some m) else (bestScore, bestMove)
          some (max alpha score, bestScore, bestMove, st)
      else
        match child g' (-alpha - 1) (-alpha) (rd + 1) st with
        | none => none
        | some (v, st) =>
          let test := -v
          if test > bestScore then
            match child g' (-beta) (-test) (rd + 1) st with
            | none => none
            | some (v2, st) =>
              let score := -v2
              some (max alpha score, score, some m, st)
          else some (alpha, bestScore, bestMove, st)
    match step with
    | none => none
    | some (alpha, bestScore, bestMove, st) =>
      if alpha ≥ beta then
        let st := { st with killers := st.killers.setIfInBounds rd.toNat (some m) }
        let st := match o.histIdx m with
          | some i => { st with history := st.history.setIfInBounds i (historyBonus remaining (st.history.getD i 0)) }
          | none => st
        some ⟨alpha, bestScore, bestMove, st⟩
      else nodeLoop o child g remaining rd beta ms (index + 1) alpha bestScore bestMove st

/-- `get_best_move_score`; `runs k` is the value of the flag at the `k`-th poll -/
def node (o : Ops G M) (runs : Nat → Bool) :
    Nat → G → Int → Int → Int → St M → Option (Int × St M)
  | remaining, g, alpha, beta, rd, st =>
    if !runs st.polls then none else
    let st := { st with polls := st.polls + 1, tt := if st.ttOff then {} else st.tt }
    let entry := ttGet st (o.hash g)
    let cut : Option Int := match entry with
      | some e =>
        if e.depth ≥ remaining then
          match e.flag with
          | .exact => some e.score
          | .lower => if e.score ≥ beta then some e.score else none
          | .upper => if e.score ≤ alpha then some e.score else none
        else none
      | none => none
    match cut with
    | some v => some (v, st)
    | none =>
      let pvMove := entry.bind (·.pv)
      match remaining with
      | 0 => some (qsearch o qFuel g alpha beta rd, st)
      | 1 => some (depth1 o g alpha beta rd, st)
      | r + 2 =>
        let moves := o.checked g
        if moves.isEmpty then
          some ((if o.safe g then 0 else scoreMin + Gen.mateNode + rd), st)
        else
          let moves := sortMoves (moveKey o pvMove (st.killers.getD rd.toNat none) st.history) moves
          match nodeLoop o (node o runs (r + 1)) g (r + 2) rd beta moves 0 alpha scoreMin none st with
          | none => none
          | some out =>
            let flag := if out.bestScore ≤ alpha then Flag.upper
              else if out.bestScore ≥ beta then Flag.lower else Flag.exact
            let e : Entry M := ⟨out.bestScore, out.bestMove, r + 2, flag⟩
            let st := out.st
            let st :=
              match st.tt[o.hash g]? with
              | some old =>
                if old.depth < r + 2 || (old.depth = r + 2 && flag = .exact) then
                  { st with tt := st.tt.insert (o.hash g) e }
                else st
              | none => { st with tt := st.tt.insert (o.hash g) e }
            some (out.alpha, st)

/-- the move loop of `get_best_move_entry` -/
def rootLoop (o : Ops G M) (child : G → Int → Int → Int → St M → Option (Int × St M)) (g : G) :
    List M → Nat → Int → Option M → St M → Option (Int × Option M × St M)
  | [], _, bestScore, bestMove, st => some (bestScore, bestMove, st)
  | m :: ms, index, bestScore, bestMove, st =>
    let g' := o.push g m
    if index ≤ Gen.fullWindowMaxIndex then
      match child g' (scoreMin + 1) (-bestScore) 1 st with
      | none => none
      | some (v, st) =>
        let score := -v
        if score > bestScore then rootLoop o child g ms (index + 1) score (some m) st
        else rootLoop o child g ms (index + 1) bestScore bestMove st
    else
      match child g' (-bestScore - 1) (-bestScore) 1 st with
      | none => none
      | some (v, st) =>
        let score := -v
        if score > bestScore then
          match child g' (scoreMin + 1) (-score) 1 st with
          | none => none
          | some (v2, st) => rootLoop o child g ms (index + 1) (-v2) (some m) st
        else rootLoop o child g ms (index + 1) bestScore bestMove st

/-- `swap_remove` of the first occurrence of `x` -/
def swapRemoveFirst (x : M) (ms : List M) : List M :=
  match ms.idxOf? x with
  | none => ms
  | some i =>
    match ms.getLast? with
    | none => ms
    | some last => if i = ms.length - 1 then ms.dropLast else (ms.set i last).dropLast

/-- `get_best_move_entry`: `(best move, score, only-move flag)` and the state afterwards;
killers are fresh for each call -/
def rootSearch (o : Ops G M) (runs : Nat → Bool) (g : G) (depth : Nat) (st : St M) :
    Option ((Option M × Int × Bool) × St M) :=
  let moves := o.checked g
  if moves.length = 1 then some ((moves.head?, 0, true), st) else
  let st := { st with killers := Array.replicate Gen.killerLen none }
  let moves := match o.repetition g with
    | some rep => swapRemoveFirst rep moves
    | none => moves
  let entry := ttGet st (o.hash g)
  match (match entry with
         | some e => if e.depth ≥ depth && e.flag = Flag.exact then some e else none
         | none => none) with
  | some e => some ((e.pv, e.score, false), st)
  | none =>
    let pvMove := entry.bind (·.pv)
    let moves := sortMoves (moveKey o pvMove none st.history) moves
    match rootLoop o (node o runs (depth - 1)) g moves 0 (scoreMin + 1) none st with
    | none => none
    | some (bestScore, bestMove, st) =>
      let e : Entry M := ⟨bestScore, bestMove, depth, .exact⟩
      let st :=
        match st.tt[o.hash g]? with
        | some old => if old.depth ≤ depth then { st with tt := st.tt.insert (o.hash g) e } else st
        | none => { st with tt := st.tt.insert (o.hash g) e }
      some ((bestMove, bestScore, false), st)

/-- one iteration's report: depth, score, table size, principal variation -/
structure Info (M : Type) where
  depth : Nat
  score : Int
  nodes : Nat
  pv : List M

/-- the walk that prints `info pv` -/
def pvWalk (o : Ops G M) (tt : Table M) : Nat → G → List M
  | 0, _ => []
  | n + 1, g =>
    match tt[o.hash g]? with
    | some e => (match e.pv with
      | some m => m :: pvWalk o tt n (o.push g m)
      | none => [])
    | none => []

/-- what `get_best_move_until_stop` returns and prints -/
structure DriverOut (M : Type) where
  found : Option M
  infos : List (Info M)
  st : St M
  /-- the loop ended because a poll saw the flag cleared -/
  stopped : Bool

/-- the iterative-deepening loop of `get_best_move_until_stop` -/
def driverLoop (o : Ops G M) (runs : Nat → Bool) (g : G) (limit : Nat) :
    Nat → Nat → Option M → List (Info M) → St M → DriverOut M
  | 0, _, found, infos, st => ⟨found, infos.reverse, st, false⟩
  | fuel + 1, depth, found, infos, st =>
    match rootSearch o runs g depth st with
    | none => ⟨found, infos.reverse, st, true⟩
    | some ((bestMove, bestScore, onlyMove), st) =>
      let found := bestMove.or found
      let info : Info M := ⟨depth, bestScore, st.tt.size, pvWalk o st.tt depth g⟩
      if depth = limit || onlyMove || bestScore > scoreMax - Gen.exitHi || bestScore < scoreMin + Gen.exitLo then
        ⟨found, (info :: infos).reverse, st, false⟩
      else driverLoop o runs g limit fuel (depth + 1) found (info :: infos) st

/-- `MAX_DEPTH` -/
def maxDepth : Nat := Gen.maxDepth

/-- `get_best_move_until_stop` -/
def driver (o : Ops G M) (runs : Nat → Bool) (g : G) (tt : Table M) (ttOff : Bool) (maxDepthArg : Option Nat) :
    DriverOut M :=
  let found := (o.checked g).head?
  let st : St M := { tt := tt, killers := Array.replicate Gen.killerLen none,
                     history := Array.replicate Gen.historyLen 0, polls := 0, ttOff := ttOff }
  let limit := min (max ((maxDepthArg.getD maxDepth)) 1) maxDepth
  let cached := match tt[o.hash g]? with
    | some e => if e.flag = .exact then e.depth else 1
    | none => 1
  let start := min cached limit
  driverLoop o runs g limit (limit - start + 1) start found [] st

end Chess.Search
