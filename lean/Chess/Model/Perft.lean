import Chess.Model.Game
import Chess.Model.Text

/-!
# `perft` (mirrors `src/performance_test.rs`) and the `perft` command line of `main.rs`

```rust
pub fn perft(game: &mut Game, depth: u8) -> usize {
    let mut moves = ArrayVec::new();
    game.get_moves(&mut moves, true);
    let mut count = 0;
    if depth == 0 { return 1; } else if depth == 1 { return moves.len(); }
    for &_move in &moves { game.push(_move); count += perft(game, depth - 1); game.pop(_move); }
    count
}
```

The Rust function works IN PLACE on `&mut Game`. The model threads the game through every step in
the same order — `get_moves` (itself a play/test/take-back loop), then for every move `push`, the
recursive call on the pushed game, `pop` of the game *the recursive call left behind*, and the next
iteration starts from the game the `pop` produced — and returns the game it ends with next to the
count, so that "perft leaves the game unchanged" is a statement about the model and not a
convention of the modelling.

Not modelled: `usize` wrap-around of `count` (a `Nat` here; perft values that fit no 64-bit word
are out of any run's reach) and the capacity of the `ArrayVec` (as in `Game.getMoves`).

Imports: `Chess.Model.Game`, and `Chess.Model.Text` for `Move.uci` only (used by `perftDivide`).
-/
namespace Chess
namespace Game

/-- the `for &_move in &moves { game.push(_move); count += perft(game, depth - 1); game.pop(_move); }`
loop; `rec` is the recursive call (count, game afterwards) -/
def perftLoop (rec : Game → Nat × Game) : Game → List Move → Nat → Nat × Game
  | g, [], count => (count, g)
  | g, m :: ms, count =>
    let g1 := g.push m
    let (c, g2) := rec g1
    let g3 := g2.pop m
    perftLoop rec g3 ms (count + c)

/-- `perft(game, depth)`: the count and the game afterwards -/
def perftAux : Nat → Game → Nat × Game
  | 0, g =>
    -- the move list is generated before the depth is looked at
    let (_, g) := g.getMoves true
    (1, g)
  | d + 1, g =>
    let (moves, g) := g.getMoves true
    if d + 1 = 1 then (moves.length, g)
    else perftLoop (perftAux d) g moves 0

/-- `perft(game, depth)`: the returned count -/
def perft (depth : Nat) (g : Game) : Nat := (perftAux depth g).1

/-- `perft(game, depth)`: the game the call leaves behind -/
def perftGame (depth : Nat) (g : Game) : Game := (perftAux depth g).2

/-- `String`'s `Ord` on ASCII texts: lexicographic by character code, a proper prefix first -/
def textLe : List Char → List Char → Bool
  | [], _ => true
  | _ :: _, [] => false
  | a :: as, b :: bs => a.toNat < b.toNat || (a == b && textLe as bs)

/-- `moves.sort_by_cached_key(|_move| _move.uci_notation())` (stable) -/
def sortByUci (ms : List Move) : List (List Char × Move) :=
  (ms.map (fun m => (m.uci, m))).mergeSort (fun a b => textLe a.1 b.1)

/-- the loop of the command line: `push`, `perft(depth - 1)`, `pop`, one output line per move -/
def perftDivideLoop (d : Nat) : Game → List (List Char × Move) → List (List Char × Nat) × Game
  | g, [] => ([], g)
  | g, (t, m) :: ms =>
    let g1 := g.push m
    let (c, g2) := perftAux d g1
    let g3 := g2.pop m
    let (r, g') := perftDivideLoop d g3 ms
    ((t, c) :: r, g')

/-- the `perft` command line of `main.rs` after the position is set up: the lines
`<uci>: <count>` in the order printed (moves sorted by UCI text) and the game afterwards.
`depth - 1` is computed in `u8` by the program: `depth = 0` underflows there (panic, or 255 in a
release build); here it is `0 - 1 = 0`, so the function is meant for `depth ≥ 1`. -/
def perftDivideAux (depth : Nat) (g : Game) : List (List Char × Nat) × Game :=
  let (moves, g) := g.getMoves true
  perftDivideLoop (depth - 1) g (sortByUci moves)

/-- the per-move lines of the command line -/
def perftDivide (depth : Nat) (g : Game) : List (List Char × Nat) := (perftDivideAux depth g).1

/-- the last line of the command line -/
def perftDivideSum (depth : Nat) (g : Game) : Nat := ((perftDivide depth g).map (·.2)).sum

end Game
end Chess
