/-!
# The float expression of `command_go`, exactly

`uci.rs` computes the two-per-cent share of the mover's clock as

    ((wtime as f64 * FRACTION_OF_TOTAL_TIME) as u64)        -- FRACTION_OF_TOTAL_TIME: f64 = 0.02

with `wtime : u64`.  This file models the three IEEE-754 binary64 operations involved *exactly*,
over `Nat`, with executable total definitions:

1. `wtime as f64` : conversion of an integer to binary64, round-to-nearest, ties-to-even, to a
   53-bit significand.  The result of rounding a non-negative integer is again a non-negative
   integer (for `n < 2^53` nothing is dropped; otherwise a multiple of a power of two results),
   so the value of the double is represented by the `Nat` it denotes: `u64ToF64 n`.
2. the constant `0.02` as a binary64 literal is *exactly* `c002 * 2^-58` with
   `c002 = 5764607523034235 = 0x147AE147AE147B` (bit pattern `0x3F947AE147AE147B`: sign 0,
   biased exponent `0x3F9 = 1017`, i.e. `2^(1017-1023-52) = 2^-58` times the 53-bit integer
   significand `2^52 + 0x47AE147AE147B`; python: `float.hex(0.02) = 0x1.47ae147ae147bp-6`).
   Note `50 * c002 = 2^58 + 6`: the literal is slightly *above* one fiftieth.
3. the product `x * 0.02` of two doubles, rounded to nearest-even binary64.  The exact product
   of the integer `x` and `c002 * 2^-58` is `(x * c002) * 2^-58`; rounding a positive real of the
   form `N * 2^-58` to 53 significant bits is `round53 N * 2^-58` as long as the result is a
   normal number, because rounding to a fixed number of *significant* bits commutes with scaling
   by powers of two.  So the double `x * 0.02` is `mulC x * 2^-58` with `mulC x = round53 (x * c002)`.
4. `as u64` of a double: truncation toward zero, saturating at `u64::MAX` (and NaN ↦ 0; no NaN can
   arise here).  On the value `y * 2^-58` that is `min (y / 2^58) (2^64 - 1)`.

## Range argument (why the unbounded-exponent model is exact for every `u64` input)

For `1 ≤ n < 2^64`: `1 ≤ u64ToF64 n ≤ 2^64`, far inside the normal range of binary64
(`2^-1022 … < 2^1024`).  The product lies in `[0.02, 2^64 * 0.0200…01] ⊂ [2^-6, 2^59)`: a positive
normal number, so no overflow, no underflow, no subnormal result, and the significand of the
result has the full 53 bits — exactly what `round53` computes.  For `n = 0` every stage is `0`
(`0.0 * 0.02 = +0.0`, `+0.0 as u64 = 0`), and `round53 0 = 0`.  The result is `< 2^59`, so the
saturation of `as u64` is never active for `u64` inputs (proved: `shareF64_eq_raw` in
`Chess/Lemmas/ShareF64.lean`); it is kept in the definition to mirror the semantics of `as`.

For `w ≥ 2^64` (not a `u64`, never passed by the engine) the same formulas are applied; the
theorems `shareF64_le`, `shareF64_mono` hold for all naturals.
-/
namespace Chess.Share

/-- `n / 2^q` rounded to the nearest integer, ties to even: `q` low bits are dropped -/
def rne (n q : Nat) : Nat :=
  let f := n / 2 ^ q
  let r := n % 2 ^ q
  if 2 ^ q < 2 * r ∨ (2 * r = 2 ^ q ∧ f % 2 = 1) then f + 1 else f

/-- how many low bits a 53-bit significand cannot hold: `bitlength n - 53`, i.e. `⌊log₂ n⌋ - 52` -/
def dropBits (n : Nat) : Nat := n.log2 - 52

/-- `n` rounded to 53 significant bits, nearest, ties to even (as a value, not as a significand).
A carry out of the significand (`rne` returning `2^53`) needs no special treatment: the value
`2^53 * 2^q` is the correct, representable, result. -/
def round53 (n : Nat) : Nat := rne n (dropBits n) * 2 ^ dropBits n

/-- `n as f64`, as the integer the double denotes -/
def u64ToF64 (n : Nat) : Nat := round53 n

/-- `0.02_f64 = c002 * 2^-58` exactly -/
def c002 : Nat := 5764607523034235

/-- binary exponent of the unit of `c002` (negated) -/
def c002Exp : Nat := 58

/-- `x * 0.02` in binary64 for the double with integer value `x`: the result is `mulC x * 2^-58` -/
def mulC (x : Nat) : Nat := round53 (x * c002)

/-- `(y * 2^-58) as u64`: truncate, saturate -/
def f64ToU64 (y : Nat) : Nat := min (y / 2 ^ c002Exp) (2 ^ 64 - 1)

/-- the share before the (inactive) saturation of `as u64` -/
def shareRaw (w : Nat) : Nat := mulC (u64ToF64 w) / 2 ^ c002Exp

/-- `((w as f64 * 0.02) as u64)` -/
def shareF64 (w : Nat) : Nat := f64ToU64 (mulC (u64ToF64 w))

end Chess.Share
