import Chess.Model.Uci

/-!
# The argument loop of `command_go` (`uci.rs`)

```rust
while let Some(term) = terms.next() {
    match term {
        "wtime" => wtime = terms.next().and_then(|s| s.parse().ok()),
        … "depth" (u8) … "movetime" … "infinite" => infinite = true,
        _ => continue,
```
A keyword consumes the next word whatever it is; a word that does not parse (or a missing word)
RESETS the field to `None`; the last occurrence wins; unknown words are skipped.
`str::parse::<u64>` accepts an optional `+`, then one or more ASCII digits, and refuses values
above the type's maximum (no `-`, no blanks, no `_`).
-/
namespace Chess.Uci

def stripPlus : List Char → List Char
  | '+' :: rest => rest
  | s => s

/-- `str::parse::<uN>()` for an unsigned type with maximum `max` -/
def parseUnsigned (max : Nat) (s : List Char) : Option Nat :=
  let ds := stripPlus s
  if ds.isEmpty then none
  else if ds.all (fun c => '0' ≤ c && c ≤ '9') then
    let v := ds.foldl (fun a c => a * 10 + (c.toNat - 48)) 0
    if v ≤ max then some v else none
  else none

def parseU64 (s : List Char) : Option Nat := parseUnsigned u64Max s
def parseU8 (s : List Char) : Option Nat := parseUnsigned 255 s

structure GoArgs where
  wtime : Option Nat := none
  btime : Option Nat := none
  winc : Option Nat := none
  binc : Option Nat := none
  depth : Option Nat := none
  movetime : Option Nat := none
  infinite : Bool := false
deriving Repr, DecidableEq

/-- the keyword whose value is the next word -/
inductive GoKey | wtime | btime | winc | binc | depth | movetime
deriving Repr, DecidableEq

def GoArgs.set (a : GoArgs) (k : GoKey) (v : Option (List Char)) : GoArgs :=
  match k with
  | .wtime => { a with wtime := v.bind parseU64 }
  | .btime => { a with btime := v.bind parseU64 }
  | .winc => { a with winc := v.bind parseU64 }
  | .binc => { a with binc := v.bind parseU64 }
  | .depth => { a with depth := v.bind parseU8 }
  | .movetime => { a with movetime := v.bind parseU64 }

def goKey? (t : List Char) : Option GoKey :=
  if t = "wtime".toList then some .wtime
  else if t = "btime".toList then some .btime
  else if t = "winc".toList then some .winc
  else if t = "binc".toList then some .binc
  else if t = "depth".toList then some .depth
  else if t = "movetime".toList then some .movetime
  else none

/-- one word of the loop: `pending` is the keyword read just before -/
def goStep (s : GoArgs × Option GoKey) (t : List Char) : GoArgs × Option GoKey :=
  match s.2 with
  | some k => (s.1.set k (some t), none)
  | none =>
    match goKey? t with
    | some k => (s.1.set k none, some k)       -- `terms.next()` may still fail: the field is reset now
    | none => if t = "infinite".toList then ({ s.1 with infinite := true }, none) else s

/-- the whole loop over the words after `go` -/
def goArgs (terms : List (List Char)) : GoArgs := (terms.foldl goStep ({}, none)).1

/-- the time `command_go` allots for the words after `go` -/
def goBudget (terms : List (List Char)) (side : Player) (share : Nat → Nat) : Option Nat :=
  let a := goArgs terms
  budget a.wtime a.btime a.winc a.binc a.movetime a.infinite side share

/-- the depth limit `command_go` hands to the search (`limit` of `get_best_move_until_stop`) -/
def goLimit (terms : List (List Char)) : Nat :=
  min (max ((goArgs terms).depth.getD Search.maxDepth) 1) Search.maxDepth

end Chess.Uci
