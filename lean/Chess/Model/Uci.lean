import Chess.Model.Search

/-!
# UCI layer: `command_position`, the `go` time budget, and the chess instance of the search interface
(mirrors `uci.rs` and the call sites in `search.rs`)
-/
namespace Chess.Uci

def startFen : List Char := "rnbqkbnr/pppppppp/8/8/8/8/PPPPPPPP/RNBQKBNR w KQkq - 0 1".toList

def defaultGame : Option Game :=
  match Game.ofFen startFen with
  | .ok g => some g
  | _ => none

/-- the `moves` loop of `command_position`: `(no error, game afterwards)` -/
def playMoves : Game → List (List Char) → Bool × Option Game
  | g, [] => (true, some g)
  | g, s :: rest =>
    match Move.fromUci s g with
    | none => (false, none)
    | some m =>
      let (allowed, g) := g.getMoves true
      if allowed.contains m then
        let g := g.pushHistory m
        if g.len ≥ Gen.lenGuard then (false, none) else playMoves g rest
      else (false, some g)

def takeUntilMoves : List (List Char) → List (List Char) × Bool × List (List Char)
  | [] => ([], false, [])
  | t :: ts =>
    if t = "moves".toList then ([], true, ts)
    else let (a, b, c) := takeUntilMoves ts; (t :: a, b, c)

/-- `command_position`: the terms after the word `position`; `(no error, current game afterwards)` -/
def commandPosition (cur : Option Game) (terms : List (List Char)) : Bool × Option Game :=
  match terms with
  | [] => (false, cur)
  | t :: rest =>
    if t = "startpos".toList then
      match defaultGame with
      | none => (false, none)
      | some g =>
        match rest with
        | [] => (true, some g)
        | t2 :: rest2 => if t2 = "moves".toList then playMoves g rest2 else (true, some g)
    else if t = "fen".toList then
      let (fenTerms, addMoves, after) := takeUntilMoves rest
      let fen := fenTerms.flatMap (fun x => x ++ [' '])
      match Game.ofFen fen with
      | .ok g => if addMoves then playMoves g after else (true, some g)
      | _ => (false, none)
    else (false, cur)

def u64Max : Nat := 2 ^ 64 - 1
def satAdd (a b : Nat) : Nat := min (a + b) u64Max

/-- the time the engine allots itself in `command_go`, in milliseconds: `none` = no timer.
Arguments are the parsed `wtime btime winc binc movetime infinite`; `share w` stands for
`(w as f64 * FRACTION_OF_TOTAL_TIME) as u64`. -/
def budget (wtime btime winc binc movetime : Option Nat) (infinite : Bool) (side : Player)
    (share : Nat → Nat) : Option Nat :=
  let clock : Option Nat :=
    match wtime, btime, winc, binc with
    | some wt, some bt, some wi, some bi =>
      let white := min (satAdd (share wt) wi - Gen.latencyMs) (wt - Gen.latencyMs)
      let black := min (satAdd (share bt) bi - Gen.latencyMs) (bt - Gen.latencyMs)
      some (match side with | .white => white | .black => black)
    | _, _, _, _ => none
  let time := match movetime with
    | some mt => some mt
    | none => clock
  match time with
  | some t => if infinite then none else some (t - Gen.sleepCutMs)
  | none => none

/-- `move_score` for a move that is neither the table move nor the killer -/
def orderKey (m : Move) (hist : Nat → Nat) : Nat :=
  match m with
  | .promotion _ t _ _ _ => 9 - t.materialValue + 2
  | .enPassant .. => 12
  | .castlingLong _ => 100000
  | .castlingShort _ => 100000
  | .normal pc _ _ cap =>
    match cap with
    | some c => 1000 + pc.materialValue - c.materialValue
    | none => 10000000 - hist ((m.indexHistory).getD 0)

def listGet? {α : Type} (l : List α) (i : Nat) : Option α := l[i]?

/-- the chess instance of the search interface -/
def chessOps : Search.Ops Game Move where
  checked g := (g.getMoves true).1
  unchecked g := (g.getMoves false).1
  push := Game.push
  eval g := g.score * g.player.sign
  safe g := g.kingExists g.player && !g.isTargeted (g.kingPos g.player) g.player
  hash g := g.hash
  tactical := Move.isTactical
  histIdx := Move.indexHistory
  orderKey := orderKey
  repetition g :=
    match listGet? g.moveStack 0, listGet? g.moveStack 4, listGet? g.moveStack 3 with
    | some a, some b, some c => if a = b then some c else none
    | _, _, _ => none

end Chess.Uci
