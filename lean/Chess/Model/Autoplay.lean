import Chess.Model.SearchF
import Chess.Model.Uci

/-!
# The self-play loop (`autoplay.rs`)

```rust
loop {
    … a timer thread clears the flag after `millis` …
    let next_move = match get_best_move_until_stop(&game, &mut cache, &search_is_running, None) {
        Some(_move) => _move, None => break };
    game.push_history(next_move);
    if game.len() >= 400 { break; }
}
```
One table for the whole game, one fresh flag per move; where the timer cuts the search is the
oracle `runs` of that round (any function: every schedule).
-/
namespace Chess.Auto

structure AState where
  g : Game
  tt : Search.Table Move

/-- one round: `none` = the loop is left -/
def step (runs : Nat → Bool) (s : AState) : Option AState :=
  let out := Search.driverF Uci.chessOps runs s.g s.tt false none
  match out.found with
  | none => none
  | some m =>
    let g' := s.g.pushHistory m
    if g'.len ≥ Gen.autoLenGuard then none else some ⟨g', out.st.tt⟩

/-- the games searched, one flag oracle per round (the loop may end earlier) -/
def run : List (Nat → Bool) → AState → List Game
  | [], s => [s.g]
  | r :: rs, s => s.g :: (match step r s with
      | none => []
      | some s' => run rs s')

end Chess.Auto
