/-!
# The session layer of `uci.rs` as a labelled transition system

Three kinds of threads: the main (stdin) loop `uci_talk`, one search thread per accepted `go`,
zero or one timer thread per accepted `go`.  Every shared-memory action of the code (atomic load /
store of a `search_is_running` cell, mutex acquire / release, thread spawn, join, `println!`) is one
atomic step of the model, in program order.  Actions that touch only thread-local state (parsing,
reading the local `search_thread` variable, `Arc::new`) are merged into the neighbouring shared action.
See `SessionNotes.md` for the step ↔ source-line table.

Slots: every `go` that is not refused with "search is still running" allocates a new
`Arc<AtomicBool>`; slot `k` is the `k`-th allocation (slot `0` is the cell allocated before the
loop).  `cur` is the slot the main loop's variable `search_is_running` refers to.  A search thread and
a timer thread are identified by the slot they hold.

Configuration: `buggy := true` reproduces the ORIGINAL order of two pairs of actions (timer spawned
before the flag is raised; `bestmove` printed before the flag is cleared).  `reap := true` is a
PROPOSED further repair (join the outstanding search thread before `position` / `show` / `go` /
`ucinewgame` take the mutex), which is not in `uci.rs`; it is here so that `no_panic` can be shown to
hold with it and to fail without it.
-/
namespace Chess.Session

structure Cfg where
  buggy : Bool
  reap : Bool
deriving DecidableEq, Repr

/-- the code as it is in `uci.rs` now -/
def fixed : Cfg := ⟨false, false⟩
/-- the code as it was: timer before raise, print before clear -/
def original : Cfg := ⟨true, false⟩
/-- `uci.rs` plus the proposed join-before-lock repair -/
def repaired : Cfg := ⟨false, true⟩

/-- what of the arguments of `go` matters to the session layer -/
structure GoArgs where
  /-- `time.is_some() && !infinite`: a timer thread is spawned -/
  timed : Bool
  /-- the search can return by itself (depth limit, mate, only move, `MAX_DEPTH`) -/
  finite : Bool
deriving DecidableEq, Repr

/-- one stdin line, abstracted.  `position ok keep`: `command_position` succeeds (`ok`), or fails
leaving `current_game` as some game (`keep`) or as `None` (`!keep`). -/
inductive Cmd where
  | uci | isready | ucinewgame
  | position (ok keep : Bool)
  | go (g : GoArgs)
  | show | stop | wait | quit | other
deriving DecidableEq, Repr

/-- one output line, abstracted.  `refused` = "error: search is still running…", `error` = any other
`error:` line, `bestmove k` = the `bestmove` line of the search thread of slot `k`. -/
inductive Out where
  | uciok | readyok | bestmove (k : Nat) | infoTime | refused | error | shown
deriving DecidableEq, Repr

inductive Owner where
  | main | search (k : Nat)
deriving DecidableEq, Repr

/-- program counter of a search thread -/
inductive Th where
  | none          -- no search thread was spawned for this slot (yet)
  | notStarted    -- spawned, about to `data_mutex.lock()`
  | searching     -- holds the mutex, inside `get_best_move_until_stop`
  | returned      -- the search returned
  | cleared       -- `store(false)` done, `bestmove` not yet printed
  | printedEarly  -- (`buggy` only) `bestmove` printed, flag not yet cleared
  | printed       -- flag cleared and `bestmove` printed; about to `*current_game = None` and unlock
  | done          -- closure returned, mutex released
  | panicked      -- an `unwrap()` in the closure fired
deriving DecidableEq, Repr

inductive Tm where
  | none | sleeping | fired
deriving DecidableEq, Repr

/-- a command that has read the flag as `false` and goes on (used by the `reap` repair) -/
inductive Pending where
  | ng | pos (ok keep : Bool) | show | go (g : GoArgs)
deriving DecidableEq, Repr

/-- program counter of the main loop -/
inductive MainPc where
  | idle
  | reapJoin (p : Pending)
  | ngStore | ngJoin | ngLock | ngHold
  | posLock (ok keep : Bool) | posHold (ok keep : Bool)
  | showLock | showHold
  | goLock (g : GoArgs) | goHold (g : GoArgs) | goErr
  | goRaise (g : GoArgs) | goInfo (g : GoArgs) | goSpawnTimer (g : GoArgs) | goSpawnSearch (g : GoArgs)
  | goUnlock | goSetHandle
  | stopJoin
  | waitJoin | waitStore
  | exited | exitedErr | panicked
deriving DecidableEq, Repr

structure State where
  /-- stdin lines not yet read -/
  input : List Cmd
  pc : MainPc
  /-- slot the main loop's `search_is_running` refers to -/
  cur : Nat
  /-- the `AtomicBool` of each slot (sequentially consistent) -/
  flag : Nat → Bool
  th : Nat → Th
  /-- the search of this slot can return by itself -/
  fin : Nat → Bool
  timer : Nat → Tm
  /-- the main loop's `search_thread`: the slot whose search thread the `JoinHandle` refers to -/
  handle : Option Nat
  mutex : Option Owner
  poisoned : Bool
  /-- `current_game.is_some()` -/
  game : Bool
  /-- output trace, OLDEST FIRST -/
  out : List Out

/-- function update -/
def upd {α : Type} (f : Nat → α) (k : Nat) (a : α) : Nat → α := fun j => if j = k then a else f j

@[simp] theorem upd_apply {α : Type} (f : Nat → α) (k : Nat) (a : α) (j : Nat) :
    upd f k a j = if j = k then a else f j := rfl

def init (cmds : List Cmd) : State where
  input := cmds
  pc := .idle
  cur := 0
  flag := fun _ => false
  th := fun _ => .none
  fin := fun _ => false
  timer := fun _ => .none
  handle := none
  mutex := none
  poisoned := false
  game := false
  out := []

namespace State

def emit (s : State) (o : Out) : State := { s with out := s.out ++ [o] }

/-- the process is still there -/
def running (s : State) : Bool :=
  match s.pc with
  | .exited | .exitedErr | .panicked => false
  | _ => true

end State

/-- a command that saw the flag `false` goes on to its lock; `go` first allocates the new cell -/
def proceed (s : State) : Pending → State
  | .ng => { s with pc := .ngLock }
  | .pos ok keep => { s with pc := .posLock ok keep }
  | .show => { s with pc := .showLock }
  | .go g => { s with pc := .goLock g, cur := s.cur + 1, flag := upd s.flag (s.cur + 1) false }

def startOrReap (cfg : Cfg) (s : State) (p : Pending) : State :=
  if cfg.reap && s.handle.isSome then { s with pc := .reapJoin p } else proceed s p

/-- `thread.join().unwrap(); search_thread = None`, then continue as `k`.
Enabled only when the joined thread has ended. -/
def joinStep (s : State) (k : State → State) : Option State :=
  match s.handle with
  | none => some (k s)
  | some j =>
    match s.th j with
    | .done => some (k { s with handle := none })
    | .panicked => some { s with pc := .panicked }
    | _ => none

/-- `data.lock().unwrap()` in the main loop.  Enabled only when the mutex is free. -/
def lockStep (s : State) (pc' : MainPc) : Option State :=
  if s.poisoned then some { s with pc := .panicked }
  else match s.mutex with
    | none => some { s with mutex := some .main, pc := pc' }
    | some _ => none

/-- the main loop reads one line and performs the first shared action of the command -/
def idleStep (cfg : Cfg) (s : State) : Option State :=
  match s.input with
  | [] => some { s with pc := .exited }
  | c :: rest =>
    let s := { s with input := rest }
    match c with
    | .uci => some (s.emit .uciok)
    | .isready => some (s.emit .readyok)
    | .other => some s
    | .quit => some { s with pc := .exited }
    | .ucinewgame =>
      if s.flag s.cur then
        match s.handle with
        | none => some { s with pc := .exitedErr }
        | some _ => some { s with pc := .ngStore }
      else some (startOrReap cfg s .ng)
    | .position ok keep =>
      if s.flag s.cur then some (s.emit .refused) else some (startOrReap cfg s (.pos ok keep))
    | .show =>
      if s.flag s.cur then some (s.emit .refused) else some (startOrReap cfg s .show)
    | .go g =>
      if s.flag s.cur then some (s.emit .refused) else some (startOrReap cfg s (.go g))
    | .stop => some { s with flag := upd s.flag s.cur false, pc := .stopJoin }
    | .wait =>
      match s.handle with
      | none => some s
      | some _ => some { s with pc := .waitJoin }

/-- one step of the main loop -/
def mainStep (cfg : Cfg) (s : State) : Option State :=
  match s.pc with
  | .idle => idleStep cfg s
  | .reapJoin p => joinStep s (fun s => proceed s p)
  | .ngStore => some { s with flag := upd s.flag s.cur false, pc := .ngJoin }
  | .ngJoin => joinStep s (fun s => { s with pc := .ngLock })
  | .ngLock => lockStep s .ngHold
  | .ngHold => some { s with game := false, mutex := none, pc := .idle }
  | .posLock ok keep => lockStep s (.posHold ok keep)
  | .posHold ok keep =>
    let s := { s with game := ok || (keep && s.game), mutex := none, pc := .idle }
    some (if ok then s else s.emit .error)
  | .showLock => lockStep s .showHold
  | .showHold =>
    some ({ s with mutex := none, pc := .idle }.emit (if s.game then .shown else .error))
  | .goLock g => lockStep s (.goHold g)
  | .goHold g =>
    if s.game then
      some { s with pc := if cfg.buggy && g.timed then .goInfo g else .goRaise g }
    else some { s with mutex := none, pc := .goErr }
  | .goErr => some ({ s with pc := .idle }.emit .error)
  | .goRaise g =>
    some { s with flag := upd s.flag s.cur true,
                  pc := if !cfg.buggy && g.timed then .goInfo g else .goSpawnSearch g }
  | .goInfo g => some ({ s with pc := .goSpawnTimer g }.emit .infoTime)
  | .goSpawnTimer g =>
    some { s with timer := upd s.timer s.cur .sleeping,
                  pc := if cfg.buggy then .goRaise g else .goSpawnSearch g }
  | .goSpawnSearch g =>
    some { s with th := upd s.th s.cur .notStarted, fin := upd s.fin s.cur g.finite, pc := .goUnlock }
  | .goUnlock => some { s with mutex := none, pc := .goSetHandle }
  | .goSetHandle => some { s with handle := some s.cur, pc := .idle }
  | .stopJoin => joinStep s (fun s => { s with pc := .idle })
  | .waitJoin => joinStep s (fun s => { s with pc := .waitStore })
  | .waitStore => some { s with flag := upd s.flag s.cur false, pc := .idle }
  | .exited | .exitedErr | .panicked => none

/-- the next action of the search thread of slot `k` (a poll that reads `true` changes nothing and
is not a step) -/
def searchStep (cfg : Cfg) (s : State) (k : Nat) : Option State :=
  match s.th k with
  | .notStarted =>
    if s.poisoned then some { s with th := upd s.th k .panicked }
    else match s.mutex with
      | none =>
        if s.game then some { s with mutex := some (.search k), th := upd s.th k .searching }
        else some { s with poisoned := true, th := upd s.th k .panicked }
      | some _ => none
  | .searching => if s.flag k then none else some { s with th := upd s.th k .returned }
  | .returned =>
    if cfg.buggy then some ({ s with th := upd s.th k .printedEarly }.emit (.bestmove k))
    else some { s with flag := upd s.flag k false, th := upd s.th k .cleared }
  | .cleared => some ({ s with th := upd s.th k .printed }.emit (.bestmove k))
  | .printedEarly => some { s with flag := upd s.flag k false, th := upd s.th k .printed }
  | .printed => some { s with game := false, mutex := none, th := upd s.th k .done }
  | .none | .done | .panicked => none

/-- the search of slot `k` returns by itself -/
def finishStep (s : State) (k : Nat) : Option State :=
  match s.th k with
  | .searching => if s.fin k then some { s with th := upd s.th k .returned } else none
  | _ => none

/-- the timer of slot `k` wakes up -/
def fireStep (s : State) (k : Nat) : Option State :=
  match s.timer k with
  | .sleeping => some { s with flag := upd s.flag k false, timer := upd s.timer k .fired }
  | _ => none

/-- who moves; a schedule is a list of labels -/
inductive Label where
  | main
  | search (k : Nat)
  | finish (k : Nat)
  | fire (k : Nat)
deriving DecidableEq, Repr

def next (cfg : Cfg) (s : State) : Label → Option State
  | .main => mainStep cfg s
  | .search k => if s.running then searchStep cfg s k else none
  | .finish k => if s.running then finishStep s k else none
  | .fire k => if s.running then fireStep s k else none

def Step (cfg : Cfg) (s t : State) : Prop := ∃ l, next cfg s l = some t

inductive Reachable (cfg : Cfg) : State → Prop where
  | init (cmds : List Cmd) : Reachable cfg (init cmds)
  | step {s t : State} (l : Label) : Reachable cfg s → next cfg s l = some t → Reachable cfg t

/-- run a schedule -/
def run (cfg : Cfg) (s : State) : List Label → Option State
  | [] => some s
  | l :: ls => match next cfg s l with
    | none => none
    | some t => run cfg t ls

/-- all labels that can possibly be enabled -/
def labels (s : State) : List Label :=
  .main :: (List.range (s.cur + 1)).flatMap (fun k => [.search k, .finish k, .fire k])

/-- executable enumerator of the successor states -/
def steps (cfg : Cfg) (s : State) : List (Label × State) :=
  (labels s).filterMap (fun l => (next cfg s l).map (fun t => (l, t)))

end Chess.Session
