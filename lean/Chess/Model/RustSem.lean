/-!
# Meaning of the Rust operators that Lean lacks (hand-written; used by `Chess/Gen/Fns.lean`)

`tools/translate.py` mirrors the expression tree of the small pure functions of `/repo/src`
into Lean. Whatever coincides with a core Lean operator is emitted as that operator; the rest
is defined here, once, by hand. Decisions (all of them are the meaning in the SHIPPED profile,
i.e. `--release`: no overflow checks, no debug assertions):

* `+ - *` on `u8 i8 u16 i16 u32 i32 u64 i64` WRAP. Lean's `+ - *` on `UInt8 … Int64` wrap in
  the same way (two's complement), so the translator emits them unchanged. In a build with
  `overflow-checks` the same expression panics instead; the equivalence theorems state range
  hypotheses under which no wrap happens wherever the hand-written model uses unbounded `Int`.
* `& | ^ !` are `&&& ||| ^^^ ~~~`.
* `a << n`, `a >> n`: the translator accepts only a literal `n` with `n < bits` (rustc rejects a
  larger literal) and emits Lean's `<<<`/`>>>` with the amount in the operand's type; in that range
  the two agree. `>>` on a signed type is arithmetic in both.
* `usize` is `Nat` with the operations reduced modulo 2^64 (`Usize.add` …): a 64-bit target.
* `e as T` between integer types is two's-complement conversion: `T.ofInt (toInt e)`, one
  definition (`cast`) for every pair of types. A field-less `enum` converts through its
  discriminant (`<Enum>.discr`, generated from the declaration).
* `(a..b).contains(&x)` is `a <= x && x < b` (the definition in `core::ops::Range`).
* `Option::is_some_and`, `Option::unwrap`, `[T]::get_unchecked`, `a[i]`: `unwrap` of `None` and an
  index out of bounds are panics (or undefined behaviour for `get_unchecked`) in Rust; here they
  return `default`. Theorems that go through them carry the hypotheses that make the case
  unreachable. `Cell<T>`, `&T` and `*e` are erased.
* `debug_assert!` is a no-op (release). `assert!(c); rest` is `RustSem.assert c rest`: the panic of a failed
  assertion is `default` here, and the theorems about such a function state the condition.
* `char` is Lean's `Char` (a Unicode scalar value in both), `&'static str` is `String`. The ASCII
  predicates and case conversions of `char` are defined below from their `core` definitions
  (`'a'..='z'`, `'A'..='Z'`, `'0'..='9'`; a case conversion moves an ASCII letter by 32 and leaves every
  other `char` as it is). `b as char` for `b : u8` is the scalar value `b`; `c as <int>` is the scalar
  value of `c` reduced into the integer type.
* A `const` table of another module that is computed at compile time from a binary file
  (`zobrist::STATE`, `zobrist::PIECE`) is a PARAMETER of every generated function that reads it (and of
  its callers), with the Rust array type as `Array …`; the theorems instantiate it.
-/
namespace Chess.RustSem

/-- a Rust primitive integer type: its value in ℤ, and the wrapping conversion back -/
class RInt (α : Type) where
  toInt : α → Int
  ofInt : Int → α

instance : RInt UInt8 := ⟨fun x => x.toNat, UInt8.ofInt⟩
instance : RInt UInt16 := ⟨fun x => x.toNat, UInt16.ofInt⟩
instance : RInt UInt32 := ⟨fun x => x.toNat, UInt32.ofInt⟩
instance : RInt UInt64 := ⟨fun x => x.toNat, UInt64.ofInt⟩
instance : RInt Int8 := ⟨Int8.toInt, Int8.ofInt⟩
instance : RInt Int16 := ⟨Int16.toInt, Int16.ofInt⟩
instance : RInt Int32 := ⟨Int32.toInt, Int32.ofInt⟩
instance : RInt Int64 := ⟨Int64.toInt, Int64.ofInt⟩
/-- discriminants of field-less enums -/
instance : RInt Int := ⟨id, id⟩

/-- `usize` on a 64-bit target -/
abbrev Usize := Nat
def usizeModulus : Nat := 18446744073709551616
namespace Usize
def ofInt (i : Int) : Usize := (i % (usizeModulus : Int)).toNat
def add (a b : Usize) : Usize := (a + b) % usizeModulus
def sub (a b : Usize) : Usize := (a + (usizeModulus - b % usizeModulus)) % usizeModulus
def mul (a b : Usize) : Usize := (a * b) % usizeModulus
end Usize
instance : RInt Usize := ⟨fun x => (x : Int), Usize.ofInt⟩

/-- `e as T` between integer types -/
def cast {α β : Type} [RInt α] [RInt β] (a : α) : β := RInt.ofInt (RInt.toInt a)

/-- `(lo..hi).contains(&x)` -/
def rangeContains {α : Type} [LE α] [LT α] [DecidableLE α] [DecidableLT α] (lo hi x : α) : Bool :=
  decide (lo ≤ x) && decide (x < hi)
/-- `(lo..=hi).contains(&x)` -/
def rangeInclContains {α : Type} [LE α] [DecidableLE α] (lo hi x : α) : Bool :=
  decide (lo ≤ x) && decide (x ≤ hi)

/-- `Option::is_some_and` -/
def isSomeAnd {α : Type} (o : Option α) (f : α → Bool) : Bool :=
  match o with
  | some a => f a
  | none => false
/-- `Option::is_none_or` -/
def isNoneOr {α : Type} (o : Option α) (f : α → Bool) : Bool :=
  match o with
  | some a => f a
  | none => true
/-- `Option::unwrap`; `None` is a panic in Rust, `default` here -/
def unwrap {α : Type} [Inhabited α] (o : Option α) : α :=
  match o with
  | some a => a
  | none => default
/-- `assert!(c); v`: a failed assertion is a panic in Rust (every profile), `default` here -/
def assert {α : Type} [Inhabited α] (c : Bool) (v : α) : α := if c then v else default
/-- `a[i]`, `*a.get_unchecked(i)`; out of bounds is a panic / undefined in Rust, `default` here -/
def index {α : Type} [Inhabited α] (a : Array α) (i : Usize) : α := a.getD i default

/-- `char::is_ascii_lowercase` (`matches!(c, 'a'..='z')`) -/
def isAsciiLowercase (c : Char) : Bool := decide (97 ≤ c.toNat) && decide (c.toNat ≤ 122)
/-- `char::is_ascii_uppercase` (`matches!(c, 'A'..='Z')`) -/
def isAsciiUppercase (c : Char) : Bool := decide (65 ≤ c.toNat) && decide (c.toNat ≤ 90)
/-- `char::is_ascii_digit` (`matches!(c, '0'..='9')`) -/
def isAsciiDigit (c : Char) : Bool := decide (48 ≤ c.toNat) && decide (c.toNat ≤ 57)
/-- `char::is_ascii_alphabetic` -/
def isAsciiAlphabetic (c : Char) : Bool := isAsciiLowercase c || isAsciiUppercase c
/-- `char::is_ascii` -/
def isAscii (c : Char) : Bool := decide (c.toNat ≤ 127)
/-- `char::to_ascii_uppercase`: an ASCII lowercase letter loses bit 5 (`- 32`), any other `char` is unchanged -/
def toAsciiUppercase (c : Char) : Char := if isAsciiLowercase c then Char.ofNat (c.toNat - 32) else c
/-- `char::to_ascii_lowercase`: an ASCII uppercase letter gains bit 5 (`+ 32`), any other `char` is unchanged -/
def toAsciiLowercase (c : Char) : Char := if isAsciiUppercase c then Char.ofNat (c.toNat + 32) else c
/-- `b as char` for `b : u8` -/
def u8ToChar (b : UInt8) : Char := Char.ofNat b.toNat
/-- `c as T` for `c : char` and an integer type `T` -/
def charCast {β : Type} [RInt β] (c : Char) : β := RInt.ofInt (c.toNat : Int)

instance : Inhabited Int8 := ⟨0⟩
instance : Inhabited Int16 := ⟨0⟩
instance : Inhabited Int32 := ⟨0⟩
instance : Inhabited Int64 := ⟨0⟩

end Chess.RustSem
