import Chess.Model.Game

/-!
# Text: FEN reader and writer, UCI move text, PGN record, board display
(mirrors `Game::new`, `Game::fen`, `Display for Game`, `get_pgn`, and `move_struct.rs`)

One text representation everywhere: `List Char`.
-/
namespace Chess

/-- `str::split_ascii_whitespace` -/
def isAsciiWs (c : Char) : Bool :=
  c = ' ' || c = '\t' || c = '\n' || c = '\x0C' || c = '\r'

def splitWsAux : List Char → List Char → List (List Char) → List (List Char)
  | [], cur, acc => (if cur.isEmpty then acc else cur.reverse :: acc).reverse
  | c :: cs, cur, acc =>
    if isAsciiWs c then splitWsAux cs [] (if cur.isEmpty then acc else cur.reverse :: acc)
    else splitWsAux cs (c :: cur) acc

def splitWs (s : List Char) : List (List Char) := splitWsAux s [] []

def natToChars (n : Nat) : List Char := (toString n).toList

def listIdx? {α : Type} : List α → Nat → Option α
  | [], _ => none
  | a :: _, 0 => some a
  | _ :: as, n + 1 => listIdx? as n

namespace Piece
def typeLetter (t : PieceType) : Char := (listIdx? Gen.asciiLetters t.toNat).getD '?'
/-- `Piece::as_char_ascii` -/
def asCharAscii (pc : Piece) : Char :=
  let c := typeLetter pc.pieceType
  match pc.owner with
  | .white => c
  | .black => c.toLower
/-- `Piece::from_char_ascii` -/
def fromCharAscii (c : Char) : Option Piece :=
  let owner := if c.isLower then Player.black else Player.white
  let up := c.toUpper
  let rec find : List Char → Nat → Option PieceType
    | [], _ => none
    | l :: ls, i => if l = up then PieceType.ofNat? i else find ls (i + 1)
  (find Gen.fromLetters 0).map (fun t => ⟨t, owner⟩)
/-- `Piece::as_str_pgn` -/
def asStrPgn (pc : Piece) : List Char := ((listIdx? Gen.pgnLetters pc.pieceType.toNat).getD "?").toList
/-- `Piece::as_char` -/
def asGlyph (pc : Piece) : Char :=
  match pc.owner with
  | .white => (listIdx? Gen.glyphsWhite pc.pieceType.toNat).getD '?'
  | .black => (listIdx? Gen.glyphsBlack pc.pieceType.toNat).getD '?'
end Piece

/-! ## FEN reader -/

/-- what `Game::new` can do with a string -/
inductive FenResult where
  | ok (g : Game)
  | refused (why : String)
  | fault (why : String)

/-- state of the placement scanner -/
structure Scan where
  board : Vector (Option Piece) 64
  pastScores : Vector Int 64
  pastHashes : Vector UInt64 64
  hash : UInt64
  score : Int
  row : Int
  col : Int
  wking : Option Pos
  bking : Option Pos

def Scan.init : Scan :=
  { board := Vector.replicate 64 none, pastScores := Vector.replicate 64 0,
    pastHashes := Vector.replicate 64 0, hash := 0, score := 0, row := 7, col := 0,
    wking := none, bking := none }

def Scan.putEmpty (s : Scan) : Nat → Scan
  | 0 => s
  | n + 1 =>
    let p : Pos := ⟨s.row, s.col⟩
    let i := p.idx
    if h : i < 64 then
      Scan.putEmpty { s with pastHashes := s.pastHashes.set i Gen.emptyPlace,
                              hash := s.hash ^^^ Gen.emptyPlace, col := s.col + 1 } n
    else s

/-- one character of the placement field; `none` = refused -/
def Scan.step (s : Scan) (c : Char) : Except String Scan :=
  if c = '/' then
    if s.row = 0 then .error "Too many rows"
    else if s.col ≠ 8 then .error "Invalid row length"
    else .ok { s with col := 0, row := s.row - 1 }
  else if c.isAlpha then
    if s.col ≥ 8 then .error "Too many columns"
    else match Piece.fromCharAscii c with
      | none => .error "Invalid piece"
      | some pc =>
        let p : Pos := ⟨s.row, s.col⟩
        let i := p.idx
        if h : i < 64 then
          let sc := pc.score p false
          let hs := pc.hash p
          let s := if pc.pieceType = .king then
              (match pc.owner with
               | .white => { s with wking := some p }
               | .black => { s with bking := some p })
            else s
          .ok { s with board := s.board.set i (some pc), pastScores := s.pastScores.set i sc,
                       score := s.score + sc, pastHashes := s.pastHashes.set i hs,
                       hash := s.hash ^^^ hs, col := s.col + 1 }
        else .error "unreachable"
  else if c.isDigit then
    let count : Int := c.toNat - '0'.toNat
    if count < 1 || count > 8 - s.col then .error "Invalid empty count"
    else .ok (s.putEmpty count.toNat)
  else .error "Unknown character met"

def Scan.run (s : Scan) : List Char → Except String Scan
  | [] => .ok s
  | c :: cs => match s.step c with
    | .error e => .error e
    | .ok s' => Scan.run s' cs

def parseCastling (s : GState) : List Char → Except String GState
  | [] => .ok s
  | c :: cs =>
    if c = 'K' then parseCastling s.setWk cs
    else if c = 'Q' then parseCastling s.setWq cs
    else if c = 'k' then parseCastling s.setBk cs
    else if c = 'q' then parseCastling s.setBq cs
    else if c = '-' then parseCastling s cs
    else .error "Invalid castling right"

def countPieces (b : Vector (Option Piece) 64) (pl : Player) (t : PieceType) : Nat :=
  (b.toList.filter (fun o => o = some ⟨t, pl⟩)).length

/-- the reader's material check for one side: exactly one king, at most eight pawns, and
promoted pieces covered by missing pawns -/
def materialOkSide (b : Vector (Option Piece) 64) (pl : Player) : Bool :=
  let n := countPieces b pl
  let extra := (n .queen - 1) + (n .rook - 2) + (n .bishop - 2) + (n .knight - 2)
  n .king = 1 && n .pawn + extra ≤ 8

def pawnOnEdge (b : Vector (Option Piece) 64) : Bool :=
  (List.range 8).any (fun c =>
    (match b[c]? with | some (some pc) => pc.pieceType = .pawn | _ => false)
    || (match b[56 + c]? with | some (some pc) => pc.pieceType = .pawn | _ => false))

/-- what stands on `(row, col)` of a scanned board -/
def boardAt (b : Vector (Option Piece) 64) (row col : Int) : Option Piece :=
  b.toArray.getD (row * 8 + col).toNat none

/-- every castling right of the state byte has its king and rook on their home squares -/
def rightsMatchBoard (b : Vector (Option Piece) 64) (st : GState) : Bool :=
  (!st.wk || (boardAt b 0 4 = some ⟨.king, .white⟩ && boardAt b 0 7 = some ⟨.rook, .white⟩))
  && (!st.wq || (boardAt b 0 4 = some ⟨.king, .white⟩ && boardAt b 0 0 = some ⟨.rook, .white⟩))
  && (!st.bk || (boardAt b 7 4 = some ⟨.king, .black⟩ && boardAt b 7 7 = some ⟨.rook, .black⟩))
  && (!st.bq || (boardAt b 7 4 = some ⟨.king, .black⟩ && boardAt b 7 0 = some ⟨.rook, .black⟩))

/-- an en-passant file is backed by the enemy pawn that has just made its double step, with the
two squares behind it empty -/
def epMatchesBoard (b : Vector (Option Piece) 64) (st : GState) (player : Player) : Bool :=
  let ep := st.enPassant
  if ep < 8 then
    match player with
    | .white => boardAt b 4 ep = some ⟨.pawn, .black⟩ && (boardAt b 5 ep).isNone && (boardAt b 6 ep).isNone
    | .black => boardAt b 3 ep = some ⟨.pawn, .white⟩ && (boardAt b 2 ep).isNone && (boardAt b 1 ep).isNone
  else true

/-- `Game::new` -/
def Game.ofFen (fen : List Char) : FenResult :=
  match splitWs fen with
  | [] => .refused "Missing board"
  | pieces :: rest =>
    match Scan.init.run pieces with
    | .error e => .refused e
    | .ok sc =>
      if sc.row ≠ 0 || sc.col ≠ 8 then .refused "Invalid board size" else
      match rest with
      | [] => .refused "Missing player"
      | side :: rest =>
        match (if side = ['w'] then some Player.white else if side = ['b'] then some Player.black else none) with
        | none => .refused "Invalid player"
        | some player =>
          let hash := if player = .black then sc.hash ^^^ Gen.blackToMove else sc.hash
          match rest with
          | [] => .refused "Missing castling rights"
          | cast :: rest =>
            match parseCastling GState.default cast with
            | .error e => .refused e
            | .ok st =>
              match rest with
              | [] => .refused "Missing en passant"
              | ep :: _ =>
                let epRank := match player with | .white => '6' | .black => '3'
                let st? : Option GState :=
                  if ep = ['-'] then some st
                  else match ep with
                    | [f, r] =>
                      if 'a'.toNat ≤ f.toNat && f.toNat ≤ 'h'.toNat && r = epRank then
                        some (st.setEnPassant (f.toNat - 'a'.toNat : Nat))
                      else none
                    | _ => none
                match st? with
                | none => .refused "Invalid en passant square"
                | some st =>
                  match sc.wking, sc.bking with
                  | none, _ => .refused "White king not found"
                  | _, none => .refused "Black king not found"
                  | some wk, some bk =>
                    if !(materialOkSide sc.board .white && materialOkSide sc.board .black)
                        || pawnOnEdge sc.board then
                      .refused "Impossible material"
                    else if !rightsMatchBoard sc.board st then
                      .refused "Castling rights do not match the board"
                    else if !epMatchesBoard sc.board st player then
                      .refused "En passant square does not match the board"
                    else
                    let g : Game :=
                      { score := sc.score, player := player, moveStack := [], endgame := false,
                        hash := hash ^^^ st.hash, board := sc.board, pastScores := sc.pastScores,
                        pastHashes := sc.pastHashes, wking := wk, bking := bk, state := [st] }
                    .ok g.updatePhase

/-! ## FEN writer -/

def fenRow (g : Game) (row : Int) : List Char :=
  let rec go : List Nat → Nat → List Char
    | [], empty => if empty > 0 then natToChars empty else []
    | c :: cs, empty =>
      match g.get ⟨row, (c : Int)⟩ with
      | none => go cs (empty + 1)
      | some pc => (if empty > 0 then natToChars empty else []) ++ pc.asCharAscii :: go cs 0
  go (List.range 8) 0

def fenBoard (g : Game) : List Char :=
  let rows := [7, 6, 5, 4, 3, 2, 1, 0].map (fun (r : Int) => fenRow g r)
  List.intercalate ['/'] rows

def fenCastling (s : GState) : List Char :=
  let l := (if s.wk then ['K'] else []) ++ (if s.wq then ['Q'] else [])
    ++ (if s.bk then ['k'] else []) ++ (if s.bq then ['q'] else [])
  if l.isEmpty then ['-'] else l

def fenEp (g : Game) : List Char :=
  let ep := g.top.enPassant
  if ep < 8 then
    [Char.ofNat ('a'.toNat + ep.toNat), match g.player with | .white => '6' | .black => '3']
  else ['-']

/-- the first four fields of `Game::fen` -/
def Game.fen4 (g : Game) : List Char :=
  fenBoard g ++ [' ', match g.player with | .white => 'w' | .black => 'b', ' ']
    ++ fenCastling g.top ++ [' '] ++ fenEp g

/-- `Game::fen` -/
def Game.fen (g : Game) : List Char :=
  g.fen4 ++ [' ', '0', ' '] ++ natToChars (g.moveStack.length / 2 + 1)

/-! ## Move text -/

def fileChar (c : Int) : Char := Char.ofNat ('a'.toNat + c.toNat)
def rankChar (r : Int) : Char := Char.ofNat ('1'.toNat + r.toNat)

/-- `Move::uci_notation` -/
def Move.uci : Move → List Char
  | .normal _ s e _ => [fileChar s.col, rankChar s.row, fileChar e.col, rankChar e.row]
  | .promotion _ t s e _ =>
    [fileChar s.col, rankChar s.row, fileChar e.col, rankChar e.row,
      (listIdx? Gen.uciPromoLetters t.toNat).getD '?']
  | .castlingShort o => let r := match o with | .white => '1' | .black => '8'; ['e', r, 'g', r]
  | .castlingLong o => let r := match o with | .white => '1' | .black => '8'; ['e', r, 'c', r]
  | .enPassant o sc ec =>
    let (sr, er) := match o with | .white => ('5', '6') | .black => ('4', '3')
    [fileChar sc, sr, fileChar ec, er]

/-- `Move::pgn_notation` -/
def Move.pgn : Move → List Char
  | .normal pc s e cap =>
    pc.asStrPgn ++ [fileChar s.col] ++ (if cap.isSome then ['x'] else [])
      ++ [fileChar e.col] ++ natToChars (e.row + 1).toNat
  | .castlingShort _ => "O-O".toList
  | .castlingLong _ => "O-O-O".toList
  | .enPassant o sc ec => [fileChar sc, 'x', fileChar ec, match o with | .white => '6' | .black => '3']
  | .promotion _ t s e cap =>
    [fileChar s.col] ++ (if cap.isSome then ['x'] else []) ++ [fileChar e.col]
      ++ natToChars (e.row + 1).toNat ++ ['=', (listIdx? Gen.pgnPromoLetters t.toNat).getD '?']

/-- `Game::get_pgn` -/
def Game.pgn (g : Game) : List Char :=
  let ms := g.moveStack.reverse
  let rec go : List Move → Nat → List Char
    | [], _ => []
    | m :: rest, i =>
      (if i % 2 = 0 then natToChars (i / 2 + 1) ++ ['.', ' '] else []) ++ m.pgn ++ [' '] ++ go rest (i + 1)
  go ms 0

/-- byte value of a char when the string is ASCII; the parser works on bytes and a non-ASCII
byte (≥ 0x80) can never be a file or rank, so any value ≥ 128 stands for "not ASCII" -/
def byteOf (c : Char) : Int := if c.toNat < 128 then c.toNat else 255

def utf8Len (s : List Char) : Nat := (s.map Char.utf8Size).sum

/-- `Move::from_uci_notation` -/
def Move.fromUci (s : List Char) (g : Game) : Option Move :=
  if s = "e1g1".toList && g.kingPos .white = ⟨0, 4⟩ then some (.castlingShort .white)
  else if s = "e8g8".toList && g.kingPos .black = ⟨7, 4⟩ then some (.castlingShort .black)
  else if s = "e1c1".toList && g.kingPos .white = ⟨0, 4⟩ then some (.castlingLong .white)
  else if s = "e8c8".toList && g.kingPos .black = ⟨7, 4⟩ then some (.castlingLong .black)
  else if utf8Len s > 5 then none
  else match s with
    | c0 :: c1 :: c2 :: c3 :: rest =>
      -- a multi-byte character among the first four makes one of the four bytes ≥ 0x80
      if c0.toNat ≥ 128 || c1.toNat ≥ 128 || c2.toNat ≥ 128 || c3.toNat ≥ 128 then none else
      let startCol := byteOf c0 - 'a'.toNat
      let startRow := byteOf c1 - '1'.toNat
      let endCol := byteOf c2 - 'a'.toNat
      let endRow := byteOf c3 - '1'.toNat
      match Pos.new? startRow startCol, Pos.new? endRow endCol with
      | some start, some stop =>
        match rest with
        | p :: _ =>
          let t? : Option PieceType :=
            if p = 'q' then some .queen else if p = 'r' then some .rook
            else if p = 'n' then some .knight else if p = 'b' then some .bishop else none
          t?.map (fun t => Move.promotion g.player t start stop (g.get stop))
        | [] =>
          match g.get start with
          | some piece =>
            let (epFrom, epTo) : Int × Int := match g.player with | .white => (4, 5) | .black => (3, 2)
            if piece.pieceType = .pawn && (g.get stop).isNone && (start.col - stop.col).natAbs = 1
                && start.row = epFrom && stop.row = epTo then
              some (.enPassant g.player start.col stop.col)
            else some (.normal piece start stop (g.get stop))
          | none => none
      | _, _ => none
    | _ => none

/-! ## `Display for Game` -/

def hexUpper (n : UInt64) : List Char :=
  let rec go (fuel : Nat) (n : Nat) (acc : List Char) : List Char :=
    match fuel with
    | 0 => acc
    | fuel + 1 =>
      let d := n % 16
      let c := if d < 10 then Char.ofNat ('0'.toNat + d) else Char.ofNat ('A'.toNat + d - 10)
      if n / 16 = 0 then c :: acc else go fuel (n / 16) (c :: acc)
  go 16 n.toNat []

def Game.diagram (g : Game) : List Char :=
  let rowText (i : Int) : List Char :=
    natToChars (i + 1).toNat ++ [' '] ++
      (List.range 8).flatMap (fun (c : Nat) => ['|', match g.get ⟨i, (c : Int)⟩ with
        | some pc => pc.asGlyph
        | none => ' ']) ++ ['|', '\n']
  ([7, 6, 5, 4, 3, 2, 1, 0].flatMap rowText) ++ "\n   a b c d e f g h\n".toList

def Game.show (g : Game) : List Char :=
  ['\n'] ++ "Hash: ".toList ++ hexUpper g.hash ++ ['\n'] ++ "Fen: ".toList ++ g.fen ++ ['\n']
    ++ "PGN: ".toList ++ g.pgn ++ ['\n', '\n'] ++ g.diagram

end Chess
