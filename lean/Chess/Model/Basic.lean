import Chess.Gen.Zobrist
import Chess.Gen.Tables

/-!
# Basic types of the model (mirrors `position.rs`, `piece.rs`, `move_struct.rs`, `gamestate.rs`)

Hand-written; import-free apart from the generated tables, so that the driver links.
-/
namespace Chess

inductive Player where
  | white | black
  deriving DecidableEq, Repr, Inhabited

namespace Player
def other : Player → Player
  | white => black
  | black => white
/-- `Player as Score` -/
def sign : Player → Int
  | white => 1
  | black => -1
@[simp] theorem other_other (p : Player) : p.other.other = p := by cases p <;> rfl
@[simp] theorem other_ne (p : Player) : p.other ≠ p := by cases p <;> decide
@[simp] theorem ne_other (p : Player) : p ≠ p.other := by cases p <;> decide
end Player

/-- Declaration order is `PieceType as usize` (checked by the extractor). -/
inductive PieceType where
  | queen | rook | bishop | knight | pawn | king
  deriving DecidableEq, Repr, Inhabited

namespace PieceType
def toNat : PieceType → Nat
  | queen => 0 | rook => 1 | bishop => 2 | knight => 3 | pawn => 4 | king => 5
def ofNat? : Nat → Option PieceType
  | 0 => some queen | 1 => some rook | 2 => some bishop | 3 => some knight
  | 4 => some pawn | 5 => some king | _ => none
def materialValue : PieceType → Nat
  | queen => Gen.matQueen | rook => Gen.matRook | bishop => Gen.matBishop
  | knight => Gen.matKnight | pawn => Gen.matPawn | king => Gen.matKing
end PieceType

structure Piece where
  pieceType : PieceType
  owner : Player
  deriving DecidableEq, Repr, Inhabited

/-- `Position(i8, i8)`; unbounded `Int`, validity is a predicate (C15 proves it where needed). -/
structure Pos where
  row : Int
  col : Int
  deriving DecidableEq, Repr, Inhabited

namespace Pos
def Valid (p : Pos) : Prop := 0 ≤ p.row ∧ p.row < 8 ∧ 0 ≤ p.col ∧ p.col < 8
instance (p : Pos) : Decidable p.Valid := by unfold Valid; infer_instance
def inBoard (r c : Int) : Bool := 0 ≤ r && r < 8 && 0 ≤ c && c < 8
/-- `Position::new` -/
def new? (r c : Int) : Option Pos := if inBoard r c then some ⟨r, c⟩ else none
/-- `Position::add` -/
def add (p : Pos) (d : Int × Int) : Option Pos := new? (p.row + d.1) (p.col + d.2)
/-- `Position::add_unsafe` (no check) -/
def addUnsafe (p : Pos) (d : Int × Int) : Pos := ⟨p.row + d.1, p.col + d.2⟩
/-- `Position::as_usize` -/
def idx (p : Pos) : Nat := (p.row * 8 + p.col).toNat
def ofIdx (i : Nat) : Pos := ⟨(i / 8 : Nat), (i % 8 : Nat)⟩

theorem idx_lt {p : Pos} (h : p.Valid) : p.idx < 64 := by
  unfold Valid at h; unfold idx; omega
theorem idx_inj {p q : Pos} (hp : p.Valid) (hq : q.Valid) (h : p.idx = q.idx) : p = q := by
  unfold Valid at hp hq; unfold idx at h
  cases p; cases q; simp only [Pos.mk.injEq] at *; omega
theorem new?_valid {r c : Int} {p : Pos} (h : new? r c = some p) : p.Valid ∧ p = ⟨r, c⟩ := by
  unfold new? inBoard at h
  split at h
  · rename_i hb
    simp only [Option.some.injEq] at h; subst h
    simp only [Bool.and_eq_true, decide_eq_true_eq] at hb
    exact ⟨⟨hb.1.1.1, hb.1.1.2, hb.1.2, hb.2⟩, rfl⟩
  · cases h
theorem add_valid {p q : Pos} {d : Int × Int} (h : p.add d = some q) : q.Valid :=
  (new?_valid h).1
end Pos

namespace Piece
/-- `Piece::as_index` -/
def asIndex (pc : Piece) : Nat :=
  pc.pieceType.toNat + (if pc.owner = Player.black then 6 else 0)
def materialValue (pc : Piece) : Nat := pc.pieceType.materialValue

/-- The table a piece kind is scored with; the king's depends on the phase in force. -/
def scoreTable (t : PieceType) (endgame : Bool) : Array Int :=
  match t with
  | .queen => Gen.queenScores
  | .rook => Gen.rookScores
  | .bishop => Gen.bishopScores
  | .knight => Gen.knightScores
  | .pawn => Gen.pawnScores
  | .king => if endgame then Gen.kingScoresEnd else Gen.kingScoresMiddle

/-- `Piece::score` -/
def score (pc : Piece) (p : Pos) (endgame : Bool) : Int :=
  let row := match pc.owner with
    | .white => 7 - p.row
    | .black => p.row
  (scoreTable pc.pieceType endgame).getD (row * 8 + p.col).toNat 0 * pc.owner.sign

/-- `Piece::hash` -/
def hash (pc : Piece) (p : Pos) : UInt64 :=
  Gen.pieceKeys.getD (p.idx * 12 + pc.asIndex) 0
end Piece

/-- Contribution of a square's content to the hash / the score. -/
def placeHash (p : Pos) : Option Piece → UInt64
  | none => Gen.emptyPlace
  | some pc => pc.hash p
def placeScore (p : Pos) (endgame : Bool) : Option Piece → Int
  | none => 0
  | some pc => pc.score p endgame

inductive Move where
  | normal (piece : Piece) (start stop : Pos) (captured : Option Piece)
  | promotion (owner : Player) (newPiece : PieceType) (start stop : Pos) (captured : Option Piece)
  | castlingShort (owner : Player)
  | castlingLong (owner : Player)
  | enPassant (owner : Player) (startCol endCol : Int)
  deriving DecidableEq, Repr, Inhabited

namespace Move
/-- `Move::is_tactical_move` -/
def isTactical : Move → Bool
  | normal pc _ _ cap => match cap with
      | some c => pc.materialValue ≤ c.materialValue
      | none => false
  | promotion .. => true
  | enPassant .. => true
  | _ => false
/-- `Move::index_history` -/
def indexHistory : Move → Option Nat
  | normal pc _ stop cap => match cap with
      | some _ => none
      | none => some (pc.asIndex * 64 + stop.idx)
  | _ => none
end Move

/-! ### `GameState` — one byte: low nibble en-passant file (8 = none), high nibble castling rights -/
abbrev GState := UInt8

namespace GState
def default : GState := 8
def enPassant (s : GState) : Int := (s &&& 0x0F).toNat
/-- `set_en_passant` for an argument already known to be in `0..=8` (all call sites after the D2 repair). -/
def setEnPassant (s : GState) (v : Int) : GState := (s &&& 0xF0) + UInt8.ofNat v.toNat
def wk (s : GState) : Bool := s &&& 0x10 != 0
def wq (s : GState) : Bool := s &&& 0x20 != 0
def bk (s : GState) : Bool := s &&& 0x40 != 0
def bq (s : GState) : Bool := s &&& 0x80 != 0
def clearWk (s : GState) : GState := s &&& ~~~0x10
def clearWq (s : GState) : GState := s &&& ~~~0x20
def clearBk (s : GState) : GState := s &&& ~~~0x40
def clearBq (s : GState) : GState := s &&& ~~~0x80
def setWk (s : GState) : GState := s ||| 0x10
def setWq (s : GState) : GState := s ||| 0x20
def setBk (s : GState) : GState := s ||| 0x40
def setBq (s : GState) : GState := s ||| 0x80
/-- `GameState::hash` -/
def hash (s : GState) : UInt64 := Gen.stateKeys.getD s.toNat 0
end GState

end Chess
