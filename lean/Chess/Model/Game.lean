import Chess.Model.Basic

/-!
# The game state and its operations (mirrors `chess/mod.rs` and the generators of `piece.rs`)
-/
namespace Chess

structure Game where
  score : Int
  player : Player
  /-- newest move first (`move_stack` reversed) -/
  moveStack : List Move
  /-- `phase == Endgame`, which is also "the end-game king table is the one in force" -/
  endgame : Bool
  hash : UInt64
  board : Vector (Option Piece) 64
  pastScores : Vector Int 64
  pastHashes : Vector UInt64 64
  wking : Pos
  bking : Pos
  /-- the per-ply state stack, top first -/
  state : List GState
  deriving Repr

namespace Game

/-- `Game::get_position` (reads `none` outside the board; C15 shows the index is always inside). -/
def get (g : Game) (p : Pos) : Option Piece :=
  if h : p.idx < 64 then g.board[p.idx] else none

/-- `Game::state` -/
def top (g : Game) : GState := g.state.headD GState.default

/-- `Game::len` -/
def len (g : Game) : Nat := g.state.length

/-- `Game::set_position` -/
def setPosition (g : Game) (p : Pos) (np : Option Piece) : Game :=
  if h : p.idx < 64 then
    let i := p.idx
    let h1 := g.hash ^^^ g.pastHashes[i]
    let s1 := g.score - g.pastScores[i]
    let ps := placeScore p g.endgame np
    let ph := placeHash p np
    { g with
      board := g.board.set i np
      pastScores := g.pastScores.set i ps
      pastHashes := g.pastHashes.set i ph
      hash := h1 ^^^ ph
      score := s1 + ps }
  else g

def kingPos (g : Game) : Player → Pos
  | .white => g.wking
  | .black => g.bking

def setKingPos (g : Game) (pl : Player) (p : Pos) : Game :=
  match pl with
  | .white => { g with wking := p }
  | .black => { g with bking := p }

def pos (rc : Int × Int) : Pos := ⟨rc.1, rc.2⟩

/-- rights lost because a king of `pl` moved -/
def clearBoth (s : GState) (pl : Player) : GState :=
  match pl with
  | .white => s.clearWk.clearWq
  | .black => s.clearBk.clearBq

/-- rights lost because a rook left `start` -/
def clearRookFrom (s : GState) (start : Pos) : GState :=
  if start = pos Gen.whiteQueenRook then s.clearWq
  else if start = pos Gen.whiteKingRook then s.clearWk
  else if start = pos Gen.blackQueenRook then s.clearBq
  else if start = pos Gen.blackKingRook then s.clearBk
  else s

/-- rights lost because `captured` was taken on `stop` -/
def clearCaptured (s : GState) (captured : Option Piece) (stop : Pos) : GState :=
  let s :=
    if captured = some ⟨.rook, .white⟩ then
      (if stop = pos Gen.whiteQueenRook then s.clearWq
       else if stop = pos Gen.whiteKingRook then s.clearWk else s)
    else s
  if captured = some ⟨.rook, .black⟩ then
    (if stop = pos Gen.blackQueenRook then s.clearBq
     else if stop = pos Gen.blackKingRook then s.clearBk else s)
  else s

def isEnemyPawn (o : Option Piece) (owner : Player) : Bool :=
  match o with
  | some p => p.pieceType = .pawn && p.owner ≠ owner
  | none => false

def homeRow : Player → Int
  | .white => 0
  | .black => 7

/-- squares of an en-passant capture: (old pawn, new pawn, taken pawn) -/
def epSquares (owner : Player) (startCol endCol : Int) : Pos × Pos × Pos :=
  match owner with
  | .white => (⟨4, startCol⟩, ⟨5, endCol⟩, ⟨4, endCol⟩)
  | .black => (⟨3, startCol⟩, ⟨2, endCol⟩, ⟨3, endCol⟩)

/-- the board part of `push` together with the new state byte -/
def applyMove (g : Game) (m : Move) (s0 : GState) : Game × GState :=
  match m with
  | .normal piece start stop captured =>
    let g := (g.setPosition start none).setPosition stop (some piece)
    let (g, s) :=
      if piece.pieceType = .king then
        (g.setKingPos g.player stop, clearBoth s0 g.player)
      else if piece.pieceType = .rook then (g, clearRookFrom s0 start)
      else (g, s0)
    let s := clearCaptured s captured stop
    let s :=
      if piece.pieceType = .pawn && (stop.row - start.row).natAbs = 2 then
        let l := if stop.col > 0 then isEnemyPawn (g.get ⟨stop.row, stop.col - 1⟩) piece.owner else false
        let r := if stop.col < 7 then isEnemyPawn (g.get ⟨stop.row, stop.col + 1⟩) piece.owner else false
        if l || r then s.setEnPassant start.col else s
      else s
    (g, s)
  | .promotion owner newPiece start stop captured =>
    let g := (g.setPosition start none).setPosition stop (some ⟨newPiece, owner⟩)
    (g, clearCaptured s0 captured stop)
  | .enPassant owner startCol endCol =>
    let (oldP, newP, taken) := epSquares owner startCol endCol
    let g := ((g.setPosition taken none).setPosition oldP none).setPosition newP (some ⟨.pawn, owner⟩)
    (g, s0)
  | .castlingLong owner =>
    let row := homeRow owner
    let g := (((g.setPosition ⟨row, 0⟩ none).setPosition ⟨row, 4⟩ none).setPosition ⟨row, 3⟩
      (some ⟨.rook, owner⟩)).setPosition ⟨row, 2⟩ (some ⟨.king, owner⟩)
    (g.setKingPos g.player ⟨row, 2⟩, clearBoth s0 g.player)
  | .castlingShort owner =>
    let row := homeRow owner
    let g := (((g.setPosition ⟨row, 7⟩ none).setPosition ⟨row, 4⟩ none).setPosition ⟨row, 5⟩
      (some ⟨.rook, owner⟩)).setPosition ⟨row, 6⟩ (some ⟨.king, owner⟩)
    (g.setKingPos g.player ⟨row, 6⟩, clearBoth s0 g.player)

/-- `Game::push` -/
def push (g : Game) (m : Move) : Game :=
  let s0 := g.top.setEnPassant 8
  let (g1, s) := applyMove g m s0
  { g1 with
    player := g1.player.other
    hash := g1.hash ^^^ Gen.blackToMove ^^^ g1.top.hash ^^^ s.hash
    state := s :: g1.state }

/-- the board part of `pop` -/
def unapplyMove (g : Game) (m : Move) : Game :=
  match m with
  | .normal piece start stop captured =>
    let g := (g.setPosition start (some piece)).setPosition stop captured
    if piece.pieceType = .king then g.setKingPos g.player start else g
  | .promotion owner _ start stop captured =>
    (g.setPosition start (some ⟨.pawn, owner⟩)).setPosition stop captured
  | .enPassant owner startCol endCol =>
    let (oldP, newP, taken) := epSquares owner startCol endCol
    ((g.setPosition newP none).setPosition taken (some ⟨.pawn, owner.other⟩)).setPosition oldP
      (some ⟨.pawn, owner⟩)
  | .castlingLong owner =>
    let row := homeRow owner
    let g := (((g.setPosition ⟨row, 3⟩ none).setPosition ⟨row, 2⟩ none).setPosition ⟨row, 0⟩
      (some ⟨.rook, owner⟩)).setPosition ⟨row, 4⟩ (some ⟨.king, owner⟩)
    g.setKingPos owner ⟨row, 4⟩
  | .castlingShort owner =>
    let row := homeRow owner
    let g := (((g.setPosition ⟨row, 5⟩ none).setPosition ⟨row, 6⟩ none).setPosition ⟨row, 7⟩
      (some ⟨.rook, owner⟩)).setPosition ⟨row, 4⟩ (some ⟨.king, owner⟩)
    g.setKingPos owner ⟨row, 4⟩

/-- `Game::pop` (`truncate(len.saturating_sub(1))` = `tail`) -/
def pop (g : Game) (m : Move) : Game :=
  let st := g.state.tail
  let g1 : Game :=
    { g with
      hash := g.hash ^^^ g.top.hash ^^^ (st.headD GState.default).hash ^^^ Gen.blackToMove
      state := st
      player := g.player.other }
  unapplyMove g1 m

/-- all 64 squares in the order of the `for row in 0..8 { for col in 0..8` loops -/
def allSquares : List Pos := (List.range 64).map Pos.ofIdx

/-- `Game::is_endgame` -/
def isEndgame (g : Game) : Bool :=
  let total := allSquares.foldl (fun acc p => acc + (placeScore p g.endgame (g.get p)).natAbs) 0
  total < 2 * Gen.endgameThreshold

/-- `Game::update_phase` -/
def updatePhase (g : Game) : Game :=
  if g.isEndgame then
    let g := { g with endgame := true }
    let g := g.setPosition g.wking (g.get g.wking)
    g.setPosition g.bking (g.get g.bking)
  else g

/-- `Game::king_exists` -/
def kingExists (g : Game) (pl : Player) : Bool :=
  match g.get (g.kingPos pl) with
  | some pc => pc.pieceType = .king
  | none => false

/-- one ray of `search_enemies_loops!`: first piece met along `d`, at most `fuel` steps -/
def firstOnRay (g : Game) (p : Pos) (d : Int × Int) : Nat → Option Piece
  | 0 => none
  | fuel + 1 =>
    match p.add d with
    | none => none
    | some q =>
      match g.get q with
      | some pc => some pc
      | none => firstOnRay g q d fuel

def enemyAt (g : Game) (pl : Player) (t : PieceType) (p : Pos) (d : Int × Int) : Bool :=
  match p.add d with
  | none => false
  | some q =>
    match g.get q with
    | some pc => pc.owner ≠ pl && pc.pieceType = t
    | none => false

def rayHits (g : Game) (pl : Player) (t1 t2 : PieceType) (p : Pos) (d : Int × Int) : Bool :=
  match firstOnRay g p d 7 with
  | some pc => pc.owner ≠ pl && (pc.pieceType = t1 || pc.pieceType = t2)
  | none => false

/-- `Game::is_targeted` -/
def isTargeted (g : Game) (p : Pos) (pl : Player) : Bool :=
  Gen.tKingDeltas.any (enemyAt g pl .king p)
  || Gen.tKnightDeltas.any (enemyAt g pl .knight p)
  || (match pl with
      | .white => Gen.tPawnW.any (enemyAt g pl .pawn p)
      | .black => Gen.tPawnB.any (enemyAt g pl .pawn p))
  || Gen.tLineRays.any (rayHits g pl .rook .queen p)
  || Gen.tDiagRays.any (rayHits g pl .bishop .queen p)

/-- one ray of `search_deltas!` -/
def rayMoves (g : Game) (pc : Piece) (start : Pos) (p : Pos) (d : Int × Int) : Nat → List Move
  | 0 => []
  | fuel + 1 =>
    match p.add d with
    | none => []
    | some q =>
      match g.get q with
      | some other =>
        if other.owner ≠ g.player then [.normal pc start q (some other)] else []
      | none => .normal pc start q none :: rayMoves g pc start q d fuel

def slideMoves (g : Game) (pc : Piece) (p : Pos) (rays : List (Int × Int)) : List Move :=
  rays.flatMap (fun d => rayMoves g pc p p d 7)

def promoPieces : List PieceType := Gen.promoOrder.filterMap PieceType.ofNat?

/-- `Piece::get_pawn_moves` -/
def pawnMoves (g : Game) (pc : Piece) (p : Pos) : List Move :=
  let (firstRow, lastRow, epRow, nd, fd, sds) := match pc.owner with
    | .white => (Gen.pawnFirstRowW, Gen.pawnLastRowW, Gen.pawnEpRowW, Gen.pawnDeltaW, Gen.pawnFirstDeltaW, Gen.pawnSideDeltasW)
    | .black => (Gen.pawnFirstRowB, Gen.pawnLastRowB, Gen.pawnEpRowB, Gen.pawnDeltaB, Gen.pawnFirstDeltaB, Gen.pawnSideDeltasB)
  let dbl :=
    if p.row = firstRow && (g.get (p.addUnsafe nd)).isNone && (g.get (p.addUnsafe fd)).isNone then
      [Move.normal pc p (p.addUnsafe fd) none]
    else []
  let fwd := match p.add nd with
    | none => []
    | some q =>
      if (g.get q).isNone then
        if lastRow = q.row then promoPieces.map (fun t => Move.promotion g.player t p q none)
        else [Move.normal pc p q none]
      else []
  let caps := sds.flatMap (fun d =>
    match p.add d with
    | none => []
    | some q =>
      match g.get q with
      | some other =>
        if other.owner ≠ pc.owner then
          if lastRow = q.row then promoPieces.map (fun t => Move.promotion g.player t p q (some other))
          else [Move.normal pc p q (some other)]
        else []
      | none => [])
  let ep := g.top.enPassant
  let epm :=
    if p.row = epRow && ep < 8 && (ep - p.col).natAbs = 1 then [Move.enPassant g.player p.col ep] else []
  dbl ++ fwd ++ caps ++ epm

/-- `Piece::get_king_moves` -/
def kingMoves (g : Game) (pc : Piece) (p : Pos) : List Move :=
  let ok := g.kingPos g.player.other
  let steps := Gen.kingDeltas.flatMap (fun d =>
    match p.add d with
    | none => []
    | some q =>
      let place := g.get q
      let own : Bool := match place with
        | some o => o.owner = g.player
        | none => false
      if own then []
      else if (q.row - ok.row).natAbs ≤ 1 && (q.col - ok.col).natAbs ≤ 1 then []
      else [Move.normal pc p q place])
  let s := g.top
  let (ks, qs) := match g.player with
    | .white => (s.wk, s.wq)
    | .black => (s.bk, s.bq)
  let row := homeRow g.player
  let king : Pos := ⟨row, 4⟩
  let short :=
    if ks && (g.get ⟨row, 5⟩).isNone && (g.get ⟨row, 6⟩).isNone
        && !g.isTargeted king g.player && !g.isTargeted ⟨row, 5⟩ g.player
        && !g.isTargeted ⟨row, 6⟩ g.player then
      [Move.castlingShort g.player]
    else []
  let long :=
    if qs && (g.get ⟨row, 1⟩).isNone && (g.get ⟨row, 2⟩).isNone && (g.get ⟨row, 3⟩).isNone
        && !g.isTargeted king g.player && !g.isTargeted ⟨row, 2⟩ g.player
        && !g.isTargeted ⟨row, 3⟩ g.player then
      [Move.castlingLong g.player]
    else []
  steps ++ short ++ long

/-- `Piece::get_knight_moves` -/
def knightMoves (g : Game) (pc : Piece) (p : Pos) : List Move :=
  Gen.knightDeltas.flatMap (fun d =>
    match p.add d with
    | none => []
    | some q =>
      let place := g.get q
      let own : Bool := match place with
        | some o => o.owner = g.player
        | none => false
      if own then [] else [Move.normal pc p q place])

/-- `Piece::get_moves` -/
def pieceMoves (g : Game) (pc : Piece) (p : Pos) : List Move :=
  match pc.pieceType with
  | .pawn => pawnMoves g pc p
  | .king => kingMoves g pc p
  | .knight => knightMoves g pc p
  | .rook => slideMoves g pc p Gen.rookRays
  | .bishop => slideMoves g pc p Gen.bishopRays
  | .queen => slideMoves g pc p Gen.queenRays

/-- the generation loop of `Game::get_moves` (before the legality filter) -/
def pseudoMoves (g : Game) : List Move :=
  if !g.kingExists g.player then []
  else allSquares.flatMap (fun p =>
    match g.get p with
    | some pc => if pc.owner = g.player then pieceMoves g pc p else []
    | none => [])

/-- the shortcut of the filter: a `Normal` move from a square not aligned with the king -/
def skipsCheck (kingPosition : Pos) (m : Move) : Bool :=
  match m with
  | .normal _ start _ _ =>
    let dc := start.col - kingPosition.col
    let dr := start.row - kingPosition.row
    dc ≠ 0 && dr ≠ 0 && dc.natAbs ≠ dr.natAbs
  | _ => false

/-- the legality filter of `Game::get_moves`; the game is threaded through the
push / test / pop of every candidate so that "the query changes nothing" is a theorem. -/
def filterMoves (player : Player) (kingPosition : Pos) (kingTargeted : Bool) :
    Game → List Move → List Move × Game
  | g, [] => ([], g)
  | g, m :: ms =>
    if !kingTargeted && skipsCheck kingPosition m then
      let (r, g') := filterMoves player kingPosition kingTargeted g ms
      (m :: r, g')
    else
      let g1 := g.push m
      let cond := !g1.isTargeted (g1.kingPos player) player
      let g2 := g1.pop m
      let (r, g') := filterMoves player kingPosition kingTargeted g2 ms
      (if cond then m :: r else r, g')

/-- `Game::get_moves(moves, verify_king)`: the list and the game afterwards -/
def getMoves (g : Game) (verifyKing : Bool) : List Move × Game :=
  let ms := g.pseudoMoves
  if verifyKing then
    let player := g.player
    let kp := g.kingPos player
    filterMoves player kp (g.isTargeted kp player) g ms
  else (ms, g)

/-- `Game::push_history` -/
def pushHistory (g : Game) (m : Move) : Game :=
  let g := { g with moveStack := m :: g.moveStack }
  g.updatePhase.push m

end Game
end Chess
