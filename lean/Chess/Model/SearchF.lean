import Chess.Model.Search

/-!
# The search with the state threaded through aborts

`Chess/Model/Search.lean` returns `none` when a poll sees the flag cleared and thereby DROPS the
state of the aborted iteration. The Rust code mutates the transposition table in place, so the
entries stored during an aborted iteration stay in the table for the next `go`. The functions here
(`nodeF`, `nodeLoopF`, `rootLoopF`, `rootSearchF`, `driverLoopF`, `driverF`) are the same code with
the state returned in BOTH cases — `(state, none)` on abort — in the Rust order of the hook (table
cleared first when table-less search is requested, then the flag is read). This is the model the
correspondence check runs; `Chess/Lemmas/SearchF.lean` relates it to `Search.node` etc.
-/
namespace Chess.Search

variable {G M : Type} [DecidableEq M]

/-- result of the move loop of an interior node, or the state at the abort -/
abbrev LoopRes (M : Type) := St M × Option (Int × Int × Option M)

/-- the move loop of `get_best_move_score` -/
def nodeLoopF (o : Ops G M) (child : G → Int → Int → Int → St M → St M × Option Int)
    (g : G) (remaining : Nat) (rd : Int) (beta : Int) :
    List M → Nat → Int → Int → Option M → St M → LoopRes M
  | [], _, alpha, bestScore, bestMove, st => (st, some (alpha, bestScore, bestMove))
  | m :: ms, index, alpha, bestScore, bestMove, st =>
    let g' := o.push g m
    let step : St M × Option (Int × Int × Option M) :=
      if index ≤ Gen.fullWindowMaxIndex then
        match child g' (-beta) (-alpha) (rd + 1) st with
        | (st, none) => (st, none)
        | (st, some v) =>
          let score := -v
          let (bestScore, bestMove) := if score > bestScore then (score, some m) else (bestScore, bestMove)
          (st, some (max alpha score, bestScore, bestMove))
      else
        match child g' (-alpha - 1) (-alpha) (rd + 1) st with
        | (st, none) => (st, none)
        | (st, some v) =>
          let test := -v
          if test > bestScore then
            match child g' (-beta) (-test) (rd + 1) st with
            | (st, none) => (st, none)
            | (st, some v2) =>
              let score := -v2
              (st, some (max alpha score, score, some m))
          else (st, some (alpha, bestScore, bestMove))
    match step with
    | (st, none) => (st, none)
    | (st, some (alpha, bestScore, bestMove)) =>
      if alpha ≥ beta then
        let st := { st with killers := st.killers.setIfInBounds rd.toNat (some m) }
        let st := match o.histIdx m with
          | some i => { st with history := st.history.setIfInBounds i (historyBonus remaining (st.history.getD i 0)) }
          | none => st
        (st, some (alpha, bestScore, bestMove))
      else nodeLoopF o child g remaining rd beta ms (index + 1) alpha bestScore bestMove st

/-- `get_best_move_score` -/
def nodeF (o : Ops G M) (runs : Nat → Bool) :
    Nat → G → Int → Int → Int → St M → St M × Option Int
  | remaining, g, alpha, beta, rd, st =>
    -- the hook: count the poll, empty the table when asked to, THEN the flag is read
    let st0 := { st with tt := if st.ttOff then {} else st.tt }
    if !runs st.polls then (st0, none) else
    let st := { st0 with polls := st.polls + 1 }
    let entry := ttGet st (o.hash g)
    let cut : Option Int := match entry with
      | some e =>
        if e.depth ≥ remaining then
          match e.flag with
          | .exact => some e.score
          | .lower => if e.score ≥ beta then some e.score else none
          | .upper => if e.score ≤ alpha then some e.score else none
        else none
      | none => none
    match cut with
    | some v => (st, some v)
    | none =>
      let pvMove := entry.bind (·.pv)
      match remaining with
      | 0 => (st, some (qsearch o qFuel g alpha beta rd))
      | 1 => (st, some (depth1 o g alpha beta rd))
      | r + 2 =>
        let moves := o.checked g
        if moves.isEmpty then
          (st, some (if o.safe g then 0 else scoreMin + Gen.mateNode + rd))
        else
          let moves := sortMoves (moveKey o pvMove (st.killers.getD rd.toNat none) st.history) moves
          match nodeLoopF o (nodeF o runs (r + 1)) g (r + 2) rd beta moves 0 alpha scoreMin none st with
          | (st, none) => (st, none)
          | (st, some (outAlpha, bestScore, bestMove)) =>
            let flag := if bestScore ≤ alpha then Flag.upper
              else if bestScore ≥ beta then Flag.lower else Flag.exact
            let e : Entry M := ⟨bestScore, bestMove, r + 2, flag⟩
            let st :=
              match st.tt[o.hash g]? with
              | some old =>
                if old.depth < r + 2 || (old.depth = r + 2 && flag = .exact) then
                  { st with tt := st.tt.insert (o.hash g) e }
                else st
              | none => { st with tt := st.tt.insert (o.hash g) e }
            (st, some outAlpha)

/-- the move loop of `get_best_move_entry` -/
def rootLoopF (o : Ops G M) (child : G → Int → Int → Int → St M → St M × Option Int) (g : G) :
    List M → Nat → Int → Option M → St M → St M × Option (Int × Option M)
  | [], _, bestScore, bestMove, st => (st, some (bestScore, bestMove))
  | m :: ms, index, bestScore, bestMove, st =>
    let g' := o.push g m
    if index ≤ Gen.fullWindowMaxIndex then
      match child g' (scoreMin + 1) (-bestScore) 1 st with
      | (st, none) => (st, none)
      | (st, some v) =>
        let score := -v
        if score > bestScore then rootLoopF o child g ms (index + 1) score (some m) st
        else rootLoopF o child g ms (index + 1) bestScore bestMove st
    else
      match child g' (-bestScore - 1) (-bestScore) 1 st with
      | (st, none) => (st, none)
      | (st, some v) =>
        let score := -v
        if score > bestScore then
          match child g' (scoreMin + 1) (-score) 1 st with
          | (st, none) => (st, none)
          | (st, some v2) => rootLoopF o child g ms (index + 1) (-v2) (some m) st
        else rootLoopF o child g ms (index + 1) bestScore bestMove st

/-- `get_best_move_entry` -/
def rootSearchF (o : Ops G M) (runs : Nat → Bool) (g : G) (depth : Nat) (st : St M) :
    St M × Option (Option M × Int × Bool) :=
  let moves := o.checked g
  if moves.length = 1 then (st, some (moves.head?, 0, true)) else
  let st := { st with killers := Array.replicate Gen.killerLen none }
  let moves := match o.repetition g with
    | some rep => swapRemoveFirst rep moves
    | none => moves
  let entry := ttGet st (o.hash g)
  match (match entry with
         | some e => if e.depth ≥ depth && e.flag = Flag.exact then some e else none
         | none => none) with
  | some e => (st, some (e.pv, e.score, false))
  | none =>
    let pvMove := entry.bind (·.pv)
    let moves := sortMoves (moveKey o pvMove none st.history) moves
    match rootLoopF o (nodeF o runs (depth - 1)) g moves 0 (scoreMin + 1) none st with
    | (st, none) => (st, none)
    | (st, some (bestScore, bestMove)) =>
      let e : Entry M := ⟨bestScore, bestMove, depth, .exact⟩
      let st :=
        match st.tt[o.hash g]? with
        | some old => if old.depth ≤ depth then { st with tt := st.tt.insert (o.hash g) e } else st
        | none => { st with tt := st.tt.insert (o.hash g) e }
      (st, some (bestMove, bestScore, false))

/-- the iterative-deepening loop of `get_best_move_until_stop` -/
def driverLoopF (o : Ops G M) (runs : Nat → Bool) (g : G) (limit : Nat) :
    Nat → Nat → Option M → List (Info M) → St M → DriverOut M
  | 0, _, found, infos, st => ⟨found, infos.reverse, st, false⟩
  | fuel + 1, depth, found, infos, st =>
    match rootSearchF o runs g depth st with
    | (st, none) => ⟨found, infos.reverse, st, true⟩
    | (st, some (bestMove, bestScore, onlyMove)) =>
      let found := bestMove.or found
      let info : Info M := ⟨depth, bestScore, st.tt.size, pvWalk o st.tt depth g⟩
      if depth = limit || onlyMove || bestScore > scoreMax - Gen.exitHi || bestScore < scoreMin + Gen.exitLo then
        ⟨found, (info :: infos).reverse, st, false⟩
      else driverLoopF o runs g limit fuel (depth + 1) found (info :: infos) st

/-- `get_best_move_until_stop`: the table in `out.st.tt` is the table the next `go` starts from,
also after a stop -/
def driverF (o : Ops G M) (runs : Nat → Bool) (g : G) (tt : Table M) (ttOff : Bool) (maxDepthArg : Option Nat) :
    DriverOut M :=
  let found := (o.checked g).head?
  let st : St M := { tt := tt, killers := Array.replicate Gen.killerLen none,
                     history := Array.replicate Gen.historyLen 0, polls := 0, ttOff := ttOff }
  let limit := min (max ((maxDepthArg.getD maxDepth)) 1) maxDepth
  let cached := match tt[o.hash g]? with
    | some e => if e.flag = .exact then e.depth else 1
    | none => 1
  let start := min cached limit
  driverLoopF o runs g limit (limit - start + 1) start found [] st

end Chess.Search
