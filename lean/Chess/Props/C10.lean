import Chess.Lemmas.Reach
import Chess.Lemmas.Mate
import Chess.Lemmas.Mate2
import Chess.Lemmas.RepetitionGuard

/-!
# C10 — forced mates within the horizon are found; dead positions are reported as such

Proved for every game interface: the dead-root half, the self-stop mechanism, and MATE IN ONE:
from a fresh table a search to depth ≥ 3 (or unlimited) plays a mating move and stops by itself
at depth ≤ 3. Hypotheses of the mate theorem, both shown necessary by kernel-checked
counterexamples in `Chess/Lemmas/Mate.lean`: `Bounded` (static evaluations stay out of the
driver's mate range ±31767) and `HashSep` (no position with a legal move shares its hash with a
mated child of the root; follows from the Zobrist hypothesis).

MATE IN TWO (`Chess/Lemmas/Mate2*.lean`). What is TRUE depends on the table:
* table off (the C09 hook): the full statement in its strong reading, for every game (C10.5);
* table on, strong reading ("the move mates in two"): FALSE once a position can be reached at two
  different distances from the root, even with an injective hash — mate scores are coded by
  root distance and a stored one is reused elsewhere (`strong_reading_fails_with_transpositions`,
  the generic-model form of what the implementation does on `8/8/8/5r2/8/4k1K1/8/5q2 b`);
* table on, weak reading ("after the move the opponent cannot escape a forced mate"): proved for
  games in which no position has more than three legal moves (`Narrow`: the null-window re-search
  never happens), and — strong reading — for such games without transpositions between different
  distances (`Graded`) (C10.6, C10.7); soundness of a reported mate score at every depth (C10.8).
  For general games with the table on the weak statement is OPEN on the theorem side (the stored
  entries are not inductively sound through the re-search: see the notes in `Mate2.lean`); there it
  is decided on the implementation by the independent solver (`Chess/Spec/Mates.lean`), partial.
  In all versions the mating move must survive the root's repetition filter (`m1 ∈ rootMoves`):
  when it does not, the engine gives the mate up — the known finding of this property.
-/
namespace Chess.Props.C10
open Chess Chess.Search

variable {G M : Type} [DecidableEq M]

/-- **C10.1** In a position with no legal move the engine reports that it has no move — for every
table reachable from the empty one, every limit, every stop schedule (and conversely it reports
none ONLY then). -/
theorem dead_position_reports_no_move {o : Ops G M} {P : G → Prop} (hH : HashOk o P) (hC : Closed o P)
    (reqs : List (Req G)) (hreqs : ∀ r ∈ reqs, P r.g) (r : Req G) (hP : P r.g) :
    (driver o r.runs r.g (tableAfter o {} reqs) r.off r.md).found = none ↔ o.checked r.g = [] :=
  (session_sound hH hC reqs hreqs r hP).2.1

/-- **C10.2** With a fresh table no hypothesis at all is needed: a root without legal moves
reports no move, for every limit and every stop schedule. -/
theorem dead_root_fresh_table (o : Ops G M) (runs : Nat → Bool) (g : G) (off : Bool) (md : Option Nat)
    (h : o.checked g = []) : (driver o runs g {} off md).found = none := by
  have hH : HashOk o (fun g' => o.checked g' = []) := by
    intro a b ha hb _; rw [ha, hb]
  have hC : Closed o (fun g' => o.checked g' = []) := by
    intro a m ha hm; rw [ha] at hm; cases hm
  cases hf : (driver o runs g {} off md).found with
  | none => rfl
  | some m =>
    have hm := (driver_sound hH hC runs g {} off md h (TTInv_empty o _)).2 m hf
    rw [h] at hm; cases hm

/-- **C10.3** The search stops by itself as soon as an iteration reports a mate-range score (or
the limit, or a single reply): the loop is never ended by a stop when the flag stays up, and its
last iteration is the limit unless it ended earlier for one of those reasons. -/
theorem stops_by_itself (o : Ops G M) (g : G) (tt : Table M) (off : Bool) (md : Option Nat) :
    let out := driver o (fun _ => true) g tt off md
    out.stopped = false ∧
    ((o.checked g).length ≠ 1 → (∀ info ∈ out.infos, ¬ mateRange info.score) →
      out.infos.getLast?.map (·.depth) = some (limitOf md)) :=
  driver_terminates_by_itself o g tt off md

open Chess.Search.Mate in
/-- **C10.4 mate in one is found.** If some root move leaves the opponent without a legal move
and in check, then from a fresh table, with a flag that stays up, for every limit `N ≥ 3` or none,
the driver reports a move that mates, is not stopped, and never searches deeper than 3. -/
theorem mate_in_one_is_played (o : Ops G M) (hb : Bounded o) (g : G) (hsep : HashSep o g)
    (hmate : ∃ m ∈ rootMoves o g, Mated o (o.push g m))
    (runs : Nat → Bool) (hr : ∀ i, runs i = true) (off : Bool) (md : Option Nat)
    (hmd : md = none ∨ ∃ N, md = some N ∧ 3 ≤ N) :
    let out := driver o runs g {} off md
    ∃ m, out.found = some m ∧ MatingMove o g m ∧ out.stopped = false ∧
      ∀ info ∈ out.infos, info.depth ≤ 3 :=
  mate_in_one_found o hb g hsep hmate runs hr off md hmd

open Chess.Search.Mate in
/-- a mated position two or more plies above the horizon returns the exact mate score whatever
its window (the value argument behind C10.4) -/
theorem mated_node_scores_exactly {o : Ops G M} {runs : Nat → Bool} {c : G} (hm : Mated o c)
    (remaining : Nat) (h2 : 2 ≤ remaining) (a b rd : Int) (st : St M)
    (hr : runs st.polls = true) (hnone : st.tt[o.hash c]? = none) :
    node o runs remaining c a b rd st = some (scoreMin + Gen.mateNode + rd, pollSt st) ∧
      (pollSt st).tt[o.hash c]? = none :=
  mated_child_value hm remaining h2 a b rd st hr hnone

open Chess.Search.Mate2 in
/-- **C10.5 mate in two, table off: the full statement, strong reading, every game.** -/
theorem mate_in_two_is_kept_table_off (o : Ops G M) (hb : Mate.Bounded o) (g : G) (m1 : M)
    (hk : m1 ∈ rootMoves o g) (h2 : KeepsMate o g m1) (runs : Nat → Bool)
    (hr : ∀ i, runs i = true) (md : Option Nat) (hmd : md = none ∨ ∃ N, md = some N ∧ 5 ≤ N) :
    let out := driver o runs g {} true md
    ∃ m, out.found = some m ∧ KeepsMate o g m ∧ out.stopped = false ∧ ∀ info ∈ out.infos, info.depth ≤ 5 :=
  mate_in_two_found_off o hb g m1 hk h2 runs hr md hmd

open Chess.Search.Mate2 in
/-- **C10.6 mate in two, table on or off, weak reading, narrow games** (no position with more than
three legal moves): the driver answers by depth 5 with a move after which the opponent cannot
escape a forced mate, and stops by itself. `…_partial`: the full statement drops `Narrow`. -/
theorem mate_in_two_is_kept_partial (o : Ops G M) (hb : Mate.Bounded o) (hn : Narrow o) (hs : HashSem o) (g : G)
    (m1 : M) (h2 : ForcedMate2 o g m1) (hk : m1 ∈ rootMoves o g) (hno1 : ¬ MateIn1 o g)
    (runs : Nat → Bool) (hr : ∀ i, runs i = true) (off : Bool) (md : Option Nat)
    (hmd : md = none ∨ ∃ N, md = some N ∧ 5 ≤ N) :
    let out := driver o runs g {} off md
    ∃ m, out.found = some m ∧ KeepsForcedMate o g m ∧ out.stopped = false ∧ ∀ info ∈ out.infos, info.depth ≤ 5 :=
  mate_in_two_found o hb hn hs g m1 h2 hk hno1 runs hr off md hmd

open Chess.Search.Mate2 in
/-- **C10.7 … and the strong reading** when positions determine their distance from the root
(`Graded`) and the hash is injective. -/
theorem mate_in_two_strong_partial (o : Ops G M) (hb : Mate.Bounded o) (hn : Narrow o) (g : G)
    (hinj : ∀ x y, o.hash x = o.hash y → x = y) (lvl : G → Nat) (hg : Graded o g lvl)
    (m1 : M) (h2 : ForcedMate2 o g m1) (hk : m1 ∈ rootMoves o g) (hno1 : ¬ MateIn1 o g)
    (runs : Nat → Bool) (hr : ∀ i, runs i = true) (off : Bool) (md : Option Nat)
    (hmd : md = none ∨ ∃ N, md = some N ∧ 5 ≤ N) :
    let out := driver o runs g {} off md
    ∃ m, out.found = some m ∧ KeepsMate o g m ∧ out.stopped = false ∧ ∀ info ∈ out.infos, info.depth ≤ 5 :=
  mate_in_two_found_strong o hb hn g hinj lvl hg m1 h2 hk hno1 runs hr off md hmd

open Chess.Search.Mate2 in
/-- **C10.8 a reported mate score is sound at every depth** (narrow games): a final score above the
evaluation range comes with a move that keeps a forced mate; one below it means the root is lost. -/
theorem reported_mate_score_is_sound_partial (o : Ops G M) (hb : Mate.Bounded o) (hn : Narrow o) (hs : HashSem o) (g : G)
    (hrep : rootMoves o g = o.checked g) (hl : 2 ≤ (o.checked g).length) (runs : Nat → Bool)
    (hr : ∀ i, runs i = true) (off : Bool) (md : Option Nat) :
    let out := driver o runs g {} off md
    out.stopped = false ∧ ∀ info, out.infos.getLast? = some info →
      (Mate.evalBound < info.score → ∃ m, out.found = some m ∧ KeepsForcedMate o g m) ∧
      (info.score < -Mate.evalBound - 1 → Lose o g) :=
  driver_mate_sound o hb hn hs g hrep hl runs hr off md

open Chess.Search.Mate2 Chess.Search.Mate2.Example in
/-- the strong reading fails with the table on as soon as a position is reachable at two distances
from the root — a six-position game with an injective hash: the only move that mates in two is
move 1, move 0 keeps a mate in three only, and no grading exists. (That the driver answers move 0
there with the mate-in-two score is checked by evaluation, `#guard`, in `Mate2.lean`:
`Std.HashMap` does not reduce in the kernel.) -/
theorem strong_reading_fails_with_transpositions :
    ForcedMate2 exT 0 1 ∧ (∀ m, KeepsMate exT 0 m → m = 1) ∧ ¬ KeepsMate exT 0 0 ∧
      KeepsMateWithin exT 2 0 0 ∧ (∀ x y, exT.hash x = exT.hash y → x = y) ∧ ¬ ∃ lvl, Graded exT 0 lvl :=
  ⟨exT_forced, exT_unique, exT_strong_fails, exT_move0, exT_inj, exT_not_graded⟩

open Chess.Search.Mate2 Chess.Search.Rep in
/-- **C10.9 the known finding, as a theorem about the model** (`Lemmas/RepetitionGuard*.lean`): in
every reachable chess game whose record ends `… x m0 x' M' x` (the opponent has just repeated its
move, so the root's repetition guard takes `m0` out of the move list) and in which `m0` is the ONLY
move that keeps a forced mate, the engine — fresh table, flag up, any depth limit — answers with a
legal move other than `m0` that keeps no forced mate in either reading. C10 is false of model and
code alike in this situation; that is why every mate theorem above carries `m1 ∈ rootMoves`. -/
theorem repetition_guard_gives_up_the_mate {g : Game} (h : Reach g) (m0 : Move)
    (hrec : ∃ x M' x' rest, g.moveStack = x :: M' :: x' :: m0 :: x :: rest)
    (hl2 : 2 ≤ (g.getMoves true).1.length)
    (honly : ∀ m, KeepsForcedMate Uci.chessOps g m → m = m0)
    (runs : Nat → Bool) (hr : ∀ i, runs i = true) (off : Bool) (md : Option Nat) :
    ∃ m, (driver Uci.chessOps runs g {} off md).found = some m ∧ m ∈ (g.getMoves true).1 ∧
      m ≠ m0 ∧ ¬ KeepsForcedMate Uci.chessOps g m ∧ ¬ KeepsMate Uci.chessOps g m :=
  chess_guard_gives_up_the_mate h m0 hrec hl2 honly runs hr off md

open Chess.Search.Mate2 Chess.Search.Rep in
/-- the generic form, and a concrete game meeting all its hypotheses (kernel-checked): a forced
mate in two through the guarded move only, which the engine does not play -/
theorem guard_finding_generic (o : Ops G M) (P : G → Prop) (hP : EvalOk o P) (g : G)
    (hroot : ∀ m ∈ o.checked g, P (o.push g m)) (m0 : M) (h2 : ForcedMate2 o g m0)
    (hrep : o.repetition g = some m0) (hnd : (o.checked g).Nodup)
    (hl2 : 2 ≤ (o.checked g).length) (honly : ∀ m, KeepsForcedMate o g m → m = m0)
    (runs : Nat → Bool) (hr : ∀ i, runs i = true) (off : Bool) (md : Option Nat) :
    ¬ ∃ m, (driver o runs g {} off md).found = some m ∧ KeepsForcedMate o g m :=
  c10_fails_under_guard o P hP g hroot m0 h2 hrep hnd hl2 honly runs hr off md

/-- chess instance of C10.2 -/
example (g : Game) (h : (g.getMoves true).1 = []) :
    (driver Uci.chessOps (fun _ => true) g {} false none).found = none :=
  dead_root_fresh_table Uci.chessOps _ g false none h

end Chess.Props.C10

#print axioms Chess.Props.C10.dead_position_reports_no_move
#print axioms Chess.Props.C10.dead_root_fresh_table
#print axioms Chess.Props.C10.stops_by_itself
#print axioms Chess.Props.C10.mate_in_one_is_played
#print axioms Chess.Props.C10.mated_node_scores_exactly
#print axioms Chess.Props.C10.mate_in_two_is_kept_table_off
#print axioms Chess.Props.C10.mate_in_two_is_kept_partial
#print axioms Chess.Props.C10.mate_in_two_strong_partial
#print axioms Chess.Props.C10.reported_mate_score_is_sound_partial
#print axioms Chess.Props.C10.strong_reading_fails_with_transpositions
#print axioms Chess.Props.C10.repetition_guard_gives_up_the_mate
#print axioms Chess.Props.C10.guard_finding_generic
