import Chess.Lemmas.Reach
import Chess.Lemmas.Mate

/-!
# C10 — forced mates within the horizon are found; dead positions are reported as such

Proved for every game interface: the dead-root half, the self-stop mechanism, and MATE IN ONE:
from a fresh table a search to depth ≥ 3 (or unlimited) plays a mating move and stops by itself
at depth ≤ 3. Hypotheses of the mate theorem, both shown necessary by kernel-checked
counterexamples in `Chess/Lemmas/Mate.lean`: `Bounded` (static evaluations stay out of the
driver's mate range ±31767) and `HashSep` (no position with a legal move shares its hash with a
mated child of the root; follows from the Zobrist hypothesis). Mate in two needs sound table
entries two plies down and is decided by the independent solver on the implementation only
(partial).
-/
namespace Chess.Props.C10
open Chess Chess.Search

variable {G M : Type} [DecidableEq M]

/-- **C10.1** In a position with no legal move the engine reports that it has no move — for every
table reachable from the empty one, every limit, every stop schedule (and conversely it reports
none ONLY then). -/
theorem dead_position_reports_no_move {o : Ops G M} {P : G → Prop} (hH : HashOk o P) (hC : Closed o P)
    (reqs : List (Req G)) (hreqs : ∀ r ∈ reqs, P r.g) (r : Req G) (hP : P r.g) :
    (driver o r.runs r.g (tableAfter o {} reqs) r.off r.md).found = none ↔ o.checked r.g = [] :=
  (session_sound hH hC reqs hreqs r hP).2.1

/-- **C10.2** With a fresh table no hypothesis at all is needed: a root without legal moves
reports no move, for every limit and every stop schedule. -/
theorem dead_root_fresh_table (o : Ops G M) (runs : Nat → Bool) (g : G) (off : Bool) (md : Option Nat)
    (h : o.checked g = []) : (driver o runs g {} off md).found = none := by
  have hH : HashOk o (fun g' => o.checked g' = []) := by
    intro a b ha hb _; rw [ha, hb]
  have hC : Closed o (fun g' => o.checked g' = []) := by
    intro a m ha hm; rw [ha] at hm; cases hm
  cases hf : (driver o runs g {} off md).found with
  | none => rfl
  | some m =>
    have hm := (driver_sound hH hC runs g {} off md h (TTInv_empty o _)).2 m hf
    rw [h] at hm; cases hm

/-- **C10.3** The search stops by itself as soon as an iteration reports a mate-range score (or
the limit, or a single reply): the loop is never ended by a stop when the flag stays up, and its
last iteration is the limit unless it ended earlier for one of those reasons. -/
theorem stops_by_itself (o : Ops G M) (g : G) (tt : Table M) (off : Bool) (md : Option Nat) :
    let out := driver o (fun _ => true) g tt off md
    out.stopped = false ∧
    ((o.checked g).length ≠ 1 → (∀ info ∈ out.infos, ¬ mateRange info.score) →
      out.infos.getLast?.map (·.depth) = some (limitOf md)) :=
  driver_terminates_by_itself o g tt off md

open Chess.Search.Mate in
/-- **C10.4 mate in one is found.** If some root move leaves the opponent without a legal move
and in check, then from a fresh table, with a flag that stays up, for every limit `N ≥ 3` or none,
the driver reports a move that mates, is not stopped, and never searches deeper than 3. -/
theorem mate_in_one_is_played (o : Ops G M) (hb : Bounded o) (g : G) (hsep : HashSep o g)
    (hmate : ∃ m ∈ rootMoves o g, Mated o (o.push g m))
    (runs : Nat → Bool) (hr : ∀ i, runs i = true) (off : Bool) (md : Option Nat)
    (hmd : md = none ∨ ∃ N, md = some N ∧ 3 ≤ N) :
    let out := driver o runs g {} off md
    ∃ m, out.found = some m ∧ MatingMove o g m ∧ out.stopped = false ∧
      ∀ info ∈ out.infos, info.depth ≤ 3 :=
  mate_in_one_found o hb g hsep hmate runs hr off md hmd

open Chess.Search.Mate in
/-- a mated position two or more plies above the horizon returns the exact mate score whatever
its window (the value argument behind C10.4) -/
theorem mated_node_scores_exactly {o : Ops G M} {runs : Nat → Bool} {c : G} (hm : Mated o c)
    (remaining : Nat) (h2 : 2 ≤ remaining) (a b rd : Int) (st : St M)
    (hr : runs st.polls = true) (hnone : st.tt[o.hash c]? = none) :
    node o runs remaining c a b rd st = some (scoreMin + Gen.mateNode + rd, pollSt st) ∧
      (pollSt st).tt[o.hash c]? = none :=
  mated_child_value hm remaining h2 a b rd st hr hnone

/-- chess instance of C10.2 -/
example (g : Game) (h : (g.getMoves true).1 = []) :
    (driver Uci.chessOps (fun _ => true) g {} false none).found = none :=
  dead_root_fresh_table Uci.chessOps _ g false none h

end Chess.Props.C10

#print axioms Chess.Props.C10.dead_position_reports_no_move
#print axioms Chess.Props.C10.dead_root_fresh_table
#print axioms Chess.Props.C10.stops_by_itself
#print axioms Chess.Props.C10.mate_in_one_is_played
#print axioms Chess.Props.C10.mated_node_scores_exactly
