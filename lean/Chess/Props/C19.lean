import Chess.Lemmas.Reach
import Chess.Lemmas.SearchF
import Chess.Lemmas.FnsEquiv.Search

/-!
# C19 — fixed-depth search is reproducible

In Lean every function is deterministic; the content is WHICH state the result may depend on and
that the implementation IS that function (the correspondence check runs the real binary repeatedly
— fresh, after `ucinewgame`, under load, with stretched thread start-up — and compares every
transcript with this model's).
-/
namespace Chess.Props.C19
open Chess Chess.Search

variable {G M : Type} [DecidableEq M]

/-- **C19.1** The search result is a function of (position, table, limit, flag values at the
polls) only; after a reset the table is empty whatever was searched before, so the transcript is
that of a fresh engine. -/
theorem reset_forgets_history (o : Ops G M) (runs : Nat → Bool) (g : G) (off : Bool) (md : Option Nat)
    (tt₁ tt₂ : Table M) (hist₁ hist₂ : List (Req G)) :
    driver o runs g (resetTable (tableAfter o tt₁ hist₁)) off md =
      driver o runs g (resetTable (tableAfter o tt₂ hist₂)) off md :=
  fresh_equiv o runs g off md tt₁ tt₂ hist₁ hist₂

/-- **C19.2** Timing cannot influence a search that is not stopped: any two runs that were not
stopped — whatever their flag oracles did at polls the other never reached — return the same best
move, the same scores, node counts and principal variations. -/
theorem unstopped_runs_agree (o : Ops G M) (runs runs' : Nat → Bool) (g : G) (tt : Table M)
    (off : Bool) (md : Option Nat) (h : (driver o runs g tt off md).stopped = false)
    (h' : (driver o runs' g tt off md).stopped = false) :
    driver o runs g tt off md = driver o runs' g tt off md :=
  driver_flag_free_unstopped o runs runs' g tt off md h h'

/-- **C19.3** A depth-limited search with a flag that stays up is never stopped (it ends by itself). -/
theorem depth_search_not_stopped (o : Ops G M) (g : G) (tt : Table M) (off : Bool) (md : Option Nat) :
    (driver o (fun _ => true) g tt off md).stopped = false :=
  (driver_terminates_by_itself o g tt off md).1


/-! ### The faithful model (`driverF`) -/
open Chess.Search.F in
/-- **C19.4** Unstopped runs of the faithful driver agree, and what it reports always agrees with
the dropping model (only the table handed on differs, and only after a stop). -/
theorem faithful_unstopped_runs_agree (o : Ops G M) (runs runs' : Nat → Bool) (g : G) (tt : Table M)
    (off : Bool) (md : Option Nat) (h : (driverF o runs g tt off md).stopped = false)
    (h' : (driverF o runs' g tt off md).stopped = false) :
    driverF o runs g tt off md = driverF o runs' g tt off md :=
  driverF_flag_free_unstopped o runs runs' g tt off md h h'

open Chess.Search.F in
theorem faithful_reports_agree (o : Ops G M) (runs : Nat → Bool) (g : G) (tt : Table M) (off : Bool)
    (md : Option Nat) :
    (driverF o runs g tt off md).found = (driver o runs g tt off md).found ∧
    (driverF o runs g tt off md).infos = (driver o runs g tt off md).infos ∧
    (driverF o runs g tt off md).stopped = (driver o runs g tt off md).stopped :=
  driverF_agrees o runs g tt off md

end Chess.Props.C19

#print axioms Chess.Props.C19.reset_forgets_history
#print axioms Chess.Props.C19.unstopped_runs_agree
#print axioms Chess.Props.C19.depth_search_not_stopped
#print axioms Chess.Props.C19.faithful_unstopped_runs_agree
#print axioms Chess.Props.C19.faithful_reports_agree

/-! ### Translation tie (C19.T)
`tools/translate.py` regenerates `Chess/Gen/Fns.lean` from the Rust text of the leaf functions on every run (a
parser, not patterns); the theorems below — proved in `Chess/Lemmas/FnsEquiv/*` and re-checked by the kernel whenever
the generated term changes — say that the TRANSLATED code equals the hand-written model this file's theorems are
about, for the ordering key (`move_score`), which together with the history counters decides the order in which moves are searched. A rewrite of the Rust text that keeps the meaning leaves them true; one that changes it breaks the
theorem named after the function. -/
#print axioms Chess.FnsEquiv.move_score_eq
