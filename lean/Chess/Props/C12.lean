import Chess.Lemmas.MoveText
import Chess.Lemmas.Generated
import Chess.Model.Uci

/-!
# C12 — move text round-trips, and `position … moves` accepts exactly legal moves
-/
namespace Chess.Props.C12
open Chess Chess.Uci

/-- **C12.1** Move text is standard long algebraic: from-square, to-square, lower-case promotion
letter; castling is the king's two-square move (`specUci` is written with explicit matches). -/
theorem text_is_long_algebraic {g : Game} {m : Move} (h : g.Fits m) : Move.uci m = specUci m :=
  uci_shape_fits h

/-- **C12.2** Reading the text of a generated move back in the same position gives that move. -/
theorem text_round_trips {g : Game} {m : Move} (hf : g.Fits m) (hg : GenShape g m) :
    Move.fromUci m.uci g = some m :=
  uci_roundtrip hf hg

/-- **C12.3** Distinct generated moves have distinct texts. -/
theorem texts_are_distinct {g : Game} {m₁ m₂ : Move} (hf₁ : g.Fits m₁) (hg₁ : GenShape g m₁)
    (hf₂ : g.Fits m₂) (hg₂ : GenShape g m₂) (h : m₁.uci = m₂.uci) : m₁ = m₂ :=
  uci_injective_on_fits hf₁ hg₁ hf₂ hg₂ h

/-- **C12.4a** For EVERY string: whatever the reader makes of it is a move whose text is that
string — it never reads a string as some other move (no trailing bytes, no letter case folding,
no en-passant aliasing). -/
theorem reader_never_aliases {s : List Char} {g : Game} {m : Move} (h : Move.fromUci s g = some m) :
    m.uci = s :=
  fromUci_text h

/-- **C12.4b** One step of the `moves` loop of `position` accepts a string only if it is the text
of a move of the checked list, and then plays precisely that move into the game record. -/
theorem position_accepts_only_legal_text (g g' : Game) (s : List Char)
    (h : playMoves g [s] = (true, some g')) :
    ∃ m ∈ (g.getMoves true).1, m.uci = s ∧ g' = ((g.getMoves true).2).pushHistory m := by
  unfold playMoves at h
  split at h
  · cases h
  · next m hm =>
    simp only at h
    split at h
    · next hc =>
      split at h
      · cases h
      · simp only [playMoves, Prod.mk.injEq, Option.some.injEq, true_and] at h
        refine ⟨m, ?_, fromUci_text hm, h.symm⟩
        simpa using hc
    · cases h

/-- **C12.4c** On any other outcome an error is reported and no move is played: the game is
dropped, or it is the game the legality query returned (which is the game itself, C03.3). -/
theorem position_refusal_plays_nothing (g : Game) (s : List Char) (r : Option Game)
    (h : playMoves g [s] = (false, r)) : r = none ∨ r = some (g.getMoves true).2 := by
  unfold playMoves at h
  split at h
  · simp only [Prod.mk.injEq, true_and] at h; exact Or.inl h.symm
  · simp only at h
    split at h
    · split at h
      · simp only [Prod.mk.injEq, true_and] at h; exact Or.inl h.symm
      · simp [playMoves] at h
    · simp only [Prod.mk.injEq, true_and] at h; exact Or.inr h.symm

/-- **C12.4d** Conversely the text of every move of the checked list is accepted (below the
interface's game-length limit) and plays that move. -/
theorem position_accepts_legal_text (g : Game) (hw : g.WF) (m : Move) (hm : m ∈ (g.getMoves true).1)
    (hg : GenShape g m) (hlen : (g.pushHistory m).len < Gen.lenGuard) :
    playMoves g [m.uci] = (true, some (g.pushHistory m)) := by
  have hf := (Game.getMoves_fits hw true hm).1
  have hpure := Game.getMoves_pure hw true
  unfold playMoves
  rw [uci_roundtrip hf hg]
  simp only
  have hc : (g.getMoves true).1.contains m = true := by simpa using hm
  rw [hc, hpure]
  simp only [if_true]
  rw [if_neg (by omega)]
  simp [playMoves]

end Chess.Props.C12

#print axioms Chess.Props.C12.text_is_long_algebraic
#print axioms Chess.Props.C12.text_round_trips
#print axioms Chess.Props.C12.texts_are_distinct
#print axioms Chess.Props.C12.reader_never_aliases
#print axioms Chess.Props.C12.position_accepts_only_legal_text
#print axioms Chess.Props.C12.position_refusal_plays_nothing
#print axioms Chess.Props.C12.position_accepts_legal_text
