import Chess.Lemmas.Reach
import Chess.Lemmas.SpecSums

/-!
# C16 — the evaluation score is the piece-square sum of the board

`Spec.psq a e` = Σ over squares of sign(owner) × table(kind, phase e)[rank-flipped for White],
both kings by the table of the SAME phase; tables regenerated from `scores.rs` on every run.
-/
namespace Chess.Props.C16
open Chess

/-- **C16.1** In every reachable game — text import in any phase, moves played into the record
(across the switch into the endgame), search-style play/take-back — the incrementally maintained
score is the piece-square sum of the position under the phase in force. -/
theorem score_is_the_psq_sum {g : Game} (h : Reach g) : g.score = Spec.psq g.abs g.endgame :=
  wf_score_eq_spec (reach_wf h)

/-- **C16.2** A function of position and phase, not of the route. -/
theorem score_route_independent {g g' : Game} (h : Reach g) (h' : Reach g') (e : g.abs = g'.abs)
    (ep : g.endgame = g'.endgame) : g.score = g'.score :=
  Chess.score_route_independent (reach_wf h) (reach_wf h') e ep

/-- **C16.3** The colour-mirrored position has exactly the negated score, and the same material
phase test — for every position and every table contents. -/
theorem mirror_negates (a : Spec.APos) (e : Bool) :
    Spec.psq (Spec.mirror a) e = - Spec.psq a e ∧ Spec.lowMaterial (Spec.mirror a) e = Spec.lowMaterial a e :=
  ⟨Chess.mirror_negates a e, lowMaterial_mirror a e⟩

/-- the phase switch keeps the invariant (this is the step that failed on the pinned tree: the
kings were not re-scored when the king table was swapped) -/
theorem phase_switch_keeps_the_sum {g : Game} (h : g.WF) :
    g.updatePhase.score = Spec.psq g.updatePhase.abs g.updatePhase.endgame :=
  wf_score_eq_spec (Game.updatePhase_wf h)

end Chess.Props.C16

#print axioms Chess.Props.C16.score_is_the_psq_sum
#print axioms Chess.Props.C16.score_route_independent
#print axioms Chess.Props.C16.mirror_negates
#print axioms Chess.Props.C16.phase_switch_keeps_the_sum
