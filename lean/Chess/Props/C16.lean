import Chess.Lemmas.Reach
import Chess.Lemmas.SpecSums
import Chess.Lemmas.ScoreRangePop
import Chess.Lemmas.ScoreRangeExamples
import Chess.Lemmas.FnsEquiv.Piece

/-!
# C16 — the evaluation score is the piece-square sum of the board

`Spec.psq a e` = Σ over squares of sign(owner) × table(kind, phase e)[rank-flipped for White],
both kings by the table of the SAME phase; tables regenerated from `scores.rs` on every run.
-/
namespace Chess.Props.C16
open Chess

/-- **C16.1** In every reachable game — text import in any phase, moves played into the record
(across the switch into the endgame), search-style play/take-back — the incrementally maintained
score is the piece-square sum of the position under the phase in force. -/
theorem score_is_the_psq_sum {g : Game} (h : Reach g) : g.score = Spec.psq g.abs g.endgame :=
  wf_score_eq_spec (reach_wf h)

/-- **C16.2** A function of position and phase, not of the route. -/
theorem score_route_independent {g g' : Game} (h : Reach g) (h' : Reach g') (e : g.abs = g'.abs)
    (ep : g.endgame = g'.endgame) : g.score = g'.score :=
  Chess.score_route_independent (reach_wf h) (reach_wf h') e ep

/-- **C16.3** The colour-mirrored position has exactly the negated score, and the same material
phase test — for every position and every table contents. -/
theorem mirror_negates (a : Spec.APos) (e : Bool) :
    Spec.psq (Spec.mirror a) e = - Spec.psq a e ∧ Spec.lowMaterial (Spec.mirror a) e = Spec.lowMaterial a e :=
  ⟨Chess.mirror_negates a e, lowMaterial_mirror a e⟩

/-- the phase switch keeps the invariant (this is the step that failed on the pinned tree: the
kings were not re-scored when the king table was swapped) -/
theorem phase_switch_keeps_the_sum {g : Game} (h : g.WF) :
    g.updatePhase.score = Spec.psq g.updatePhase.abs g.updatePhase.endgame :=
  wf_score_eq_spec (Game.updatePhase_wf h)

/-- **C16.4 the 16-bit score never wraps.** The Rust score is an `i16` updated in place; the model
uses `Int`. In every reachable game the score is within ±30565 (one king, the reader's material
bound — preserved by every generated move — and the extreme entries of the regenerated tables). -/
theorem score_fits_i16 {g : Game} (h : Reach g) : -32768 ≤ g.score ∧ g.score ≤ 32767 :=
  Chess.Range.score_fits_i16 h

/-- **C16.5** … and so does every intermediate value of the incremental computation: each
`score -= old; score += new` half-step of every `set_position` of a push (checked or unchecked list,
so also the trial pushes of the legality filter), of the king re-scoring at the phase switch, of a
move played into the record, and of the take-back. -/
theorem every_intermediate_score_fits_i16 {g : Game} (h : Reach g) :
    (∀ b m, m ∈ (g.getMoves b).1 → ∀ s ∈ Chess.Range.pushTrace g m, -32768 ≤ s ∧ s ≤ 32767) ∧
    (∀ s ∈ Chess.Range.phaseTrace g, -32768 ≤ s ∧ s ≤ 32767) ∧
    (∀ m, m ∈ (g.getMoves true).1 → ∀ s ∈ Chess.Range.pushHistoryTrace g m, -32768 ≤ s ∧ s ≤ 32767) ∧
    (∀ b m, m ∈ (g.getMoves b).1 → ∀ v ∈ Chess.Range.popTrace (g.push m) m, -32768 ≤ v ∧ v ≤ 32767) :=
  ⟨fun _ _ hm => Chess.Range.push_intermediate_fits h hm, Chess.Range.updatePhase_intermediate_fits h,
   fun _ hm => Chess.Range.pushHistory_intermediate_fits h hm, fun _ _ hm => Chess.Range.pop_intermediate_fits h hm⟩

/-- the traces end in the model's own result: they are the traces of THIS computation -/
theorem trace_ends_in_the_score (g : Game) (m : Move) :
    ((Chess.Range.pushTrace g m).getLast?).getD g.score = (g.push m).score :=
  Chess.Range.pushTrace_getLast g m

/-- the material bound is needed: a board the reader refuses has a score beyond `i16` -/
theorem material_bound_needed :
    ∃ g : Game, g.score = sumAll g.pastScores ∧ Chess.Range.CacheBounded g.board g.pastScores
      ∧ ¬ Chess.Range.MaterialInv g ∧ ¬ (g.score ≤ 32767) :=
  Chess.Range.material_hypothesis_needed

end Chess.Props.C16

#print axioms Chess.Props.C16.score_is_the_psq_sum
#print axioms Chess.Props.C16.score_route_independent
#print axioms Chess.Props.C16.mirror_negates
#print axioms Chess.Props.C16.phase_switch_keeps_the_sum
#print axioms Chess.Props.C16.score_fits_i16
#print axioms Chess.Props.C16.every_intermediate_score_fits_i16
#print axioms Chess.Props.C16.material_bound_needed

/-! ### Translation tie (C16.T)
`tools/translate.py` regenerates `Chess/Gen/Fns.lean` from the Rust text of the leaf functions on every run (a
parser, not patterns); the theorems below — proved in `Chess/Lemmas/FnsEquiv/*` and re-checked by the kernel whenever
the generated term changes — say that the TRANSLATED code equals the hand-written model this file's theorems are
about, for `Piece::score` on the engine's own tables in both phases (rank flip for White, sign by owner), the material values and the endgame threshold. A rewrite of the Rust text that keeps the meaning leaves them true; one that changes it breaks the
theorem named after the function. -/
#print axioms Chess.FnsEquiv.Piece_score_eq
#print axioms Chess.FnsEquiv.PieceType_material_value_eq
#print axioms Chess.FnsEquiv.Piece_material_value_eq
#print axioms Chess.FnsEquiv.ENDGAME_THRESHOLD_eq
