import Chess.Lemmas.Reach
import Chess.Lemmas.SearchF

/-!
# C07 — a stop request at any moment still yields a legal move

The stop flag is an arbitrary oracle `runs : Nat → Bool` on the index of the node-entry poll — in
particular one that is false from the very first poll (stop before the first iteration completes).
"Promptly" in wall-clock terms is outside the model (the un-polled depth-1/quiescence subtree in
progress finishes first); what is proved is that nothing is polled or expanded after the first
poll that sees the flag cleared.
-/
namespace Chess.Props.C07
open Chess Chess.Search

variable {G M : Type} [DecidableEq M]

/-- **C07.1** For EVERY stop schedule and every table: if the position has a legal move, a move is
reported (never `bestmove none`). No hypothesis at all. -/
theorem stop_anytime_still_a_move (o : Ops G M) (runs : Nat → Bool) (g : G) (tt : Table M)
    (off : Bool) (md : Option Nat) (h : o.checked g ≠ []) : (driver o runs g tt off md).found.isSome :=
  driver_found_of_moves o runs g tt off md h

/-- **C07.2** …and that move is legal (under the hypotheses of C06). -/
theorem stop_anytime_move_legal {o : Ops G M} {P : G → Prop} (hH : HashOk o P) (hC : Closed o P)
    (runs : Nat → Bool) (g : G) (tt : Table M) (off : Bool) (md : Option Nat) (hP : P g) (hT : TTInv o P tt) :
    ∀ m, (driver o runs g tt off md).found = some m → m ∈ o.checked g :=
  (driver_sound hH hC runs g tt off md hP hT).2

/-- **C07.3** A node aborts exactly at the FIRST poll that sees the flag cleared: every poll before
it saw the flag set, and (the abort being propagated by every caller without calling anything
else) nothing is polled after it. -/
theorem abort_at_first_cleared_poll (o : Ops G M) (runs : Nat → Bool) (remaining : Nat) (g : G)
    (α β rd : Int) (st : St M) (h : node o runs remaining g α β rd st = none) :
    ∃ i, st.polls ≤ i ∧ runs i = false ∧ ∀ j, st.polls ≤ j → j < i → runs j = true :=
  node_none_stopped o runs remaining g α β rd st h

/-- **C07.4** A node that answers only ever polled a set flag; the driver stops only on a cleared flag. -/
theorem answered_means_never_stopped (o : Ops G M) (runs : Nat → Bool) (g : G) (tt : Table M) (off : Bool)
    (md : Option Nat) :
    (∀ i, i < (driver o runs g tt off md).st.polls → runs i = true) ∧
    ((driver o runs g tt off md).stopped = true → ∃ i, runs i = false) :=
  ⟨driver_polled o runs g tt off md, driver_stopped o runs g tt off md⟩

/-- chess: `go` immediately followed by `stop` in any well-formed game with a legal move -/
example (g : Game) (tt : Table Move) (h : (g.getMoves true).1 ≠ []) :
    (driver Uci.chessOps (fun _ => false) g tt false none).found.isSome :=
  stop_anytime_still_a_move Uci.chessOps _ g tt false none h


/-! ### The faithful model (`driverF`) -/
open Chess.Search.F in
/-- **C07.5** The same for the model that keeps the aborted iteration's table: a move whenever one
exists; the abort happens at the first cleared poll and the poll counter of the returned state IS
that index (nothing polled afterwards). -/
theorem faithful_stop_anytime (o : Ops G M) (runs : Nat → Bool) (g : G) (tt : Table M)
    (off : Bool) (md : Option Nat) :
    (o.checked g ≠ [] → (driverF o runs g tt off md).found.isSome) ∧
    ((driverF o runs g tt off md).stopped = true → runs (driverF o runs g tt off md).st.polls = false) ∧
    (∀ i, i < (driverF o runs g tt off md).st.polls → runs i = true) :=
  ⟨driverF_found_of_moves o runs g tt off md, (driverF_stop_semantics o runs g tt off md).2.1,
    (driverF_stop_semantics o runs g tt off md).2.2⟩

open Chess.Search.F in
theorem faithful_abort_at_first_cleared_poll (o : Ops G M) (runs : Nat → Bool) (remaining : Nat) (g : G)
    (α β rd : Int) (st : St M) (h : (nodeF o runs remaining g α β rd st).2 = none) :
    ∃ i, st.polls ≤ i ∧ runs i = false ∧ (∀ j, st.polls ≤ j → j < i → runs j = true) ∧
      (nodeF o runs remaining g α β rd st).1.polls = i :=
  nodeF_abort_first_cleared o runs remaining g α β rd st h

end Chess.Props.C07

#print axioms Chess.Props.C07.stop_anytime_still_a_move
#print axioms Chess.Props.C07.stop_anytime_move_legal
#print axioms Chess.Props.C07.abort_at_first_cleared_poll
#print axioms Chess.Props.C07.answered_means_never_stopped
#print axioms Chess.Props.C07.faithful_stop_anytime
#print axioms Chess.Props.C07.faithful_abort_at_first_cleared_poll
