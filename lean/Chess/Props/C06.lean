import Chess.Lemmas.Reach
import Chess.Lemmas.SearchF

/-!
# C06 — the move the engine announces is always legal

Stated for every game interface and instantiated for chess. `P` = admissible positions (for chess:
the well-formed games, closed under legal play by `chess_closed`). Named hypothesis, never an
axiom: `HashOk` (`ZobristOk` for chess) — no two admissible positions with different move lists
share a hash; the cached best move of a hash is returned without re-validation, so this cannot be
dropped (`Search.driver_returns_cached_move`).
-/
namespace Chess.Props.C06
open Chess Chess.Search

variable {G M : Type} [DecidableEq M]

/-- **C06.1** Whatever table earlier searches left (any history sharing it: other positions of
the game, other games, deeper or shallower limits, stopped or not), a reported move is a checked
move of the position asked about, and the table keeps the invariant for the next search. -/
theorem announced_move_is_legal {o : Ops G M} {P : G → Prop} (hH : HashOk o P) (hC : Closed o P)
    (runs : Nat → Bool) (g : G) (tt : Table M) (off : Bool) (md : Option Nat) (hP : P g) (hT : TTInv o P tt) :
    let out := driver o runs g tt off md
    TTInv o P out.st.tt ∧ ∀ m, out.found = some m → m ∈ o.checked g :=
  driver_sound hH hC runs g tt off md hP hT

/-- **C06.2** No move is reported exactly when the position has no legal move. -/
theorem no_move_iff_none_exists {o : Ops G M} {P : G → Prop} (hH : HashOk o P) (hC : Closed o P)
    (runs : Nat → Bool) (g : G) (tt : Table M) (off : Bool) (md : Option Nat) (hP : P g) (hT : TTInv o P tt) :
    (driver o runs g tt off md).found = none ↔ o.checked g = [] :=
  driver_none_iff hH hC runs g tt off md hP hT

/-- **C06.3** From the empty table (fresh engine / `ucinewgame`), after ANY history of searches
of admissible positions, the next search reports a legal move, or none iff there is none. -/
theorem after_any_history {o : Ops G M} {P : G → Prop} (hH : HashOk o P) (hC : Closed o P)
    (reqs : List (Req G)) (hreqs : ∀ r ∈ reqs, P r.g) (r : Req G) (hP : P r.g) :
    let out := driver o r.runs r.g (tableAfter o {} reqs) r.off r.md
    (∀ m, out.found = some m → m ∈ o.checked r.g) ∧ (out.found = none ↔ o.checked r.g = []) :=
  let h := session_sound hH hC reqs hreqs r hP
  ⟨h.1, h.2.1⟩

/-- the chess instance: positions = well-formed games (every reachable game is one, `reach_wf`) -/
theorem chess_after_any_history (hZ : ZobristOk) (reqs : List (Req Game)) (hreqs : ∀ r ∈ reqs, Reach r.g)
    (r : Req Game) (hr : Reach r.g) :
    let out := driver Uci.chessOps r.runs r.g (tableAfter Uci.chessOps {} reqs) r.off r.md
    (∀ m, out.found = some m → m ∈ (r.g.getMoves true).1) ∧ (out.found = none ↔ (r.g.getMoves true).1 = []) :=
  after_any_history hZ chess_closed reqs (fun q hq => reach_wf (hreqs q hq)) r (reach_wf hr)


/-! ### The faithful model (`driverF`: the table keeps what an ABORTED iteration stored, as the
Rust table does; this is the model the correspondence check runs) -/
open Chess.Search.F in
/-- **C06.4** After any history of searches each of which may have been stopped at any poll, the
next search — stopped or not — reports a legal move, none iff there is none, and hands on a table
that still satisfies the invariant. -/
theorem faithful_after_any_history {o : Ops G M} {P : G → Prop} (hH : HashOk o P) (hC : Closed o P)
    (reqs : List (Req G)) (hreqs : ∀ r ∈ reqs, P r.g) (r : Req G) (hP : P r.g) :
    let out := driverF o r.runs r.g (tableAfterF o {} reqs) r.off r.md
    (∀ m, out.found = some m → m ∈ o.checked r.g) ∧ (out.found = none ↔ o.checked r.g = []) ∧
      (∀ info ∈ out.infos, LegalLine o r.g info.pv) ∧ TTInv o P out.st.tt :=
  sessionF_sound hH hC reqs hreqs r hP

open Chess.Search.F in
theorem chess_faithful_after_any_history (hZ : ZobristOk) (reqs : List (Req Game))
    (hreqs : ∀ r ∈ reqs, Reach r.g) (r : Req Game) (hr : Reach r.g) :
    let out := driverF Uci.chessOps r.runs r.g (tableAfterF Uci.chessOps {} reqs) r.off r.md
    (∀ m, out.found = some m → m ∈ (r.g.getMoves true).1) ∧ (out.found = none ↔ (r.g.getMoves true).1 = []) :=
  let h := sessionF_sound hZ chess_closed reqs (fun q hq => reach_wf (hreqs q hq)) r (reach_wf hr)
  ⟨h.1, h.2.1⟩

end Chess.Props.C06

#print axioms Chess.Props.C06.announced_move_is_legal
#print axioms Chess.Props.C06.no_move_iff_none_exists
#print axioms Chess.Props.C06.after_any_history
#print axioms Chess.Props.C06.chess_after_any_history
#print axioms Chess.Props.C06.faithful_after_any_history
#print axioms Chess.Props.C06.chess_faithful_after_any_history
