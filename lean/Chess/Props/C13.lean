import Chess.Lemmas.Budget
import Chess.Lemmas.Go
import Chess.Lemmas.ShareF64

/-!
# C13 — thinking time never exceeds the time available

`Uci.budget` mirrors the arithmetic of `command_go` (extracted constants: latency allowance
`Gen.latencyMs`, sleep cut `Gen.sleepCutMs`); its parameter `share` is the float expression
`(w as f64 * 0.02) as u64`, which `Chess/Model/Share.lean` models EXACTLY (`Share.shareF64`:
u64→binary64 conversion, product with the binary64 literal, both round-to-nearest-even, truncating
cast) — validated against real doubles by `tools/share_check.py` and against the engine's
`info time` by the correspondence check. The bounds C13.1/2/4 hold for EVERY `share`; monotonicity
and the low-clock statements are proved for `shareF64` itself (the former hypothesis `ShareOK` is
now the theorem `Share.shareOK_f64`). The binary64 literal is tied to the source: the extractor
computes significand and exponent of the text of `FRACTION_OF_TOTAL_TIME` and `fraction_is_the_source_literal`
compares them with the constants of the model. All statements quantify over all natural numbers,
hence all `u64` clock values.
-/
namespace Chess.Props.C13
open Chess Chess.Uci

/-- **C13.1** With all four clock parameters the allotted time leaves the latency allowance and
the sleep cut inside the mover's own clock — for every clock, increment and `share`. -/
theorem allotment_le_own_clock {wt bt wi bi t : Nat} {infinite : Bool} {side : Player} {share : Nat → Nat}
    (h : budget (some wt) (some bt) (some wi) (some bi) none infinite side share = some t) :
    t ≤ ownClock side wt bt - Gen.latencyMs - Gen.sleepCutMs ∧ t ≤ ownClock side wt bt :=
  ⟨budget_le_clock_sub h, budget_le_clock h⟩

/-- **C13.2** A fixed move time is never exceeded. -/
theorem allotment_le_movetime {wtime btime winc binc : Option Nat} {mt t : Nat} {infinite : Bool}
    {side : Player} {share : Nat → Nat}
    (h : budget wtime btime winc binc (some mt) infinite side share = some t) : t ≤ mt :=
  budget_le_movetime h

/-- **C13.3** A smaller clock never yields a larger allotment (low clocks shorten thinking). -/
theorem allotment_monotone {share : Nat → Nat} (hs : ShareOK share) {wt wt' bt bt' wi bi : Nat}
    {side : Player} (hle : ownClock side wt bt ≤ ownClock side wt' bt') {infinite : Bool} {t t' : Nat}
    (h : budget (some wt) (some bt) (some wi) (some bi) none infinite side share = some t)
    (h' : budget (some wt') (some bt') (some wi) (some bi) none infinite side share = some t') :
    t ≤ t' :=
  budget_monotone hs hle h h'

/-- **C13.4** No overflow or underflow: every intermediate value fits `u64` (the only subtractions
are saturating), and the result is finite. -/
theorem allotment_fits_u64 {wtime btime winc binc movetime : Option Nat} {infinite : Bool}
    {side : Player} {share : Nat → Nat} {t : Nat}
    (hw : ∀ w, wtime = some w → w ≤ u64Max) (hb : ∀ w, btime = some w → w ≤ u64Max)
    (hm : ∀ w, movetime = some w → w ≤ u64Max)
    (h : budget wtime btime winc binc movetime infinite side share = some t) : t ≤ u64Max :=
  budget_result_fits_u64 hw hb hm h

/-- **C13.5** Below 7.5 s without increment the allotment is zero, not 2⁶⁴ − 135 ms. -/
theorem low_clock_gives_zero {wt bt bi : Nat} (h : wt < 7500) :
    budget (some wt) (some bt) (some 0) (some bi) none false .white (· / 50) = some 0 :=
  budget_low_clock_shortens h

/-- the timer is absent exactly for `infinite` or an incomplete clock without move time -/
theorem no_timer_iff (wtime btime winc binc movetime : Option Nat) (infinite : Bool)
    (side : Player) (share : Nat → Nat) :
    budget wtime btime winc binc movetime infinite side share = none ↔
      infinite = true ∨ (movetime = none ∧ (wtime = none ∨ btime = none ∨ winc = none ∨ binc = none)) :=
  budget_none_iff wtime btime winc binc movetime infinite side share

open Chess.Share in
/-- **C13.3′** Monotone for the engine's own float expression, no hypothesis left. -/
theorem allotment_monotone_f64 {wt wt' bt bt' wi bi : Nat}
    {side : Player} (hle : ownClock side wt bt ≤ ownClock side wt' bt') {infinite : Bool} {t t' : Nat}
    (h : budget (some wt) (some bt) (some wi) (some bi) none infinite side shareF64 = some t)
    (h' : budget (some wt') (some bt') (some wi) (some bi) none infinite side shareF64 = some t') :
    t ≤ t' :=
  budget_monotone_f64 hle h h'

open Chess.Share in
/-- **C13.5′** Below 7.5 s without increment the allotment is zero — with the float expression. -/
theorem low_clock_gives_zero_f64 {wt bt bi : Nat} (h : wt < 7500) :
    budget (some wt) (some bt) (some 0) (some bi) none false .white shareF64 = some 0 :=
  budget_low_clock_shortens_f64 h

open Chess.Share in
/-- the float expression never exceeds its argument, is monotone, is `w / 50` exactly below 2^53 ms
and within +61/−54 of it on all of `u64` -/
theorem float_share_facts :
    (∀ w, shareF64 w ≤ w) ∧ (∀ a b, a ≤ b → shareF64 a ≤ shareF64 b) ∧
    (∀ w, w < 2 ^ 53 → shareF64 w = w / 50) ∧
    (∀ w, w < 2 ^ 64 → w / 50 ≤ shareF64 w + 54 ∧ shareF64 w ≤ w / 50 + 61) :=
  ⟨shareF64_le, shareF64_mono, fun _ h => shareF64_eq_div50 h, fun _ h => shareF64_near_u64 h⟩

/-- the binary64 value of the source's literal (regenerated on every run) is the model's constant -/
theorem fraction_is_the_source_literal :
    Share.c002 = Gen.fractionMant ∧ Share.c002Exp = Gen.fractionExp := by decide

/-- **C13.6 over the raw command.** `goArgs` is the argument loop of `command_go` (keywords, values,
resets, overrides, junk — `Chess/Model/Go.lean`). For EVERY list of words after `go`: an armed
timer is armed for at most the understood move time, else for at most the mover's own clock less
the latency allowance and the sleep cut; the value is a `u64`; `infinite` arms none. -/
theorem raw_command_bounded (words : List (List Char)) (side : Player) (share : Nat → Nat) {t : Nat}
    (h : goBudget words side share = some t) :
    (∀ mt, (goArgs words).movetime = some mt → t ≤ mt) ∧
    ((goArgs words).movetime = none → ∃ wt bt, (goArgs words).wtime = some wt ∧ (goArgs words).btime = some bt ∧
        t ≤ ownClock side wt bt - Gen.latencyMs - Gen.sleepCutMs) ∧
    t ≤ u64Max ∧ (goArgs words).infinite = false :=
  goBudget_bounded words side share h

/-- every value the loop understands is a value of its Rust type, whatever the words -/
theorem raw_arguments_fit (words : List (List Char)) : (goArgs words).Fit := goArgs_fit words

-- non-vacuity
example : goBudget (splitWs "wtime 60000 btime 60000 winc 1000 binc 1000 wtime 30000".toList) .white (· / 50)
    = some 1445 := by decide
example : ShareOK (· / 50) := shareOK_div50
example : budget (some 60000) (some 60000) (some 1000) (some 1000) none false .white (· / 50) = some 2045 := by decide
example : budget (some 1000) (some 1000) (some 0) (some 0) none false .white (· / 50) = some 0 := by decide
example : budget (some 100) (some 100) (some 5000) (some 5000) none false .black (· / 50) = some 0 := by decide

end Chess.Props.C13

#print axioms Chess.Props.C13.allotment_le_own_clock
#print axioms Chess.Props.C13.allotment_le_movetime
#print axioms Chess.Props.C13.allotment_monotone
#print axioms Chess.Props.C13.allotment_fits_u64
#print axioms Chess.Props.C13.low_clock_gives_zero
#print axioms Chess.Props.C13.no_timer_iff
#print axioms Chess.Props.C13.raw_command_bounded
#print axioms Chess.Props.C13.raw_arguments_fit
#print axioms Chess.Props.C13.allotment_monotone_f64
#print axioms Chess.Props.C13.low_clock_gives_zero_f64
#print axioms Chess.Props.C13.float_share_facts
#print axioms Chess.Props.C13.fraction_is_the_source_literal
