import Chess.Lemmas.Reach
import Chess.Lemmas.SearchF

/-!
# C18 — reported principal variations are playable lines
-/
namespace Chess.Props.C18
open Chess Chess.Search

variable {G M : Type} [DecidableEq M]

/-- **C18.1** Every `info pv` line is a sequence of moves each of which is a checked (legal) move
in the position reached so far — for every table satisfying the invariant (C06 shows every table
reachable from the empty one does). Hypotheses as in C06 (`HashOk` is the Zobrist hypothesis). -/
theorem pv_lines_are_playable {o : Ops G M} {P : G → Prop} (hH : HashOk o P) (hC : Closed o P)
    (runs : Nat → Bool) (g : G) (tt : Table M) (off : Bool) (md : Option Nat) (hP : P g) (hT : TTInv o P tt) :
    ∀ info ∈ (driver o runs g tt off md).infos, LegalLine o g info.pv :=
  driver_pv_legal hH hC runs g tt off md hP hT

/-- **C18.2** After any history of searches from the empty table. -/
theorem pv_lines_playable_after_any_history {o : Ops G M} {P : G → Prop} (hH : HashOk o P) (hC : Closed o P)
    (reqs : List (Req G)) (hreqs : ∀ r ∈ reqs, P r.g) (r : Req G) (hP : P r.g) :
    ∀ info ∈ (driver o r.runs r.g (tableAfter o {} reqs) r.off r.md).infos, LegalLine o r.g info.pv :=
  (session_sound hH hC reqs hreqs r hP).2.2

/-- chess instance -/
theorem chess_pv_playable (hZ : ZobristOk) (reqs : List (Req Game)) (hreqs : ∀ r ∈ reqs, Reach r.g)
    (r : Req Game) (hr : Reach r.g) :
    ∀ info ∈ (driver Uci.chessOps r.runs r.g (tableAfter Uci.chessOps {} reqs) r.off r.md).infos,
      LegalLine Uci.chessOps r.g info.pv :=
  pv_lines_playable_after_any_history hZ chess_closed reqs (fun q hq => reach_wf (hreqs q hq)) r (reach_wf hr)


/-! ### The faithful model (`driverF`) -/
open Chess.Search.F in
/-- **C18.3** PV lines are playable after any history of searches any of which may have been stopped. -/
theorem faithful_pv_playable {o : Ops G M} {P : G → Prop} (hH : HashOk o P) (hC : Closed o P)
    (reqs : List (Req G)) (hreqs : ∀ r ∈ reqs, P r.g) (r : Req G) (hP : P r.g) :
    ∀ info ∈ (driverF o r.runs r.g (tableAfterF o {} reqs) r.off r.md).infos, LegalLine o r.g info.pv :=
  (sessionF_sound hH hC reqs hreqs r hP).2.2.1

end Chess.Props.C18

#print axioms Chess.Props.C18.pv_lines_are_playable
#print axioms Chess.Props.C18.pv_lines_playable_after_any_history
#print axioms Chess.Props.C18.chess_pv_playable
#print axioms Chess.Props.C18.faithful_pv_playable
