import Chess.Lemmas.MoveText
import Chess.Lemmas.FnsEquiv.Letters

/-!
# C20 — the board display and move record show what was actually played
-/
namespace Chess.Props.C20
open Chess

/-- **C20.1** Every entry of the move record is, for every move kind, exactly: piece letter
(`K Q R B N`, none for pawns), origin file, `x` iff it captured, destination square, and on
promotion `=` and the letter of the piece ACTUALLY promoted to; castling `O-O`/`O-O-O`.
(`specPgn` is written with explicit matches; the engine's letter tables are the extracted ones,
so a wrong letter in the source makes this theorem fail.) -/
theorem record_entry_is_what_was_played (m : Move) (hb : OnBoard m) : Move.pgn m = specPgn m :=
  pgn_entry_spec m hb

/-- every move that fits a game is on the board, so its entry is the specified one -/
theorem record_entry_of_played {g : Game} {m : Move} (h : g.Fits m) : Move.pgn m = specPgn m :=
  pgn_entry_spec_fits h

/-- the promotion letter of the record identifies the piece promoted to -/
theorem promotion_letter_identifies {t t' : PieceType}
    (h : t = .queen ∨ t = .rook ∨ t = .bishop ∨ t = .knight)
    (h' : t' = .queen ∨ t' = .rook ∨ t' = .bishop ∨ t' = .knight)
    (e : pgnPromoLetter t = pgnPromoLetter t') : t = t' :=
  pgnPromoLetter_inj h h' e

/-- **C20.2** The printed record is the numbered list of the entries of the moves given to
`push_history`, in the order played; search-style play/take-back never alters it. -/
theorem record_grows_by_the_move_played (g : Game) (m : Move) :
    (g.pushHistory m).pgn = g.pgn ++ recordEntry g.moveStack.length m :=
  pgn_pushHistory g m

theorem record_untouched_by_search (g : Game) (m : Move) : (g.push m).pgn = g.pgn ∧ (g.pop m).pgn = g.pgn :=
  ⟨pgn_push g m, pgn_pop g m⟩

/-- **C20.3** `show` prints the hash of the game in hexadecimal, its FEN and its record, then the
diagram of its board (rank 8 on top): all four are projections of the one current game. -/
theorem show_is_the_current_game (g : Game) :
    g.show = ['\n'] ++ "Hash: ".toList ++ hexUpper g.hash ++ ['\n'] ++ "Fen: ".toList ++ g.fen ++ ['\n']
      ++ "PGN: ".toList ++ g.pgn ++ ['\n', '\n'] ++ g.diagram := rfl

-- non-vacuity: concrete entries (the two that the pinned code got wrong, and a capture)
example : Move.pgn (.promotion .white .bishop ⟨6, 0⟩ ⟨7, 1⟩ (some ⟨.knight, .black⟩)) = "axb8=B".toList := by decide
example : Move.pgn (.promotion .white .knight ⟨6, 0⟩ ⟨7, 0⟩ none) = "aa8=N".toList := by decide
example : Move.pgn (.normal ⟨.knight, .white⟩ ⟨0, 6⟩ ⟨2, 5⟩ none) = "Ngf3".toList := by decide

end Chess.Props.C20

#print axioms Chess.Props.C20.record_entry_is_what_was_played
#print axioms Chess.Props.C20.record_entry_of_played
#print axioms Chess.Props.C20.promotion_letter_identifies
#print axioms Chess.Props.C20.record_grows_by_the_move_played
#print axioms Chess.Props.C20.record_untouched_by_search
#print axioms Chess.Props.C20.show_is_the_current_game

/-! ### Translation tie (C20.T)
`tools/translate.py` regenerates `Chess/Gen/Fns.lean` from the Rust text of the leaf functions on every run (a
parser, not patterns); the theorems below — proved in `Chess/Lemmas/FnsEquiv/*` and re-checked by the kernel whenever
the generated term changes — say that the TRANSLATED code equals the hand-written model and the generated tables this
file's theorems are about, for the piece letters of the move record (`as_str_pgn`) and the glyphs of the diagram (`as_char`, both colours). A rewrite of the Rust text that keeps the meaning leaves them true; one that
changes it breaks the theorem named after the function. -/
#print axioms Chess.FnsEquiv.Piece_as_str_pgn_eq
#print axioms Chess.FnsEquiv.Piece_as_str_pgn_table
#print axioms Chess.FnsEquiv.Piece_as_char_eq
#print axioms Chess.FnsEquiv.Piece_as_char_table
