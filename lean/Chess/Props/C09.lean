import Chess.Lemmas.AlphaBeta
import Chess.Lemmas.AlphaBetaClamp
import Chess.Model.Uci
import Chess.Lemmas.FnsEquiv.Move
import Chess.Lemmas.FnsEquiv.Piece
import Chess.Lemmas.FnsEquiv.Search

/-!
# C09 — pruning and move ordering never change the search result

Reference: `Search.refRoot` / `refNode` / `refD1` / `refQ` (`Chess/Spec/Negamax.lean`): unpruned,
unordered negamax over the same game interface with the engine's leaf rule. The theorems hold for
EVERY game interface `Ops G M` (every game tree, not only chess), every ordering key, every
killer/history/table-move state; `st.ttOff = true` is the state in which the hook empties the
table at every poll (no lookup ever hits at a node).

Hypotheses, all predicates on the tree that is searched (never global assumptions):
* `RootInRange`: below every root move the tree is `Tame` — no node reached inside quiescence has an
  empty move list while its static evaluation exceeds its no-move value (there the engine's
  stand-pat cut-off precedes the no-move rule, so no window-independent value exists; the property
  text excludes those trees) and no child value falls below `scoreMin` — and no root move scores
  above `scoreMax` (the 16-bit score range).
-/
namespace Chess.Props.C09
open Chess Chess.Search

variable {G M : Type} [DecidableEq M]

/-- **C09.1** The optimised root search returns exactly the unpruned negamax value. -/
theorem pruned_equals_exhaustive (o : Ops G M) (g : G) (depth : Nat) (st : St M)
    (hlen : (o.checked g).length ≠ 1) (ht : st.ttOff = true)
    (hmiss : ∀ e, st.tt[o.hash g]? = some e → ¬(e.depth ≥ depth ∧ e.flag = Flag.exact))
    (hT : RootInRange o depth g) :
    ∃ bm st', rootSearch o (fun _ => true) g depth st = some ((bm, refRoot o depth g, false), st') ∧
      st'.ttOff = true :=
  root_exact o g depth st hlen ht hmiss hT

/-- **C09.2** Interior nodes: for a proper window inside the score range the result lies between
the true value and its clamp into the window (exact when the value is inside the window). -/
theorem node_window_sound (o : Ops G M) (remaining : Nat) (g : G) (α β rd : Int) (st : St M)
    (hαβ : α < β) (hα : scoreMin ≤ α) (hβ : β ≤ -scoreMin) (ht : st.ttOff = true)
    (hT : Tame o remaining g rd) :
    ∃ r st', node o (fun _ => true) remaining g α β rd st = some (r, st') ∧ st'.ttOff = true ∧
      R α β (refNode o remaining g rd) r :=
  node_sound o remaining g α β rd st hαβ hα hβ ht hT

/-- **C09.3** Killer moves, history counters, the table move and the poll count are pure
optimisations: any two table-off start states give the same score. -/
theorem ordering_state_irrelevant (o : Ops G M) (g : G) (depth : Nat) (st₁ st₂ : St M)
    (hlen : (o.checked g).length ≠ 1) (ht₁ : st₁.ttOff = true) (ht₂ : st₂.ttOff = true)
    (hmiss₁ : ∀ e, st₁.tt[o.hash g]? = some e → ¬(e.depth ≥ depth ∧ e.flag = Flag.exact))
    (hmiss₂ : ∀ e, st₂.tt[o.hash g]? = some e → ¬(e.depth ≥ depth ∧ e.flag = Flag.exact))
    (hT : RootInRange o depth g) :
    ∃ bm₁ bm₂ s st₁' st₂',
      rootSearch o (fun _ => true) g depth st₁ = some ((bm₁, s, false), st₁') ∧
      rootSearch o (fun _ => true) g depth st₂ = some ((bm₂, s, false), st₂') :=
  root_order_independent o g depth st₁ st₂ hlen ht₁ ht₂ hmiss₁ hmiss₂ hT

/-- **C09.4** The value does not depend on the order in which moves happen to be generated or
tried: permute every position's move lists and change hash, history index and ordering key at
will — both searches return the negamax value of the original game. -/
theorem generation_order_irrelevant {o o' : Ops G M} (h : Reordered o o') (hrep : o'.repetition = o.repetition)
    (g : G) (depth : Nat) (st st' : St M)
    (hlen : (o.checked g).length ≠ 1) (ht : st.ttOff = true) (ht' : st'.ttOff = true)
    (hmiss : ∀ e, st.tt[o.hash g]? = some e → ¬(e.depth ≥ depth ∧ e.flag = Flag.exact))
    (hmiss' : ∀ e, st'.tt[o'.hash g]? = some e → ¬(e.depth ≥ depth ∧ e.flag = Flag.exact))
    (hT : RootInRange o depth g) :
    ∃ bm bm' s s',
      rootSearch o (fun _ => true) g depth st = some ((bm, refRoot o depth g, false), s) ∧
      rootSearch o' (fun _ => true) g depth st' = some ((bm', refRoot o depth g, false), s') :=
  root_reordered h hrep g depth st st' hlen ht ht' hmiss hmiss' hT

/-- **C09.5** The general statement, which covers chess trees as they are: below depth 2 the
engine uses unchecked move lists, so king captures occur and leave a side to move without a king
and without moves INSIDE quiescence, where the stand-pat cut-off precedes the no-move rule. If every
such dead quiescence node is hopeless for the side to move (`eval ≤ -K` and its no-move value
`≤ -K`: `RootInRangeK`), the optimised search and the exhaustive reference agree after clamping
both into `[-K, K]` — i.e. exactly, whenever the value is not in the king-capture range. -/
theorem pruned_equals_exhaustive_clamped (K : Int) (hK : 0 ≤ K) (o : Ops G M) (g : G) (depth : Nat) (st : St M)
    (hlen : (o.checked g).length ≠ 1) (ht : st.ttOff = true)
    (hmiss : ∀ e, st.tt[o.hash g]? = some e → ¬(e.depth ≥ depth ∧ e.flag = Flag.exact))
    (hT : RootInRangeK K o depth g) :
    ∃ bm sc st', rootSearch o (fun _ => true) g depth st = some ((bm, sc, false), st') ∧
      st'.ttOff = true ∧ clampK K sc = clampK K (refRoot o depth g) :=
  root_exact_clamped K hK o g depth st hlen ht hmiss hT

theorem pruned_equals_exhaustive_inside (K : Int) (hK : 0 ≤ K) (o : Ops G M) (g : G) (depth : Nat) (st : St M)
    (hlen : (o.checked g).length ≠ 1) (ht : st.ttOff = true)
    (hmiss : ∀ e, st.tt[o.hash g]? = some e → ¬(e.depth ≥ depth ∧ e.flag = Flag.exact))
    (hT : RootInRangeK K o depth g) (h1 : -K < refRoot o depth g) (h2 : refRoot o depth g < K) :
    ∃ bm st', rootSearch o (fun _ => true) g depth st = some ((bm, refRoot o depth g, false), st') ∧
      st'.ttOff = true :=
  root_exact_of_inside K hK o g depth st hlen ht hmiss hT h1 h2

/-- the hypotheses are decidable on a concrete tree: the Boolean checker the correspondence check
runs on every chess tree it compares -/
theorem hypotheses_checkable (K : Int) (o : Ops G M) (depth : Nat) (g : G)
    (h : rootInRangeKB K o depth g = true) : RootInRangeK K o depth g :=
  rootInRangeKB_sound K o depth g h

/-- the chess engine is an instance: the theorem applies to `Uci.chessOps` as it stands -/
example (g : Game) (depth : Nat) (st : St Move)
    (hlen : (Uci.chessOps.checked g).length ≠ 1) (ht : st.ttOff = true)
    (hmiss : ∀ e, st.tt[Uci.chessOps.hash g]? = some e → ¬(e.depth ≥ depth ∧ e.flag = Flag.exact))
    (hT : RootInRange Uci.chessOps depth g) :
    ∃ bm st', rootSearch Uci.chessOps (fun _ => true) g depth st
      = some ((bm, refRoot Uci.chessOps depth g, false), st') ∧ st'.ttOff = true :=
  pruned_equals_exhaustive _ g depth st hlen ht hmiss hT

/-- non-vacuity: a concrete 5-ary tree meets the hypotheses (kernel-checked) and has value 10 -/
example : RootInRange Search.Example.ex 4 [] ∧ refRoot Search.Example.ex 4 [] = 10 :=
  ⟨Search.Example.ex_root, Search.Example.ex_refRoot.1⟩

end Chess.Props.C09

#print axioms Chess.Props.C09.pruned_equals_exhaustive
#print axioms Chess.Props.C09.node_window_sound
#print axioms Chess.Props.C09.ordering_state_irrelevant
#print axioms Chess.Props.C09.generation_order_irrelevant
#print axioms Chess.Props.C09.pruned_equals_exhaustive_clamped
#print axioms Chess.Props.C09.pruned_equals_exhaustive_inside
#print axioms Chess.Props.C09.hypotheses_checkable

/-! ### Translation tie (C09.T)
`tools/translate.py` regenerates `Chess/Gen/Fns.lean` from the Rust text of the leaf functions on every run (a
parser, not patterns); the theorems below — proved in `Chess/Lemmas/FnsEquiv/*` and re-checked by the kernel whenever
the generated term changes — say that the TRANSLATED code equals the hand-written model this file's theorems are
about, for the ordering key (`move_score`) and the selection of capture-search moves (`Move::is_tactical_move`). A rewrite of the Rust text that keeps the meaning leaves them true; one that changes it breaks the
theorem named after the function. -/
#print axioms Chess.FnsEquiv.Move_is_tactical_move_eq
#print axioms Chess.FnsEquiv.move_score_eq
#print axioms Chess.FnsEquiv.PieceType_material_value_eq
