import Chess.Lemmas.Bounds
import Chess.Lemmas.Autoplay
import Chess.Lemmas.ScoreRange
import Chess.Lemmas.FnsEquiv.Position
import Chess.Lemmas.FnsEquiv.Move
import Chess.Lemmas.FnsEquiv.Search
import Chess.Lemmas.FnsEquiv.Hash

/-!
# C15 — unchecked fast paths stay within bounds

In the model the operations that mirror the Rust `get_unchecked`/`push_unchecked`/
`unwrap_unchecked`/`add_unsafe` sites are TOTAL (they test the index and fall back), so "in
bounds" is not true by typing: it is one explicit obligation per site class, proved here. The
inventory of unchecked sites is regenerated from the Rust source on every run
(`Gen.unsafeSites`); `inventory_is_covered` fails if a site appears, moves or is duplicated (a site that disappears —
an unchecked access rewritten as a checked one — removes an obligation and breaks nothing).

NOT provable with the means present, and therefore a NAMED HYPOTHESIS (never an axiom):
`MoveCountBound` — no reachable position has more than 256 pseudo-legal moves (the known
maximum, 218, comes from computer search over placements; the best counting bound is
`56 × 16 > 256`, `crude_bound_insufficient`). Everything else is proved outright.
-/
namespace Chess.Props.C15
open Chess Chess.Bounds Chess.Game

/-- **C15.0** The extractor found exactly the unchecked sites this file covers. -/
theorem inventory_is_covered :
    Gen.unsafeSites.length = Gen.unsafeSiteCount
    ∧ (Gen.unsafeSites.all fun e => coveredSites.contains (e.1, e.2.1)) = true
    ∧ (Gen.unsafeSites.all fun e => decide (Gen.unsafeSites.count e ≤ analysedCount e)) = true
    ∧ (analysedSites.all fun a => coveredSites.contains (a.1.1, a.1.2.1)) = true
    ∧ (analysedSites.foldl (fun s a => s + a.2) 0) = 24 :=
  unsafe_inventory

/-- **C15.1 square indexing** (`get_position`, `set_position`): every square a fitting move makes
`push`/`pop` write is on the board; every square the generators read is on the board (squares of
the scan, results of `Position::add`, the literal castling squares, the cached king squares, and
the two `add_unsafe` squares of the pawn double push, guarded by "on the first row"). On such a
square the model's read/write IS the array access. -/
theorem squares_written_are_on_the_board {g : Game} {m : Move} (hf : g.Fits m) : ∀ p ∈ touched m, p.Valid :=
  pos_valid_of_fits hf

theorem squares_read_are_on_the_board :
    (∀ p ∈ allSquares, p.Valid)
    ∧ (∀ (p q : Pos) (d : Int × Int), p.add d = some q → q.Valid)
    ∧ (∀ (pl : Player) (c : Int), 0 ≤ c → c < 8 → (⟨homeRow pl, c⟩ : Pos).Valid)
    ∧ (∀ (g : Game) (pl : Player), g.KingInv → (g.kingPos pl).Valid)
    ∧ (∀ (p : Pos) (o : Player), p.Valid → p.row = (pawnConsts o).1 →
        (p.addUnsafe (pawnConsts o).2.1).Valid ∧ (p.addUnsafe (pawnConsts o).2.2).Valid) :=
  generator_squares_valid

theorem board_access_is_real (g : Game) {p : Pos} (hp : p.Valid) :
    g.get p = g.board[p.idx]'(Pos.idx_lt hp) :=
  get_eq_getElem g hp

/-- **C15.2 table lookups** (`Piece::score`, `Piece::hash`, `GameState::hash`): real reads of the
64-entry score tables, the 768-entry piece-key table and the 256-entry state-key table. -/
theorem table_lookups_are_real (pc : Piece) {p : Pos} (hp : p.Valid) (e : Bool) (s : GState) :
    pc.score p e = (Piece.scoreTable pc.pieceType e)[scoreIndex pc p]'(scoreIndex_lt pc hp e) * pc.owner.sign
    ∧ pc.hash p = Gen.pieceKeys[p.idx * 12 + pc.asIndex]'(piece_key_index_lt pc hp)
    ∧ GState.hash s = Gen.stateKeys[s.toNat]'(state_key_index_lt s) :=
  ⟨score_eq_getElem pc hp e, piece_hash_eq_getElem pc hp, state_hash_eq_getElem s⟩

/-- **C15.3 state stack never empty** (`state()`'s `unwrap_unchecked`, `pop`'s truncate). -/
theorem state_stack_never_empty {g : Game} (h : Reach g) : g.state ≠ [] ∧ g.top ∈ g.state :=
  ⟨reach_state_ne_nil h, reach_top_mem h⟩

/-- **C15.4 state stack below its capacity** (`push_unchecked`, 512): every game the `position`
command accepts is shorter than the interface's guard; along any search line of at most
`MAX_DEPTH` moves followed by any quiescence line (every tactical move strictly decreases
"men + pawns", which is at most 48 in every reachable game) one more push still fits. -/
theorem position_keeps_games_short (cur : Option Game) (terms : List (List Char)) (g' : Game)
    (h : Uci.commandPosition cur terms = (true, some g')) : g'.len < Gen.lenGuard :=
  commandPosition_len cur terms g' h

theorem state_stack_below_capacity {g : Game} {ms qs : List Move} (hr : Reach g)
    (hlen : g.len < Gen.lenGuard) (hl : Line g ms) (hd : ms.length ≤ Gen.maxDepth)
    (hq : QLine (playLine g ms) qs) :
    ∀ m, ((playLine g (ms ++ qs)).push m).len ≤ Gen.stateCap :=
  reach_search_line_below_cap hr hlen hl hd hq

theorem capacity_arithmetic :
    Gen.lenGuard - 1 + Gen.maxDepth + 48 + 1 ≤ Gen.stateCap
    ∧ ∀ len depth q : Nat, len < Gen.lenGuard → depth ≤ Gen.maxDepth → q ≤ 48 →
        len + depth + q < Gen.stateCap ∧ len + depth + q + 1 ≤ Gen.stateCap :=
  stack_below_cap

/-- **C15.5 history and killer tables** (checked indexing in Rust: a miss would be a panic). -/
theorem history_index_in_range {g : Game} {m : Move} {i : Nat} (hf : g.Fits m)
    (h : m.indexHistory = some i) : i < Gen.historyLen :=
  index_history_lt_of_fits hf h

/-- **C15.6 move buffer** (`push_unchecked`, 256): the named hypothesis, and what IS provable:
with at most four own pieces the crude per-piece bound suffices. -/
theorem move_buffer_small_material {g : Game} (h : ownCount g ≤ 4) : g.pseudoMoves.length ≤ Gen.movesCap :=
  pseudoMoves_length_le_of_few_pieces g h

theorem move_buffer_of_hypothesis (h : MoveCountBound) {g : Game} (hr : Reach g) :
    g.pseudoMoves.length ≤ Gen.movesCap := h g hr

/-- **C15.7 self-play of unbounded length** (`autoplay.rs`, modelled in `Chess/Model/Autoplay.lean`:
one table for the whole game, a fresh flag per move cut by the timer at ANY poll): every game the
loop searches is reachable and shorter than the guard — so C15.1–C15.5 apply to it and the search
that follows has its stack room. Under the Zobrist hypothesis of C06 (a colliding table entry could
otherwise make the search answer with a move of another position). -/
theorem selfplay_of_any_length_stays_in_bounds (hz : ZobristOk) (g0 : Game) (h0 : Uci.defaultGame = some g0)
    (rounds : List (Nat → Bool)) :
    ∀ g ∈ Chess.Auto.run rounds ⟨g0, {}⟩, Reach g ∧ g.len < Gen.autoLenGuard ∧ g.len < Gen.lenGuard :=
  Chess.Auto.selfplay_stays_in_bounds hz g0 h0 rounds

/-- **C15.8 the reader's material bound is an invariant of play** (so "positions with many promoted
pieces" never exceed what the buffers and the 16-bit score were sized for): one king at most and
pawns + promoted pieces ≤ 8 per side in every reachable game. -/
theorem material_stays_possible {g : Game} (h : Reach g) : Chess.Range.MaterialInv g :=
  Chess.Range.reach_material h

end Chess.Props.C15

#print axioms Chess.Props.C15.inventory_is_covered
#print axioms Chess.Props.C15.squares_written_are_on_the_board
#print axioms Chess.Props.C15.squares_read_are_on_the_board
#print axioms Chess.Props.C15.board_access_is_real
#print axioms Chess.Props.C15.table_lookups_are_real
#print axioms Chess.Props.C15.state_stack_never_empty
#print axioms Chess.Props.C15.position_keeps_games_short
#print axioms Chess.Props.C15.state_stack_below_capacity
#print axioms Chess.Props.C15.capacity_arithmetic
#print axioms Chess.Props.C15.history_index_in_range
#print axioms Chess.Props.C15.move_buffer_small_material
#print axioms Chess.Props.C15.move_buffer_of_hypothesis
#print axioms Chess.Props.C15.selfplay_of_any_length_stays_in_bounds
#print axioms Chess.Props.C15.material_stays_possible

/-! ### Translation tie (C15.T)
`tools/translate.py` regenerates `Chess/Gen/Fns.lean` from the Rust text of the leaf functions on every run (a
parser, not patterns); the theorems below — proved in `Chess/Lemmas/FnsEquiv/*` and re-checked by the kernel whenever
the generated term changes — say that the TRANSLATED code equals the hand-written model this file's theorems are
about, for the indices handed to unchecked accesses (`Position::as_usize`, `new_unsafe`, `index_history`) and the `unwrap` in `move_score`. A rewrite of the Rust text that keeps the meaning leaves them true; one that changes it breaks the
theorem named after the function. -/
#print axioms Chess.FnsEquiv.Position_as_usize_eq
#print axioms Chess.FnsEquiv.Position_as_usize_eq_of_valid
#print axioms Chess.FnsEquiv.Position_new_unsafe_eq
#print axioms Chess.FnsEquiv.Move_index_history_eq
#print axioms Chess.FnsEquiv.move_score_unwrap_safe

/-! Second batch of translated functions (C15.T2): `Position::new_assert` (its assertion is exactly `Pos.inBoard`), `Position::add_unsafe`, and the indices of the two unchecked key lookups. -/
#print axioms Chess.FnsEquiv.Position_new_assert_eq
#print axioms Chess.FnsEquiv.Position_add_unsafe_eq
#print axioms Chess.FnsEquiv.GameState_hash_eq
#print axioms Chess.FnsEquiv.Piece_hash_eq
