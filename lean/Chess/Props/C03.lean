import Chess.Lemmas.PushPop
import Chess.Lemmas.Generated

/-!
# C03 — taking a move back restores the game exactly; queries change nothing

Property theorems only. Helper lemmas live in `Chess/Lemmas`.
-/
namespace Chess.Props.C03
open Chess Chess.Game

/-- **C03.1** Playing a move that fits the game (every generated move does, checked or unchecked,
king captures included: legality is not required) and taking it back yields *the same game
structure*: board, both caches, score, hash, king squares, side, state stack, move record, phase. -/
theorem takeback_restores (g : Game) (m : Move) (hf : g.Fits m) (hc : g.CacheInv) :
    (g.push m).pop m = g :=
  Game.pop_push g m hf hc

/-- a well-bracketed play/take-back word, the shape a search performs -/
inductive Word where
  | done
  | play (m : Move) (inner rest : Word)

/-- run a bracketed word: play `m`, run the inner word, take `m` back, go on -/
def run : Game → Word → Game
  | g, .done => g
  | g, .play m inner rest => run ((run (g.push m) inner).pop m) rest

/-- every move of the word fits the game it is played in, whose caches are consistent -/
def Ok : Game → Word → Prop
  | _, .done => True
  | g, .play m inner rest => g.Fits m ∧ g.CacheInv ∧ Ok (g.push m) inner ∧ Ok g rest

/-- **C03.2** Any nested play/take-back sequence leaves the game exactly as it was. -/
theorem nested_restores (g : Game) (w : Word) (h : Ok g w) : run g w = g := by
  induction w generalizing g with
  | done => rfl
  | play m inner rest ih1 ih2 =>
    obtain ⟨hf, hc, hi, hr⟩ := h
    simp only [run]
    rw [ih1 (g.push m) hi, Game.pop_push g m hf hc]
    exact ih2 g hr

/-- **C03.1'** Every move either generator mode can produce in a well-formed game — checked or
unchecked list, captures of a king included — is restored exactly by take-back. -/
theorem takeback_restores_generated (g : Game) (hw : g.WF) (b : Bool) (m : Move)
    (hm : m ∈ (g.getMoves b).1) : (g.push m).pop m = g :=
  Game.pop_push g m (Game.getMoves_fits hw b hm).1 hw.cache

/-- **C03.3** Asking for the move list (either mode) never alters the game: the game returned
by the query — after all its internal play/test/take-back steps — is the game it was given. -/
theorem query_changes_nothing (g : Game) (hw : g.WF) (b : Bool) : (g.getMoves b).2 = g :=
  Game.getMoves_pure hw b

/-- the checked list is a sub-list of the unchecked one (same order, some moves filtered out) -/
theorem checked_sublist_unchecked (g : Game) (hw : g.WF) :
    (g.getMoves true).1.Sublist (g.getMoves false).1 :=
  Game.checked_sublist_unchecked hw

/-! ### Non-vacuity: a concrete game in which the hypotheses hold -/

/-- an empty board with consistent caches -/
def blank : Game :=
  { score := 0, player := .white, moveStack := [], endgame := false, hash := 0,
    board := Vector.replicate 64 none, pastScores := Vector.replicate 64 0,
    pastHashes := Vector.replicate 64 Gen.emptyPlace, wking := ⟨0, 4⟩, bking := ⟨7, 4⟩, state := [8] }

theorem blank_cacheInv : blank.CacheInv := by
  constructor <;> intro i hi <;> simp [blank, placeHash, placeScore]

/-- a white rook on a1 -/
def rookGame : Game := blank.setPosition ⟨0, 0⟩ (some ⟨.rook, .white⟩)

theorem rookGame_cacheInv : rookGame.CacheInv :=
  setPosition_cacheInv _ _ _ (by decide) blank_cacheInv

theorem rookMove_fits : rookGame.Fits (.normal ⟨.rook, .white⟩ ⟨0, 0⟩ ⟨0, 3⟩ none) := by
  refine ⟨by decide, by decide, by decide, ?_, ?_, by simp⟩
  · exact get_setPosition_self _ _ _ (by decide)
  · rw [rookGame, get_setPosition_ne _ _ _ (by decide) _ (by decide) (by decide)]
    simp [blank, Game.get]

example : (rookGame.push (.normal ⟨.rook, .white⟩ ⟨0, 0⟩ ⟨0, 3⟩ none)).pop
    (.normal ⟨.rook, .white⟩ ⟨0, 0⟩ ⟨0, 3⟩ none) = rookGame :=
  takeback_restores _ _ rookMove_fits rookGame_cacheInv

example : Ok rookGame (.play (.normal ⟨.rook, .white⟩ ⟨0, 0⟩ ⟨0, 3⟩ none) .done .done) :=
  ⟨rookMove_fits, rookGame_cacheInv, trivial, trivial⟩

end Chess.Props.C03

#print axioms Chess.Props.C03.takeback_restores
#print axioms Chess.Props.C03.nested_restores
#print axioms Chess.Props.C03.takeback_restores_generated
#print axioms Chess.Props.C03.query_changes_nothing
#print axioms Chess.Props.C03.checked_sublist_unchecked
