import Chess.Lemmas.Pseudo
import Chess.Lemmas.Attack
import Chess.Lemmas.Generated
import Chess.Lemmas.Reach

/-!
# C01 — generated moves are exactly the legal moves of chess

Layers (DESIGN §6 C01). The rules are `Chess/Spec/Rules.lean` (`Spec.attacked`, `pseudo`, `play`,
`legal`, `legalList`), written declaratively and sharing no code with the generators.
L1 attack detection = the rules' `attacked`; L2 every generator = the rules' `pseudo` for its piece
kind (the one documented difference: the engine drops king steps next to the enemy king, which
are illegal anyway); the unchecked list has no repetition; the filter is characterised; the final
assembly `checked = legal` (L3/L4: the not-in-check shortcut and the filter test read through the
refinement square C02) is in `Chess/Lemmas/Legal.lean` when present — see `Props/C01b.lean`.
-/
namespace Chess.Props.C01
open Chess Chess.Game

variable {g : Game}

/-- **L1** The engine's attack scan (king ring, knight ring, two pawn squares by colour, eight
rays stopping at the first piece) is exactly the rules' "attacked by" — every game, every square. -/
theorem attack_scan_is_the_rules (g : Game) {p : Pos} (hp : p.Valid) (pl : Player) :
    g.isTargeted p pl = Spec.attacked g.abs (p.row, p.col) pl.other :=
  Game.isTargeted_iff_attacked g hp pl

/-- **L2a** Every move of the unchecked list is a geometrically valid piece move of the rules. -/
theorem unchecked_moves_are_valid_piece_moves (hw : g.WF) {m : Move} (hm : m ∈ (g.getMoves false).1) :
    Spec.pseudo g.abs m.toSpec = true :=
  Game.unchecked_subset_pseudo hw (Game.getMoves_subset hw false hm)

/-- **L2b** Conversely every valid piece move of the rules is generated, except king steps onto a
square next to the enemy king (never legal). -/
theorem valid_piece_moves_are_generated (hw : g.WF) (hke : g.kingExists g.player = true)
    {u : Spec.UciMove} (hps : Spec.pseudo g.abs u = true) :
    (∃ m ∈ g.pseudoMoves, m.toSpec = u)
      ∨ (g.get ⟨u.src.1, u.src.2⟩ = some ⟨.king, g.player⟩ ∧ Game.NearKingStep g u) :=
  Game.pseudo_subset_unchecked hw hke hps

theorem king_steps_next_to_enemy_king_are_illegal (hw : g.WF) {u : Spec.UciMove}
    (hg : g.get ⟨u.src.1, u.src.2⟩ = some ⟨.king, g.player⟩) (hps : Spec.pseudo g.abs u = true)
    (hnear : Game.NearKingStep g u)
    (hek : g.get (g.kingPos g.player.other) = some ⟨.king, g.player.other⟩) :
    Spec.legal g.abs u = false ∨ Spec.inCheck g.abs g.player.other = true :=
  Game.near_king_step_illegal g hw hg hps hnear hek

/-- **none repeated** The generated list has no duplicates, neither as engine moves nor as moves
of the rules (distinct generated moves have distinct from/to/promotion). -/
theorem no_move_repeated (hw : g.WF) :
    g.pseudoMoves.Nodup ∧ (g.pseudoMoves.map Move.toSpec).Nodup ∧ (g.getMoves true).1.Nodup := by
  refine ⟨Game.pseudoMoves_nodup hw, Game.pseudoMoves_toSpec_nodup hw, ?_⟩
  have hs := Game.checked_sublist_unchecked hw
  rw [Game.getMoves_false] at hs
  exact hs.nodup (Game.pseudoMoves_nodup hw)

/-- **the filter** A generated move is in the checked list iff it passes the engine's test: the
shortcut applies (king not attacked, a `Normal` move from a square not aligned with the king) or
the mover's king is not attacked after the move. The checked list is a sub-list of the unchecked. -/
theorem checked_list_characterised (hw : g.WF) (m : Move) :
    m ∈ (g.getMoves true).1 ↔
      m ∈ g.pseudoMoves ∧
        ((!g.isTargeted (g.kingPos g.player) g.player && skipsCheck (g.kingPos g.player) m) = true
          ∨ ¬ (g.push m).isTargeted ((g.push m).kingPos g.player) g.player = true) :=
  Game.mem_checked_iff hw m

theorem checked_sublist_of_unchecked (hw : g.WF) : (g.getMoves true).1.Sublist (g.getMoves false).1 :=
  Game.checked_sublist_unchecked hw

end Chess.Props.C01

#print axioms Chess.Props.C01.attack_scan_is_the_rules
#print axioms Chess.Props.C01.unchecked_moves_are_valid_piece_moves
#print axioms Chess.Props.C01.valid_piece_moves_are_generated
#print axioms Chess.Props.C01.king_steps_next_to_enemy_king_are_illegal
#print axioms Chess.Props.C01.no_move_repeated
#print axioms Chess.Props.C01.checked_list_characterised
#print axioms Chess.Props.C01.checked_sublist_of_unchecked
