import Chess.Lemmas.Pseudo
import Chess.Lemmas.Attack
import Chess.Lemmas.Generated
import Chess.Lemmas.Reach
import Chess.Lemmas.Legal
import Chess.Lemmas.Perft
import Chess.Lemmas.FnsEquiv.Position
import Chess.Lemmas.FnsEquiv.PositionAdd

/-!
# C01 — generated moves are exactly the legal moves of chess

Layers (DESIGN §6 C01). The rules are `Chess/Spec/Rules.lean` (`Spec.attacked`, `pseudo`, `play`,
`legal`, `legalList`), written declaratively and sharing no code with the generators.
L1 attack detection = the rules' `attacked`; L2 every generator = the rules' `pseudo` for its piece
kind (the one documented difference: the engine drops king steps next to the enemy king, which
are illegal anyway); the unchecked list has no repetition; the filter is characterised; the final
assembly `checked = legal` (L3/L4: the not-in-check shortcut and the filter test read through the
refinement square C02) is `the_main_theorem` below.
-/
namespace Chess.Props.C01
open Chess Chess.Game

variable {g : Game}

/-- **L1** The engine's attack scan (king ring, knight ring, two pawn squares by colour, eight
rays stopping at the first piece) is exactly the rules' "attacked by" — every game, every square. -/
theorem attack_scan_is_the_rules (g : Game) {p : Pos} (hp : p.Valid) (pl : Player) :
    g.isTargeted p pl = Spec.attacked g.abs (p.row, p.col) pl.other :=
  Game.isTargeted_iff_attacked g hp pl

/-- **L2a** Every move of the unchecked list is a geometrically valid piece move of the rules. -/
theorem unchecked_moves_are_valid_piece_moves (hw : g.WF) {m : Move} (hm : m ∈ (g.getMoves false).1) :
    Spec.pseudo g.abs m.toSpec = true :=
  Game.unchecked_subset_pseudo hw (Game.getMoves_subset hw false hm)

/-- **L2b** Conversely every valid piece move of the rules is generated, except king steps onto a
square next to the enemy king (never legal). -/
theorem valid_piece_moves_are_generated (hw : g.WF) (hke : g.kingExists g.player = true)
    {u : Spec.UciMove} (hps : Spec.pseudo g.abs u = true) :
    (∃ m ∈ g.pseudoMoves, m.toSpec = u)
      ∨ (g.get ⟨u.src.1, u.src.2⟩ = some ⟨.king, g.player⟩ ∧ Game.NearKingStep g u) :=
  Game.pseudo_subset_unchecked hw hke hps

theorem king_steps_next_to_enemy_king_are_illegal (hw : g.WF) {u : Spec.UciMove}
    (hg : g.get ⟨u.src.1, u.src.2⟩ = some ⟨.king, g.player⟩) (hps : Spec.pseudo g.abs u = true)
    (hnear : Game.NearKingStep g u)
    (hek : g.get (g.kingPos g.player.other) = some ⟨.king, g.player.other⟩) :
    Spec.legal g.abs u = false ∨ Spec.inCheck g.abs g.player.other = true :=
  Game.near_king_step_illegal g hw hg hps hnear hek

/-- **none repeated** The generated list has no duplicates, neither as engine moves nor as moves
of the rules (distinct generated moves have distinct from/to/promotion). -/
theorem no_move_repeated (hw : g.WF) :
    g.pseudoMoves.Nodup ∧ (g.pseudoMoves.map Move.toSpec).Nodup ∧ (g.getMoves true).1.Nodup := by
  refine ⟨Game.pseudoMoves_nodup hw, Game.pseudoMoves_toSpec_nodup hw, ?_⟩
  have hs := Game.checked_sublist_unchecked hw
  rw [Game.getMoves_false] at hs
  exact hs.nodup (Game.pseudoMoves_nodup hw)

/-- **the filter** A generated move is in the checked list iff it passes the engine's test: the
shortcut applies (king not attacked, a `Normal` move from a square not aligned with the king) or
the mover's king is not attacked after the move. The checked list is a sub-list of the unchecked. -/
theorem checked_list_characterised (hw : g.WF) (m : Move) :
    m ∈ (g.getMoves true).1 ↔
      m ∈ g.pseudoMoves ∧
        ((!g.isTargeted (g.kingPos g.player) g.player && skipsCheck (g.kingPos g.player) m) = true
          ∨ ¬ (g.push m).isTargeted ((g.push m).kingPos g.player) g.player = true) :=
  Game.mem_checked_iff hw m

theorem checked_sublist_of_unchecked (hw : g.WF) : (g.getMoves true).1.Sublist (g.getMoves false).1 :=
  Game.checked_sublist_unchecked hw


/-! ### The property at full strength -/
open Chess.Legal in
/-- **C01** For every position reachable by legal play (moves played into the record or
search-style) from a start position that is sane by the rules (`Spec.sane`: one king each,
possible material, no pawn on the first/eighth rank, side not to move not in check, castling
rights and en-passant file backed by the board): the checked list, read as moves of the rules, is
a PERMUTATION of the legal moves (none missing, none extra), has no repetition, is a sub-list of
the unchecked list, and every move of the unchecked list is a valid piece move whose only possible
fault is that it leaves the mover's own king attacked. -/
theorem the_main_theorem {g0 g : Game} (hw : g0.WF) (h0 : Spec.sane g0.abs = true) (h : LegalReach g0 g) :
    ((g.getMoves true).1.map Move.toSpec).Perm (Spec.legalList g.abs)
    ∧ (g.getMoves true).1.Nodup
    ∧ (g.getMoves true).1.Sublist (g.getMoves false).1
    ∧ ∀ m ∈ (g.getMoves false).1, Spec.pseudo g.abs m.toSpec = true ∧
        (m ∉ (g.getMoves true).1 → Spec.inCheck (Spec.play g.abs m.toSpec) g.player = true) :=
  Chess.Legal.C01 hw h0 h

open Chess.Legal in
/-- …for a start position imported from FEN text: no hypothesis beyond sanity of the text's position. -/
theorem from_imported_text {s : List Char} {g0 g : Game} (hok : Game.ofFen s = .ok g0)
    (h0 : Spec.sane g0.abs = true) (h : LegalReach g0 g) :
    ((g.getMoves true).1.map Move.toSpec).Perm (Spec.legalList g.abs)
    ∧ (g.getMoves true).1.Nodup
    ∧ (g.getMoves true).1.Sublist (g.getMoves false).1
    ∧ ∀ m ∈ (g.getMoves false).1, Spec.pseudo g.abs m.toSpec = true ∧
        (m ∉ (g.getMoves true).1 → Spec.inCheck (Spec.play g.abs m.toSpec) g.player = true) :=
  Chess.Legal.C01_imported hok h0 h

open Chess.Legal in
/-- the texts the engine prints for its checked list are exactly the texts of the legal moves -/
theorem legal_move_texts {g : Game} (hs : SaneG g) :
    ((g.getMoves true).1.map Move.uci).Perm ((Spec.legalList g.abs).map Spec.UciMove.text) :=
  checked_uci_perm hs

open Chess.Legal in
/-- the not-in-check shortcut of the filter is sound (the lemma specific to this engine) -/
theorem shortcut_is_sound {g : Game} (hs : SaneG g) {pc : Piece} {start stop : Pos}
    {cap : Option Piece} (hm : Move.normal pc start stop cap ∈ g.pseudoMoves)
    (hsafe : g.isTargeted (g.kingPos g.player) g.player = false)
    (hskip : skipsCheck (g.kingPos g.player) (.normal pc start stop cap) = true) :
    Spec.inCheck (Spec.play g.abs (Move.normal pc start stop cap).toSpec) g.player = false :=
  shortcut_sound hs hm hsafe hskip

open Chess.Legal in
/-- non-vacuity: the standard start position is imported, is sane, and meets every hypothesis -/
theorem start_position_qualifies : ∃ g, Game.ofFen startFen = .ok g ∧ g.abs = startPos ∧ SaneG g :=
  start_saneG

open Chess.Legal Chess.Perft in
/-- **C01, corollary: the perft counts are the rules' counts.** `Game.perft` mirrors `perft` of
`performance_test.rs` (in-place push / recursion / pop, the `depth == 1` shortcut); `Spec.perft` counts
the legal lines of the given length by the rules. For every position reachable by legal play from a
sane start they agree at EVERY depth, and the function leaves the game as it found it — the six
perft tables of the test suite are instances of this theorem for depths the suite can afford. -/
theorem perft_counts_are_the_rules' {g0 g : Game} (h : LegalReach g0 g) (hw : g0.WF)
    (h0 : Spec.sane g0.abs = true) (d : Nat) :
    g.perft d = Spec.perft d g.abs ∧ g.perftGame d = g :=
  ⟨perft_eq_spec h hw h0 d, perft_restores (legalReach_sane (saneG_of_sane hw h0) h).wf d⟩

end Chess.Props.C01

#print axioms Chess.Props.C01.attack_scan_is_the_rules
#print axioms Chess.Props.C01.unchecked_moves_are_valid_piece_moves
#print axioms Chess.Props.C01.valid_piece_moves_are_generated
#print axioms Chess.Props.C01.king_steps_next_to_enemy_king_are_illegal
#print axioms Chess.Props.C01.no_move_repeated
#print axioms Chess.Props.C01.checked_list_characterised
#print axioms Chess.Props.C01.checked_sublist_of_unchecked
#print axioms Chess.Props.C01.the_main_theorem
#print axioms Chess.Props.C01.from_imported_text
#print axioms Chess.Props.C01.legal_move_texts
#print axioms Chess.Props.C01.shortcut_is_sound
#print axioms Chess.Props.C01.start_position_qualifies
#print axioms Chess.Props.C01.perft_counts_are_the_rules'

/-! ### Translation tie (C01.T)
`tools/translate.py` regenerates `Chess/Gen/Fns.lean` from the Rust text of the leaf functions on every run (a
parser, not patterns); the theorems below — proved in `Chess/Lemmas/FnsEquiv/*` and re-checked by the kernel whenever
the generated term changes — say that the TRANSLATED code equals the hand-written model this file's theorems are
about, for the generator's square arithmetic (`Position::new`, `Position::add`, the rook home squares). A rewrite of the Rust text that keeps the meaning leaves them true; one that changes it breaks the
theorem named after the function. -/
#print axioms Chess.FnsEquiv.Position_new_eq
#print axioms Chess.FnsEquiv.Position_add_eq
#print axioms Chess.FnsEquiv.Position_ROOKS_eq
