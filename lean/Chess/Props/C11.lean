import Chess.Lemmas.Reach
import Chess.Lemmas.FenWrite
import Chess.Lemmas.SpecSums
import Chess.Lemmas.FnsEquiv.Letters

/-!
# C11 — exported FEN describes the position and re-imports to the same game

`Spec.fenLoose` / `Spec.fenStrict` are the FEN grammar read declaratively (rank 8 first, files
a→h, digits = runs of empty squares, `w|b`, subset of `KQkq` or `-`, en-passant square = file +
rank 6 if White is to move else 3), independent of the engine's scanner and printer.
-/
namespace Chess.Props.C11
open Chess

/-- **C11.1** For EVERY game the exported text has exactly six non-empty fields (four for the
position), the placement field has eight ranks each describing exactly eight squares, with piece
letters and digits 1–8 only and no two digits adjacent. -/
theorem export_is_six_well_formed_fields (g : Game) :
    ((Spec.fields g.fen4).length = 4 ∧ (Spec.fields g.fen).length = 6
      ∧ (∀ f ∈ Spec.fields g.fen4, f ≠ []) ∧ (∀ f ∈ Spec.fields g.fen, f ≠ []))
    ∧ Spec.noAdjacentDigits (fenBoard g) = true :=
  ⟨fen_fields_length g, (fenBoard_shape g).2.2.2⟩

/-- **C11.2** The exported text is a well-formed FEN that denotes exactly the game's position:
placement, side, castling rights, en-passant file (read by the independent grammar). -/
theorem export_denotes_the_position (g : Game) :
    Spec.fenStrict g.fen = some g.abs ∧ Spec.fenLoose g.fen4 = some g.abs :=
  ⟨fen_strict g, fen4_denotes g⟩

/-- **C11.3** Importing the exported text succeeds — for boards with possible material whose
castling rights and en-passant file are backed by the board, which is exactly what the reader
checks (`reimport_succeeds_iff`) — and yields a game with the same placement, side, rights and
en-passant file. -/
theorem reimport_gives_the_same_position (g : Game) (hm : MaterialOK g)
    (hr : RightsOkBoard g.abs) (he : EpOkBoard g.abs) :
    ∃ g', Game.ofFen g.fen = .ok g' ∧ g'.abs = g.abs :=
  fen_roundtrip_abs g hm hr he

/-- …in particular for every game whose position the rules call sane. -/
theorem reimport_of_sane_gives_the_same_position (g : Game) (hs : Spec.sane g.abs = true) :
    ∃ g', Game.ofFen g.fen = .ok g' ∧ g'.abs = g.abs :=
  fen_roundtrip_abs_of_sane g hs

/-- the three conditions are necessary and sufficient for the re-import to succeed, and whenever
it succeeds the position is the same -/
theorem reimport_succeeds_iff (g : Game) :
    ((∃ g', Game.ofFen g.fen = .ok g') ↔ MaterialOK g ∧ RightsOkBoard g.abs ∧ EpOkBoard g.abs)
    ∧ ∀ g', Game.ofFen g.fen = .ok g' → g'.abs = g.abs :=
  ⟨fen_reimport_iff g, fun _ h => fen_roundtrip_abs_of_ok h⟩

/-- **C11.4** …with the same hash, when both games are reachable (C04). -/
theorem reimport_gives_the_same_hash {g g' : Game} (h : Reach g) (h' : Reach g') (e : g'.abs = g.abs) :
    g'.hash = g.hash :=
  hash_route_independent (reach_wf h') (reach_wf h) e

end Chess.Props.C11

#print axioms Chess.Props.C11.export_is_six_well_formed_fields
#print axioms Chess.Props.C11.export_denotes_the_position
#print axioms Chess.Props.C11.reimport_gives_the_same_position
#print axioms Chess.Props.C11.reimport_of_sane_gives_the_same_position
#print axioms Chess.Props.C11.reimport_succeeds_iff
#print axioms Chess.Props.C11.reimport_gives_the_same_hash

/-! ### Translation tie (C11.T)
`tools/translate.py` regenerates `Chess/Gen/Fns.lean` from the Rust text of the leaf functions on every run (a
parser, not patterns); the theorems below — proved in `Chess/Lemmas/FnsEquiv/*` and re-checked by the kernel whenever
the generated term changes — say that the TRANSLATED code equals the hand-written model and the generated tables this
file's theorems are about, for the letters the FEN writer uses (`as_char_ascii`). A rewrite of the Rust text that keeps the meaning leaves them true; one that
changes it breaks the theorem named after the function. -/
#print axioms Chess.FnsEquiv.Piece_as_char_ascii_eq
#print axioms Chess.FnsEquiv.Piece_as_char_ascii_table
