import Chess.Lemmas.Reach
import Chess.Lemmas.FenRead
import Chess.Lemmas.SpecSums

/-!
# C17 — FEN import is faithful and rejects malformed text without crashing

Three classes of strings, decided by the independent grammar: `Spec.fenStrict s = some a`
(well-formed), `Spec.fenLoose s = some a` (what any correct reader may accept: additionally
adjacent digits, repeated/unordered castling letters, trailing fields, en-passant rank not matching
the side), and `Spec.fenLoose s = none` (malformed beyond doubt). All theorems quantify over EVERY
string.
-/
namespace Chess.Props.C17
open Chess

/-- **C17.1** The reader never crashes. -/
theorem import_never_crashes (s : List Char) (w : String) : Game.ofFen s ≠ .fault w :=
  ofFen_no_fault s w

/-- **C17.2** Every malformed string is refused. -/
theorem malformed_is_refused {s : List Char} (h : Spec.fenLoose s = none) :
    ∃ w, Game.ofFen s = .refused w :=
  ofFen_refuses_malformed h

/-- **C17.3** Whatever is accepted is imported as exactly the position the text describes — no
missing square, no altered castling right, no shifted en-passant file — with consistent caches,
so that (C04) its hash is the position's. -/
theorem accepted_is_faithful {s : List Char} {g : Game} (h : Game.ofFen s = .ok g) :
    Spec.fenLoose s = some g.abs ∧ g.CacheInv ∧ g.resScore = 0 ∧ g.KingInv :=
  ⟨ofFen_sound h, (ofFen_wf_cache h).1, (ofFen_wf_cache h).2.1, (ofFen_wf_rest h).1⟩

theorem accepted_hash_is_the_positions {s : List Char} {g : Game} (h : Game.ofFen s = .ok g)
    (hr : g.RightsInv) (he : g.EpInv) : g.hash = Spec.zobrist g.abs :=
  wf_hash_eq_spec (reach_wf (Reach.imported s g h hr he))

/-- **C17.4** Every well-formed FEN of a board with possible material (one king each, at most eight
pawns, promoted pieces covered by missing pawns, no pawn on the first/eighth rank) is accepted,
as the position it describes. -/
theorem wellformed_is_accepted {s : List Char} {a : Spec.APos} (h : Spec.fenStrict s = some a)
    (hm : MaterialOKBoard a.board) : ∃ g, Game.ofFen s = .ok g ∧ g.abs = a :=
  ofFen_complete h hm

/-- What the reader does NOT check (kept visible): castling rights against the board. The text
`4k3/8/8/8/8/8/8/4K3 w K -` is accepted with the right set and h1 empty, so `RightsInv` is a
hypothesis of the reachable-game theorems, not a consequence of import. -/
theorem rights_are_not_checked :
    ∃ g, Game.ofFen rightsWitness = .ok g ∧ g.top.wk = true ∧ g.get ⟨0, 7⟩ = none ∧ ¬ g.RightsInv :=
  ofFen_rights_not_checked

end Chess.Props.C17

#print axioms Chess.Props.C17.import_never_crashes
#print axioms Chess.Props.C17.malformed_is_refused
#print axioms Chess.Props.C17.accepted_is_faithful
#print axioms Chess.Props.C17.accepted_hash_is_the_positions
#print axioms Chess.Props.C17.wellformed_is_accepted
#print axioms Chess.Props.C17.rights_are_not_checked
