import Chess.Lemmas.Reach
import Chess.Lemmas.FenRead
import Chess.Lemmas.SpecSums
import Chess.Lemmas.FenEpRank
import Chess.Lemmas.FnsEquiv.Letters

/-!
# C17 — FEN import is faithful and rejects malformed text without crashing

Three classes of strings, decided by the independent grammar: `Spec.fenStrict s = some a`
(well-formed), `Spec.fenLoose s = some a` (what any correct reader may accept: additionally
adjacent digits, repeated/unordered castling letters, trailing fields), and `Spec.fenLoose s = none` (malformed beyond doubt). All theorems quantify over EVERY
string.

Beyond the grammar the reader checks the position itself: possible material (one king each, at most
eight pawns with promoted pieces covered by missing pawns, no pawn on the first/eighth rank), every
castling right backed by king and rook on their home squares, an en-passant square backed by the
enemy pawn that has just made its double step (`rights_and_en_passant_are_checked`). Hence every
accepted text yields a well-formed game (`accepted_is_well_formed`), with no side condition.
-/
namespace Chess.Props.C17
open Chess

/-- **C17.1** The reader never crashes. -/
theorem import_never_crashes (s : List Char) (w : String) : Game.ofFen s ≠ .fault w :=
  ofFen_no_fault s w

/-- **C17.2** Every malformed string is refused. -/
theorem malformed_is_refused {s : List Char} (h : Spec.fenLoose s = none) :
    ∃ w, Game.ofFen s = .refused w :=
  ofFen_refuses_malformed h

/-- **an en-passant square on the wrong rank for the side to move is refused** (`Spec.epRankOk`):
such a text names a square no double step can have passed over; a reader that "repairs" it imports
a position other than the one written. The check treats these texts as malformed. -/
theorem wrong_en_passant_rank_is_refused {s : List Char} {g : Game} (h : Game.ofFen s = .ok g) :
    Spec.epRankOk s = true :=
  ofFen_epRankOk h

/-- **a pawn on the first or last rank is refused**: no position of chess has one (and the pawn
generators assume it: their unchecked square arithmetic steps one rank forward). The check treats
such texts as malformed. -/
theorem edge_pawns_are_refused {s : List Char} {g : Game} (h : Game.ofFen s = .ok g) :
    Spec.noEdgePawns g.abs = true :=
  ofFen_noEdgePawns h

example : Spec.epRankOk "rnbqkbnr/pppppppp/8/8/4P3/8/PPPP1PPP/RNBQKBNR b KQkq e6 0 1".toList = false := by decide
example : Spec.epRankOk "rnbqkbnr/pppppppp/8/8/4P3/8/PPPP1PPP/RNBQKBNR b KQkq e3 0 1".toList = true := by decide

/-- **C17.3** Whatever is accepted is imported as exactly the position the text describes — no
missing square, no altered castling right, no shifted en-passant file — with consistent caches,
so that (C04) its hash is the position's. -/
theorem accepted_is_faithful {s : List Char} {g : Game} (h : Game.ofFen s = .ok g) :
    Spec.fenLoose s = some g.abs ∧ g.CacheInv ∧ g.resScore = 0 ∧ g.KingInv :=
  ⟨ofFen_sound h, (ofFen_wf_cache h).1, (ofFen_wf_cache h).2.1, (ofFen_wf_rest h).1⟩

theorem accepted_hash_is_the_positions {s : List Char} {g : Game} (h : Game.ofFen s = .ok g) :
    g.hash = Spec.zobrist g.abs :=
  wf_hash_eq_spec (reach_wf (Reach.imported s g h))

/-- **C17.4** Every well-formed FEN of a board with possible material (one king each, at most eight
pawns, promoted pieces covered by missing pawns, no pawn on the first/eighth rank) whose castling
rights and en-passant square are backed by the board is accepted, as the position it describes. -/
theorem wellformed_is_accepted {s : List Char} {a : Spec.APos} (h : Spec.fenStrict s = some a)
    (hm : MaterialOKBoard a.board) (hr : RightsOkBoard a) (he : EpOkBoard a) :
    ∃ g, Game.ofFen s = .ok g ∧ g.abs = a :=
  ofFen_complete h hm hr he

/-- …in particular every well-formed FEN of a position the rules call sane. -/
theorem wellformed_sane_is_accepted {s : List Char} {a : Spec.APos}
    (h : Spec.fenStrict s = some a) (hs : Spec.sane a = true) :
    ∃ g, Game.ofFen s = .ok g ∧ g.abs = a :=
  ofFen_complete_of_sane h hs

/-- **C17.5** The reader checks castling rights and the en-passant square against the board: every
accepted game has each recorded right backed by rook and (cached) king on their home squares, and a
recorded en-passant file backed by the enemy pawn that has just made its double step. -/
theorem rights_and_en_passant_are_checked {s : List Char} {g : Game} (h : Game.ofFen s = .ok g) :
    g.RightsInv ∧ g.EpInv :=
  ⟨ofFen_rightsInv h, ofFen_epInv h⟩

/-- Hence every accepted text yields a game satisfying the full representation invariant. -/
theorem accepted_is_well_formed {s : List Char} {g : Game} (h : Game.ofFen s = .ok g) : g.WF :=
  ofFen_wf h

/-- The checks bite: `4k3/8/8/8/8/8/8/4K3 w K -` (right set, h1 empty) and
`4k3/8/8/8/8/8/8/4K3 w - e6` (en-passant square, no pawn on e5) are refused. -/
theorem unbacked_rights_are_refused :
    Game.ofFen rightsWitness = .refused "Castling rights do not match the board"
    ∧ Game.ofFen epWitness = .refused "En passant square does not match the board" :=
  ⟨ofFen_rights_checked_example, ofFen_ep_checked_example⟩

end Chess.Props.C17

#print axioms Chess.Props.C17.import_never_crashes
#print axioms Chess.Props.C17.malformed_is_refused
#print axioms Chess.Props.C17.accepted_is_faithful
#print axioms Chess.Props.C17.accepted_hash_is_the_positions
#print axioms Chess.Props.C17.wellformed_is_accepted
#print axioms Chess.Props.C17.wellformed_sane_is_accepted
#print axioms Chess.Props.C17.rights_and_en_passant_are_checked
#print axioms Chess.Props.C17.accepted_is_well_formed
#print axioms Chess.Props.C17.unbacked_rights_are_refused
#print axioms Chess.Props.C17.wrong_en_passant_rank_is_refused
#print axioms Chess.Props.C17.edge_pawns_are_refused

/-! ### Translation tie (C17.T)
`tools/translate.py` regenerates `Chess/Gen/Fns.lean` from the Rust text of the leaf functions on every run (a
parser, not patterns); the theorems below — proved in `Chess/Lemmas/FnsEquiv/*` and re-checked by the kernel whenever
the generated term changes — say that the TRANSLATED code equals the hand-written model and the generated tables this
file's theorems are about, for the letters the FEN reader accepts (`from_char_ascii`), for EVERY `Char` (the 128 ASCII characters by kernel evaluation, all others refused on both sides). A rewrite of the Rust text that keeps the meaning leaves them true; one that
changes it breaks the theorem named after the function. -/
#print axioms Chess.FnsEquiv.Piece_from_char_ascii_eq
#print axioms Chess.FnsEquiv.Piece_from_char_ascii_table
