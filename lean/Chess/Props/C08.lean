import Chess.Lemmas.Reach
import Chess.Lemmas.SearchF
import Chess.Lemmas.CallShape
import Chess.Lemmas.FnsEquiv.Move

/-!
# C08 — depth-limited and unlimited searches end cleanly whatever the table holds
-/
namespace Chess.Props.C08
open Chess Chess.Search

variable {G M : Type} [DecidableEq M]

/-- **C08.1** Whatever table any history of searches left — in particular an exact root entry
deeper than the requested limit — every iteration reported has `1 ≤ depth ≤ limit ≤ MAX_DEPTH`,
and `≤ N` for `go depth N`, `N ≥ 1`. -/
theorem never_deeper_than_the_limit (o : Ops G M) (reqs : List (Req G)) (r : Req G) :
    ∀ info ∈ (driver o r.runs r.g (tableAfter o {} reqs) r.off r.md).infos,
      1 ≤ info.depth ∧ info.depth ≤ limitOf r.md ∧ info.depth ≤ maxDepth ∧
      ∀ N, r.md = some N → 1 ≤ N → info.depth ≤ N :=
  session_depths o reqs r

/-- **C08.2** For an arbitrary table: depths are consecutive from `min cached limit`, all within
the limit (an exact root entry deeper than the limit cannot push the start above it). -/
theorem depths_consecutive_and_bounded (o : Ops G M) (runs : Nat → Bool) (g : G) (tt : Table M)
    (off : Bool) (md : Option Nat) :
    let out := driver o runs g tt off md
    out.infos.map (·.depth) = List.range' (startDepth o g tt md) out.infos.length ∧
    ∀ info ∈ out.infos, startDepth o g tt md ≤ info.depth ∧ info.depth ≤ limitOf md :=
  driver_depths_partial o runs g tt off md

/-- **C08.3** The search stops by itself: with a flag that stays up the loop is never ended by a
stop, and unless it ended earlier for a single reply or a mate score its last iteration is the
limit. The loop's fuel is never what ends it (the result is the same for any larger fuel). -/
theorem stops_by_itself_at_the_limit (o : Ops G M) (g : G) (tt : Table M) (off : Bool) (md : Option Nat) :
    let out := driver o (fun _ => true) g tt off md
    out.stopped = false ∧
    ((o.checked g).length ≠ 1 → (∀ info ∈ out.infos, ¬ mateRange info.score) →
      out.infos.getLast?.map (·.depth) = some (limitOf md)) :=
  driver_terminates_by_itself o g tt off md

theorem fuel_never_runs_out (o : Ops G M) (runs : Nat → Bool) (g : G) (tt : Table M) (off : Bool)
    (md : Option Nat) (k : Nat) :
    driver o runs g tt off md =
      driverLoop o runs g (limitOf md) (limitOf md - startDepth o g tt md + 1 + k)
        (startDepth o g tt md) (o.checked g).head? [] (initSt tt off) :=
  driver_fuel o runs g tt off md k

/-- **C08.4** However long an unlimited search runs, the ply counter stays inside the killer table
and the history cell inside 16 bits — on the EXTRACTED constants (`MAX_DEPTH`, killer length). The
call-shape fact `remaining + ply = depth` is no longer "read off the model": see C08.6. -/
theorem killer_and_history_in_range :
    (∀ depth remaining rd : Nat, depth ≤ maxDepth → remaining + rd = depth → 2 ≤ remaining → rd < Gen.killerLen) ∧
    (∀ d h : Nat, d ≤ Gen.maxDepth → h ≤ 10000 → h + d ^ 3 < 65536) :=
  ⟨killer_index_ok, history_no_overflow⟩


/-! ### The faithful model (`driverF`) -/
open Chess.Search.F in
/-- **C08.5** Depth bounds after any history of searches any of which may have been stopped. -/
theorem faithful_never_deeper_than_the_limit (o : Ops G M) (reqs : List (Req G)) (r : Req G) :
    ∀ info ∈ (driverF o r.runs r.g (tableAfterF o {} reqs) r.off r.md).infos,
      1 ≤ info.depth ∧ info.depth ≤ limitOf r.md ∧ info.depth ≤ maxDepth ∧
      ∀ N, r.md = some N → 1 ≤ N → info.depth ≤ N :=
  sessionF_depths o reqs r

open Chess.Search.Shape in
/-- **C08.6 every table access of every run is in range.** The Rust code indexes the killer table
with CHECKED indexing (a miss is a panic); the model's accessors are total, so an out-of-range
index would be silent in the model exactly where the code fails. `driverS` is the faithful driver
with strict accessors that raise a flag on a miss and an observer of the call shape at every node
entry. For EVERY game, flag schedule, position, table and depth argument the strict run equals the
faithful run, no killer access misses, and every node call satisfies
`remaining + ply = max depth 1`, `1 ≤ ply ≤ MAX_DEPTH`, `remaining < MAX_DEPTH`. -/
theorem every_killer_access_in_range (o : Ops G M) (runs : Nat → Bool) (g : G) (tt : Table M)
    (off : Bool) (md : Option Nat) :
    ((driverS o runs shapeObs g tt off md).out = driverF o runs g tt off md ∧
     (driverS o runs shapeObs g tt off md).oobK = false ∧
     (driverS o runs shapeObs g tt off md).offShape = false) ∧
    (driverS o runs
      (fun d r rd => decide ((r : Int) + rd = max d 1 ∧ 1 ≤ rd ∧ rd ≤ maxDepth ∧ r < maxDepth))
      g tt off md).offShape = false :=
  ⟨driverF_killer_accesses_in_range o runs g tt off md, driverF_calls_sum o runs g tt off md⟩

open Chess.Search.Shape Chess.Search.F in
/-- … and for chess also every history-table update, in every game the interface can reach, after
any session of searches. -/
theorem chess_every_table_access_in_range (reqs : List (Req Game)) (r : Req Game) (hr : Reach r.g) :
    driverS Uci.chessOps r.runs shapeObs r.g (tableAfterF Uci.chessOps {} reqs) r.off r.md =
      ⟨driverF Uci.chessOps r.runs r.g (tableAfterF Uci.chessOps {} reqs) r.off r.md, false, false, false⟩ :=
  sessionF_table_accesses_in_range Uci.chessOps Game.WF chess_histOk reqs r (reach_wf hr)

end Chess.Props.C08

#print axioms Chess.Props.C08.never_deeper_than_the_limit
#print axioms Chess.Props.C08.depths_consecutive_and_bounded
#print axioms Chess.Props.C08.stops_by_itself_at_the_limit
#print axioms Chess.Props.C08.fuel_never_runs_out
#print axioms Chess.Props.C08.killer_and_history_in_range
#print axioms Chess.Props.C08.faithful_never_deeper_than_the_limit
#print axioms Chess.Props.C08.every_killer_access_in_range
#print axioms Chess.Props.C08.chess_every_table_access_in_range

/-! ### Translation tie (C08.T)
`tools/translate.py` regenerates `Chess/Gen/Fns.lean` from the Rust text of the leaf functions on every run (a
parser, not patterns); the theorems below — proved in `Chess/Lemmas/FnsEquiv/*` and re-checked by the kernel whenever
the generated term changes — say that the TRANSLATED code equals the hand-written model this file's theorems are
about, for the index of the history table (`Move::index_history`). A rewrite of the Rust text that keeps the meaning leaves them true; one that changes it breaks the
theorem named after the function. -/
#print axioms Chess.FnsEquiv.Move_index_history_eq
