import Chess.Lemmas.Session

/-!
# C14 — each `go` gets exactly one `bestmove`; the session never wedges or dies

`Chess/Model/Session.lean` is a labelled transition system of the three kinds of threads of
`uci.rs` (main loop, one search thread per accepted `go`, zero or one timer thread per `go`) with
every observable action — atomic load/store, lock/unlock, spawn, join, print — as one atomic
step, in program order (`Chess/Model/SessionNotes.md` maps each step to its source lines).
`Reachable cfg s` quantifies over ALL command sequences and ALL schedules, with no bound on length.
The code as it is now is the configuration `repaired` (`buggy = false`, `reap = true`); `original`
(the pinned code) and `fixed` (after the two re-orderings of D7 only) are kept so that the
theorems can be seen to FAIL there, each with a concrete kernel-checked schedule.
The single `Relaxed` flag is modelled sequentially consistent (assumption, see DESIGN §7).
-/
namespace Chess.Props.C14
open Chess.Session

variable {s t : State}

/-- **C14.1** At most one `bestmove` per `go`, and only for a `go` that was accepted. -/
theorem at_most_one_bestmove_per_go {cfg : Cfg} (h : Reachable cfg s) (k : Nat) :
    s.out.count (.bestmove k) ≤ 1 ∧ (.bestmove k ∈ s.out → s.th k ≠ .none ∧ k ≤ s.cur) :=
  ⟨bestmove_at_most_once h k, fun hk => bestmove_only_after_go h hk⟩

/-- **C14.2** Exactly one once its search thread is done. -/
theorem exactly_one_bestmove_when_done {cfg : Cfg} (h : Reachable cfg s) {k : Nat} (hd : s.th k = .done) :
    s.out.count (.bestmove k) = 1 :=
  bestmove_exactly_once_when_done h hd

/-- **C14.3** `isready` is answered in one step of the main loop whatever the other threads do:
it takes no lock and reads no flag. -/
theorem isready_answered_while_searching {cfg : Cfg} {rest : List Cmd} (hidle : s.pc = .idle)
    (hi : s.input = .isready :: rest) :
    next cfg s .main = some ({ s with input := rest }.emit .readyok) :=
  isready_never_blocks hidle hi

/-- **C14.4** The process never panics, the mutex is never poisoned, and the error exit of
`ucinewgame` is unreachable — for the code as it is now, under every schedule. -/
theorem never_panics (h : Reachable repaired s) :
    s.poisoned = false ∧ (∀ k, s.th k ≠ .panicked) ∧ s.pc ≠ .panicked ∧ s.pc ≠ .exitedErr :=
  repaired_no_panic rfl h

/-- **C14.5** No deadlock: in every reachable state of a running process some thread can step,
except the one benign wait the interface defines (`wait` on a search that cannot end by itself
and has not been told to stop). -/
theorem never_deadlocks {cfg : Cfg} (h : Reachable cfg s) (hrun : s.running) :
    (∃ l t, next cfg s l = some t) ∨ Benign s :=
  no_deadlock h hrun

/-- **C14.6** Once `bestmove k` has been printed its flag is down (so what the GUI sends next is
not refused with "search is still running"), and a `position` that succeeds is followed by a `go`
that is accepted and not delayed by anybody. -/
theorem commands_after_bestmove_honoured (h : Reachable repaired s) {k : Nat} (hk : .bestmove k ∈ s.out) :
    s.flag k = false :=
  bestmove_flag_false rfl h hk

theorem go_after_position_accepted (h : Reachable repaired s) {keep : Bool} {g : GoArgs} {rest : List Cmd}
    (hpc : s.pc = .posHold true keep) (hi : s.input = .go g :: rest) :
    ∃ t, next repaired s .main = some t ∧ t.out = s.out ∧ Quiet t ∧ GoPhase t g rest :=
  repaired_position_quiet rfl h hpc hi

/-- **C14.7** After `stop`, after the timer fired, or at the depth limit the flag of that search is
down and stays down; from then on the search thread needs at most five steps of its own to print
`bestmove`, each of which is enabled whenever the mutex is free or its own. -/
theorem stop_or_timer_leads_to_bestmove (h : Reachable repaired s) {k : Nat}
    (hs : s.th k ≠ .none) (hf : s.flag k = false) {ls : List Label} (hr : run repaired s ls = some t) :
    t.flag k = false ∧ (t.th k).rank + ownCount k ls ≤ (s.th k).rank ∧
    (t.running → (t.th k).live → (t.mutex = none ∨ t.mutex = some (.search k) ∨ t.poisoned) →
      ∃ u, next repaired t (.search k) = some u) ∧
    ((t.th k).rank ≤ 1 → t.th k ≠ .panicked → .bestmove k ∈ t.out) :=
  timer_or_stop_leads_to_bestmove rfl h hs hf hr

/-- **C14.8** `quit` and end of input exit in one step, whatever the other threads do. -/
theorem quit_exits_cleanly {cfg : Cfg} {rest : List Cmd} (hidle : s.pc = .idle) :
    (s.input = .quit :: rest → next cfg s .main = some { s with input := rest, pc := .exited }) ∧
    (s.input = [] → next cfg s .main = some { s with pc := .exited }) :=
  ⟨fun hi => quit_exits hidle hi, fun hi => eof_exits hidle hi⟩

/-- The theorems FAIL for the earlier code, with concrete schedules checked by the kernel:
the pinned code loses a timer that fires before the flag is raised and refuses the command sent
right after `bestmove`; the code with only the D7 re-orderings can still panic (a search thread
that starts after its timer expired finds the game taken). -/
theorem earlier_code_fails :
    ¬ ∀ s, Reachable fixed s → s.poisoned = false ∧ (∀ k, s.th k ≠ .panicked) ∧ s.pc ≠ .panicked :=
  fixed_no_panic_fails

end Chess.Props.C14

#print axioms Chess.Props.C14.at_most_one_bestmove_per_go
#print axioms Chess.Props.C14.exactly_one_bestmove_when_done
#print axioms Chess.Props.C14.isready_answered_while_searching
#print axioms Chess.Props.C14.never_panics
#print axioms Chess.Props.C14.never_deadlocks
#print axioms Chess.Props.C14.commands_after_bestmove_honoured
#print axioms Chess.Props.C14.go_after_position_accepted
#print axioms Chess.Props.C14.stop_or_timer_leads_to_bestmove
#print axioms Chess.Props.C14.quit_exits_cleanly
#print axioms Chess.Props.C14.earlier_code_fails
