import Chess.Lemmas.Reach
import Chess.Lemmas.SpecSums
import Chess.Lemmas.FnsEquiv.GameState
import Chess.Lemmas.FnsEquiv.Piece
import Chess.Lemmas.FnsEquiv.Hash

/-!
# C05 — different positions get different hashes

A 64-bit hash of more than 2⁶⁴ positions collides somewhere, so "never share a hash" is provable
only feature by feature; collision freedom over the explored set is exploration (reported in the
evidence as such). What IS proved, by kernel evaluation on the generated keys: changing any single
feature of a position changes its hash.
-/
namespace Chess.Props.C05
open Chess

/-- **C05.1** The 256 state keys are pairwise distinct, the 13 keys of every square (empty + 12
pieces) are pairwise distinct, the side key is not zero — decided by the kernel on the keys
generated from the real key file. -/
theorem key_facts : pairwiseDistinct Gen.stateKeys.toList = true
    ∧ (List.range 64).all (fun i => pairwiseDistinct (squareKeys i)) = true
    ∧ Gen.blackToMove ≠ 0 :=
  ⟨state_keys_distinct, square_keys_distinct, side_key_nonzero⟩

/-- **C05.2** Changing the content of one square, or the side to move, or anything among the four
castling rights and the en-passant file, changes the key-file sum. -/
theorem single_feature_changes_the_sum (a : Spec.APos) :
    (∀ (i : Nat) (h : i < 64) (x : Option Piece), x ≠ a.board[i] →
        Spec.zobrist { a with board := a.board.set i x } ≠ Spec.zobrist a)
    ∧ Spec.zobrist { a with side := a.side.other } ≠ Spec.zobrist a
    ∧ (∀ a' : Spec.APos, a'.board = a.board → a'.side = a.side → EpOk a → EpOk a' →
        (a'.wk, a'.wq, a'.bk, a'.bq, a'.ep) ≠ (a.wk, a.wq, a.bk, a.bq, a.ep) →
        Spec.zobrist a' ≠ Spec.zobrist a) :=
  single_feature_sensitive a

/-- **C05.3** …and therefore the hash the engine reports: two reachable games whose positions
differ in exactly one feature have different hashes. -/
theorem single_feature_changes_the_hash {g g' : Game} (h : Reach g) (h' : Reach g') :
    (∀ (i : Nat) (hi : i < 64) (x : Option Piece), x ≠ g.board[i] →
        g'.abs = { g.abs with board := g.abs.board.set i x } → g'.hash ≠ g.hash)
    ∧ (g'.abs = { g.abs with side := g.abs.side.other } → g'.hash ≠ g.hash)
    ∧ (g'.board = g.board → g'.player = g.player →
        (g'.top.wk, g'.top.wq, g'.top.bk, g'.top.bq, g'.abs.ep)
          ≠ (g.top.wk, g.top.wq, g.top.bk, g.top.bq, g.abs.ep) → g'.hash ≠ g.hash) :=
  hash_sensitive_single_feature (reach_wf h) (reach_wf h')

/-- each castling right and each en-passant file individually changes the byte that selects the
state key -/
theorem every_right_and_file_is_mixed_in {a a' : Spec.APos} (h : EpOk a) (h' : EpOk a') :
    Spec.stateByte a = Spec.stateByte a' ↔
      (a.wk, a.wq, a.bk, a.bq, a.ep) = (a'.wk, a'.wq, a'.bk, a'.bq, a'.ep) :=
  stateByte_inj_features h h'

end Chess.Props.C05

#print axioms Chess.Props.C05.key_facts
#print axioms Chess.Props.C05.single_feature_changes_the_sum
#print axioms Chess.Props.C05.single_feature_changes_the_hash
#print axioms Chess.Props.C05.every_right_and_file_is_mixed_in

/-! ### Translation tie (C05.T)
`tools/translate.py` regenerates `Chess/Gen/Fns.lean` from the Rust text of the leaf functions on every run (a
parser, not patterns); the theorems below — proved in `Chess/Lemmas/FnsEquiv/*` and re-checked by the kernel whenever
the generated term changes — say that the TRANSLATED code equals the hand-written model this file's theorems are
about, for the features mixed into the hash: each right and the en-passant file have their own bits of the state byte, each piece kind and colour its own key column. A rewrite of the Rust text that keeps the meaning leaves them true; one that changes it breaks the
theorem named after the function. -/
#print axioms Chess.FnsEquiv.GameState_set_white_king_castling_true_eq
#print axioms Chess.FnsEquiv.GameState_set_white_queen_castling_true_eq
#print axioms Chess.FnsEquiv.GameState_set_black_king_castling_true_eq
#print axioms Chess.FnsEquiv.GameState_set_black_queen_castling_true_eq
#print axioms Chess.FnsEquiv.GameState_set_en_passant_eq
#print axioms Chess.FnsEquiv.Piece_as_index_eq
#print axioms Chess.FnsEquiv.PieceType_discr_eq
#print axioms Chess.FnsEquiv.Player_discr_eq

/-! Second batch of translated functions (C05.T2): the key lookups themselves: which key a state byte and a piece on a square read. -/
#print axioms Chess.FnsEquiv.GameState_hash_eq
#print axioms Chess.FnsEquiv.Piece_hash_eq
