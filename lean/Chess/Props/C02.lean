import Chess.Lemmas.Refine
import Chess.Lemmas.Reach
import Chess.Lemmas.FnsEquiv.GameState
import Chess.Lemmas.FnsEquiv.Position
import Chess.Lemmas.FnsEquiv.PositionAdd

/-!
# C02 — playing a move produces the position the rules prescribe

The refinement square `abs ∘ push = Spec.play ∘ abs`. `Spec.play` (`Chess/Spec/Rules.lean`) is the
successor by the laws: the mover goes to the target (as the promoted piece if given), a captured
piece disappears (for en passant the pawn beside), castling also moves the rook; a castling right
survives iff the move touches neither the king's nor that rook's home square; the en-passant file
is recorded iff the move was a double pawn push landing beside an enemy pawn.
-/
namespace Chess.Props.C02
open Chess Chess.Game

variable {g : Game} {m : Move}

/-- **C02.1** In a well-formed game whose side not to move is not in check (every position
reachable by legal play), every generated move — checked or unchecked — produces exactly the
position the rules prescribe: placement, side to move, all four castling rights, en-passant file. -/
theorem successor_is_the_prescribed_one (hw : g.WF)
    (hko : g.get (g.kingPos g.player.other) = some ⟨.king, g.player.other⟩)
    (hnc : Spec.inCheck g.abs g.abs.side.other = false) (hm : m ∈ g.pseudoMoves) :
    (g.push m).abs = Spec.play g.abs m.toSpec :=
  push_abs_of_notInCheck hw hko hnc hm

theorem legal_successor_is_the_prescribed_one (hw : g.WF)
    (hko : g.get (g.kingPos g.player.other) = some ⟨.king, g.player.other⟩)
    (hnc : Spec.inCheck g.abs g.abs.side.other = false) (hm : m ∈ (g.getMoves true).1) :
    (g.push m).abs = Spec.play g.abs m.toSpec :=
  push_abs_checked_of_notInCheck hw hko hnc hm

/-- **C02.2** With NO side condition: placement, side, en-passant file and the mover's own two
rights always come out as prescribed. Only a right of the side NOT to move can differ, and only
when the move captures that side's never-moved king (`king_capture_rights_differ`: an unchecked
search line in a position that is not sane; witness `4k3/8/8/8/8/8/4q3/4K2R b K -`, `e2e1`). -/
theorem successor_agrees_except_captured_kings_rights (hw : g.WF) (hm : m ∈ g.pseudoMoves) :
    (g.push m).abs.board = (Spec.play g.abs m.toSpec).board
    ∧ (g.push m).abs.side = (Spec.play g.abs m.toSpec).side
    ∧ (g.push m).abs.ep = (Spec.play g.abs m.toSpec).ep
    ∧ ∀ ks, (g.push m).abs.right g.player ks = (Spec.play g.abs m.toSpec).right g.player ks :=
  push_abs_weak hw hm

/-- **C02.3** Whole lines: for move sequences of any length. -/
theorem line_is_the_prescribed_one (ms : List Move) (g : Game) (h : GeneratedSeq g ms) :
    (pushAll g ms).abs = Spec.playAll g.abs (ms.map Move.toSpec) :=
  pushAll_abs ms g h

/-- **C02.4** An en-passant opportunity is recorded exactly when the move was a double pawn push
that lands beside an enemy pawn. -/
theorem en_passant_recorded_iff (hw : g.WF) (hm : m ∈ g.pseudoMoves) (f : Nat) :
    (g.push m).abs.ep = some f ↔
      ∃ start stop, m = .normal ⟨.pawn, g.player⟩ start stop none
        ∧ (stop.row - start.row).natAbs = 2 ∧ stop.col = start.col ∧ start.col = (f : Int)
        ∧ ((g.push m).abs.at (stop.row, stop.col - 1) = some ⟨.pawn, g.player.other⟩
            ∨ (g.push m).abs.at (stop.row, stop.col + 1) = some ⟨.pawn, g.player.other⟩) :=
  ep_after_double_push_iff hw hm f

/-- **C02.5** A move arriving on a rook's home square (in particular a promoting pawn capturing
the rook there) removes that castling right, in the engine and in the rules alike. -/
theorem right_lost_when_rook_home_is_taken (hw : g.WF) (hm : m ∈ g.pseudoMoves) (pl : Player) (ks : Bool)
    (hdst : m.toSpec.dst = (homeRow pl, if ks then 7 else 0)) :
    (g.push m).abs.right pl ks = false ∧ (Spec.play g.abs m.toSpec).right pl ks = false :=
  right_lost_on_rook_home hw hm pl ks hdst

/-- the text of the rules-level move is the engine's UCI text -/
theorem text_agrees (m : Move) : m.toSpec.text = m.uci := toSpec_uci m

end Chess.Props.C02

#print axioms Chess.Props.C02.successor_is_the_prescribed_one
#print axioms Chess.Props.C02.legal_successor_is_the_prescribed_one
#print axioms Chess.Props.C02.successor_agrees_except_captured_kings_rights
#print axioms Chess.Props.C02.line_is_the_prescribed_one
#print axioms Chess.Props.C02.en_passant_recorded_iff
#print axioms Chess.Props.C02.right_lost_when_rook_home_is_taken
#print axioms Chess.Props.C02.text_agrees

/-! ### Translation tie (C02.T)
`tools/translate.py` regenerates `Chess/Gen/Fns.lean` from the Rust text of the leaf functions on every run (a
parser, not patterns); the theorems below — proved in `Chess/Lemmas/FnsEquiv/*` and re-checked by the kernel whenever
the generated term changes — say that the TRANSLATED code equals the hand-written model this file's theorems are
about, for the state byte (en-passant nibble, the four castling bits: every getter and setter of `gamestate.rs`) and the rook home squares. A rewrite of the Rust text that keeps the meaning leaves them true; one that changes it breaks the
theorem named after the function. -/
#print axioms Chess.FnsEquiv.GameState_en_passant_eq
#print axioms Chess.FnsEquiv.GameState_set_en_passant_eq
#print axioms Chess.FnsEquiv.GameState_white_king_castling_eq
#print axioms Chess.FnsEquiv.GameState_white_queen_castling_eq
#print axioms Chess.FnsEquiv.GameState_black_king_castling_eq
#print axioms Chess.FnsEquiv.GameState_black_queen_castling_eq
#print axioms Chess.FnsEquiv.GameState_set_white_king_castling_false_eq
#print axioms Chess.FnsEquiv.GameState_set_white_queen_castling_false_eq
#print axioms Chess.FnsEquiv.GameState_set_black_king_castling_false_eq
#print axioms Chess.FnsEquiv.GameState_set_black_queen_castling_false_eq
#print axioms Chess.FnsEquiv.Position_add_eq
#print axioms Chess.FnsEquiv.Position_ROOKS_eq
