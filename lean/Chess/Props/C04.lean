import Chess.Lemmas.Reach
import Chess.Lemmas.SpecSums
import Chess.Lemmas.FenWrite
import Chess.Lemmas.FnsEquiv.GameState
import Chess.Lemmas.FnsEquiv.Piece
import Chess.Lemmas.FnsEquiv.Position
import Chess.Lemmas.FnsEquiv.Hash

/-!
# C04 — the position hash depends only on the position and is stable

`Spec.zobrist a` is the XOR of the published key-file entries of everything the rules care about in
the abstract position `a` (placement, side, rights, en-passant file); the keys are regenerated
from `zobrist_bytes.bin` with the byte offsets and layout parsed out of `zobrist.rs` on every run.
-/
namespace Chess.Props.C04
open Chess

/-- **C04.1** In every reachable game — imported from text, reached by moves played into the
record, or by search-style play and take-back — the incrementally maintained hash IS the key-file
sum of the position. -/
theorem hash_is_the_key_sum {g : Game} (h : Reach g) : g.hash = Spec.zobrist g.abs :=
  wf_hash_eq_spec (reach_wf h)

/-- **C04.2** Hence it does not depend on the route: one move order, another, a round trip, rights
lost by different routes, import from text — equal positions have equal hashes. -/
theorem hash_route_independent {g g' : Game} (h : Reach g) (h' : Reach g') (e : g.abs = g'.abs) :
    g.hash = g'.hash :=
  Chess.hash_route_independent (reach_wf h) (reach_wf h') e

/-- **C04.3** Exporting a reachable game as FEN and importing it again yields the same hash
(whenever the import succeeds: the reader checks that the rights/en-passant data are backed by the
board, so the imported game is reachable, and it denotes the same abstract position). -/
theorem hash_survives_reimport {g g' : Game} (h : Reach g) (hok : Game.ofFen g.fen = .ok g') :
    g'.hash = g.hash := by
  have h' : Reach g' := Reach.imported g.fen g' hok
  have e : g'.abs = g.abs := by
    have h1 := ofFen_sound hok
    rw [fen_denotes g] at h1
    exact (Option.some.inj h1).symm
  exact Chess.hash_route_independent (reach_wf h') (reach_wf h) e

/-- **C04.4** The standard start position hashes to the constant published in README.md — decided
by the kernel on the generated keys (a change of key file, offsets, layout or endianness breaks
this theorem). `startPos` is the start position written out, and it is what the start FEN denotes. -/
theorem start_position_hash : Spec.zobrist startPos = Gen.readmeStartHash ∧
    Spec.fenStrict startFen = some startPos :=
  ⟨start_hash, startPos_eq_fen⟩

end Chess.Props.C04

#print axioms Chess.Props.C04.hash_is_the_key_sum
#print axioms Chess.Props.C04.hash_route_independent
#print axioms Chess.Props.C04.hash_survives_reimport
#print axioms Chess.Props.C04.start_position_hash

/-! ### Translation tie (C04.T)
`tools/translate.py` regenerates `Chess/Gen/Fns.lean` from the Rust text of the leaf functions on every run (a
parser, not patterns); the theorems below — proved in `Chess/Lemmas/FnsEquiv/*` and re-checked by the kernel whenever
the generated term changes — say that the TRANSLATED code equals the hand-written model this file's theorems are
about, for what indexes the key tables: the state byte (`STATE[bitfield]`), `Piece::as_index` and `Position::as_usize` (`PIECE[sq][index]`). A rewrite of the Rust text that keeps the meaning leaves them true; one that changes it breaks the
theorem named after the function. -/
#print axioms Chess.FnsEquiv.GameState_default_eq
#print axioms Chess.FnsEquiv.GameState_en_passant_eq
#print axioms Chess.FnsEquiv.GameState_set_en_passant_eq
#print axioms Chess.FnsEquiv.Piece_as_index_eq
#print axioms Chess.FnsEquiv.Position_as_usize_eq_of_valid

/-! Second batch of translated functions (C04.T2): the INDEX arithmetic of the two key lookups (`STATE[bitfield]`, `PIECE[sq][kind]`): `GameState::hash` and `Piece::hash` as translated, with the generated key tables plugged in, are the model's `GState.hash` and `Piece.hash`. -/
#print axioms Chess.FnsEquiv.GameState_hash_eq
#print axioms Chess.FnsEquiv.Piece_hash_eq
#print axioms Chess.FnsEquiv.pieceRows_shape
