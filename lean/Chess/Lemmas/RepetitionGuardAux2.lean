import Chess.Lemmas.RepetitionGuardAux1
import Chess.Lemmas.Mate2

/-!
# The root's repetition guard: the statements for every game, and two example games

`found_ne_guarded` … `c10_fails_under_guard` are the generic theorems (see `RepetitionGuard.lean` for
the overview); `Example.ex2r` is a game in which all their hypotheses hold and a forced mate in two
exists through the guarded move only; `Example.exHuge` shows that the hypothesis on the evaluation
cannot simply be dropped.
-/
namespace Chess.Search.Rep
open Chess.Search Chess.Search.Mate Chess.Search.Mate2

variable {G M : Type} [DecidableEq M]

/-! ## 1. the guarded move is never answered -/

/-- **The driver never answers the move its root guard removes.** Fresh table, flag up, hook on or
off, any depth argument; `P` is a set of positions closed under the quiescence moves on which the
static evaluation is out of the driver's mate range, and contains the children of the root. If the
record says "repetition" with the move `m0`, the legal moves of the root are at least two (with
exactly one the only-move shortcut answers first, before the guard) and have no duplicates, the
driver does not answer `m0`. No hypothesis on the hash; `m0` need not even be legal. -/
theorem found_ne_guarded (o : Ops G M) (P : G → Prop) (hP : EvalOk o P) (g : G)
    (hroot : ∀ m ∈ o.checked g, P (o.push g m)) (m0 : M) (hrep : o.repetition g = some m0)
    (hnd : (o.checked g).Nodup) (hl2 : 2 ≤ (o.checked g).length)
    (runs : Nat → Bool) (hr : ∀ i, runs i = true) (off : Bool) (md : Option Nat) :
    (driver o runs g {} off md).found ≠ some m0 :=
  fun h => not_mem_rootMoves hrep hnd
    (driver_found_mem_rootMoves o P hP g hroot hl2 runs hr off md m0 h)

/-- the same with `Mate.Bounded o` (all static evaluations within `±31767`) -/
theorem found_ne_guarded_of_bounded (o : Ops G M) (hb : Bounded o) (g : G) (m0 : M)
    (hrep : o.repetition g = some m0) (hnd : (o.checked g).Nodup)
    (hl2 : 2 ≤ (o.checked g).length) (runs : Nat → Bool) (hr : ∀ i, runs i = true) (off : Bool)
    (md : Option Nat) : (driver o runs g {} off md).found ≠ some m0 :=
  found_ne_guarded o _ (EvalOk.of_bounded hb) g (fun _ _ => trivial) m0 hrep hnd hl2 runs hr off md

/-- **Any flag, any evaluation**: if the guarded move is not the first listed move (the move the
driver falls back on when no iteration produces one), it is not answered, even by a search that is
stopped at once. -/
theorem found_ne_guarded_of_head (o : Ops G M) (g : G) (m0 : M)
    (hrep : o.repetition g = some m0) (hnd : (o.checked g).Nodup)
    (hl : (o.checked g).length ≠ 1) (hh : (o.checked g).head? ≠ some m0)
    (runs : Nat → Bool) (off : Bool) (md : Option Nat) :
    (driver o runs g {} off md).found ≠ some m0 := by
  intro h
  refine not_mem_rootMoves hrep hnd
    (driver_found_mem_rootMoves_of_head o runs g off md hl (fun m hm => ?_) m0 h)
  refine mem_rootMoves_of_ne hrep (List.mem_of_mem_head? hm) ?_
  rintro rfl
  exact hh hm

/-- what IS answered: a legal move other than the guarded one (legality here needs no Zobrist
hypothesis: from the fresh table the root never answers from the table) -/
theorem found_legal_ne_guarded (o : Ops G M) (P : G → Prop) (hP : EvalOk o P) (g : G)
    (hroot : ∀ m ∈ o.checked g, P (o.push g m)) (m0 : M) (hrep : o.repetition g = some m0)
    (hnd : (o.checked g).Nodup) (hl2 : 2 ≤ (o.checked g).length)
    (runs : Nat → Bool) (hr : ∀ i, runs i = true) (off : Bool) (md : Option Nat) :
    ∃ m, (driver o runs g {} off md).found = some m ∧ m ∈ o.checked g ∧ m ≠ m0 := by
  have hne : o.checked g ≠ [] := by
    intro h; rw [h] at hl2; simp at hl2
  have hs := driver_found_of_moves o runs g {} off md hne
  cases hf : (driver o runs g {} off md).found with
  | none => rw [hf] at hs; cases hs
  | some m =>
    have hm := driver_found_mem_rootMoves o P hP g hroot hl2 runs hr off md m hf
    exact ⟨m, rfl, (mem_rootMoves_iff hrep hnd m).1 hm⟩

/-! ## 2. the finding: the guard gives the mate up -/

/-- the general form: whatever property of moves only the guarded move has, the answer lacks it -/
theorem guard_excludes (o : Ops G M) (P : G → Prop) (hP : EvalOk o P) (g : G)
    (hroot : ∀ m ∈ o.checked g, P (o.push g m)) (m0 : M) (hrep : o.repetition g = some m0)
    (hnd : (o.checked g).Nodup) (hl2 : 2 ≤ (o.checked g).length)
    (Good : M → Prop) (honly : ∀ m, Good m → m = m0)
    (runs : Nat → Bool) (hr : ∀ i, runs i = true) (off : Bool) (md : Option Nat) :
    ∃ m, (driver o runs g {} off md).found = some m ∧ m ∈ o.checked g ∧ m ≠ m0 ∧ ¬ Good m := by
  obtain ⟨m, h1, h2, h3⟩ := found_legal_ne_guarded o P hP g hroot m0 hrep hnd hl2 runs hr off md
  exact ⟨m, h1, h2, h3, fun hg => h3 (honly m hg)⟩

/-- **The finding (weak reading).** Under the hypotheses of `found_ne_guarded`, if the guarded move
is the only move that keeps a forced mate, the driver answers a legal move that does NOT keep it. -/
theorem guard_gives_up_the_mate (o : Ops G M) (P : G → Prop) (hP : EvalOk o P) (g : G)
    (hroot : ∀ m ∈ o.checked g, P (o.push g m)) (m0 : M) (hrep : o.repetition g = some m0)
    (hnd : (o.checked g).Nodup) (hl2 : 2 ≤ (o.checked g).length)
    (honly : ∀ m, KeepsForcedMate o g m → m = m0)
    (runs : Nat → Bool) (hr : ∀ i, runs i = true) (off : Bool) (md : Option Nat) :
    (driver o runs g {} off md).found.isSome ∧
    (∀ m, (driver o runs g {} off md).found = some m → ¬ KeepsForcedMate o g m) ∧
    ∃ m, (driver o runs g {} off md).found = some m ∧ m ∈ o.checked g ∧ m ≠ m0 ∧
      ¬ KeepsForcedMate o g m := by
  obtain ⟨m, h1, h2, h3, h4⟩ := guard_excludes o P hP g hroot m0 hrep hnd hl2
    (KeepsForcedMate o g) honly runs hr off md
  refine ⟨by rw [h1]; rfl, fun m' hm' => ?_, m, h1, h2, h3, h4⟩
  rw [h1] at hm'; cases hm'; exact h4

/-- **The finding (strong reading)**: if the guarded move is the only move that mates at once or
forces mate on the next move, the answer does neither. -/
theorem guard_gives_up_the_mate_strong (o : Ops G M) (P : G → Prop) (hP : EvalOk o P) (g : G)
    (hroot : ∀ m ∈ o.checked g, P (o.push g m)) (m0 : M) (hrep : o.repetition g = some m0)
    (hnd : (o.checked g).Nodup) (hl2 : 2 ≤ (o.checked g).length)
    (honly : ∀ m, KeepsMate o g m → m = m0)
    (runs : Nat → Bool) (hr : ∀ i, runs i = true) (off : Bool) (md : Option Nat) :
    (driver o runs g {} off md).found.isSome ∧
    (∀ m, (driver o runs g {} off md).found = some m → ¬ KeepsMate o g m) ∧
    ∃ m, (driver o runs g {} off md).found = some m ∧ m ∈ o.checked g ∧ m ≠ m0 ∧
      ¬ KeepsMate o g m := by
  obtain ⟨m, h1, h2, h3, h4⟩ := guard_excludes o P hP g hroot m0 hrep hnd hl2
    (KeepsMate o g) honly runs hr off md
  refine ⟨by rw [h1]; rfl, fun m' hm' => ?_, m, h1, h2, h3, h4⟩
  rw [h1] at hm'; cases hm'; exact h4

/-- **C10 ("a search to depth ≥ 5 plays a move that keeps a forced mate in two") is false of the
model in this situation**: the premise of C10 holds (`ForcedMate2 o g m0`: the side to move can
force mate in two), and its conclusion fails at EVERY depth argument, in particular for `md = none`
and for every `md = some N` with `5 ≤ N`. -/
theorem c10_fails_under_guard (o : Ops G M) (P : G → Prop) (hP : EvalOk o P) (g : G)
    (hroot : ∀ m ∈ o.checked g, P (o.push g m)) (m0 : M) (_h2 : ForcedMate2 o g m0)
    (hrep : o.repetition g = some m0) (hnd : (o.checked g).Nodup)
    (hl2 : 2 ≤ (o.checked g).length) (honly : ∀ m, KeepsForcedMate o g m → m = m0)
    (runs : Nat → Bool) (hr : ∀ i, runs i = true) (off : Bool) (md : Option Nat) :
    ¬ ∃ m, (driver o runs g {} off md).found = some m ∧ KeepsForcedMate o g m := by
  rintro ⟨m, hm, hk⟩
  exact (guard_gives_up_the_mate o P hP g hroot m0 hrep hnd hl2 honly runs hr off md).2.1 m hm hk

omit [DecidableEq M] in
/-- a position with a legal move after which the opponent has no legal move is not lost (the
opponent is mated or stalemated there, it does not mate) -/
theorem not_lose_of_dead_reply {o : Ops G M} {x : G} {m : M} (hm : m ∈ o.checked x)
    (hd : o.checked (o.push x m) = []) : ¬ Lose o x := by
  rintro ⟨k, hk⟩
  have hne : ¬ Mated o x := by
    intro hM
    have : o.checked x = [] := hM.1
    rw [this] at hm; cases hm
  cases k with
  | zero => exact hne hk
  | succ k =>
    rcases hk with hk | ⟨_, hk⟩
    · exact hne hk
    · obtain ⟨m', hm', _⟩ := hk m hm
      rw [hd] at hm'; cases hm'

/-! ## 3. example games

As in `Mate.lean`/`Mate2.lean`: `Std.HashMap` does not reduce in the kernel, so what the driver does
is obtained by APPLYING the theorems (kernel-checked); the `#guard`s are side checks by evaluation
and are labelled as such; the facts about the games themselves are kernel-checked by `decide`. -/
namespace Example
open Chess.Search.Mate2.Example

/-- `Mate2.Example.ex2` (the move `m` leads from `g` to `3 * g + m`; the root `0` has the moves
`1, 2, 3`; after `2` both replies allow mate in one; after `1` or `3` every reply stalemates) with a
move record of the shape `x M x' M' x` at the root, `M` being the move `2` -/
def ex2r : Ops (Fin 27) Nat :=
  { ex2 with repetition := fun g => if g.val = 0 then some 2 else none }

theorem ex2r_rep : ex2r.repetition 0 = some 2 := by decide
theorem ex2r_checked : ex2r.checked 0 = [1, 2, 3] := by decide
theorem ex2r_nodup : (ex2r.checked 0).Nodup := by decide
theorem ex2r_len : 2 ≤ (ex2r.checked 0).length := by decide
theorem ex2r_bounded : Bounded ex2r := by unfold Bounded; decide
theorem ex2r_inj : ∀ x y, ex2r.hash x = ex2r.hash y → x = y := by decide
/-- what the root loops over: `swap_remove` puts the last move in the hole -/
theorem ex2r_rootMoves : rootMoves ex2r 0 = [1, 3] := by decide
/-- the side to move can force mate in two, through the move `2` -/
theorem ex2r_forced : ForcedMate2 ex2r 0 2 := by
  unfold ForcedMate2 Lost1 MateIn1 Mated; decide
theorem ex2r_no1 : ¬ MateIn1 ex2r 0 := by unfold MateIn1 Mated; decide

/-- `2` is the ONLY move that keeps a forced mate (of any length) -/
theorem ex2r_only (m : Nat) (h : KeepsForcedMate ex2r 0 m) : m = 2 := by
  have hm : m = 1 ∨ m = 2 ∨ m = 3 := by
    have := h.1
    rw [ex2r_checked] at this
    simpa using this
  rcases hm with rfl | rfl | rfl
  · exact absurd h.2 (not_lose_of_dead_reply (m := 1) (by decide) (by decide))
  · rfl
  · exact absurd h.2 (not_lose_of_dead_reply (m := 1) (by decide) (by decide))

/-- all hypotheses of `c10_fails_under_guard` hold in `ex2r` -/
theorem ex2r_hyps :
    Bounded ex2r ∧ ForcedMate2 ex2r 0 2 ∧ ex2r.repetition 0 = some 2 ∧ 2 ∈ ex2r.checked 0 ∧
      (ex2r.checked 0).Nodup ∧ 2 ≤ (ex2r.checked 0).length ∧
      (∀ m, KeepsForcedMate ex2r 0 m → m = 2) ∧ (∀ x y, ex2r.hash x = ex2r.hash y → x = y) :=
  ⟨ex2r_bounded, ex2r_forced, ex2r_rep, by decide, ex2r_nodup, ex2r_len, ex2r_only, ex2r_inj⟩

/-- **The finding on a concrete game** (kernel-checked, by application of the theorem): for every
hook setting and every depth argument the engine answers `1` or `3`, which keeps no forced mate,
although the move `2` forces mate in two. -/
theorem ex2r_gives_up (off : Bool) (md : Option Nat) :
    ∃ m, (driver ex2r (fun _ => true) 0 {} off md).found = some m ∧ (m = 1 ∨ m = 3) ∧
      ¬ KeepsForcedMate ex2r 0 m := by
  obtain ⟨_, _, m, h1, h2, h3, h4⟩ := guard_gives_up_the_mate ex2r _ (EvalOk.of_bounded ex2r_bounded)
    0 (fun _ _ => trivial) 2 ex2r_rep ex2r_nodup ex2r_len ex2r_only _ (fun _ => rfl) off md
  refine ⟨m, h1, ?_, h4⟩
  rw [ex2r_checked] at h2
  have : m = 1 ∨ m = 2 ∨ m = 3 := by simpa using h2
  rcases this with h | h | h
  · exact Or.inl h
  · exact absurd h h3
  · exact Or.inr h

/-- C10 fails for `ex2r` at every depth argument … -/
theorem ex2r_c10_fails (off : Bool) (md : Option Nat) :
    ¬ ∃ m, (driver ex2r (fun _ => true) 0 {} off md).found = some m ∧ KeepsForcedMate ex2r 0 m :=
  c10_fails_under_guard ex2r _ (EvalOk.of_bounded ex2r_bounded) 0 (fun _ _ => trivial) 2 ex2r_forced
    ex2r_rep ex2r_nodup ex2r_len ex2r_only _ (fun _ => rfl) off md

/-- … whereas the same game without the record (`ex2`) plays the mate (`Mate2.Example.ex2_plays`) -/
theorem ex2_contrast (off : Bool) : (driver ex2 (fun _ => true) 0 {} off none).found = some 2 :=
  (ex2_plays off none (Or.inl rfl)).1

-- side checks by EVALUATION (not kernel-checked): the engine answers `1`, never sees a mate score,
-- and searches on to the limit
#guard (driver ex2r (fun _ => true) 0 {} false none).found == some 1
#guard (driver ex2r (fun _ => true) 0 {} true none).found == some 1
#guard (driver ex2r (fun _ => true) 0 {} false (some 5)).found == some 1
#guard (driver ex2r (fun _ => true) 0 {} false (some 7)).infos.map (fun i => (i.depth, i.score)) ==
  [(1, 2), (2, 0), (3, 0), (4, 0), (5, 0), (6, 0), (7, 0)]
#guard (driver ex2 (fun _ => true) 0 {} false none).found == some 2

/-! ### the hypothesis on the evaluation cannot simply be dropped

Three positions; the root `0` has the moves `0, 1` (to the dead positions `1, 2`), the record says
"repetition" with the move `0`, every static evaluation is `40000`. The only root move looped over
gets the score `-32767`, which is not above the initial `best_score`: the iteration returns no move,
the driver leaves the loop (mate range) and falls back on the first listed move — the guarded one.
All other hypotheses of `found_ne_guarded` hold. (In chess the evaluation is within `±30565` on
reachable games, `Range.eval_range`, so this does not happen there.) -/

def exHuge : Ops (Fin 3) Nat :=
  { mk 2 [[1, 2], [], []] [[0, 1], [], []] [[0, 1], [], []] [40000, 40000, 40000]
      [true, true, true] [0, 1] [0, 1, 2] with
    repetition := fun g => if g.val = 0 then some 0 else none }

theorem exHuge_hyps : exHuge.repetition 0 = some 0 ∧ (exHuge.checked 0).Nodup ∧
    2 ≤ (exHuge.checked 0).length ∧ (exHuge.checked 0).head? = some 0 ∧
    (∀ x y, exHuge.hash x = exHuge.hash y → x = y) ∧ ¬ Bounded exHuge := by
  refine ⟨by decide, by decide, by decide, by decide, by decide, fun h => ?_⟩
  have := (h 0).2
  revert this
  decide

-- by EVALUATION: the guarded move is answered
#guard (driver exHuge (fun _ => true) 0 {} false none).found == some 0
#guard (driver exHuge (fun _ => true) 0 {} false none).infos.map (fun i => (i.depth, i.score)) ==
  [(1, -32767)]

end Example

end Chess.Search.Rep
