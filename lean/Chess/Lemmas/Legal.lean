import Chess.Lemmas.LegalAux
import Chess.Lemmas.Reach
import Chess.Lemmas.StartHash

/-!
# C01 — the checked move list is exactly the set of legal moves

"In every position reachable by legal play from a sane starting position, the checked move list is
exactly the set of legal moves (none missing, none extra, none repeated); the unchecked list is a
superset of it, and each additional move is a geometrically valid piece move whose only fault is
that it leaves the mover's own king attacked."

* `SaneG` — the quantifier: representation invariant, both kings on their cached squares, the side
  not to move not in check. `saneG_of_sane`: it follows from `WF` and the rules' `Spec.sane`.
* `filter_test_eq_inCheck` — the test of the engine's filter is the rules' "own king attacked
  after the move".
* `shortcut_sound` — the engine's shortcut (skip the test for a `Normal` move from a square that
  shares no line with the unattacked king) never lets an illegal move through.
* `checked_iff_legal`, `checked_perm_legalList` (+ `checked_mem_legalList`, `checked_toSpec_nodup`,
  `legalList_nodup`, `checked_uci_perm`) — none missing, none extra, none repeated.
* `unchecked_extra_moves`, `checked_iff_unchecked_safe` — the unchecked list.
* `saneG_step`, `saneG_step_history`, `legal_sequence_sane`, `legalReach_sane`, `C01` — after every
  sequence of legal moves.
-/
namespace Chess.Legal
open Chess Chess.Spec Chess.Game

/-! ## 1. The quantifier -/

/-- what the proofs need of "sane position": the representation invariant, both kings on their
cached squares, the side **not** to move not in check -/
structure SaneG (g : Game) : Prop where
  wf : g.WF
  kings : ∀ pl : Player, g.get (g.kingPos pl) = some ⟨.king, pl⟩
  safe : Spec.inCheck g.abs g.player.other = false

theorem SaneG.kingExists {g : Game} (hs : SaneG g) (pl : Player) : g.kingExists pl = true := by
  unfold Game.kingExists
  rw [hs.kings pl]
  rfl

/-- in the engine's words: the cached square of the king of the side not to move is not attacked -/
theorem SaneG.other_safe {g : Game} (hs : SaneG g) :
    g.isTargeted (g.kingPos g.player.other) g.player.other = false := by
  have hsq := Game.kingSq_eq_kingPos g g.player.other hs.wf.kings (hs.kings _)
  have h := Game.kingSafe_iff' g g.player.other (hs.wf.kings.kvalid _) hsq
  rw [hs.safe] at h
  simpa using h

/-- exactly one king of `pl` on the board puts it on the cached square -/
theorem king_of_material {g : Game} (hw : g.WF) (pl : Player)
    (h : Spec.materialOk g.abs pl = true) : g.get (g.kingPos pl) = some ⟨.king, pl⟩ := by
  simp only [Spec.materialOk, Bool.and_eq_true, decide_eq_true_eq] at h
  have h1 := h.1
  unfold Spec.count at h1
  have hex : ∃ s, s ∈ allSqs.filter (fun s => decide (g.abs.at s = some ⟨.king, pl⟩)) := by
    apply List.exists_mem_of_length_pos
    omega
  obtain ⟨s, hs⟩ := hex
  rw [List.mem_filter] at hs
  have hat : g.abs.at s = some ⟨.king, pl⟩ := by simpa using hs.2
  have hv := sq_of_onBoard (APos.onBoard_of_at hat)
  have hg : g.get ⟨s.1, s.2⟩ = some ⟨.king, pl⟩ := by rw [g.get_eq_at _ hv]; exact hat
  rw [hw.kings.unique _ pl hv hg]
  exact hg

/-- **a well-formed game whose abstract position is sane by the rules satisfies `SaneG`** -/
theorem saneG_of_sane {g : Game} (hw : g.WF) (h : Spec.sane g.abs = true) : SaneG g := by
  simp only [Spec.sane, Bool.and_eq_true, Bool.not_eq_true'] at h
  obtain ⟨⟨⟨⟨⟨⟨⟨⟨hmw, hmb⟩, -⟩, hnc⟩, -⟩, -⟩, -⟩, -⟩, -⟩ := h
  refine ⟨hw, fun pl => ?_, hnc⟩
  cases pl
  · exact king_of_material hw .white hmw
  · exact king_of_material hw .black hmb

/-! ### a sane imported position is well formed

The FEN reader checks that castling rights and the en-passant file are backed by the board
(`ofFen_rightsInv`, `ofFen_epInv`), so every imported game is well formed (`ofFen_wf`). The rules'
`Spec.sane` contains both conditions too: the two lemmas below extract them for any game with
`KingInv`, imported or not. -/

theorem right_aux {g : Game} (hk : g.KingInv) (pl : Player) (r c : Int) (hr : 0 ≤ r ∧ r < 8)
    (hc : 0 ≤ c ∧ c < 8) (h1 : g.abs.at (r, 4) = some ⟨.king, pl⟩)
    (h2 : g.abs.at (r, c) = some ⟨.rook, pl⟩) :
    g.get ⟨r, c⟩ = some ⟨.rook, pl⟩ ∧ g.kingPos pl = ⟨r, 4⟩
      ∧ (g.kingExists pl = true → g.get ⟨r, 4⟩ = some ⟨.king, pl⟩) := by
  have v4 : (Pos.mk r 4).Valid := ⟨hr.1, hr.2, by show (0 : Int) ≤ 4; omega, by show (4 : Int) < 8; omega⟩
  have vc : (Pos.mk r c).Valid := ⟨hr.1, hr.2, hc.1, hc.2⟩
  have g4 : g.get ⟨r, 4⟩ = some ⟨.king, pl⟩ := by rw [g.get_eq_at _ v4]; exact h1
  have gc : g.get ⟨r, c⟩ = some ⟨.rook, pl⟩ := by rw [g.get_eq_at _ vc]; exact h2
  exact ⟨gc, hk.unique _ pl v4 g4, fun _ => g4⟩

/-- the rules' "castling rights agree with king and rook homes" is the engine's `RightsInv` -/
theorem rightsInv_of_sane {g : Game} (hk : g.KingInv) (h : Spec.sane g.abs = true) :
    g.RightsInv := by
  simp only [Spec.sane, Bool.and_eq_true, Bool.or_eq_true, Bool.not_eq_true',
    decide_eq_true_eq] at h
  obtain ⟨⟨⟨⟨⟨-, hwk⟩, hwq⟩, hbk⟩, hbq⟩, -⟩ := h
  constructor
  · intro hr
    rcases hwk with e | e
    · rw [show g.abs.wk = g.top.wk from rfl, hr] at e; cases e
    · exact right_aux hk .white 0 7 (by omega) (by omega) e.1 e.2
  · intro hr
    rcases hwq with e | e
    · rw [show g.abs.wq = g.top.wq from rfl, hr] at e; cases e
    · exact right_aux hk .white 0 0 (by omega) (by omega) e.1 e.2
  · intro hr
    rcases hbk with e | e
    · rw [show g.abs.bk = g.top.bk from rfl, hr] at e; cases e
    · exact right_aux hk .black 7 7 (by omega) (by omega) e.1 e.2
  · intro hr
    rcases hbq with e | e
    · rw [show g.abs.bq = g.top.bq from rfl, hr] at e; cases e
    · exact right_aux hk .black 7 0 (by omega) (by omega) e.1 e.2

/-- the rules' "the en-passant file is backed by a pawn that has just made its double step" is
the engine's `EpInv` -/
theorem epInv_of_sane {g : Game} (h : Spec.sane g.abs = true) : g.EpInv := by
  simp only [Spec.sane, Bool.and_eq_true] at h
  obtain ⟨-, hep⟩ := h
  intro h8
  have h0 := GState.enPassant_nonneg g.top
  rw [abs_ep, if_pos h8] at hep
  simp only [Bool.and_eq_true, decide_eq_true_eq, Option.isNone_iff_eq_none,
    Int.toNat_of_nonneg h0] at hep
  obtain ⟨⟨⟨-, h1⟩, h2⟩, -⟩ := hep
  rw [abs_side] at h1 h2
  cases hpl : g.player <;> rw [hpl] at h1 h2 <;> simp only [epFromRow, forward] at h1 h2 <;>
    simp only
  · exact ⟨by rw [g.get_mk_eq_at _ _ ⟨by omega, by omega, h0, h8⟩]; exact h1,
      by rw [g.get_mk_eq_at _ _ ⟨by omega, by omega, h0, h8⟩]; exact h2⟩
  · exact ⟨by rw [g.get_mk_eq_at _ _ ⟨by omega, by omega, h0, h8⟩]; exact h1,
      by rw [g.get_mk_eq_at _ _ ⟨by omega, by omega, h0, h8⟩]; exact h2⟩

/-- **a position the reader accepts and the rules call sane is well formed and `SaneG`** -/
theorem saneG_of_fen {s : List Char} {g : Game} (hok : Game.ofFen s = .ok g)
    (h : Spec.sane g.abs = true) : SaneG g :=
  saneG_of_sane (ofFen_wf hok) h

/-! ## 2. The king after the move; the filter's test in the rules' words -/

/-- the refinement square holds for every generated move of a `SaneG` game -/
theorem push_abs_eq {g : Game} (hs : SaneG g) {m : Move} (hm : m ∈ g.pseudoMoves) :
    (g.push m).abs = Spec.play g.abs m.toSpec :=
  push_abs_of_notInCheck hs.wf (hs.kings _) hs.safe hm

/-- both kings stand on their cached squares after every generated move -/
theorem push_kings {g : Game} (hs : SaneG g) {m : Move} (hm : m ∈ g.pseudoMoves) (pl : Player) :
    (g.push m).get ((g.push m).kingPos pl) = some ⟨.king, pl⟩ := by
  rcases player_eq_or g pl with rfl | rfl
  · exact own_king_after hs.wf (hs.kings _) hm
  · exact other_king_after hs.wf (hs.kings _) hm (noKingCapture_of_safe hs.wf hm hs.other_safe)

/-- **the test of the filter is "the mover's king is attacked in the position the rules
prescribe"** -/
theorem filter_test_eq_inCheck {g : Game} (hs : SaneG g) {m : Move} (hm : m ∈ g.pseudoMoves) :
    (g.push m).isTargeted ((g.push m).kingPos g.player) g.player
      = Spec.inCheck (Spec.play g.abs m.toSpec) g.player := by
  obtain ⟨hf, hmo⟩ := generated_fits hs.wf hm
  have hki := push_kingInv hs.wf.kings hf hmo
  have hsq := Game.kingSq_eq_kingPos (g.push m) g.player hki (push_kings hs hm _)
  have h := Game.kingSafe_iff' (g.push m) g.player (hki.kvalid _) hsq
  rw [push_abs_eq hs hm] at h
  exact Bool.not_inj h

/-- the same for the position before the move -/
theorem own_test_eq_inCheck {g : Game} (hs : SaneG g) :
    g.isTargeted (g.kingPos g.player) g.player = Spec.inCheck g.abs g.player := by
  have hsq := Game.kingSq_eq_kingPos g g.player hs.wf.kings (hs.kings _)
  exact Bool.not_inj (Game.kingSafe_iff' g g.player (hs.wf.kings.kvalid _) hsq)

/-! ## 3. The shortcut -/

/-- **The shortcut lemma.** If the mover's king is not attacked and a generated `Normal` move
starts on a square that shares no rank, file or diagonal with the king square, the king is not
attacked after the move: the filter may keep the move without testing it. -/
theorem shortcut_sound {g : Game} (hs : SaneG g) {pc : Piece} {start stop : Pos}
    {cap : Option Piece} (hm : Move.normal pc start stop cap ∈ g.pseudoMoves)
    (hsafe : g.isTargeted (g.kingPos g.player) g.player = false)
    (hskip : skipsCheck (g.kingPos g.player) (.normal pc start stop cap) = true) :
    Spec.inCheck (Spec.play g.abs (Move.normal pc start stop cap).toSpec) g.player = false := by
  rw [← filter_test_eq_inCheck hs hm]
  exact shortcut_engine hs.wf hm hsafe hskip

/-- the shortcut lemma with its hypotheses in the rules' words -/
theorem shortcut_sound_spec {g : Game} (hs : SaneG g) {pc : Piece} {start stop : Pos}
    {cap : Option Piece} (hm : Move.normal pc start stop cap ∈ g.pseudoMoves)
    (hsafe : Spec.inCheck g.abs g.player = false)
    (hun : Unaligned (start.row, start.col) ((g.kingPos g.player).row, (g.kingPos g.player).col)) :
    Spec.inCheck (Spec.play g.abs (Move.normal pc start stop cap).toSpec) g.player = false := by
  apply shortcut_sound hs hm
  · rw [own_test_eq_inCheck hs]; exact hsafe
  · obtain ⟨h1, h2, h3⟩ := hun
    simp only at h1 h2 h3
    simp only [skipsCheck, Bool.and_eq_true, decide_eq_true_eq, ne_eq]
    exact ⟨⟨h1, h2⟩, h3⟩

/-! ## 4. Checked = legal -/

theorem legal_iff (a : APos) (u : UciMove) :
    legal a u = true ↔ pseudo a u = true ∧ inCheck (play a u) a.side = false := by
  simp [legal]

/-- **none extra, none missing (move by move)**: a move is in the checked list iff it is generated
and legal by the rules -/
theorem checked_iff_legal {g : Game} (hs : SaneG g) (m : Move) :
    m ∈ (g.getMoves true).1 ↔ m ∈ g.pseudoMoves ∧ Spec.legal g.abs m.toSpec = true := by
  rw [mem_checked_iff hs.wf, legal_iff]
  constructor
  · rintro ⟨hm, h⟩
    refine ⟨hm, unchecked_subset_pseudo hs.wf hm, ?_⟩
    show inCheck (play g.abs m.toSpec) g.player = false
    rcases h with h | h
    · simp only [Bool.and_eq_true, Bool.not_eq_true'] at h
      cases m with
      | normal pc start stop cap => exact shortcut_sound hs hm h.1 h.2
      | promotion o t s e c => simp [skipsCheck] at h
      | castlingShort o => simp [skipsCheck] at h
      | castlingLong o => simp [skipsCheck] at h
      | enPassant o sc ec => simp [skipsCheck] at h
    · rw [← filter_test_eq_inCheck hs hm]
      simpa using h
  · rintro ⟨hm, -, hl⟩
    refine ⟨hm, .inr ?_⟩
    rw [filter_test_eq_inCheck hs hm]
    have hl' : inCheck (play g.abs m.toSpec) g.player = false := hl
    rw [hl']
    simp

/-! ## 5. None missing, none extra, none repeated -/

theorem allSqs_nodup : allSqs.Nodup := by
  unfold allSqs
  refine nodup_map_inj _ ?_ List.nodup_range
  intro a b e
  simp only [Prod.mk.injEq] at e
  omega

/-- the candidate list of the rules has no duplicates -/
theorem candidates_nodup : candidates.Nodup := by
  unfold candidates
  refine nodup_flatMap_key _ _ (fun u => u.src) (fun s => s) allSqs_nodup ?_ ?_
    (fun _ _ _ _ h => h)
  · intro s _
    refine nodup_flatMap_key _ _ (fun u => u.dst) (fun t => t) allSqs_nodup ?_ ?_
      (fun _ _ _ _ h => h)
    · intro t _
      simp [List.Nodup]
    · intro t _ u hu
      simp only [List.mem_cons, List.not_mem_nil, or_false] at hu
      rcases hu with rfl | rfl | rfl | rfl | rfl <;> rfl
  · intro s _ u hu
    simp only [List.mem_flatMap, List.mem_cons, List.not_mem_nil, or_false] at hu
    obtain ⟨t, -, hu⟩ := hu
    rcases hu with rfl | rfl | rfl | rfl | rfl <;> rfl

/-- the enumerated list of the rules holds exactly the legal moves -/
theorem mem_legalList (a : APos) (u : UciMove) : u ∈ legalList a ↔ legal a u = true := by
  unfold legalList
  rw [List.mem_filter, Spec.mem_candidates]
  constructor
  · exact fun h => h.2
  · intro h
    have hp := ((legal_iff a u).1 h).1
    exact ⟨⟨(pseudo_onBoard hp).1, (pseudo_onBoard hp).2, pseudo_promo hp⟩, h⟩

/-- (c) the rules' list of legal moves has no duplicates -/
theorem legalList_nodup (a : APos) : (legalList a).Nodup :=
  List.Nodup.sublist List.filter_sublist candidates_nodup

/-- (a) **none missing, none extra**: the text-level image of the checked list and the rules' list
of legal moves have the same members -/
theorem checked_mem_legalList {g : Game} (hs : SaneG g) (u : UciMove) :
    u ∈ (g.getMoves true).1.map Move.toSpec ↔ u ∈ Spec.legalList g.abs := by
  rw [mem_legalList, List.mem_map]
  constructor
  · rintro ⟨m, hm, rfl⟩
    exact ((checked_iff_legal hs m).1 hm).2
  · intro hl
    have hps := ((legal_iff _ _).1 hl).1
    rcases pseudo_subset_unchecked hs.wf (hs.kingExists _) hps with ⟨m, hm, rfl⟩ | ⟨hg, hnear⟩
    · exact ⟨m, (checked_iff_legal hs m).2 ⟨hm, hl⟩, rfl⟩
    · exfalso
      rcases near_king_step_illegal g hs.wf hg hps hnear (hs.kings _) with h | h
      · rw [hl] at h; cases h
      · rw [hs.safe] at h; cases h

/-- (b) **none repeated**: the checked list has no duplicates, even at text level -/
theorem checked_toSpec_nodup {g : Game} (hs : SaneG g) :
    ((g.getMoves true).1.map Move.toSpec).Nodup := by
  have h := (checked_sublist_unchecked hs.wf).map Move.toSpec
  rw [getMoves_false] at h
  exact List.Nodup.sublist h (pseudoMoves_toSpec_nodup hs.wf)

theorem checked_nodup {g : Game} (hs : SaneG g) : (g.getMoves true).1.Nodup := by
  have h := checked_sublist_unchecked hs.wf
  rw [getMoves_false] at h
  exact List.Nodup.sublist h (pseudoMoves_nodup hs.wf)

/-- **C01, the checked list**: as lists of text-level moves, the checked list is a permutation
of the rules' list of legal moves — none missing, none extra, none repeated -/
theorem checked_perm_legalList {g : Game} (hs : SaneG g) :
    ((g.getMoves true).1.map Move.toSpec).Perm (Spec.legalList g.abs) :=
  (List.perm_ext_iff_of_nodup (checked_toSpec_nodup hs) (legalList_nodup _)).2
    (checked_mem_legalList hs)

/-- the name used in the task statement -/
theorem checked_eq_legalList {g : Game} (hs : SaneG g) :
    ((g.getMoves true).1.map Move.toSpec).Perm (Spec.legalList g.abs) :=
  checked_perm_legalList hs

/-- the same for the UCI texts the engine prints -/
theorem checked_uci_perm {g : Game} (hs : SaneG g) :
    ((g.getMoves true).1.map Move.uci).Perm ((Spec.legalList g.abs).map UciMove.text) := by
  have h := (checked_perm_legalList hs).map UciMove.text
  rw [List.map_map] at h
  have e : (UciMove.text ∘ Move.toSpec) = Move.uci := funext (fun m => toSpec_uci m)
  rw [e] at h
  exact h

/-- a text is printed for the checked list iff it is the text of a legal move -/
theorem checked_uci_mem {g : Game} (hs : SaneG g) (t : List Char) :
    t ∈ (g.getMoves true).1.map Move.uci ↔ t ∈ (Spec.legalList g.abs).map UciMove.text :=
  (checked_uci_perm hs).mem_iff

/-! ## 6. The unchecked list -/

/-- **C01, the unchecked list**: every unchecked move is a geometrically valid piece move
(`pseudo`), and an unchecked move that is not in the checked list leaves the mover's own king
attacked -/
theorem unchecked_extra_moves {g : Game} (hs : SaneG g) {m : Move}
    (hm : m ∈ (g.getMoves false).1) :
    Spec.pseudo g.abs m.toSpec = true ∧
      (m ∉ (g.getMoves true).1 → Spec.inCheck (Spec.play g.abs m.toSpec) g.player = true) := by
  rw [getMoves_false] at hm
  have hps := unchecked_subset_pseudo hs.wf hm
  refine ⟨hps, fun hn => ?_⟩
  cases hc : Spec.inCheck (Spec.play g.abs m.toSpec) g.player with
  | true => rfl
  | false => exact absurd ((checked_iff_legal hs m).2 ⟨hm, (legal_iff _ _).2 ⟨hps, hc⟩⟩) hn

/-- the checked list is a sub-list of the unchecked list -/
theorem checked_sublist {g : Game} (hs : SaneG g) :
    (g.getMoves true).1.Sublist (g.getMoves false).1 :=
  checked_sublist_unchecked hs.wf

/-- the checked list is the unchecked list minus the moves that leave the own king attacked -/
theorem checked_iff_unchecked_safe {g : Game} (hs : SaneG g) (m : Move) :
    m ∈ (g.getMoves true).1 ↔
      m ∈ (g.getMoves false).1 ∧ Spec.inCheck (Spec.play g.abs m.toSpec) g.player = false := by
  rw [checked_iff_legal hs, getMoves_false, legal_iff]
  constructor
  · exact fun h => ⟨h.1, h.2.2⟩
  · exact fun h => ⟨h.1, unchecked_subset_pseudo hs.wf h.1, h.2⟩

/-! ## 7. After every sequence of legal moves -/

/-- **the induction step**: playing a checked move keeps `SaneG` -/
theorem saneG_step {g : Game} (hs : SaneG g) {m : Move} (hm : m ∈ (g.getMoves true).1) :
    SaneG (g.push m) := by
  have hf := getMoves_fits hs.wf true hm
  have hx := getMoves_extraOk g true m hm
  obtain ⟨hmp, hl⟩ := (checked_iff_legal hs m).1 hm
  refine ⟨push_wf hs.wf hf.1 hf.2 hx.1 hx.2, push_kings hs hmp, ?_⟩
  rw [push_abs_eq hs hmp, push_player, Player.other_other]
  exact ((legal_iff _ _).1 hl).2

/-- the checked list in the rules' words: a successor by a checked move is the successor the rules
prescribe for a legal move -/
theorem checked_push_abs {g : Game} (hs : SaneG g) {m : Move} (hm : m ∈ (g.getMoves true).1) :
    (g.push m).abs = Spec.play g.abs m.toSpec ∧ Spec.legal g.abs m.toSpec = true :=
  ⟨push_abs_eq hs ((checked_iff_legal hs m).1 hm).1, ((checked_iff_legal hs m).1 hm).2⟩

theorem abs_congr {g g' : Game} (hb : g'.board = g.board) (hp : g'.player = g.player)
    (hst : g'.state = g.state) : g'.abs = g.abs := by
  unfold Game.abs
  rw [hb, hp, top_congr hst]

/-- `SaneG` looks only at board, side, cached king squares and state stack -/
theorem saneG_congr {g g' : Game} (hs : SaneG g) (hw' : g'.WF) (hb : g'.board = g.board)
    (hw : g'.wking = g.wking) (hk : g'.bking = g.bking) (hp : g'.player = g.player)
    (hst : g'.state = g.state) : SaneG g' := by
  refine ⟨hw', fun pl => ?_, ?_⟩
  · rw [kingPos_congr hw hk, get_congr hb]; exact hs.kings pl
  · rw [abs_congr hb hp hst, hp]; exact hs.safe

/-- the checked list looks only at board, side, cached king squares and state stack -/
theorem checked_congr {g g' : Game} (hs : SaneG g) (hs' : SaneG g') (hb : g'.board = g.board)
    (hw : g'.wking = g.wking) (hk : g'.bking = g.bking) (hp : g'.player = g.player)
    (hst : g'.state = g.state) {m : Move} (hm : m ∈ (g.getMoves true).1) :
    m ∈ (g'.getMoves true).1 := by
  obtain ⟨hmp, hl⟩ := (checked_iff_legal hs m).1 hm
  have hl' : legal g'.abs m.toSpec = true := by rw [abs_congr hb hp hst]; exact hl
  have hps := ((legal_iff _ _).1 hl').1
  rcases pseudo_subset_unchecked hs'.wf (hs'.kingExists _) hps with ⟨m', hm', e⟩ | ⟨hg, hnear⟩
  · have : m' = m :=
      toSpec_inj_of_fits g' m' m (generated_fits hs'.wf hm').1
        ((fits_congr hb hw hk hp m).2 (generated_fits hs.wf hmp).1)
        (generated_shape hm') (generated_shape hmp) e
    subst this
    exact (checked_iff_legal hs' m').2 ⟨hm', hl'⟩
  · exfalso
    rcases near_king_step_illegal g' hs'.wf hg hps hnear (hs'.kings _) with h | h
    · rw [hl'] at h; cases h
    · rw [hs'.safe] at h; cases h

/-- what `push_history` does before it plays the move: record it, refresh the phase -/
def prep (g : Game) (m : Move) : Game :=
  ({ g with moveStack := m :: g.moveStack } : Game).updatePhase

theorem pushHistory_eq (g : Game) (m : Move) : g.pushHistory m = (prep g m).push m := rfl

theorem prep_board {g : Game} (hw : g.WF) (m : Move) : (prep g m).board = g.board :=
  updatePhase_board (recordMove_wf m hw).kings

theorem saneG_prep {g : Game} (hs : SaneG g) (m : Move) : SaneG (prep g m) :=
  saneG_congr hs (updatePhase_wf (recordMove_wf m hs.wf)) (prep_board hs.wf m)
    (by simp [prep]) (by simp [prep]) (by simp [prep]) (by simp [prep])

theorem prep_abs {g : Game} (hw : g.WF) (m : Move) : (prep g m).abs = g.abs :=
  abs_congr (prep_board hw m) (by simp [prep]) (by simp [prep])

theorem prep_checked {g : Game} (hs : SaneG g) (m : Move) {m' : Move}
    (hm : m' ∈ (g.getMoves true).1) : m' ∈ ((prep g m).getMoves true).1 :=
  checked_congr hs (saneG_prep hs m) (prep_board hs.wf m)
    (by simp [prep]) (by simp [prep]) (by simp [prep]) (by simp [prep]) hm

/-- **the induction step for `push_history`** -/
theorem saneG_step_history {g : Game} (hs : SaneG g) {m : Move} (hm : m ∈ (g.getMoves true).1) :
    SaneG (g.pushHistory m) := by
  rw [pushHistory_eq]
  exact saneG_step (saneG_prep hs m) (prep_checked hs m hm)

/-- `push_history` of a checked move reaches the position the rules prescribe -/
theorem pushHistory_abs {g : Game} (hs : SaneG g) {m : Move} (hm : m ∈ (g.getMoves true).1) :
    (g.pushHistory m).abs = Spec.play g.abs m.toSpec := by
  rw [pushHistory_eq, (checked_push_abs (saneG_prep hs m) (prep_checked hs m hm)).1,
    prep_abs hs.wf]

/-- a line of moves, each taken from the checked list of the game reached so far -/
def pushAllChecked : Game → List Move → Prop
  | _, [] => True
  | g, m :: ms => m ∈ (g.getMoves true).1 ∧ pushAllChecked (g.push m) ms

/-- the same for `push_history` -/
def pushAllHistory : Game → List Move → Prop
  | _, [] => True
  | g, m :: ms => m ∈ (g.getMoves true).1 ∧ pushAllHistory (g.pushHistory m) ms

/-- **after every sequence of legal moves** (search-style play) -/
theorem legal_sequence_sane : ∀ (ms : List Move) (g : Game), SaneG g → pushAllChecked g ms →
    SaneG (pushAll g ms)
  | [], _, hs, _ => hs
  | m :: ms, g, hs, ⟨hm, hrest⟩ => legal_sequence_sane ms (g.push m) (saneG_step hs hm) hrest

/-- **after every sequence of legal moves** (moves played into the record) -/
theorem legal_history_sane : ∀ (ms : List Move) (g : Game), SaneG g → pushAllHistory g ms →
    SaneG (ms.foldl Game.pushHistory g)
  | [], _, hs, _ => hs
  | m :: ms, g, hs, ⟨hm, hrest⟩ =>
    legal_history_sane ms (g.pushHistory m) (saneG_step_history hs hm) hrest

/-- along a line of checked moves the engine follows the rules, and every move is legal there -/
theorem legal_sequence_abs : ∀ (ms : List Move) (g : Game), SaneG g → pushAllChecked g ms →
    (pushAll g ms).abs = Spec.playAll g.abs (ms.map Move.toSpec)
  | [], _, _, _ => rfl
  | m :: ms, g, hs, ⟨hm, hrest⟩ => by
    show (pushAll (g.push m) ms).abs = Spec.playAll (Spec.play g.abs m.toSpec) (ms.map Move.toSpec)
    rw [legal_sequence_abs ms (g.push m) (saneG_step hs hm) hrest, (checked_push_abs hs hm).1]

/-- games reachable from `g0` by legal play: checked moves, played into the record or tried by the
search -/
inductive LegalReach (g0 : Game) : Game → Prop
  | start : LegalReach g0 g0
  | played (g : Game) (m : Move) : LegalReach g0 g → m ∈ (g.getMoves true).1 →
      LegalReach g0 (g.pushHistory m)
  | searched (g : Game) (m : Move) : LegalReach g0 g → m ∈ (g.getMoves true).1 →
      LegalReach g0 (g.push m)

theorem legalReach_sane {g0 g : Game} (h0 : SaneG g0) (h : LegalReach g0 g) : SaneG g := by
  induction h with
  | start => exact h0
  | played g m _ hm ih => exact saneG_step_history ih hm
  | searched g m _ hm ih => exact saneG_step ih hm

/-- **C01.** In every position reachable by legal play from a sane starting position: the checked
list is (as text-level moves) a permutation of the rules' list of legal moves — none missing, none
extra, none repeated —, it is a sub-list of the unchecked list, every unchecked move is a
geometrically valid piece move, and an unchecked move outside the checked list leaves the mover's
own king attacked. -/
theorem C01 {g0 g : Game} (hw : g0.WF) (h0 : Spec.sane g0.abs = true) (h : LegalReach g0 g) :
    ((g.getMoves true).1.map Move.toSpec).Perm (Spec.legalList g.abs)
    ∧ (g.getMoves true).1.Nodup
    ∧ (g.getMoves true).1.Sublist (g.getMoves false).1
    ∧ ∀ m ∈ (g.getMoves false).1, Spec.pseudo g.abs m.toSpec = true ∧
        (m ∉ (g.getMoves true).1 → Spec.inCheck (Spec.play g.abs m.toSpec) g.player = true) := by
  have hs := legalReach_sane (saneG_of_sane hw h0) h
  exact ⟨checked_perm_legalList hs, checked_nodup hs, checked_sublist hs,
    fun m hm => unchecked_extra_moves hs hm⟩

/-- **C01 for a position imported from a FEN text** that is sane by the rules: no further
hypothesis -/
theorem C01_imported {s : List Char} {g0 g : Game} (hok : Game.ofFen s = .ok g0)
    (h0 : Spec.sane g0.abs = true) (h : LegalReach g0 g) :
    ((g.getMoves true).1.map Move.toSpec).Perm (Spec.legalList g.abs)
    ∧ (g.getMoves true).1.Nodup
    ∧ (g.getMoves true).1.Sublist (g.getMoves false).1
    ∧ ∀ m ∈ (g.getMoves false).1, Spec.pseudo g.abs m.toSpec = true ∧
        (m ∉ (g.getMoves true).1 → Spec.inCheck (Spec.play g.abs m.toSpec) g.player = true) :=
  C01 (saneG_of_fen hok h0).wf h0 h

/-- a game reachable by legal play is reachable in the sense of `Reach` -/
theorem legalReach_reach {g0 g : Game} (h0 : Reach g0) (h : LegalReach g0 g) : Reach g := by
  induction h with
  | start => exact h0
  | played g m _ hm ih => exact .played g m ih hm
  | searched g m _ hm ih => exact .searched g m true ih hm

/-! ### the hypotheses are satisfiable: the standard start position -/

set_option maxRecDepth 100000 in
theorem startPos_sane : Spec.sane startPos = true := by decide +kernel

set_option maxRecDepth 100000 in
theorem startPos_material : MaterialOKBoard startPos.board := by
  unfold MaterialOKBoard; decide +kernel

/-- the reader accepts the standard start text, and the game it builds is `SaneG`: C01 holds for
every game reachable from it by legal play -/
theorem start_saneG : ∃ g, Game.ofFen startFen = .ok g ∧ g.abs = startPos ∧ SaneG g := by
  obtain ⟨g, hok, habs⟩ := ofFen_complete_of_sane startPos_eq_fen startPos_sane
  exact ⟨g, hok, habs, saneG_of_fen hok (by rw [habs]; exact startPos_sane)⟩

end Chess.Legal

#print axioms Chess.Legal.shortcut_sound
#print axioms Chess.Legal.shortcut_engine
#print axioms Chess.Legal.filter_test_eq_inCheck
#print axioms Chess.Legal.checked_iff_legal
#print axioms Chess.Legal.checked_perm_legalList
#print axioms Chess.Legal.checked_eq_legalList
#print axioms Chess.Legal.checked_mem_legalList
#print axioms Chess.Legal.checked_toSpec_nodup
#print axioms Chess.Legal.legalList_nodup
#print axioms Chess.Legal.checked_uci_perm
#print axioms Chess.Legal.unchecked_extra_moves
#print axioms Chess.Legal.saneG_step
#print axioms Chess.Legal.saneG_step_history
#print axioms Chess.Legal.saneG_of_sane
#print axioms Chess.Legal.legal_sequence_sane
#print axioms Chess.Legal.C01
#print axioms Chess.Legal.C01_imported
#print axioms Chess.Legal.saneG_of_fen
#print axioms Chess.Legal.start_saneG
