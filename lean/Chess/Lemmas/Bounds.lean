import Chess.Lemmas.Reach
import Chess.Lemmas.KeyFacts
import Chess.Lemmas.Pseudo

/-!
# C15 — the unchecked fast paths stay within bounds

The Rust source skips bounds checks (`get_unchecked`, `get_unchecked_mut`, `push_unchecked`,
`unwrap_unchecked`, `add_unsafe`, `new_unsafe`).  In the model the mirrored operations are total,
so "the index is inside" is a separate obligation per site class; this file discharges them:

1. square indexing (`get_position`, `set_position`, `Piece::score`, `Piece::hash`,
   `GameState::hash`, `add_unsafe` in `get_pawn_moves`);
2. the state stack is never empty (`state()`), also right after `pop`'s truncate;
3. history / killer indices;
4. the state stack stays below its capacity (`push`'s `push_unchecked`);
5. the move buffer (`get_moves`' `push_unchecked`): NOT proved, named hypothesis `MoveCountBound`,
   with crude per-piece bounds;
6. the inventory of unchecked sites (generated from the Rust source) is covered by 1–5.
-/
namespace Chess.Bounds

open Chess Chess.Game

/-! ## 1. Square indexing -/

/-! ### 1a. the squares written by `push` / `pop` -/

/-- the `set_position` calls of `push` (model: `applyMove` / `applyMoveG`), in order -/
def writes : Move → List (Pos × Option Piece)
  | .normal pc s e _ => [(s, none), (e, some pc)]
  | .promotion o t s e _ => [(s, none), (e, some ⟨t, o⟩)]
  | .enPassant o sc ec =>
    [((epSquares o sc ec).2.2, none), ((epSquares o sc ec).1, none),
      ((epSquares o sc ec).2.1, some ⟨.pawn, o⟩)]
  | .castlingLong o =>
    [(⟨homeRow o, 0⟩, none), (⟨homeRow o, 4⟩, none), (⟨homeRow o, 3⟩, some ⟨.rook, o⟩),
      (⟨homeRow o, 2⟩, some ⟨.king, o⟩)]
  | .castlingShort o =>
    [(⟨homeRow o, 7⟩, none), (⟨homeRow o, 4⟩, none), (⟨homeRow o, 5⟩, some ⟨.rook, o⟩),
      (⟨homeRow o, 6⟩, some ⟨.king, o⟩)]

/-- the `set_position` calls of `pop` (model: `unapplyMove`), in order -/
def unwrites : Move → List (Pos × Option Piece)
  | .normal pc s e cap => [(s, some pc), (e, cap)]
  | .promotion o _ s e cap => [(s, some ⟨.pawn, o⟩), (e, cap)]
  | .enPassant o sc ec =>
    [((epSquares o sc ec).2.1, none), ((epSquares o sc ec).2.2, some ⟨.pawn, o.other⟩),
      ((epSquares o sc ec).1, some ⟨.pawn, o⟩)]
  | .castlingLong o =>
    [(⟨homeRow o, 3⟩, none), (⟨homeRow o, 2⟩, none), (⟨homeRow o, 0⟩, some ⟨.rook, o⟩),
      (⟨homeRow o, 4⟩, some ⟨.king, o⟩)]
  | .castlingShort o =>
    [(⟨homeRow o, 5⟩, none), (⟨homeRow o, 6⟩, none), (⟨homeRow o, 7⟩, some ⟨.rook, o⟩),
      (⟨homeRow o, 4⟩, some ⟨.king, o⟩)]

/-- the squares `push` and `pop` pass to `set_position` -/
def touched (m : Move) : List Pos := (writes m).map (·.1) ++ (unwrites m).map (·.1)

/-- where the king cache is moved by `push`, if it is -/
def kingDest : Move → Option Pos
  | .normal pc _ e _ => if pc.pieceType = .king then some e else none
  | .castlingLong o => some ⟨homeRow o, 2⟩
  | .castlingShort o => some ⟨homeRow o, 6⟩
  | _ => none

/-- `writes` is exactly what the board part of `push` does -/
theorem applyMoveG_eq_writes (g : Game) (m : Move) :
    applyMoveG g m =
      match kingDest m with
      | some d => (g.setMany (writes m)).setKingPos g.player d
      | none => g.setMany (writes m) := by
  cases m with
  | normal pc s e cap =>
    simp only [applyMoveG, kingDest, writes, setMany]
    split <;> simp
  | promotion o t s e cap => rfl
  | enPassant o sc ec => rfl
  | castlingLong o => simp [applyMoveG, kingDest, writes, setMany]
  | castlingShort o => simp [applyMoveG, kingDest, writes, setMany]

/-- `unwrites` is exactly what the board part of `pop` does (up to the king cache) -/
theorem unapplyMove_board (g : Game) (m : Move) :
    (unapplyMove g m).board = (g.setMany (unwrites m)).board := by
  cases m with
  | normal pc s e cap =>
    simp only [unapplyMove, unwrites, setMany]
    split <;> simp
  | promotion o t s e cap => rfl
  | enPassant o sc ec => cases o <;> rfl
  | castlingLong o => simp [unapplyMove, unwrites, setMany]
  | castlingShort o => simp [unapplyMove, unwrites, setMany]

theorem applyMoveG_board (g : Game) (m : Move) :
    (applyMoveG g m).board = (g.setMany (writes m)).board := by
  rw [applyMoveG_eq_writes]
  split <;> simp

/-- **every square that `push` and `pop` of a fitting move hand to `set_position` is on the
board** (`get_unchecked_mut` ×3 in `set_position`, and through it `Piece::score`/`Piece::hash`) -/
theorem pos_valid_of_fits {g : Game} {m : Move} (hf : g.Fits m) : ∀ p ∈ touched m, p.Valid := by
  cases m with
  | normal pc s e cap =>
    obtain ⟨hs, he, -⟩ := hf
    simp [touched, writes, unwrites, hs, he]
  | promotion o t s e cap =>
    obtain ⟨hs, he, -⟩ := hf
    simp [touched, writes, unwrites, hs, he]
  | enPassant o sc ec =>
    obtain ⟨h1, h2, h3, h4, -⟩ := hf
    obtain ⟨v1, v2, v3⟩ := epSquares_valid o sc ec h1 h2 h3 h4
    simp [touched, writes, unwrites, v1, v2, v3]
  | castlingLong o =>
    have v := fun c h0 h8 => homeRow_valid o c h0 h8
    simp [touched, writes, unwrites, v]
  | castlingShort o =>
    have v := fun c h0 h8 => homeRow_valid o c h0 h8
    simp [touched, writes, unwrites, v]

theorem writes_valid {g : Game} {m : Move} (hf : g.Fits m) : ∀ e ∈ writes m, e.1.Valid := by
  intro e he
  exact pos_valid_of_fits hf e.1 (by simp only [touched, List.mem_append, List.mem_map]; exact .inl ⟨e, he, rfl⟩)

theorem unwrites_valid {g : Game} {m : Move} (hf : g.Fits m) : ∀ e ∈ unwrites m, e.1.Valid := by
  intro e he
  exact pos_valid_of_fits hf e.1 (by simp only [touched, List.mem_append, List.mem_map]; exact .inr ⟨e, he, rfl⟩)

/-- the two `get_position` probes of `push` after a pawn's double step (`stop.col > 0`,
`stop.col < 7` guards) -/
theorem ep_probe_valid {stop : Pos} (h : stop.Valid) :
    (stop.col > 0 → (⟨stop.row, stop.col - 1⟩ : Pos).Valid)
    ∧ (stop.col < 7 → (⟨stop.row, stop.col + 1⟩ : Pos).Valid) := by
  unfold Pos.Valid at *
  simp only
  omega

/-! ### 1b. the squares read by the generators -/

/-- **`add_unsafe` in `get_pawn_moves`**: a pawn on its first row has both squares of the double
step on the board (White: row 1, deltas (1,0) and (2,0); Black: row 6, (-1,0) and (-2,0) — the
GENERATED constants) -/
theorem double_push_in_board {p : Pos} (hp : p.Valid) :
    (p.row = Gen.pawnFirstRowW →
      (p.addUnsafe Gen.pawnDeltaW).Valid ∧ (p.addUnsafe Gen.pawnFirstDeltaW).Valid)
    ∧ (p.row = Gen.pawnFirstRowB →
      (p.addUnsafe Gen.pawnDeltaB).Valid ∧ (p.addUnsafe Gen.pawnFirstDeltaB).Valid) := by
  unfold Pos.Valid at *
  simp only [Gen.pawnFirstRowW, Gen.pawnFirstRowB, Gen.pawnDeltaW, Gen.pawnDeltaB,
    Gen.pawnFirstDeltaW, Gen.pawnFirstDeltaB, Pos.addUnsafe]
  omega

/-- the constants `get_pawn_moves` selects by owner -/
def pawnConsts (o : Player) : Int × (Int × Int) × (Int × Int) :=
  match o with
  | .white => (Gen.pawnFirstRowW, Gen.pawnDeltaW, Gen.pawnFirstDeltaW)
  | .black => (Gen.pawnFirstRowB, Gen.pawnDeltaB, Gen.pawnFirstDeltaB)

theorem double_push_in_board' {p : Pos} (hp : p.Valid) (o : Player)
    (hr : p.row = (pawnConsts o).1) :
    (p.addUnsafe (pawnConsts o).2.1).Valid ∧ (p.addUnsafe (pawnConsts o).2.2).Valid := by
  cases o
  · exact (double_push_in_board hp).1 hr
  · exact (double_push_in_board hp).2 hr

/-- the double step written by the generator reads exactly these squares: the `dbl` part of
`pawnMoves` is `Pseudo.pawnDbl` at `pawnConsts` -/
theorem pawnMoves_dbl_consts (o : Player) :
    (pawnConsts o).1 = Spec.pawnStartRow o ∧ (pawnConsts o).2.1 = (Spec.forward o, 0)
      ∧ (pawnConsts o).2.2 = (2 * Spec.forward o, 0) := by
  cases o <;> exact ⟨rfl, rfl, rfl⟩

/-- **every square the generators read is on the board**: the loop squares; every result of
`Position::add`; the literal castling squares; the cached king squares; the double step -/
theorem generator_squares_valid :
    (∀ p ∈ allSquares, p.Valid)
    ∧ (∀ (p q : Pos) (d : Int × Int), p.add d = some q → q.Valid)
    ∧ (∀ (pl : Player) (c : Int), 0 ≤ c → c < 8 → (⟨homeRow pl, c⟩ : Pos).Valid)
    ∧ (∀ (g : Game) (pl : Player), g.KingInv → (g.kingPos pl).Valid)
    ∧ (∀ (p : Pos) (o : Player), p.Valid → p.row = (pawnConsts o).1 →
        (p.addUnsafe (pawnConsts o).2.1).Valid ∧ (p.addUnsafe (pawnConsts o).2.2).Valid) :=
  ⟨fun _ h => allSquares_valid h, fun _ _ _ h => Pos.add_valid h, homeRow_valid,
    fun _ pl h => h.kvalid pl, fun _ o hp hr => double_push_in_board' hp o hr⟩

/-- on a valid square `get_position` is a genuine array read -/
theorem get_eq_getElem (g : Game) {p : Pos} (hp : p.Valid) :
    g.get p = g.board[p.idx]'(Pos.idx_lt hp) := by
  unfold Game.get
  rw [dif_pos (Pos.idx_lt hp)]

/-- on a valid square `set_position` takes its real branch -/
theorem setPosition_in_bounds (g : Game) {p : Pos} (hp : p.Valid) (x : Option Piece) :
    (g.setPosition p x).board = g.board.set p.idx x (Pos.idx_lt hp) :=
  setPosition_board g p x hp

/-! ### 1c. table indices -/

/-- **`Piece::score`**: the table index is below 64 for either owner's row flip -/
theorem score_index_lt {p : Pos} (hp : p.Valid) :
    ((7 - p.row) * 8 + p.col).toNat < 64 ∧ (p.row * 8 + p.col).toNat < 64 := by
  unfold Pos.Valid at hp
  omega

/-- the position built by `new_unsafe` in `Piece::score` is on the board -/
theorem score_flip_valid {p : Pos} (hp : p.Valid) : (⟨7 - p.row, p.col⟩ : Pos).Valid := by
  unfold Pos.Valid at *
  simp only
  omega

theorem score_tables_size :
    Gen.queenScores.size = 64 ∧ Gen.rookScores.size = 64 ∧ Gen.bishopScores.size = 64
    ∧ Gen.knightScores.size = 64 ∧ Gen.pawnScores.size = 64 ∧ Gen.kingScoresMiddle.size = 64
    ∧ Gen.kingScoresEnd.size = 64 := by decide

theorem scoreTable_size (t : PieceType) (e : Bool) : (Piece.scoreTable t e).size = 64 := by
  obtain ⟨h1, h2, h3, h4, h5, h6, h7⟩ := score_tables_size
  cases t <;> cases e <;> simp only [Piece.scoreTable] <;> first | assumption | (simp only [if_true, Bool.false_eq_true, if_false]; assumption)

/-- the index `Piece::score` uses -/
def scoreIndex (pc : Piece) (p : Pos) : Nat :=
  match pc.owner with
  | .white => ((7 - p.row) * 8 + p.col).toNat
  | .black => (p.row * 8 + p.col).toNat

theorem scoreIndex_lt (pc : Piece) {p : Pos} (hp : p.Valid) (e : Bool) :
    scoreIndex pc p < (Piece.scoreTable pc.pieceType e).size := by
  rw [scoreTable_size]
  unfold scoreIndex
  cases pc.owner
  · exact (score_index_lt hp).1
  · exact (score_index_lt hp).2

/-- `Piece::score` never falls back to the default of `getD`: it is a genuine table read -/
theorem score_eq_getElem (pc : Piece) {p : Pos} (hp : p.Valid) (e : Bool) :
    pc.score p e
      = (Piece.scoreTable pc.pieceType e)[scoreIndex pc p]'(scoreIndex_lt pc hp e) * pc.owner.sign := by
  have h := scoreIndex_lt pc hp e
  obtain ⟨t, o⟩ := pc
  cases o
  · show (Piece.scoreTable t e).getD (scoreIndex ⟨t, .white⟩ p) 0 * _ = _
    rw [Array.getD_eq_getD_getElem?, Array.getElem?_eq_getElem h]
    rfl
  · show (Piece.scoreTable t e).getD (scoreIndex ⟨t, .black⟩ p) 0 * _ = _
    rw [Array.getD_eq_getD_getElem?, Array.getElem?_eq_getElem h]
    rfl

/-- **`Piece::as_index`** -/
theorem asIndex_lt (pc : Piece) : pc.asIndex < 12 := by
  obtain ⟨t, o⟩ := pc
  cases t <;> cases o <;> decide

/-- **`Piece::hash`**: the key index is inside the generated key table -/
theorem piece_key_index_lt (pc : Piece) {p : Pos} (hp : p.Valid) :
    p.idx * 12 + pc.asIndex < Gen.pieceKeys.size := by
  rw [pieceKeys_size]
  have := Pos.idx_lt hp
  have := asIndex_lt pc
  omega

theorem piece_hash_eq_getElem (pc : Piece) {p : Pos} (hp : p.Valid) :
    pc.hash p = Gen.pieceKeys[p.idx * 12 + pc.asIndex]'(piece_key_index_lt pc hp) := by
  unfold Piece.hash
  rw [Array.getD_eq_getD_getElem?, Array.getElem?_eq_getElem (piece_key_index_lt pc hp)]
  rfl

/-- **`GameState::hash`**: a byte indexes the 256-entry state key table -/
theorem state_key_index_lt (s : GState) : s.toNat < Gen.stateKeys.size := by
  rw [stateKeys_size]
  exact UInt8.toNat_lt s

theorem state_hash_eq_getElem (s : GState) :
    GState.hash s = Gen.stateKeys[s.toNat]'(state_key_index_lt s) := by
  unfold GState.hash
  rw [Array.getD_eq_getD_getElem?, Array.getElem?_eq_getElem (state_key_index_lt s)]
  rfl

/-! ## 6. The inventory of unchecked sites -/

/-- the `(file, function)` classes covered by the theorems of this file -/
def coveredSites : List (String × String) :=
  [("src/chess/gamestate.rs", "hash"),       -- `state_key_index_lt`
   ("src/chess/mod.rs", "get_moves"),        -- `MoveCountBound` (hypothesis) + crude bounds
   ("src/chess/mod.rs", "get_position"),     -- `generator_squares_valid`, `ep_probe_valid`
   ("src/chess/mod.rs", "push"),             -- `stack_below_cap`, `search_line_below_cap`
   ("src/chess/mod.rs", "set_position"),     -- `pos_valid_of_fits`
   ("src/chess/mod.rs", "state"),            -- `reach_state_ne_nil`, `pop_push_state_ne_nil`
   ("src/chess/piece.rs", "get_pawn_moves"), -- `double_push_in_board`
   ("src/chess/piece.rs", "hash"),           -- `piece_key_index_lt`
   ("src/chess/piece.rs", "score")]          -- `score_index_lt`

/-- the unchecked operations analysed, per `(file, function, kind)`, with the number of occurrences the
theorems of this file account for -/
def analysedSites : List ((String × String × String) × Nat) :=
  [(("src/chess/gamestate.rs", "hash", "get_unchecked"), 1),
   (("src/chess/gamestate.rs", "hash", "unsafe_block"), 1),
   (("src/chess/mod.rs", "get_moves", "push_unchecked"), 1),
   (("src/chess/mod.rs", "get_moves", "unsafe_block"), 1),
   (("src/chess/mod.rs", "get_position", "get_unchecked"), 1),
   (("src/chess/mod.rs", "get_position", "unsafe_block"), 1),
   (("src/chess/mod.rs", "push", "push_unchecked"), 1),
   (("src/chess/mod.rs", "push", "unsafe_block"), 1),
   (("src/chess/mod.rs", "set_position", "get_unchecked_mut"), 3),
   (("src/chess/mod.rs", "set_position", "unsafe_block"), 1),
   (("src/chess/mod.rs", "state", "unsafe_block"), 1),
   (("src/chess/mod.rs", "state", "unwrap_unchecked"), 1),
   (("src/chess/piece.rs", "get_pawn_moves", "add_unsafe"), 3),
   (("src/chess/piece.rs", "get_pawn_moves", "unsafe_block"), 1),
   (("src/chess/piece.rs", "hash", "get_unchecked"), 2),
   (("src/chess/piece.rs", "hash", "unsafe_block"), 1),
   (("src/chess/piece.rs", "score", "get_unchecked"), 1),
   (("src/chess/piece.rs", "score", "new_unsafe"), 1),
   (("src/chess/piece.rs", "score", "unsafe_block"), 1)]

/-- how many occurrences of an unchecked operation are accounted for -/
def analysedCount (e : String × String × String) : Nat :=
  match analysedSites.find? (·.1 == e) with
  | some (_, n) => n
  | none => 0

/-- **every unchecked site of the generated inventory is an analysed one**: each lies in a covered
`(file, function)` class and occurs at most as often as the analysis accounts for.  A NEW, MOVED or
DUPLICATED unchecked site in the Rust source changes `Gen.unsafeSites` and breaks this theorem; a site
that DISAPPEARS (an unchecked access rewritten as a checked one) does not — there is then one obligation
fewer, not one unproved. -/
theorem unsafe_inventory :
    Gen.unsafeSites.length = Gen.unsafeSiteCount
    ∧ (Gen.unsafeSites.all fun e => coveredSites.contains (e.1, e.2.1)) = true
    ∧ (Gen.unsafeSites.all fun e => decide (Gen.unsafeSites.count e ≤ analysedCount e)) = true
    ∧ (analysedSites.all fun a => coveredSites.contains (a.1.1, a.1.2.1)) = true
    ∧ (analysedSites.foldl (fun s a => s + a.2) 0) = 24 := by
  decide

/-- the kinds of unchecked operation present never exceed what was analysed -/
theorem unsafe_kinds :
    (Gen.unsafeSites.filter (·.2.2 == "unsafe_block")).length ≤ 9
    ∧ (Gen.unsafeSites.filter (·.2.2 == "get_unchecked")).length ≤ 5
    ∧ (Gen.unsafeSites.filter (·.2.2 == "get_unchecked_mut")).length ≤ 3
    ∧ (Gen.unsafeSites.filter (·.2.2 == "push_unchecked")).length ≤ 2
    ∧ (Gen.unsafeSites.filter (·.2.2 == "unwrap_unchecked")).length ≤ 1
    ∧ (Gen.unsafeSites.filter (·.2.2 == "add_unsafe")).length ≤ 3
    ∧ (Gen.unsafeSites.filter (·.2.2 == "new_unsafe")).length ≤ 1 := by
  decide

/-! ## 3. History and killer indices -/

/-- **`index_history`**: the index of a quiet move with its target on the board is inside the
history table (`asIndex * 64 + idx < 12 * 64 = 768`) -/
theorem index_history_lt {m : Move} {i : Nat} (h : m.indexHistory = some i)
    (hv : ∀ pc s e cap, m = .normal pc s e cap → e.Valid) : i < Gen.historyLen := by
  cases m with
  | normal pc s e cap =>
    cases cap with
    | some c => simp [Move.indexHistory] at h
    | none =>
      simp only [Move.indexHistory, Option.some.injEq] at h
      have h1 := asIndex_lt pc
      have h2 := Pos.idx_lt (hv pc s e none rfl)
      unfold Gen.historyLen
      omega
  | promotion o t s e cap => simp [Move.indexHistory] at h
  | enPassant o sc ec => simp [Move.indexHistory] at h
  | castlingLong o => simp [Move.indexHistory] at h
  | castlingShort o => simp [Move.indexHistory] at h

theorem index_history_lt_of_fits {g : Game} {m : Move} {i : Nat} (hf : g.Fits m)
    (h : m.indexHistory = some i) : i < Gen.historyLen :=
  index_history_lt h (by rintro pc s e cap rfl; exact hf.2.1)

/-- the history table the driver allocates has that length, so the `setIfInBounds` of the model
is a real write -/
theorem history_table_size : (Array.replicate Gen.historyLen (0 : Nat)).size = Gen.historyLen :=
  Array.size_replicate

/-- the killer table (restated from `SearchDriver.killer_index_ok`) -/
theorem killer_index_lt (depth remaining rd : Nat) (h1 : depth ≤ Gen.maxDepth)
    (h2 : remaining + rd = depth) (h3 : 2 ≤ remaining) : rd < Gen.killerLen :=
  Search.killer_index_ok depth remaining rd h1 h2 h3

/-! ## 2. The state stack is never empty -/

/-- **`state()`'s `unwrap_unchecked`**: every reachable game has a state on its stack -/
theorem reach_state_ne_nil {g : Game} (h : Reach g) : g.state ≠ [] := (reach_wf h).nonempty

/-- so `top` is a real element of the stack, not the model's default -/
theorem reach_top_mem {g : Game} (h : Reach g) : g.top ∈ g.state := by
  have := reach_state_ne_nil h
  unfold Game.top
  cases hs : g.state with
  | nil => exact absurd hs this
  | cons a l => simp

theorem push_state_cons (g : Game) (m : Move) : ∃ s, (g.push m).state = s :: g.state :=
  ⟨pushState g m, push_state g m⟩

theorem push_state_ne_nil (g : Game) (m : Move) : (g.push m).state ≠ [] := by
  rw [push_state]; exact List.cons_ne_nil _ _

theorem unapplyMove_state (g : Game) (m : Move) : (unapplyMove g m).state = g.state := by
  cases m with
  | normal pc s e cap => simp only [unapplyMove]; split <;> simp
  | promotion o t s e cap => simp [unapplyMove]
  | enPassant o sc ec => cases o <;> simp [unapplyMove, epSquares]
  | castlingLong o => simp [unapplyMove]
  | castlingShort o => simp [unapplyMove]

theorem pop_state (g : Game) (m : Move) : (g.pop m).state = g.state.tail := by
  unfold Game.pop
  rw [unapplyMove_state]

/-- **`pop` truncates and then reads `state()`**: `pop` is only applied to the result of a `push`,
and then what remains is the old stack, non-empty whenever the old one was -/
theorem pop_push_state (g : Game) (m m' : Move) : ((g.push m).pop m').state = g.state := by
  rw [pop_state, push_state, List.tail_cons]

theorem pop_push_state_ne_nil {g : Game} (h : g.state ≠ []) (m m' : Move) :
    (g.push m).state.tail ≠ [] ∧ ((g.push m).pop m').state ≠ [] := by
  rw [pop_push_state, push_state, List.tail_cons]
  exact ⟨h, h⟩

/-! ## 4. The state stack stays below its capacity -/

/-! ### 4a. `len` under `push`, `push_history`, `pop` -/

theorem push_len (g : Game) (m : Move) : (g.push m).len = g.len + 1 := by
  unfold Game.len; rw [push_state]; rfl

theorem updatePhase_state (g : Game) : g.updatePhase.state = g.state := (updatePhase_fields g).2.2.1
theorem updatePhase_board' (g : Game) : g.updatePhase.board = g.board := (updatePhase_fields g).1

theorem pushHistory_len (g : Game) (m : Move) : (g.pushHistory m).len = g.len + 1 := by
  unfold Game.pushHistory
  simp only [push_len]
  unfold Game.len
  rw [updatePhase_state]

theorem pop_len (g : Game) (m : Move) : (g.pop m).len = g.len - 1 := by
  unfold Game.len; rw [pop_state, List.length_tail]

theorem pop_push_len (g : Game) (m m' : Move) : ((g.push m).pop m').len = g.len := by
  unfold Game.len; rw [pop_push_state]

/-! ### 4b. the potential: occupied squares + pawns -/

/-- weight of a square: a pawn counts twice (once as a man, once as a pawn) -/
def wt : Option Piece → Nat
  | none => 0
  | some pc => if pc.pieceType = .pawn then 2 else 1

def potL (l : List (Option Piece)) : Nat := (l.map wt).sum
def potB (b : Vector (Option Piece) 64) : Nat := potL b.toList
/-- the potential of a game: number of occupied squares plus number of pawns -/
def pot (g : Game) : Nat := potB g.board

def isPawnSq : Option Piece → Bool
  | some pc => pc.pieceType = .pawn
  | none => false

def occupied (b : Vector (Option Piece) 64) : Nat := b.toList.countP (·.isSome)
def pawnCount (b : Vector (Option Piece) 64) : Nat := b.toList.countP isPawnSq

theorem potL_eq (l : List (Option Piece)) : potL l = l.countP (·.isSome) + l.countP isPawnSq := by
  induction l with
  | nil => rfl
  | cons a l ih =>
    have : potL (a :: l) = wt a + potL l := by simp [potL]
    rw [this, ih, List.countP_cons, List.countP_cons]
    cases a with
    | none => simp [wt, isPawnSq]
    | some pc =>
      by_cases h : pc.pieceType = .pawn <;> simp [wt, isPawnSq, h] <;> omega

/-- `pot` is "occupied squares + pawns" -/
theorem pot_eq (g : Game) : pot g = occupied g.board + pawnCount g.board := potL_eq _

theorem potL_set (l : List (Option Piece)) (i : Nat) (x : Option Piece) (h : i < l.length) :
    potL (l.set i x) + wt l[i] = potL l + wt x := by
  induction l generalizing i with
  | nil => simp at h
  | cons a l ih =>
    cases i with
    | zero => simp only [potL, List.set_cons_zero, List.map_cons, List.sum_cons, List.getElem_cons_zero]; omega
    | succ i =>
      have := ih i (by simpa using h)
      simp only [potL, List.set_cons_succ, List.map_cons, List.sum_cons, List.getElem_cons_succ] at this ⊢
      omega

theorem potB_set (b : Vector (Option Piece) 64) (i : Nat) (x : Option Piece) (h : i < 64) :
    potB (b.set i x) + wt b[i] = potB b + wt x := by
  unfold potB
  rw [Vector.toList_set]
  have := potL_set b.toList i x (by simpa using h)
  simpa using this

/-- one `set_position`: the weight of what stood there goes, the weight of what is put comes -/
theorem pot_setPosition (g : Game) {p : Pos} (hp : p.Valid) (x : Option Piece) :
    pot (g.setPosition p x) + wt (g.get p) = pot g + wt x := by
  unfold pot
  rw [setPosition_board g p x hp, get_eq_getElem g hp]
  exact potB_set g.board p.idx x (Pos.idx_lt hp)

def sumOld (g : Game) (l : List (Pos × Option Piece)) : Nat := (l.map fun e => wt (g.get e.1)).sum
def sumNew (l : List (Pos × Option Piece)) : Nat := (l.map fun e => wt e.2).sum

/-- a sequence of writes to pairwise distinct squares of the board -/
theorem pot_setMany (g : Game) (l : List (Pos × Option Piece)) (hv : ∀ e ∈ l, e.1.Valid)
    (hd : l.Pairwise (fun a b => a.1 ≠ b.1)) :
    pot (g.setMany l) + sumOld g l = pot g + sumNew l := by
  induction l generalizing g with
  | nil => simp [setMany, sumOld, sumNew]
  | cons e l ih =>
    obtain ⟨p, x⟩ := e
    have hp : p.Valid := hv (p, x) (by simp)
    rw [List.pairwise_cons] at hd
    have h1 := ih (g.setPosition p x) (fun e he => hv e (by simp [he])) hd.2
    have h2 := pot_setPosition g hp x
    have h3 : sumOld (g.setPosition p x) l = sumOld g l := by
      unfold sumOld
      congr 1
      apply List.map_congr_left
      intro e he
      rw [get_setPosition_ne g p x hp e.1 (hv e (by simp [he])) (fun h => hd.1 e he h.symm)]
    rw [h3] at h1
    simp only [setMany, sumOld, sumNew, List.map_cons, List.sum_cons] at h1 h2 ⊢
    omega

theorem push_board (g : Game) (m : Move) : (g.push m).board = (applyMoveG g m).board := by
  rw [push_eq]; rfl

theorem pot_push_eq (g : Game) (m : Move) : pot (g.push m) = pot (g.setMany (writes m)) := by
  unfold pot; rw [push_board, applyMoveG_board]

theorem writes_distinct {g : Game} {m : Move} (hf : g.Fits m) :
    (writes m).Pairwise (fun a b => a.1 ≠ b.1) := by
  cases m with
  | normal pc s e cap => simpa [writes] using hf.2.2.1
  | promotion o t s e cap => simpa [writes] using hf.2.2.1
  | enPassant o sc ec =>
    obtain ⟨_, _, _, _, hne, -⟩ := hf
    obtain ⟨n1, n2, n3⟩ := epSquares_ne o sc ec hne
    have three : ∀ a b c : Pos × Option Piece, a.1 ≠ b.1 → a.1 ≠ c.1 → b.1 ≠ c.1 →
        [a, b, c].Pairwise (fun a b => a.1 ≠ b.1) := by
      intro a b c h1 h2 h3; simp [h1, h2, h3]
    exact three _ _ _ n2.symm n3.symm n1
  | castlingLong o => simp [writes]
  | castlingShort o => simp [writes]

/-- the balance of a move: weights removed on the left, weights placed on the right -/
theorem pot_push_balance {g : Game} {m : Move} (hf : g.Fits m) :
    pot (g.push m) + sumOld g (writes m) = pot g + sumNew (writes m) := by
  rw [pot_push_eq]
  exact pot_setMany g (writes m) (writes_valid hf) (writes_distinct hf)

theorem wt_pos (pc : Piece) : 1 ≤ wt (some pc) := by
  show 1 ≤ (if pc.pieceType = .pawn then 2 else 1); split <;> omega
theorem wt_le (o : Option Piece) : wt o ≤ 2 := by
  cases o with
  | none => exact Nat.zero_le _
  | some pc => show (if pc.pieceType = .pawn then 2 else 1) ≤ 2; split <;> omega

/-- the potential after a fitting move, kind by kind -/
theorem pot_push_cases {g : Game} {m : Move} (hf : g.Fits m) :
    match m with
    | .normal _ _ _ cap => pot (g.push m) + wt cap = pot g
    | .promotion o t _ _ cap => pot (g.push m) + 2 + wt cap = pot g + wt (some ⟨t, o⟩)
    | .enPassant .. => pot (g.push m) + 2 = pot g
    | .castlingLong _ => pot (g.push m) = pot g
    | .castlingShort _ => pot (g.push m) = pot g := by
  have hb := pot_push_balance hf
  cases m with
  | normal pc s e cap =>
    obtain ⟨-, -, -, h1, h2, -⟩ := hf
    simp only [writes, sumOld, sumNew, List.map_cons, List.map_nil, List.sum_cons, List.sum_nil, h1, h2] at hb
    simp only [wt] at hb ⊢
    omega
  | promotion o t s e cap =>
    obtain ⟨-, -, -, h1, h2⟩ := hf
    simp only [writes, sumOld, sumNew, List.map_cons, List.map_nil, List.sum_cons, List.sum_nil, h1, h2] at hb
    have : wt (some (⟨.pawn, o⟩ : Piece)) = 2 := rfl
    have w0 : wt none = 0 := rfl
    omega
  | enPassant o sc ec =>
    obtain ⟨-, -, -, -, -, h1, h2, h3⟩ := hf
    simp only [writes, sumOld, sumNew, List.map_cons, List.map_nil, List.sum_cons, List.sum_nil, h1, h2, h3] at hb
    have a : wt (some (⟨.pawn, o⟩ : Piece)) = 2 := rfl
    have b : wt (some (⟨.pawn, o.other⟩ : Piece)) = 2 := rfl
    have w0 : wt none = 0 := rfl
    omega
  | castlingLong o =>
    obtain ⟨-, -, h4, h0, h3, h2⟩ := hf
    simp only [writes, sumOld, sumNew, List.map_cons, List.map_nil, List.sum_cons, List.sum_nil, h4, h0, h3, h2] at hb
    have a : wt (some (⟨.king, o⟩ : Piece)) = 1 := rfl
    have b : wt (some (⟨.rook, o⟩ : Piece)) = 1 := rfl
    have w0 : wt none = 0 := rfl
    omega
  | castlingShort o =>
    obtain ⟨-, -, h4, h7, h5, h6⟩ := hf
    simp only [writes, sumOld, sumNew, List.map_cons, List.map_nil, List.sum_cons, List.sum_nil, h4, h7, h5, h6] at hb
    have a : wt (some (⟨.king, o⟩ : Piece)) = 1 := rfl
    have b : wt (some (⟨.rook, o⟩ : Piece)) = 1 := rfl
    have w0 : wt none = 0 := rfl
    omega

/-- **no move adds a man or a pawn**: the potential never grows along a line of fitting moves -/
theorem pot_push_le {g : Game} {m : Move} (hf : g.Fits m) : pot (g.push m) ≤ pot g := by
  have h := pot_push_cases hf
  cases m with
  | normal pc s e cap => simp only at h; omega
  | promotion o t s e cap => simp only at h; have := wt_le (some ⟨t, o⟩); omega
  | enPassant o sc ec => simp only at h; omega
  | castlingLong o => simp only at h; omega
  | castlingShort o => simp only at h; omega

/-- the generator (and the UCI move reader) only promote to Q, R, B, N -/
def NoPawnPromo : Move → Prop
  | .promotion _ t _ _ _ => t ≠ .pawn
  | _ => True

theorem noPawnPromo_of_moverOk {g : Game} {m : Move} (h : g.MoverOk m) : NoPawnPromo m := by
  cases m with
  | promotion o t s e cap =>
    obtain ⟨-, h | h | h | h⟩ := h <;> simp [NoPawnPromo, h]
  | _ => trivial

/-- **every tactical move lowers the potential**: a capture removes a man, a promotion turns a
pawn into a piece, en passant removes a pawn.
(`NoPawnPromo` is needed: the fitting move "promote to a pawn, no capture" is tactical and leaves
the potential unchanged; no generated move is of that kind, `noPawnPromo_of_moverOk`.) -/
theorem tactical_decreases {g : Game} {m : Move} (hf : g.Fits m) (hp : NoPawnPromo m)
    (ht : m.isTactical = true) : pot (g.push m) < pot g := by
  have h := pot_push_cases hf
  cases m with
  | normal pc s e cap =>
    cases cap with
    | none => simp [Move.isTactical] at ht
    | some c => simp only at h; have := wt_pos c; omega
  | promotion o t s e cap =>
    simp only at h
    have : wt (some (⟨t, o⟩ : Piece)) = 1 := by
      unfold wt; simp only; rw [if_neg hp]
    omega
  | enPassant o sc ec => simp only at h; omega
  | castlingLong o => simp [Move.isTactical] at ht
  | castlingShort o => simp [Move.isTactical] at ht

/-- the counterexample behind the hypothesis `NoPawnPromo` of `tactical_decreases`: on a board
with a lone white pawn on a7, the (fitting, tactical) move "a7a8 = pawn" keeps the potential -/
def promoWitness : Game :=
  { score := 0, player := .white, moveStack := [], endgame := false, hash := 0,
    board := (Vector.replicate 64 none).set 48 (some ⟨.pawn, .white⟩),
    pastScores := Vector.replicate 64 0, pastHashes := Vector.replicate 64 0,
    wking := ⟨0, 4⟩, bking := ⟨7, 4⟩, state := [GState.default] }

theorem tactical_needs_noPawnPromo :
    let m := Move.promotion .white .pawn ⟨6, 0⟩ ⟨7, 0⟩ none
    promoWitness.Fits m ∧ m.isTactical = true ∧ pot (promoWitness.push m) = pot promoWitness := by
  intro m
  have hf : promoWitness.Fits m := by
    refine ⟨by decide, by decide, by decide, ?_, ?_⟩ <;> rfl
  refine ⟨hf, rfl, ?_⟩
  have h := pot_push_cases hf
  simp only [m] at h
  have a : wt (some (⟨.pawn, .white⟩ : Piece)) = 2 := rfl
  have b : wt none = 0 := rfl
  show pot (promoWitness.push m) = pot promoWitness
  simp only [m]
  omega

theorem tactical_decreases' {g : Game} {m : Move} (hf : g.Fits m) (hm : g.MoverOk m)
    (ht : m.isTactical = true) : pot (g.push m) < pot g :=
  tactical_decreases hf (noPawnPromo_of_moverOk hm) ht

/-- successive moves from a game -/
def playLine (g : Game) : List Move → Game
  | [] => g
  | m :: ms => playLine (g.push m) ms

/-- a line of fitting moves (what the search plays: `getMoves_fits`) -/
inductive Line : Game → List Move → Prop
  | nil (g : Game) : Line g []
  | cons {g : Game} {m : Move} {ms : List Move} : g.Fits m → Line (g.push m) ms → Line g (m :: ms)

/-- a quiescence line: every move fits, is tactical and does not promote to a pawn -/
inductive QLine : Game → List Move → Prop
  | nil (g : Game) : QLine g []
  | cons {g : Game} {m : Move} {ms : List Move} : g.Fits m → NoPawnPromo m → m.isTactical = true →
      QLine (g.push m) ms → QLine g (m :: ms)

theorem playLine_len (g : Game) (ms : List Move) : (playLine g ms).len = g.len + ms.length := by
  induction ms generalizing g with
  | nil => rfl
  | cons m ms ih => simp only [playLine, ih, push_len, List.length_cons]; omega

theorem playLine_append (g : Game) (a b : List Move) :
    playLine g (a ++ b) = playLine (playLine g a) b := by
  induction a generalizing g with
  | nil => rfl
  | cons m ms ih => simp only [List.cons_append, playLine, ih]

theorem line_pot_le {g : Game} {ms : List Move} (h : Line g ms) : pot (playLine g ms) ≤ pot g := by
  induction h with
  | nil g => exact Nat.le_refl _
  | cons hf _ ih => exact Nat.le_trans ih (pot_push_le hf)

/-- **a quiescence line is no longer than the potential of the game it starts from** -/
theorem qline_length_le {g : Game} {ms : List Move} (h : QLine g ms) : ms.length ≤ pot g := by
  induction h with
  | nil g => exact Nat.zero_le _
  | cons hf hp ht _ ih =>
    have := tactical_decreases hf hp ht
    simp only [List.length_cons]
    omega

/-! ### 4c. the potential is at most 48 on a board with possible material -/

/-- number of squares of a list holding exactly the piece `⟨t, pl⟩` (`countPieces` on lists) -/
def cnt (l : List (Option Piece)) (pl : Player) (t : PieceType) : Nat :=
  (l.filter (fun o => o = some ⟨t, pl⟩)).length

theorem countPieces_eq (b : Vector (Option Piece) 64) (pl : Player) (t : PieceType) :
    countPieces b pl t = cnt b.toList pl t := rfl

/-- weighted men of one side -/
def sideWt (l : List (Option Piece)) (pl : Player) : Nat :=
  cnt l pl .king + cnt l pl .queen + cnt l pl .rook + cnt l pl .bishop + cnt l pl .knight
    + 2 * cnt l pl .pawn

theorem cnt_cons (a : Option Piece) (l : List (Option Piece)) (pl : Player) (t : PieceType) :
    cnt (a :: l) pl t = (if a = some ⟨t, pl⟩ then 1 else 0) + cnt l pl t := by
  unfold cnt
  rw [List.filter_cons]
  by_cases h : a = some ⟨t, pl⟩
  · simp [h]; omega
  · simp [h]

/-- **the occupied squares are partitioned by the twelve piece kinds** (weighted form) -/
theorem potL_partition (l : List (Option Piece)) : potL l = sideWt l .white + sideWt l .black := by
  induction l with
  | nil => rfl
  | cons a l ih =>
    have h0 : potL (a :: l) = wt a + potL l := by simp [potL]
    rw [h0, ih]
    unfold sideWt
    simp only [cnt_cons]
    cases a with
    | none => simp [wt]
    | some pc =>
      obtain ⟨t, o⟩ := pc
      cases t <;> cases o <;> simp [wt] <;> omega

/-- one side: one king, and pawns plus promoted extras at most eight, give at most 16 men and 8
pawns, weight at most 24 -/
theorem sideWt_le {l : List (Option Piece)} {pl : Player}
    (hk : cnt l pl .king = 1)
    (hm : cnt l pl .pawn + ((cnt l pl .queen - 1) + (cnt l pl .rook - 2) + (cnt l pl .bishop - 2)
      + (cnt l pl .knight - 2)) ≤ 8) : sideWt l pl ≤ 24 := by
  unfold sideWt
  omega

/-- **at most 16 men and 8 pawns a side**: a board that passes the reader's material check has
potential at most 48 -/
theorem potB_le_of_material {b : Vector (Option Piece) 64} (h : MaterialOKBoard b) : potB b ≤ 48 := by
  obtain ⟨hw, hb, -⟩ := h
  unfold materialOkSide at hw hb
  simp only [Bool.and_eq_true, decide_eq_true_eq] at hw hb
  simp only [countPieces_eq] at hw hb
  unfold potB
  rw [potL_partition]
  have h1 := sideWt_le hw.1 hw.2
  have h2 := sideWt_le hb.1 hb.2
  omega

theorem pot_le_of_material {g : Game} (h : MaterialOKBoard g.board) : pot g ≤ 48 :=
  potB_le_of_material h

/-- an imported game passes the material check -/
theorem ofFen_material {s : List Char} {g : Game} (h : Game.ofFen s = .ok g) :
    MaterialOKBoard g.board := by
  obtain ⟨pieces, side, cast, ep, rest, sc, player, st0, st, wk, bk, -, -, -, -, -, -, -, -, -,
    hmw, hmb, hpe, -, -, rfl⟩ := ofFen_ok_inv h
  rw [updatePhase_board']
  exact ⟨hmw, hmb, hpe⟩

theorem ofFen_len {s : List Char} {g : Game} (h : Game.ofFen s = .ok g) : g.len = 1 := by
  obtain ⟨pieces, side, cast, ep, rest, sc, player, st0, st, wk, bk, -, -, -, -, -, -, -, -, -,
    -, -, -, -, -, rfl⟩ := ofFen_ok_inv h
  unfold Game.len
  rw [updatePhase_state]
  rfl

theorem fits_record {g : Game} {m m' : Move} (hf : g.Fits m) :
    Game.Fits { g with moveStack := m' :: g.moveStack }.updatePhase m := by
  obtain ⟨f1, f2, -, f4, f5⟩ := updatePhase_fields { g with moveStack := m' :: g.moveStack }
  exact (fits_congr (g := g) f1 f4 f5 f2 m).mpr hf

/-- **every reachable game has potential at most 48**: true of the imported root, and no move
played or searched raises it -/
theorem reach_pot_le {g : Game} (h : Reach g) : pot g ≤ 48 := by
  induction h with
  | imported s g hok => exact pot_le_of_material (ofFen_material hok)
  | played g m hr hm ih =>
    have hf := (Game.getMoves_fits (reach_wf hr) true hm).1
    have h1 := pot_push_le (fits_record (m' := m) hf)
    have h2 : pot { g with moveStack := m :: g.moveStack }.updatePhase = pot g := by
      unfold pot; rw [updatePhase_board']
    unfold Game.pushHistory
    simp only at h1 ⊢
    omega
  | searched g m b hr hm ih =>
    have hf := (Game.getMoves_fits (reach_wf hr) b hm).1
    have := pot_push_le hf
    omega

/-! ### 4d. the guard of the UCI loop and the capacity -/

/-- **the arithmetic of `state.push_unchecked`** with the GENERATED constants: a root below the
length guard, at most `MAX_DEPTH` plies of search, at most 48 plies of quiescence, and one more
`push` (the legality filter's trial push) still fit the stack: `399 + 32 + 48 + 1 = 480 ≤ 512` -/
theorem stack_below_cap :
    Gen.lenGuard - 1 + Gen.maxDepth + 48 + 1 ≤ Gen.stateCap
    ∧ ∀ len depth q : Nat, len < Gen.lenGuard → depth ≤ Gen.maxDepth → q ≤ 48 →
        len + depth + q < Gen.stateCap ∧ len + depth + q + 1 ≤ Gen.stateCap := by
  refine ⟨by decide, ?_⟩
  intro len depth q h1 h2 h3
  unfold Gen.lenGuard at h1
  unfold Gen.maxDepth at h2
  unfold Gen.stateCap
  omega

theorem filterMoves_state (pl : Player) (kp : Pos) (kt : Bool) (ms : List Move) (g : Game) :
    (filterMoves pl kp kt g ms).2.state = g.state := by
  induction ms generalizing g with
  | nil => rfl
  | cons m ms ih =>
    rw [filterMoves]
    split
    · exact ih g
    · simp only
      rw [ih, pop_push_state]

theorem getMoves_state (g : Game) (b : Bool) : (g.getMoves b).2.state = g.state := by
  unfold Game.getMoves
  cases b
  · rfl
  · simp only [if_true]; exact filterMoves_state _ _ _ _ g

theorem getMoves_len (g : Game) (b : Bool) : (g.getMoves b).2.len = g.len := by
  unfold Game.len; rw [getMoves_state]

/-- **the `moves` loop of `position`**: every game it leaves behind — with or without an error —
is either the game it started from (as far as the stack goes) or shorter than the guard -/
theorem playMoves_len (ss : List (List Char)) (g g' : Game) (ok : Bool)
    (h : Uci.playMoves g ss = (ok, some g')) :
    g'.len = g.len ∨ g'.len < Gen.lenGuard := by
  induction ss generalizing g with
  | nil =>
    simp only [Uci.playMoves, Prod.mk.injEq, Option.some.injEq] at h
    exact .inl (by rw [h.2])
  | cons s rest ih =>
    rw [Uci.playMoves] at h
    split at h
    · simp at h
    · rename_i m _
      simp only at h
      split at h
      · split at h
        · simp at h
        · rename_i hlt
          have := ih _ h
          rcases this with e | e
          · right; rw [e]; omega
          · exact .inr e
      · simp only [Prod.mk.injEq, Option.some.injEq] at h
        left; rw [← h.2, getMoves_len]

/-- **`position … moves m₁ … mₙ`, `n ≥ 1`, without error**: the game kept is below the guard -/
theorem position_len_guard (ss : List (List Char)) (g g' : Game)
    (h : Uci.playMoves g ss = (true, some g')) : g'.len < Gen.lenGuard ∨ (ss = [] ∧ g' = g) := by
  cases ss with
  | nil =>
    simp only [Uci.playMoves, Prod.mk.injEq, Option.some.injEq, true_and] at h
    exact .inr ⟨rfl, h.symm⟩
  | cons s rest =>
    left
    rw [Uci.playMoves] at h
    split at h
    · simp at h
    · simp only at h
      split at h
      · split at h
        · simp at h
        · rename_i hlt
          rcases playMoves_len _ _ _ _ h with e | e
          · rw [e]; omega
          · exact e
      · simp at h

theorem defaultGame_len {g : Game} (h : Uci.defaultGame = some g) : g.len = 1 := by
  unfold Uci.defaultGame at h
  split at h
  · rename_i g0 hok
    simp only [Option.some.injEq] at h
    subst h
    exact ofFen_len hok
  · simp at h

/-- **every game the `position` command installs is below the guard** (a fresh import has
length 1; the `moves` loop drops the game when the guard is reached) -/
theorem commandPosition_len (cur : Option Game) (terms : List (List Char)) (g' : Game)
    (h : Uci.commandPosition cur terms = (true, some g')) : g'.len < Gen.lenGuard := by
  have one : (1 : Nat) < Gen.lenGuard := by decide
  have viaMoves : ∀ (g : Game) ss, g.len = 1 → Uci.playMoves g ss = (true, some g') →
      g'.len < Gen.lenGuard := by
    intro g ss hg hp
    rcases position_len_guard ss g g' hp with e | ⟨-, e⟩
    · exact e
    · rw [e, hg]; exact one
  unfold Uci.commandPosition at h
  split at h
  · simp at h
  · rename_i t rest
    split at h
    · split at h
      · simp at h
      · rename_i g hd
        have hg := defaultGame_len hd
        split at h
        · simp only [Prod.mk.injEq, Option.some.injEq, true_and] at h
          rw [← h, hg]; exact one
        · split at h
          · exact viaMoves g _ hg h
          · simp only [Prod.mk.injEq, Option.some.injEq, true_and] at h
            rw [← h, hg]; exact one
    · split at h
      · simp only at h
        split at h
        · rename_i g hok
          have hg := ofFen_len hok
          split at h
          · exact viaMoves g _ hg h
          · simp only [Prod.mk.injEq, Option.some.injEq, true_and] at h
            rw [← h, hg]; exact one
        · simp at h
      · simp at h

/-- **`push`'s `push_unchecked` has room along every search line**: from a root below the guard
whose potential is at most 48 (every reachable game: `reach_pot_le`), after at most `MAX_DEPTH`
fitting moves followed by any quiescence line, one more state still fits the stack -/
theorem search_line_below_cap {g : Game} {ms qs : List Move} (hlen : g.len < Gen.lenGuard)
    (hpot : pot g ≤ 48) (hl : Line g ms) (hd : ms.length ≤ Gen.maxDepth)
    (hq : QLine (playLine g ms) qs) :
    (playLine g (ms ++ qs)).len < Gen.stateCap
    ∧ ∀ m, ((playLine g (ms ++ qs)).push m).len ≤ Gen.stateCap := by
  have h1 := qline_length_le hq
  have h2 := line_pot_le hl
  have h3 : (playLine g (ms ++ qs)).len = g.len + ms.length + qs.length := by
    rw [playLine_append, playLine_len, playLine_len]
  have := (stack_below_cap.2 g.len ms.length qs.length hlen hd (by omega))
  refine ⟨by omega, fun m => ?_⟩
  rw [push_len]; omega

theorem reach_search_line_below_cap {g : Game} {ms qs : List Move} (hr : Reach g)
    (hlen : g.len < Gen.lenGuard) (hl : Line g ms) (hd : ms.length ≤ Gen.maxDepth)
    (hq : QLine (playLine g ms) qs) :
    ∀ m, ((playLine g (ms ++ qs)).push m).len ≤ Gen.stateCap :=
  (search_line_below_cap hlen (reach_pot_le hr) hl hd hq).2

/-- the bound 48 is attained (the initial placement): `pot_le_of_material` is tight -/
def startBoard : Vector (Option Piece) 64 :=
  let w (t : PieceType) : Option Piece := some ⟨t, .white⟩
  let b (t : PieceType) : Option Piece := some ⟨t, .black⟩
  #v[w .rook, w .knight, w .bishop, w .queen, w .king, w .bishop, w .knight, w .rook,
     w .pawn, w .pawn, w .pawn, w .pawn, w .pawn, w .pawn, w .pawn, w .pawn,
     none, none, none, none, none, none, none, none,
     none, none, none, none, none, none, none, none,
     none, none, none, none, none, none, none, none,
     none, none, none, none, none, none, none, none,
     b .pawn, b .pawn, b .pawn, b .pawn, b .pawn, b .pawn, b .pawn, b .pawn,
     b .rook, b .knight, b .bishop, b .queen, b .king, b .bishop, b .knight, b .rook]

theorem pot_bound_tight : MaterialOKBoard startBoard ∧ potB startBoard = 48 := by
  refine ⟨⟨?_, ?_, ?_⟩, ?_⟩ <;> decide

/-! ## 5. The move buffer (`moves.push_unchecked`, capacity 256) -/

/-- NAMED HYPOTHESIS (not proved here, never an axiom): no reachable game has more than
`Gen.movesCap = 256` pseudo-legal moves.  The known maximum over legal chess positions (218 legal
moves) comes from computer search, and no short counting argument gives a bound below 256: with
nine queens the crude per-piece bounds below already exceed it. -/
def MoveCountBound : Prop := ∀ g : Game, Reach g → g.pseudoMoves.length ≤ Gen.movesCap

theorem length_flatMap_le {α β : Type} (l : List α) (f : α → List β) (k : Nat)
    (h : ∀ a ∈ l, (f a).length ≤ k) : (l.flatMap f).length ≤ k * l.length := by
  induction l with
  | nil => simp
  | cons a l ih =>
    have h1 := h a (by simp)
    have h2 := ih (fun a ha => h a (by simp [ha]))
    simp only [List.flatMap_cons, List.length_append, List.length_cons, Nat.mul_succ]
    omega

theorem length_flatMap_le_countP {α β : Type} (l : List α) (f : α → List β) (P : α → Bool) (k : Nat)
    (h : ∀ a ∈ l, (f a).length ≤ k) (h0 : ∀ a ∈ l, P a = false → f a = []) :
    (l.flatMap f).length ≤ k * l.countP P := by
  induction l with
  | nil => simp
  | cons a l ih =>
    have h1 := h a (by simp)
    have h2 := ih (fun a ha => h a (by simp [ha])) (fun a ha => h0 a (by simp [ha]))
    simp only [List.flatMap_cons, List.length_append, List.countP_cons]
    cases hp : P a with
    | false => rw [h0 a (by simp) hp]; simpa using h2
    | true => simp only [if_true, Nat.mul_succ]; omega

theorem ite_length_le {α : Type} {c : Prop} [Decidable c] (a b : List α) (k : Nat)
    (ha : a.length ≤ k) (hb : b.length ≤ k) : (if c then a else b).length ≤ k := by
  split <;> assumption

theorem rayMoves_length_le (g : Game) (pc : Piece) (start : Pos) (d : Int × Int) (fuel : Nat) (p : Pos) :
    (rayMoves g pc start p d fuel).length ≤ fuel := by
  induction fuel generalizing p with
  | zero => simp [rayMoves]
  | succ n ih =>
    rw [rayMoves]
    split
    · simp
    · split
      · split <;> simp
      · have := ih ‹Pos›
        simp only [List.length_cons]; omega

theorem slideMoves_length_le (g : Game) (pc : Piece) (p : Pos) (rays : List (Int × Int)) :
    (slideMoves g pc p rays).length ≤ 7 * rays.length :=
  length_flatMap_le rays _ 7 (fun d _ => rayMoves_length_le g pc p d 7 p)

theorem knightMoves_length_le (g : Game) (pc : Piece) (p : Pos) : (knightMoves g pc p).length ≤ 8 := by
  have : (knightMoves g pc p).length ≤ 1 * Gen.knightDeltas.length := by
    apply length_flatMap_le
    intro d _
    split
    · simp
    · dsimp only
      apply ite_length_le <;> simp
  have hk : Gen.knightDeltas.length = 8 := rfl
  omega

theorem kingMoves_length_le (g : Game) (pc : Piece) (p : Pos) : (kingMoves g pc p).length ≤ 10 := by
  rw [kingMoves_eq]
  have h1 : (Gen.kingDeltas.flatMap (kingStep g pc p)).length ≤ 1 * Gen.kingDeltas.length := by
    apply length_flatMap_le
    intro d _
    unfold kingStep
    split
    · simp
    · dsimp only
      apply ite_length_le
      · simp
      · apply ite_length_le <;> simp
  have h2 : ∀ b, (castleShort g b).length ≤ 1 := by intro b; unfold castleShort; split <;> simp
  have h3 : ∀ b, (castleLong g b).length ≤ 1 := by intro b; unfold castleLong; split <;> simp
  have := h2 (Spec.sideK g.abs)
  have := h3 (Spec.sideQ g.abs)
  have hk : Gen.kingDeltas.length = 8 := rfl
  simp only [List.length_append]
  omega

theorem promoPieces_length : promoPieces.length = 4 := by rw [promoPieces_eq]; rfl

theorem pawnMoves_length_le (g : Game) (pc : Piece) (p : Pos) : (pawnMoves g pc p).length ≤ 14 := by
  rw [pawnMoves_eq]
  have h1 : ∀ fr nd fd, (pawnDbl g pc p fr nd fd).length ≤ 1 := by
    intro fr nd fd; unfold pawnDbl; split <;> simp
  have h2 : ∀ lr nd, (pawnFwd g pc p lr nd).length ≤ 4 := by
    intro lr nd; unfold pawnFwd
    split
    · simp
    · split
      · split <;> simp [promoPieces_length]
      · simp
  have h3 : ∀ lr d, (pawnCap g pc p lr d).length ≤ 4 := by
    intro lr d; unfold pawnCap
    split
    · simp
    · split
      · split
        · split <;> simp [promoPieces_length]
        · simp
      · simp
  have h4 : ∀ er, (pawnEp g p er).length ≤ 1 := by
    intro er; unfold pawnEp; split <;> simp
  have h5 := length_flatMap_le [(Spec.forward pc.owner, (1 : Int)), (Spec.forward pc.owner, -1)]
    (pawnCap g pc p (Spec.lastRow pc.owner)) 4 (fun d _ => h3 _ d)
  have := h1 (Spec.pawnStartRow pc.owner) (Spec.forward pc.owner, 0) (2 * Spec.forward pc.owner, 0)
  have := h2 (Spec.lastRow pc.owner) (Spec.forward pc.owner, 0)
  have := h4 (Spec.epFromRow pc.owner)
  simp only [List.length_append, List.length_cons, List.length_nil] at h5 ⊢
  omega

/-- crude per-piece bound: 8 rays of at most 7 squares for the queen -/
theorem pieceMoves_length_le (g : Game) (pc : Piece) (p : Pos) : (pieceMoves g pc p).length ≤ 56 := by
  unfold pieceMoves
  split
  · have := pawnMoves_length_le g pc p; omega
  · have := kingMoves_length_le g pc p; omega
  · have := knightMoves_length_le g pc p; omega
  · have := slideMoves_length_le g pc p Gen.rookRays
    have : Gen.rookRays.length = 4 := rfl
    omega
  · have := slideMoves_length_le g pc p Gen.bishopRays
    have : Gen.bishopRays.length = 4 := rfl
    omega
  · have := slideMoves_length_le g pc p Gen.queenRays
    have : Gen.queenRays.length = 8 := rfl
    omega

/-- number of men of the side to move -/
def ownCount (g : Game) : Nat :=
  allSquares.countP fun p => match g.get p with
    | some pc => decide (pc.owner = g.player)
    | none => false

theorem pseudoMoves_length_le (g : Game) : g.pseudoMoves.length ≤ 56 * ownCount g := by
  unfold pseudoMoves
  split
  · simp
  · unfold ownCount
    apply length_flatMap_le_countP
    · intro p _
      split
      · split
        · exact pieceMoves_length_le g _ p
        · simp
      · simp
    · intro p _ h
      cases hg : g.get p with
      | none => rfl
      | some pc =>
        rw [hg] at h
        simp only [decide_eq_false_iff_not] at h
        simp [h]

/-- what is provable without the hypothesis: with at most four men of the side to move the
buffer cannot overflow (`4 * 56 = 224 ≤ 256`) -/
theorem pseudoMoves_length_le_of_few_pieces (g : Game) (h : ownCount g ≤ 4) :
    g.pseudoMoves.length ≤ Gen.movesCap := by
  have := pseudoMoves_length_le g
  unfold Gen.movesCap
  omega

/-- the crude bounds cannot replace the hypothesis: sixteen men already allow `16 * 56 > 256` -/
theorem crude_bound_insufficient : Gen.movesCap < 56 * 16 := by decide

/-! ## Appendix: a generated `Normal` pawn move never reaches the last row

(the shape fact a full `material_preserved` would need: pawns arrive on rank 1/8 only by
promoting; not used by the bounds above, which go through `pot_push_le`) -/

def NotLastRow : Move → Prop
  | .normal pc _ e _ => pc.pieceType = .pawn → e.row ≠ Spec.lastRow pc.owner
  | _ => True

theorem arrive_notLastRow {g : Game} {pc : Piece} {p q : Pos} {cap : Option Piece} {m : Move}
    (h : PawnArrive g pc p q cap (Spec.lastRow pc.owner) m) : NotLastRow m := by
  unfold PawnArrive at h
  split at h
  · obtain ⟨t, _, rfl⟩ := h; trivial
  · rename_i hne
    subst h
    exact fun _ e => hne e.symm

theorem pawnMoves_notLastRow {g : Game} {pc : Piece} {p : Pos} {m : Move}
    (hm : m ∈ g.pawnMoves pc p) : NotLastRow m := by
  rw [pawnMoves_spec] at hm
  rcases hm with ⟨hr, _, _, rfl⟩ | ⟨q, _, _, harr⟩ | ⟨d, _, q, o, _, _, _, harr⟩ | ⟨_, _, _, rfl⟩
  · intro _
    show p.row + 2 * Spec.forward pc.owner ≠ Spec.lastRow pc.owner
    rcases side_consts pc.owner with ⟨a, b, c, _⟩ | ⟨a, b, c, _⟩ <;> rw [a, c] <;> rw [b] at hr <;> omega
  · exact arrive_notLastRow harr
  · exact arrive_notLastRow harr
  · trivial

theorem pieceMoves_notLastRow (g : Game) {pc : Piece} {p : Pos} (hp : p.Valid) {m : Move}
    (hm : m ∈ g.pieceMoves pc p) : NotLastRow m := by
  by_cases hpawn : pc.pieceType = .pawn
  · rw [pieceMoves_pawn g p hpawn] at hm; exact pawnMoves_notLastRow hm
  · by_cases hking : pc.pieceType = .king
    · rw [pieceMoves_king g p hking, kingMoves_spec] at hm
      rcases hm with ⟨d, _, hm⟩ | hm | hm
      · rw [mem_kingStep] at hm
        obtain ⟨q, _, _, _, rfl⟩ := hm
        exact fun e => absurd e hpawn
      · rw [mem_castleShort] at hm; obtain ⟨_, rfl⟩ := hm; trivial
      · rw [mem_castleLong] at hm; obtain ⟨_, rfl⟩ := hm; trivial
    · obtain ⟨q, rfl⟩ := pieceMoves_simple_normal g hp hpawn hking hm
      exact fun e => absurd e hpawn

/-- **a generated `Normal` move of a pawn does not end on that pawn's last row** -/
theorem pawn_normal_not_last_row {g : Game} {m : Move} (hm : m ∈ g.pseudoMoves)
    {pc : Piece} {s e : Pos} {cap : Option Piece} (he : m = .normal pc s e cap)
    (hp : pc.pieceType = .pawn) : e.row ≠ Spec.lastRow pc.owner := by
  obtain ⟨_, p, pc', hv, _, _, hm⟩ := mem_pseudoMoves.1 hm
  have := pieceMoves_notLastRow g hv hm
  subst he
  exact this hp

end Chess.Bounds

#print axioms Chess.Bounds.pos_valid_of_fits
#print axioms Chess.Bounds.applyMoveG_eq_writes
#print axioms Chess.Bounds.unapplyMove_board
#print axioms Chess.Bounds.ep_probe_valid
#print axioms Chess.Bounds.double_push_in_board
#print axioms Chess.Bounds.generator_squares_valid
#print axioms Chess.Bounds.score_index_lt
#print axioms Chess.Bounds.score_eq_getElem
#print axioms Chess.Bounds.asIndex_lt
#print axioms Chess.Bounds.piece_key_index_lt
#print axioms Chess.Bounds.piece_hash_eq_getElem
#print axioms Chess.Bounds.state_key_index_lt
#print axioms Chess.Bounds.state_hash_eq_getElem
#print axioms Chess.Bounds.unsafe_inventory
#print axioms Chess.Bounds.unsafe_kinds
#print axioms Chess.Bounds.index_history_lt
#print axioms Chess.Bounds.index_history_lt_of_fits
#print axioms Chess.Bounds.killer_index_lt
#print axioms Chess.Bounds.reach_state_ne_nil
#print axioms Chess.Bounds.pop_push_state_ne_nil
#print axioms Chess.Bounds.push_len
#print axioms Chess.Bounds.pushHistory_len
#print axioms Chess.Bounds.pop_len
#print axioms Chess.Bounds.pot_eq
#print axioms Chess.Bounds.pot_push_cases
#print axioms Chess.Bounds.pot_push_le
#print axioms Chess.Bounds.tactical_decreases
#print axioms Chess.Bounds.tactical_needs_noPawnPromo
#print axioms Chess.Bounds.qline_length_le
#print axioms Chess.Bounds.potL_partition
#print axioms Chess.Bounds.pot_le_of_material
#print axioms Chess.Bounds.pot_bound_tight
#print axioms Chess.Bounds.reach_pot_le
#print axioms Chess.Bounds.stack_below_cap
#print axioms Chess.Bounds.playMoves_len
#print axioms Chess.Bounds.position_len_guard
#print axioms Chess.Bounds.commandPosition_len
#print axioms Chess.Bounds.search_line_below_cap
#print axioms Chess.Bounds.reach_search_line_below_cap
#print axioms Chess.Bounds.pieceMoves_length_le
#print axioms Chess.Bounds.pseudoMoves_length_le
#print axioms Chess.Bounds.pseudoMoves_length_le_of_few_pieces
#print axioms Chess.Bounds.pawn_normal_not_last_row
