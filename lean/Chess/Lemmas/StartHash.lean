import Chess.Spec.Fen

/-!
# The Zobrist sum of the standard start position is the constant published in the README (C04)

Kernel-decided on the generated keys and on the constant extracted from `README.md`: a change of
key layout, offsets or endianness in the engine's key file breaks this file.
-/
namespace Chess

/-- the back rank, files a–h -/
def backRank (o : Player) : List (Option Piece) :=
  [some ⟨.rook, o⟩, some ⟨.knight, o⟩, some ⟨.bishop, o⟩, some ⟨.queen, o⟩,
   some ⟨.king, o⟩, some ⟨.bishop, o⟩, some ⟨.knight, o⟩, some ⟨.rook, o⟩]

/-- the 64 squares of the standard start position, rank 1 first -/
def startSquares : List (Option Piece) :=
  backRank .white ++ List.replicate 8 (some ⟨.pawn, .white⟩) ++ List.replicate 32 none
    ++ List.replicate 8 (some ⟨.pawn, .black⟩) ++ backRank .black

/-- the standard start position: all four rights, White to move, no en-passant file -/
def startPos : Spec.APos :=
  { board := ⟨startSquares.toArray, by decide⟩
    side := .white, wk := true, wq := true, bk := true, bq := true, ep := none }

/-- `rnbqkbnr/pppppppp/8/8/8/8/PPPPPPPP/RNBQKBNR w KQkq - 0 1` -/
def startFen : List Char :=
  ['r', 'n', 'b', 'q', 'k', 'b', 'n', 'r', '/', 'p', 'p', 'p', 'p', 'p', 'p', 'p', 'p', '/', '8', '/', '8', '/', '8', '/', '8', '/', 'P', 'P', 'P', 'P', 'P', 'P', 'P', 'P', '/', 'R', 'N', 'B', 'Q', 'K', 'B', 'N', 'R', ' ', 'w', ' ', 'K', 'Q', 'k', 'q', ' ', '-', ' ', '0', ' ', '1']

set_option maxRecDepth 100000 in
/-- cross-check of the literal above: it is what the specification's strict FEN reading gives for
the standard start text -/
theorem startPos_eq_fen : Spec.fenStrict startFen = some startPos := by decide +kernel

set_option maxRecDepth 100000 in
/-- item 5 -/
theorem start_hash : Spec.zobrist startPos = Gen.readmeStartHash := by decide +kernel

end Chess
