import Chess.Lemmas.Mate

/-!
# The root's repetition guard: machinery

Generic over the game interface `Ops G M`.

* list level: `swapRemoveFirst x ms` does not contain `x` when `ms` has no duplicates
  (`not_mem_swapRemoveFirst`), hence `mem_rootMoves_iff`;
* `DepthLe d tt` ("no entry deeper than `d`") is kept by every node with `remaining ≤ d`
  (`node_depthLe`): within one run of the driver from the fresh table, at the start of iteration `k`
  no entry is deeper than `k - 1`, so THE ROOT NEVER ANSWERS FROM THE TABLE — whatever the hash does
  (collisions, transpositions back to the root): `rootSearch_guard`;
* `EvalOk o P`: the static evaluation is out of the driver's mate range on a set `P` of positions
  closed under the quiescence moves; then `qsearch` obeys `Mate.Rng` on `P` (`qsearch_rngP`, the
  relativised form of `Mate.qsearch_rng`), and the first iteration from the fresh table returns
  SOME move (`rootSearch_first`);
* the driver: `driver_found_mem_rootMoves` (flag up, `EvalOk`) and
  `driver_found_mem_rootMoves_of_head` (any flag, no hypothesis on the evaluation, the first listed
  move survives the guard).
-/
namespace Chess.Search.Rep
open Chess.Search Chess.Search.Mate

variable {G M : Type}

local macro "nums" : tactic =>
  `(tactic| simp only [Rng, evalBound, mateScore, scoreMax, scoreMin, Gen.exitHi, Gen.exitLo,
      Gen.mateNode, Gen.mateD1, Gen.mateQ, Gen.fullWindowMaxIndex] at *)

/-! ## the list level -/

section
variable [DecidableEq M]

/-- `swap_remove` of the first occurrence removes the move altogether when the list has no
duplicates -/
theorem not_mem_swapRemoveFirst {x : M} {ms : List M} (h : ms.Nodup) : x ∉ swapRemoveFirst x ms := by
  intro hx
  have := (swapRemoveFirst_perm_erase x ms).mem_iff.1 hx
  exact ((List.Nodup.mem_erase_iff h).1 this).1 rfl

/-- every other move is kept -/
theorem mem_swapRemoveFirst_of_ne {x m : M} {ms : List M} (hm : m ∈ ms) (hne : m ≠ x) :
    m ∈ swapRemoveFirst x ms :=
  (swapRemoveFirst_perm_erase x ms).mem_iff.2 ((List.mem_erase_of_ne hne).2 hm)

/-- **what the guard does to the root move list**: with a duplicate-free move list the moves the
root loops over are exactly the legal moves other than the repetition move -/
theorem mem_rootMoves_iff {o : Ops G M} {g : G} {m0 : M} (hrep : o.repetition g = some m0)
    (hnd : (o.checked g).Nodup) (m : M) : m ∈ rootMoves o g ↔ m ∈ o.checked g ∧ m ≠ m0 := by
  unfold rootMoves
  rw [hrep]
  constructor
  · intro h
    refine ⟨mem_swapRemoveFirst h, ?_⟩
    rintro rfl
    exact not_mem_swapRemoveFirst hnd h
  · rintro ⟨h1, h2⟩
    exact mem_swapRemoveFirst_of_ne h1 h2

/-- the list-level fact: the guarded move is not among the moves the root loops over -/
theorem not_mem_rootMoves {o : Ops G M} {g : G} {m0 : M} (hrep : o.repetition g = some m0)
    (hnd : (o.checked g).Nodup) : m0 ∉ rootMoves o g :=
  fun h => ((mem_rootMoves_iff hrep hnd m0).1 h).2 rfl

/-- a move other than the repetition move survives the guard (no `Nodup` needed) -/
theorem mem_rootMoves_of_ne {o : Ops G M} {g : G} {m0 m : M} (hrep : o.repetition g = some m0)
    (hm : m ∈ o.checked g) (hne : m ≠ m0) : m ∈ rootMoves o g := by
  unfold rootMoves
  rw [hrep]
  exact mem_swapRemoveFirst_of_ne hm hne

/-- `Nodup` cannot be dropped: only the first occurrence is removed -/
example : (1 : Nat) ∈ swapRemoveFirst 1 [1, 1] := by decide

theorem rootMoves_ne_nil {o : Ops G M} {g : G} (hl2 : 2 ≤ (o.checked g).length) :
    rootMoves o g ≠ [] := by
  intro h
  have := length_rootMoves o g
  rw [h] at this
  simp only [List.length_nil] at this
  omega

end

/-! ## no entry deeper than `d` -/

/-- no entry of the table is deeper than `d` -/
def DepthLe (d : Nat) (tt : Table M) : Prop :=
  ∀ (h : UInt64) (e : Entry M), tt[h]? = some e → e.depth ≤ d

theorem DepthLe_empty (d : Nat) : DepthLe d ({} : Table M) := by
  intro h e he
  rw [Std.HashMap.getElem?_empty] at he
  cases he

theorem DepthLe.mono {d d' : Nat} {tt : Table M} (h : DepthLe d tt) (hd : d ≤ d') :
    DepthLe d' tt :=
  fun k e he => Nat.le_trans (h k e he) hd

theorem DepthLe.insert {d : Nat} {tt : Table M} (h : DepthLe d tt) (k : UInt64) (e : Entry M)
    (hd : e.depth ≤ d) : DepthLe d (tt.insert k e) := by
  intro k' e' he
  rw [Std.HashMap.getElem?_insert] at he
  split at he
  · cases he; exact hd
  · exact h k' e' he

theorem DepthLe.poll {d : Nat} {st : St M} (h : DepthLe d st.tt) : DepthLe d (pollSt st).tt := by
  simp only [pollSt]
  split
  · exact DepthLe_empty d
  · exact h

theorem DepthLe.nodeStore {d : Nat} {st : St M} (h : DepthLe d st.tt) (k : UInt64) (n : Nat)
    (e : Entry M) (hd : e.depth ≤ d) : DepthLe d (nodeStore k n e st).tt := by
  unfold Chess.Search.nodeStore
  split
  · split
    · exact h.insert k e hd
    · exact h
  · exact h.insert k e hd

theorem DepthLe.rootStore {d : Nat} {st : St M} (h : DepthLe d st.tt) (k : UInt64) (n : Nat)
    (e : Entry M) (hd : e.depth ≤ d) : DepthLe d (rootStore k n e st).tt := by
  unfold Chess.Search.rootStore
  split
  · split
    · exact h.insert k e hd
    · exact h
  · exact h.insert k e hd

theorem depthLe_frame (d : Nat) : Frame (fun s : St M => DepthLe d s.tt) := by
  intro st st' h ht _
  show DepthLe d st'.tt
  rw [ht]; exact h

variable [DecidableEq M]

/-- **a node with `remaining ≤ d` stores nothing deeper than `d`** (the entry an interior node
stores has `depth = remaining`, its descendants have less) -/
theorem node_depthLe (o : Ops G M) (runs : Nat → Bool) (d : Nat) (remaining : Nat)
    (hrem : remaining ≤ d) (g : G) (α β rd : Int) (st : St M) (hQ : DepthLe d st.tt)
    {v : Int} {st' : St M} (h : node o runs remaining g α β rd st = some (v, st')) :
    DepthLe d st'.tt := by
  induction remaining using Nat.strongRecOn generalizing g α β rd st v st' with
  | _ n ih =>
    rw [node_eq] at h
    split at h
    · cases h
    · have hQ1 : DepthLe d (pollSt st).tt := hQ.poll
      split at h
      · cases h; exact hQ1
      · split at h
        · cases h; exact hQ1
        · cases h; exact hQ1
        · next _ _ r _ =>
          split at h
          · cases h; exact hQ1
          · split at h
            · cases h
            · next out hl =>
              cases h
              have hc : ∀ m ∈ nodeMoves o g rd (pollSt st),
                  ChildKeeps (fun s : St M => DepthLe d s.tt) (node o runs (r + 1))
                    (o.push g m) := by
                intro m _ a b r' s v' s' he hs
                exact ih (r + 1) (by omega) (by omega) _ _ _ _ _ hs he
              obtain ⟨k1, _⟩ := nodeLoop_inv (depthLe_frame d) o _ g _ rd β _ hc _ _ _ _ _ hl hQ1
              exact DepthLe.nodeStore k1 _ _ _ hrem

/-- **The root does not answer from the table, and answers a move it has looped over.** At
iteration `k ≥ 1`, in a state whose table has no entry deeper than `k - 1`, with a number of legal
moves other than one: if the root search answers, its move (if any) is one of `rootMoves o g`, and
the table afterwards has no entry deeper than `k`. No hypothesis on the hash. -/
theorem rootSearch_guard (o : Ops G M) (runs : Nat → Bool) (g : G) (k : Nat) (hk : 1 ≤ k)
    (st : St M) (hQ : DepthLe (k - 1) st.tt) (hl : (o.checked g).length ≠ 1)
    {bm : Option M} {sc : Int} {only : Bool} {st' : St M}
    (h : rootSearch o runs g k st = some ((bm, sc, only), st')) :
    DepthLe k st'.tt ∧ ∀ m, bm = some m → m ∈ rootMoves o g := by
  rcases rootSearch_some_cases h with ⟨hl1, _, _⟩ | ⟨_, e, he, hd, _, _, _⟩ |
      ⟨_, _, bs, bm', st2, hr, hr', hs⟩
  · exact absurd hl1 hl
  · have := hQ _ e he
    omega
  · cases hr'; subst hs
    have hQ0 : DepthLe k (rootSt st).tt := hQ.mono (by omega)
    have hc : ∀ m ∈ rootSorted o g (rootSt st),
        ChildKeeps (fun s : St M => DepthLe k s.tt) (node o runs (k - 1)) (o.push g m) := by
      intro m _ a b r' s v' s' he hs
      exact node_depthLe o runs k (k - 1) (by omega) _ _ _ _ _ hs he
    obtain ⟨k1, k2⟩ := rootLoop_inv (Q := fun s : St M => DepthLe k s.tt) o _ g _ hc _ _ _ _ hr hQ0
    refine ⟨DepthLe.rootStore k1 _ _ _ (Nat.le_refl _), fun m hm => ?_⟩
    rcases k2 m hm with h1 | h1
    · cases h1
    · exact (mem_sortMoves _ _ _).1 h1

/-! ## the iterative-deepening loop -/

/-- from a state whose table has no entry deeper than `depth - 1`, with a best-so-far that
survives the guard, everything the loop can answer survives the guard — whatever the flag does -/
theorem driverLoop_guard (o : Ops G M) (runs : Nat → Bool) (g : G)
    (hl : (o.checked g).length ≠ 1) (limit fuel depth : Nat) (hd : 1 ≤ depth)
    (found : Option M) (infos : List (Info M)) (st : St M) (hQ : DepthLe (depth - 1) st.tt)
    (hf : ∀ m, found = some m → m ∈ rootMoves o g) :
    ∀ m, (driverLoop o runs g limit fuel depth found infos st).found = some m →
      m ∈ rootMoves o g := by
  induction fuel generalizing depth found infos st with
  | zero => exact hf
  | succ f ih =>
    rw [driverLoop_succ]
    split
    · exact hf
    · next bm sc only st' hs =>
      obtain ⟨hQ', hbm⟩ := rootSearch_guard o runs g depth hd st hQ hl hs
      have hf' : ∀ m, bm.or found = some m → m ∈ rootMoves o g := by
        intro m hm
        cases bm with
        | none => exact hf m hm
        | some b => exact hbm m hm
      split
      · exact hf'
      · exact ih (depth + 1) (by omega) _ _ _ hQ' hf'

/-- **The driver from the fresh table, any flag, any evaluation**: with a number of legal moves
other than one, if the first listed move survives the guard, so does the answer. -/
theorem driver_found_mem_rootMoves_of_head (o : Ops G M) (runs : Nat → Bool) (g : G) (off : Bool)
    (md : Option Nat) (hl : (o.checked g).length ≠ 1)
    (hh : ∀ m, (o.checked g).head? = some m → m ∈ rootMoves o g) :
    ∀ m, (driver o runs g {} off md).found = some m → m ∈ rootMoves o g := by
  rw [driver_eq, startDepth_fresh]
  exact driverLoop_guard o runs g hl _ _ 1 (Nat.le_refl _) _ _ _ (DepthLe_empty _) hh

/-! ## quiescence on a set of positions on which the evaluation is out of the mate range -/

/-- `P` is closed under the moves the quiescence search plays, and on `P` the static evaluation is
not in the driver's mate range (`±31767`). `Mate.Bounded o` is the case `P = everything`. -/
structure EvalOk (o : Ops G M) (P : G → Prop) : Prop where
  step : ∀ x m, P x → m ∈ o.unchecked x → P (o.push x m)
  bound : ∀ x, P x → -evalBound ≤ o.eval x ∧ o.eval x ≤ evalBound

omit [DecidableEq M] in
theorem EvalOk.of_bounded {o : Ops G M} (hb : Bounded o) : EvalOk o (fun _ => True) :=
  ⟨fun _ _ _ _ => trivial, fun x _ => hb x⟩

omit [DecidableEq M] in
theorem qLoop_rngP (o : Ops G M) (child : G → Int → Int → Int → Int) (g : G) (β rd T : Int)
    (hT : evalBound ≤ T) :
    ∀ (ms : List M), (∀ m ∈ ms, ∀ a b, Rng a b (child (o.push g m) a b (rd + 1))) →
      ∀ (alpha : Int), -evalBound ≤ alpha → alpha ≤ T →
      min β (-evalBound) ≤ qLoop o child g β rd ms alpha ∧ qLoop o child g β rd ms alpha ≤ T := by
  intro ms
  induction ms with
  | nil =>
    intro _ alpha h1 h2
    simp only [qLoop]
    omega
  | cons m ms ih =>
    intro hchild alpha h1 h2
    have ih' := ih (fun m' hm' => hchild m' (List.mem_cons_of_mem _ hm'))
    simp only [qLoop]
    split
    · exact ih' alpha h1 h2
    · have hc := hchild m List.mem_cons_self (-β) (-alpha)
      generalize child (o.push g m) (-β) (-alpha) (rd + 1) = v at hc ⊢
      unfold Rng at hc
      have key : ∀ a', alpha ≤ a' → a' ≤ max alpha (-v) →
          min β (-evalBound) ≤ (if a' ≥ β then β else qLoop o child g β rd ms a') ∧
          (if a' ≥ β then β else qLoop o child g β rd ms a') ≤ T := by
        intro a' k1 k2
        split
        · omega
        · exact ih' a' (by omega) (by omega)
      split
      · exact key _ (by omega) (by omega)
      · exact key _ (by omega) (by omega)

omit [DecidableEq M] in
/-- the relativised form of `Mate.qsearch_rng` -/
theorem qsearch_rngP (o : Ops G M) (P : G → Prop) (hP : EvalOk o P) :
    ∀ (fuel : Nat) (g : G) (α β rd : Int), P g → 0 ≤ rd → rd + fuel ≤ 1000 →
      Rng α β (qsearch o fuel g α β rd) := by
  intro fuel
  induction fuel with
  | zero =>
    intro g α β rd hg _ _
    have := hP.bound g hg
    simp only [qsearch]
    unfold Rng
    omega
  | succ f ih =>
    intro g α β rd hg h0 h1
    have he := hP.bound g hg
    simp only [qsearch]
    split
    · unfold Rng; omega
    · split
      · split
        · nums; omega
        · nums; omega
      · exact qLoop_rngP o (qsearch o f) g β rd (max α evalBound) (by omega) (o.unchecked g)
          (fun m hm a b => ih (o.push g m) a b (rd + 1) (hP.step g m hg hm) (by omega) (by omega))
          (max α (o.eval g)) (by omega) (by omega)

/-! ## the first iteration from the fresh table returns a move -/

/-- a horizon node on an empty table is the quiescence search -/
theorem node0_empty (o : Ops G M) (runs : Nat → Bool) (hr : ∀ i, runs i = true) (c : G)
    (a b rd : Int) (st : St M) (ht : st.tt = {}) :
    node o runs 0 c a b rd st = some (qsearch o qFuel c a b rd, pollSt st) := by
  rw [node_eq]
  simp only [hr, Bool.not_true, Bool.false_eq_true, if_false]
  have : ttGet (pollSt st) (o.hash c) = none := by
    have : (pollSt st).tt = {} := by
      simp only [pollSt]
      split
      · rfl
      · exact ht
    unfold ttGet
    rw [this]
    exact Std.HashMap.getElem?_empty
  rw [this]
  rfl

omit [DecidableEq M] in
/-- once the root loop has a best move it keeps having one -/
theorem rootLoop_isSome (o : Ops G M)
    (child : G → Int → Int → Int → St M → Option (Int × St M)) (g : G) (ms : List M)
    (index : Nat) (bs : Int) (bm : Option M) (st : St M) {bs' : Int} {bm' : Option M} {st' : St M}
    (h : rootLoop o child g ms index bs bm st = some (bs', bm', st')) (hb : bm.isSome) :
    bm'.isSome := by
  induction ms generalizing index bs bm st with
  | nil =>
    cases h
    exact hb
  | cons m ms ih =>
    unfold rootLoop at h
    simp only [] at h
    split at h
    · split at h
      · cases h
      · split at h
        · exact ih _ _ _ _ h rfl
        · exact ih _ _ _ _ h hb
    · split at h
      · cases h
      · split at h
        · split at h
          · cases h
          · exact ih _ _ _ _ h rfl
        · exact ih _ _ _ _ h hb

omit [DecidableEq M] in
/-- if the first move of the root loop gets a score above the initial `best_score`, the loop ends
with a best move -/
theorem rootLoop_first_isSome (o : Ops G M)
    (child : G → Int → Int → Int → St M → Option (Int × St M)) (g : G) (m : M) (ms : List M)
    (st : St M) {v : Int} {st1 : St M}
    (hc : child (o.push g m) (scoreMin + 1) (-(scoreMin + 1)) 1 st = some (v, st1))
    (hv : -v > scoreMin + 1) {bs' : Int} {bm' : Option M} {st' : St M}
    (h : rootLoop o child g (m :: ms) 0 (scoreMin + 1) none st = some (bs', bm', st')) :
    bm'.isSome := by
  unfold rootLoop at h
  simp only [Nat.zero_le, if_true, hc, hv] at h
  exact rootLoop_isSome o child g ms _ _ _ _ h rfl

/-- **The first iteration from an empty table**, flag up, evaluations of the root's children and
of their quiescence trees out of the mate range, at least two legal moves: the root search to depth
1 answers with SOME move, one of `rootMoves o g`, and leaves no entry deeper than 1. -/
theorem rootSearch_first (o : Ops G M) (P : G → Prop) (hP : EvalOk o P) (runs : Nat → Bool)
    (hr : ∀ i, runs i = true) (g : G) (hroot : ∀ m ∈ o.checked g, P (o.push g m))
    (hl2 : 2 ≤ (o.checked g).length) (st : St M) (ht : st.tt = {}) :
    ∃ m sc st', rootSearch o runs g 1 st = some ((some m, sc, false), st') ∧
      m ∈ rootMoves o g ∧ DepthLe 1 st'.tt := by
  have hl : (o.checked g).length ≠ 1 := by omega
  have hQ : DepthLe (1 - 1) st.tt := by rw [ht]; exact DepthLe_empty _
  cases h : rootSearch o runs g 1 st with
  | none =>
    obtain ⟨i, _, hi, _⟩ := rootSearch_none_stopped o runs g 1 st h
    rw [hr i] at hi; cases hi
  | some x =>
    obtain ⟨⟨bm, sc, only⟩, st'⟩ := x
    obtain ⟨k1, k2⟩ := rootSearch_guard o runs g 1 (Nat.le_refl _) st hQ hl h
    have honly : only = false := by
      cases ho : only with
      | false => rfl
      | true => exact absurd ((rootSearch_only o runs g 1 st h).1 ho) hl
    have hsome : bm.isSome := by
      rcases rootSearch_some_cases h with ⟨hl1, _, _⟩ | ⟨_, e, he, _, _, _, _⟩ |
          ⟨_, _, bs, bm', st2, hloop, hr', _⟩
      · exact absurd hl1 hl
      · rw [ht, Std.HashMap.getElem?_empty] at he; cases he
      · cases hr'
        cases hsm : rootSorted o g (rootSt st) with
        | nil => exact absurd hsm (rootSorted_ne (rootMoves_ne_nil hl2) _)
        | cons m ms =>
          rw [hsm] at hloop
          have hm : m ∈ o.checked g := mem_rootSorted (by rw [hsm]; exact List.mem_cons_self)
          have hc := node0_empty o runs hr (o.push g m) (scoreMin + 1) (-(scoreMin + 1)) 1
            (rootSt st) ht
          have hrng := qsearch_rngP o P hP qFuel (o.push g m) (scoreMin + 1) (-(scoreMin + 1)) 1
            (hroot m hm) (by decide) (by decide)
          refine rootLoop_first_isSome o _ g m ms (rootSt st) hc ?_ hloop
          nums
          omega
    cases bm with
    | none => cases hsome
    | some m => exact ⟨m, sc, st', by rw [honly], k2 m rfl, k1⟩

/-- **The driver from the fresh table, flag up**: with at least two legal moves and evaluations out
of the mate range below the root, the answer is one of the moves the root loops over — whatever the
first listed move is, whatever the hash does. -/
theorem driver_found_mem_rootMoves (o : Ops G M) (P : G → Prop) (hP : EvalOk o P) (g : G)
    (hroot : ∀ m ∈ o.checked g, P (o.push g m)) (hl2 : 2 ≤ (o.checked g).length)
    (runs : Nat → Bool) (hr : ∀ i, runs i = true) (off : Bool) (md : Option Nat) :
    ∀ m, (driver o runs g {} off md).found = some m → m ∈ rootMoves o g := by
  have hl : (o.checked g).length ≠ 1 := by omega
  rw [driver_eq, startDepth_fresh, driverLoop_succ]
  obtain ⟨m1, sc, st1, e1, hm1, hQ1⟩ :=
    rootSearch_first o P hP runs hr g hroot hl2 (initSt {} off) rfl
  rw [e1]
  simp only []
  have hf : ∀ m, (some m1).or (o.checked g).head? = some m → m ∈ rootMoves o g := by
    intro m hm
    cases hm
    exact hm1
  split
  · exact hf
  · exact driverLoop_guard o runs g hl _ _ 2 (by decide) _ _ _ hQ1 hf

end Chess.Search.Rep
