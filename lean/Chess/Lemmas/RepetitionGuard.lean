import Chess.Lemmas.RepetitionGuardAux2
import Chess.Lemmas.Pseudo
import Chess.Lemmas.ScoreRange
import Chess.Lemmas.Reach
import Chess.Lemmas.SearchF

/-!
# The root's repetition guard gives a forced mate up (the known finding of C10, on the model)

`get_best_move_entry` ("prevent threefold repetition"): when the last move of the record equals the
move four plies before it, the move in between that the side to move played four plies ago is taken
out of the root move list with `swap_remove`, before the root loop. With a record `x M x' M' x` (the
opponent has just repeated its move) the move `M` is removed EVEN WHEN IT IS THE ONLY MOVE THAT
KEEPS A FORCED MATE; the engine then plays something else. This is a defect of the engine, observed
on the implementation; here it is stated and proved about the model, for every game interface
`Ops G M`: property C10 ("a search to depth ≥ 5 plays a move that keeps a forced mate in two") is
false of the model in this situation, as it is of the code.

## Statements (modules `RepetitionGuardAux1`, `RepetitionGuardAux2`, this file)

* list level: `not_mem_rootMoves` (`o.repetition g = some m0`, `(o.checked g).Nodup` ⊢
  `m0 ∉ rootMoves o g`), `mem_rootMoves_iff` (`m ∈ rootMoves o g ↔ m ∈ o.checked g ∧ m ≠ m0`).
  `Nodup` is needed: `swap_remove` takes the first occurrence only (`1 ∈ swapRemoveFirst 1 [1, 1]`).
* `found_ne_guarded`: fresh table `{}`, flag up, hook on or off, ANY depth argument,
  `o.repetition g = some m0`, `(o.checked g).Nodup`, `2 ≤ (o.checked g).length`, `EvalOk o P` with
  the children of the root in `P` ⊢ `(driver o runs g {} off md).found ≠ some m0`.
  `found_ne_guarded_of_bounded`: the same with `Mate.Bounded o`. `found_ne_guarded_of_head`: ANY
  flag (also a search stopped at its first poll), NO hypothesis on the evaluation, provided the
  guarded move is not the first listed move. `found_legal_ne_guarded`: the answer is a legal move
  other than `m0`.
* `guard_gives_up_the_mate` (weak reading, `KeepsForcedMate`), `guard_gives_up_the_mate_strong`
  (`KeepsMate`), `guard_excludes` (any property only `m0` has), `c10_fails_under_guard` (premise of
  C10, negation of its conclusion, every depth argument).
* `Example.ex2r`: a concrete game in which all hypotheses hold (`ex2r_hyps`), the move `2` forces
  mate in two and is the only move keeping a forced mate, and the engine answers `1` or `3`
  (`ex2r_gives_up`, `ex2r_c10_fails`: kernel-checked by application of the theorems; which of the
  two, by `#guard`); without the record the same game plays the mate (`ex2_contrast`).
* chess (this file): `chess_repetition_iff` (the hypothesis `repetition g = some m0` IS the record
  shape `x M' x' m0 x …`, most recent move first), `chess_found_ne_guarded`,
  `chess_guard_gives_up_the_mate`, `chess_found_ne_guarded_of_head`, and the forms for the faithful
  driver `driverF`.

## The hypotheses, and why each is there

* FRESH TABLE. From `{}` the first depth is 1 and, by a depth argument, the root never answers from
  the table during the run: at the start of iteration `k` no entry is deeper than `k - 1`
  (`node_depthLe`: a node with `remaining` plies left stores `depth = remaining`, and below the root
  of iteration `k` that is at most `k - 1`; the root's own entries of earlier iterations have depth
  `< k`), whereas the root's table answer needs `depth ≥ k`. Hence NO HYPOTHESIS ON THE HASH: neither
  a collision nor a transposition back to the root position can smuggle the move back in. (With a
  table left by an earlier search the root can answer the cached move, whatever it is:
  `driver_returns_cached_move`.)
* `2 ≤ (o.checked g).length`: with exactly one legal move the only-move shortcut answers with it
  BEFORE the guard is applied (model and Rust alike: `moves.len() == 1` is tested first).
* `(o.checked g).Nodup`: see above; true in chess for well-formed games (`chess_checked_nodup`).
* `m0 ∈ o.checked g` is NOT needed for `found ≠ some m0`.
* the evaluation (`EvalOk`, or `Bounded`) together with the flag staying up: they make the FIRST
  iteration return some move. The driver starts from `best_move = moves.first()` — computed before
  the guard — and keeps it until an iteration returns a move; if every score of the first iteration
  is `≤ Score::MIN + 1` no move is returned, and the driver falls back on the first listed move,
  which may be the guarded one: `Example.exHuge` (evaluation `40000`; `#guard`). Alternatively
  (`found_ne_guarded_of_head`) the guarded move is not the first listed one; then nothing is needed
  on the evaluation or the flag.

## Not proved

Nothing of the goal is left open. Not addressed: tables left by earlier searches (the statement is
false there without the Zobrist hypothesis, and with it the cached root move of an earlier search of
the SAME position — made with another record — may be the guarded move: the guard is not applied to
the table answer); a chess POSITION instance (a `Game` value with such a record and a mate in two)
is on the implementation side of the finding, not here.
-/
namespace Chess.Search.Rep
open Chess Chess.Search Chess.Search.Mate Chess.Search.Mate2

/-! ## 4. chess -/

/-- **What `repetition` is for chess**: the guard fires with the move `m0` exactly when the move
record (most recent move first) reads `x, M', x', m0, x, …` — the opponent's last move `x` equals
its move four plies earlier, and `m0` is the move the side to move played in between, four plies
ago. In game order: `… x m0 x' M' x`. -/
theorem chess_repetition_iff (g : Game) (m0 : Move) :
    Uci.chessOps.repetition g = some m0 ↔
      ∃ x M' x' rest, g.moveStack = x :: M' :: x' :: m0 :: x :: rest := by
  show (match Uci.listGet? g.moveStack 0, Uci.listGet? g.moveStack 4, Uci.listGet? g.moveStack 3 with
    | some a, some b, some c => if a = b then some c else none
    | _, _, _ => none) = some m0 ↔ _
  generalize g.moveStack = l
  rcases l with _ | ⟨a, _ | ⟨b, _ | ⟨c, _ | ⟨d, _ | ⟨e, rest⟩⟩⟩⟩⟩
  all_goals simp only [Uci.listGet?, List.getElem?_nil, List.getElem?_cons_zero,
    List.getElem?_cons_succ]
  · simp
  · simp
  · simp
  · simp
  · simp
  · constructor
    · intro h
      split at h
      · next hae =>
        cases h
        exact ⟨a, b, c, rest, by rw [hae]⟩
      · cases h
    · rintro ⟨x, M', x', rest', h⟩
      simp only [List.cons.injEq] at h
      obtain ⟨rfl, rfl, rfl, rfl, rfl, _⟩ := h
      simp

/-- the value of `repetition` on a record with at least five moves -/
theorem chess_repetition_of_record (g : Game) (x1 M' x' M x0 : Move) (rest : List Move)
    (h : g.moveStack = x1 :: M' :: x' :: M :: x0 :: rest) :
    Uci.chessOps.repetition g = if x1 = x0 then some M else none := by
  show (match Uci.listGet? g.moveStack 0, Uci.listGet? g.moveStack 4, Uci.listGet? g.moveStack 3 with
    | some a, some b, some c => if a = b then some c else none
    | _, _, _ => none) = _
  rw [h]
  rfl

/-- the checked move list of a well-formed game has no duplicates -/
theorem chess_checked_nodup {g : Game} (hw : g.WF) : (Uci.chessOps.checked g).Nodup := by
  have h := Game.checked_sublist_unchecked hw
  rw [Game.getMoves_false] at h
  exact List.Nodup.sublist h (Game.pseudoMoves_nodup hw)

/-- on reachable games the evaluation is within `±30565`, well inside `±31767`, and reachable games
are closed under the (unchecked) moves the quiescence search plays -/
theorem chess_evalOk : EvalOk Uci.chessOps Reach where
  step := fun x m hx hm => Reach.searched x m false hx hm
  bound := fun x hx => by
    have := Range.eval_range hx
    unfold Range.B at this
    simp only [evalBound, scoreMax, Gen.exitHi]
    omega

/-- **`found_ne_guarded` for chess**: a reachable game whose record reads `x, M', x', m0, x, …`,
with at least two legal moves; fresh table, flag up, any hook, any depth argument: the engine does
not answer `m0`. -/
theorem chess_found_ne_guarded {g : Game} (h : Reach g) (m0 : Move)
    (hrec : ∃ x M' x' rest, g.moveStack = x :: M' :: x' :: m0 :: x :: rest)
    (hl2 : 2 ≤ (g.getMoves true).1.length) (runs : Nat → Bool) (hr : ∀ i, runs i = true)
    (off : Bool) (md : Option Nat) :
    (driver Uci.chessOps runs g {} off md).found ≠ some m0 :=
  found_ne_guarded Uci.chessOps Reach chess_evalOk g
    (fun m hm => Reach.searched g m true h hm) m0 ((chess_repetition_iff g m0).2 hrec)
    (chess_checked_nodup (reach_wf h)) hl2 runs hr off md

/-- **The finding for chess** (both readings): in a reachable game with such a record in which `m0`
is the only move that keeps a forced mate, the engine answers a legal move that does not keep it. -/
theorem chess_guard_gives_up_the_mate {g : Game} (h : Reach g) (m0 : Move)
    (hrec : ∃ x M' x' rest, g.moveStack = x :: M' :: x' :: m0 :: x :: rest)
    (hl2 : 2 ≤ (g.getMoves true).1.length)
    (honly : ∀ m, KeepsForcedMate Uci.chessOps g m → m = m0)
    (runs : Nat → Bool) (hr : ∀ i, runs i = true) (off : Bool) (md : Option Nat) :
    ∃ m, (driver Uci.chessOps runs g {} off md).found = some m ∧ m ∈ (g.getMoves true).1 ∧
      m ≠ m0 ∧ ¬ KeepsForcedMate Uci.chessOps g m ∧ ¬ KeepsMate Uci.chessOps g m := by
  obtain ⟨_, _, m, h1, h2, h3, h4⟩ := guard_gives_up_the_mate Uci.chessOps Reach chess_evalOk g
    (fun m hm => Reach.searched g m true h hm) m0 ((chess_repetition_iff g m0).2 hrec)
    (chess_checked_nodup (reach_wf h)) hl2 honly runs hr off md
  exact ⟨m, h1, h2, h3, h4, fun hk => h4 hk.weak.forced⟩

/-- the same when only the strong reading is assumed unique -/
theorem chess_guard_gives_up_the_mate_strong {g : Game} (h : Reach g) (m0 : Move)
    (hrec : ∃ x M' x' rest, g.moveStack = x :: M' :: x' :: m0 :: x :: rest)
    (hl2 : 2 ≤ (g.getMoves true).1.length)
    (honly : ∀ m, KeepsMate Uci.chessOps g m → m = m0)
    (runs : Nat → Bool) (hr : ∀ i, runs i = true) (off : Bool) (md : Option Nat) :
    ∃ m, (driver Uci.chessOps runs g {} off md).found = some m ∧ m ∈ (g.getMoves true).1 ∧
      m ≠ m0 ∧ ¬ KeepsMate Uci.chessOps g m :=
  (guard_gives_up_the_mate_strong Uci.chessOps Reach chess_evalOk g
    (fun m hm => Reach.searched g m true h hm) m0 ((chess_repetition_iff g m0).2 hrec)
    (chess_checked_nodup (reach_wf h)) hl2 honly runs hr off md).2.2

/-- any flag (a search stopped at any poll, also the first), a well-formed game: if the guarded
move is not the first generated move, it is not answered -/
theorem chess_found_ne_guarded_of_head {g : Game} (hw : g.WF) (m0 : Move)
    (hrec : ∃ x M' x' rest, g.moveStack = x :: M' :: x' :: m0 :: x :: rest)
    (hl : (g.getMoves true).1.length ≠ 1) (hh : (g.getMoves true).1.head? ≠ some m0)
    (runs : Nat → Bool) (off : Bool) (md : Option Nat) :
    (driver Uci.chessOps runs g {} off md).found ≠ some m0 :=
  found_ne_guarded_of_head Uci.chessOps g m0 ((chess_repetition_iff g m0).2 hrec)
    (chess_checked_nodup hw) hl hh runs off md

/-- the faithful driver (`driverF`: the table survives an abort) answers the same move -/
theorem chess_found_ne_guarded_F {g : Game} (h : Reach g) (m0 : Move)
    (hrec : ∃ x M' x' rest, g.moveStack = x :: M' :: x' :: m0 :: x :: rest)
    (hl2 : 2 ≤ (g.getMoves true).1.length) (runs : Nat → Bool) (hr : ∀ i, runs i = true)
    (off : Bool) (md : Option Nat) :
    (driverF Uci.chessOps runs g {} off md).found ≠ some m0 := by
  rw [(F.driverF_agrees Uci.chessOps runs g {} off md).1]
  exact chess_found_ne_guarded h m0 hrec hl2 runs hr off md

end Chess.Search.Rep

/-! ## Axioms -/

#print axioms Chess.Search.Rep.not_mem_rootMoves
#print axioms Chess.Search.Rep.mem_rootMoves_iff
#print axioms Chess.Search.Rep.node_depthLe
#print axioms Chess.Search.Rep.rootSearch_guard
#print axioms Chess.Search.Rep.rootSearch_first
#print axioms Chess.Search.Rep.driver_found_mem_rootMoves
#print axioms Chess.Search.Rep.driver_found_mem_rootMoves_of_head
#print axioms Chess.Search.Rep.found_ne_guarded
#print axioms Chess.Search.Rep.found_ne_guarded_of_bounded
#print axioms Chess.Search.Rep.found_ne_guarded_of_head
#print axioms Chess.Search.Rep.found_legal_ne_guarded
#print axioms Chess.Search.Rep.guard_excludes
#print axioms Chess.Search.Rep.guard_gives_up_the_mate
#print axioms Chess.Search.Rep.guard_gives_up_the_mate_strong
#print axioms Chess.Search.Rep.c10_fails_under_guard
#print axioms Chess.Search.Rep.Example.ex2r_hyps
#print axioms Chess.Search.Rep.Example.ex2r_gives_up
#print axioms Chess.Search.Rep.Example.ex2r_c10_fails
#print axioms Chess.Search.Rep.Example.exHuge_hyps
#print axioms Chess.Search.Rep.chess_repetition_iff
#print axioms Chess.Search.Rep.chess_checked_nodup
#print axioms Chess.Search.Rep.chess_evalOk
#print axioms Chess.Search.Rep.chess_found_ne_guarded
#print axioms Chess.Search.Rep.chess_guard_gives_up_the_mate
#print axioms Chess.Search.Rep.chess_guard_gives_up_the_mate_strong
#print axioms Chess.Search.Rep.chess_found_ne_guarded_of_head
#print axioms Chess.Search.Rep.chess_found_ne_guarded_F
