import Chess.Model.Session

/-!
# C14: the session layer (`uci.rs`) under all command sequences and all schedules

Every theorem below is about `Reachable cfg s`, i.e. about every state that any stdin command list and
any interleaving of the main loop, the search threads and the timer threads can produce; the proofs
are invariant inductions over `next`, there is no bound on the length of the run.

Configurations (`Chess/Model/Session.lean`): `fixed` = `uci.rs` as it is; `original` = the order of
actions before the repair of D7; `repaired` = `fixed` + the proposed join-before-lock (`reap`).

Results, for ALL configurations unless said otherwise:
1. `bestmove_at_most_once`, `bestmove_only_after_go`, `bestmove_exactly_once_when_done`.
2. `isready_never_blocks`.
3. `no_deadlock` (with `inv_mutex`: mutual exclusion), `main_returns_to_idle`.
4. `go_after_bestmove_honoured`, `bestmove_flag_false`, `position_honoured`, `go_not_refused`
   (need `buggy = false`; fail for `original`: `original_go_after_bestmove_fails`, `original_position_refused`).
5. `flag_true_implies_search_alive`, `cell_false_stable`, `timer_fired_flag_false`,
   `timer_or_stop_leads_to_bestmove` (need `buggy = false`; fail for `original`:
   `original_cell_false_stable_fails`, `original_timer_lost`).
6. `quit_exits`, `eof_exits`, `never_exitedErr`.
   `no_panic` is FALSE for `fixed` (`fixed_no_panic_fails`, four concrete schedules `fixed_panic_*`):
   a timer that fires before the search thread has taken the mutex lets the main loop change
   `current_game` (or start a second search thread) behind the back of a search thread that then
   unwraps `None`.  For the same reason `position` + `go` after `bestmove` are not always honoured by
   `fixed` (`fixed_go_after_position_refused`).  Both hold with `reap` (`repaired_no_panic`,
   `repaired_position_quiet`, `quiet_go_accepted`), and `fixed` does not panic if no `go` sets a
   timer (`untimed_no_panic`).
7. Concrete runs (`example`s, `decide`).
-/
namespace Chess.Session
variable {cfg : Cfg} {s t : State}
set_option linter.unusedSimpArgs false

/-- split `hn : next cfg s l = some t` (after `cases l`) into one goal per atomic action, with `t`
replaced by the explicit successor state -/
syntax "step_cases " ident : tactic
macro_rules
  | `(tactic| step_cases $hn:ident) => `(tactic|
      (simp only [next, mainStep, searchStep, finishStep, fireStep] at $hn:ident <;>
       (repeat' split at $hn:ident) <;>
       (try simp only [idleStep, joinStep, lockStep, startOrReap, proceed, State.emit] at $hn:ident) <;>
       (repeat' split at $hn:ident) <;>
       (try simp only [Option.some.injEq, reduceCtorEq] at $hn:ident) <;>
       (try subst $hn:ident)))

/-! ## Classification of program counters -/

/-- the search thread holds the mutex -/
def Th.holds : Th → Bool
  | .searching | .returned | .cleared | .printedEarly | .printed => true
  | _ => false

/-- the search thread exists and has not ended -/
def Th.live : Th → Bool
  | .notStarted | .searching | .returned | .cleared | .printedEarly | .printed => true
  | _ => false

/-- `bestmove` has been printed by this thread -/
def Th.hasPrinted : Th → Bool
  | .printedEarly | .printed | .done => true
  | _ => false

/-- the thread has executed its `store(false)` -/
def Th.hasCleared : Th → Bool
  | .cleared | .printed | .done => true
  | _ => false

/-- the thread has not yet executed its `store(false)` (or never will: `panicked`) -/
def Th.beforeClear : Th → Bool
  | .notStarted | .searching | .returned | .printedEarly => true
  | _ => false

/-- the main loop holds the mutex -/
def MainPc.holds : MainPc → Bool
  | .ngHold | .posHold _ _ | .showHold | .goHold _ | .goRaise _ | .goInfo _ | .goSpawnTimer _
  | .goSpawnSearch _ | .goUnlock => true
  | _ => false

/-- inside `go`, before the search thread is spawned -/
def MainPc.goPre : MainPc → Bool
  | .goLock _ | .goHold _ | .goErr | .goRaise _ | .goInfo _ | .goSpawnTimer _ | .goSpawnSearch _ => true
  | _ => false

/-- inside `go`, before the timer thread is spawned -/
def MainPc.timerPre (cfg : Cfg) : MainPc → Bool
  | .goLock _ | .goHold _ | .goErr | .goInfo _ | .goSpawnTimer _ => true
  | .goRaise _ => !cfg.buggy
  | _ => false

/-- the flag has been raised, the search thread is about to be spawned -/
def MainPc.spawnPending (cfg : Cfg) : MainPc → Bool
  | .goInfo _ | .goSpawnTimer _ => !cfg.buggy
  | .goSpawnSearch _ => true
  | _ => false

/-- inside `go`, after the flag was raised and before `search_thread = Some(thread)` -/
def MainPc.goMid (cfg : Cfg) : MainPc → Bool
  | .goInfo _ | .goSpawnTimer _ => !cfg.buggy
  | .goSpawnSearch _ | .goUnlock | .goSetHandle => true
  | _ => false

/-- program points at which the current cell may read `true` -/
def MainPc.mayTrue (cfg : Cfg) : MainPc → Bool
  | .idle | .ngStore | .waitJoin | .waitStore | .goSpawnSearch _ | .goUnlock | .goSetHandle
  | .exited | .exitedErr | .panicked => true
  | .goInfo _ | .goSpawnTimer _ => !cfg.buggy
  | _ => false

/-! ## Basic invariants (all configurations) -/

/-- slots beyond `cur` are untouched -/
theorem inv_fresh (h : Reachable cfg s) :
    ∀ k, s.cur < k → s.th k = .none ∧ s.timer k = .none ∧ s.flag k = false := by
  induction h with
  | init cmds => simp [init]
  | step l hr hn ih =>
    intro k hk
    cases l <;> step_cases hn <;> simp at hk ⊢ <;> grind

/-- inside `go`, no thread of the new slot exists before its spawn -/
theorem inv_goPre (h : Reachable cfg s) :
    (s.pc.goPre → s.th s.cur = .none) ∧ (s.pc.timerPre cfg → s.timer s.cur = .none) := by
  induction h with
  | init cmds => simp [init, MainPc.goPre, MainPc.timerPre]
  | step l hr hn ih =>
    have hf := inv_fresh hr
    cases l <;> step_cases hn <;> simp [MainPc.goPre, MainPc.timerPre] at ih ⊢ <;> grind

/-- after the spawn, the thread of the current slot exists -/
theorem inv_spawned (h : Reachable cfg s) :
    (s.pc = .goUnlock ∨ s.pc = .goSetHandle → s.th s.cur ≠ .none) ∧
    (∀ k, s.handle = some k → s.th k ≠ .none) := by
  induction h with
  | init cmds => simp [init]
  | step l hr hn ih =>
    cases l <;> step_cases hn <;> simp at ih ⊢ <;> grind

/-- the mutex is owned by exactly the thread whose program counter says so -/
theorem inv_mutex (h : Reachable cfg s) :
    (∀ k, (s.th k).holds ↔ s.mutex = some (.search k)) ∧ (s.pc.holds ↔ s.mutex = some .main) := by
  induction h with
  | init cmds => simp [init, Th.holds, MainPc.holds]
  | step l hr hn ih =>
    cases l <;> step_cases hn <;> simp [Th.holds, MainPc.holds] at ih ⊢ <;> grind [Th.holds]

/-- a thread that has executed its `store(false)` leaves the cell `false`: nobody raises it again -/
theorem inv_cleared (h : Reachable cfg s) : ∀ k, (s.th k).hasCleared → s.flag k = false := by
  induction h with
  | init cmds => simp [init]
  | step l hr hn ih =>
    have hp := (inv_goPre hr).1
    cases l <;> step_cases hn <;> simp [Th.hasCleared, MainPc.goPre] at ih hp ⊢ <;> grind [Th.hasCleared]

/-- the current cell reads `true` only at certain program points of the main loop -/
theorem inv_mayTrue (h : Reachable cfg s) : s.flag s.cur = true → s.pc.mayTrue cfg := by
  induction h with
  | init cmds => simp [init]
  | step l hr hn ih =>
    cases l <;> step_cases hn <;> simp [MainPc.mayTrue] at ih ⊢ <;> grind

/-- cells of earlier slots read `false`: the main loop moves on only after reading `false`, and
only the main loop ever stores `true` -/
theorem inv_old_false (h : Reachable cfg s) : ∀ k, k < s.cur → s.flag k = false := by
  induction h with
  | init cmds => simp [init]
  | step l hr hn ih =>
    have hm := inv_mayTrue hr
    cases l <;> step_cases hn <;> simp [MainPc.mayTrue] at ih hm ⊢ <;> grind

/-- only the current cell can read `true` -/
theorem flag_true_cur (h : Reachable cfg s) {k : Nat} (hk : s.flag k = true) : k = s.cur := by
  have h1 := inv_old_false h k
  have h2 := inv_fresh h k
  grind

theorem inv_alive (h : Reachable cfg s) :
    ∀ k, s.flag k = true →
      (k = s.cur ∧ s.pc.spawnPending cfg ∧ s.th k = .none) ∨ (s.th k).beforeClear ∨ s.th k = .panicked := by
  induction h with
  | init cmds => simp [init]
  | step l hr hn ih =>
    have hm := inv_mayTrue hr
    have hp := (inv_goPre hr).1
    cases l <;> step_cases hn <;>
      simp [MainPc.mayTrue, MainPc.spawnPending, MainPc.goPre] at ih hm hp ⊢ <;>
      grind [Th.beforeClear]

/-- **flag_true_implies_search_alive**: if a cell reads `true`, it is the current one, and its
search thread is about to be spawned, or exists and has not yet executed its `store(false)` —
or has panicked (see `fixed_no_panic_fails`; excluded with `reap`:
`repaired_flag_true_implies_search_alive`) -/
theorem flag_true_implies_search_alive (h : Reachable cfg s) {k : Nat} (hk : s.flag k = true) :
    k = s.cur ∧
      ((s.pc.spawnPending cfg ∧ s.th k = .none) ∨ (s.th k).beforeClear ∨ s.th k = .panicked) := by
  have := inv_alive h k hk
  have := flag_true_cur h hk
  grind

/-- while the current cell reads `true` the main loop's `JoinHandle` is the one of the current
slot (or is about to be set) -/
theorem inv_handle (h : Reachable cfg s) :
    s.flag s.cur = true → s.pc.goMid cfg ∨ s.handle = some s.cur := by
  induction h with
  | init cmds => simp [init]
  | step l hr hn ih =>
    have hm := inv_mayTrue hr
    have hc := inv_cleared hr
    cases l <;> step_cases hn <;>
      simp [MainPc.mayTrue, MainPc.goMid] at ih hm ⊢ <;>
      grind [Th.hasCleared]

/-- `ucinewgame` never takes the `?` exit ("There should a search thread running") -/
theorem never_exitedErr (h : Reachable cfg s) : s.pc ≠ .exitedErr := by
  induction h with
  | init cmds => simp [init]
  | step l hr hn ih =>
    have hh := inv_handle hr
    cases l <;> step_cases hn <;> simp [MainPc.goMid] at ih hh ⊢ <;> grind

/-! ## 1. `bestmove` at most once, and only for an accepted `go` -/

theorem inv_count (h : Reachable cfg s) :
    ∀ k, s.out.count (.bestmove k) = if (s.th k).hasPrinted then 1 else 0 := by
  induction h with
  | init cmds => simp [init, Th.hasPrinted]
  | step l hr hn ih =>
    have hp := (inv_goPre hr).1
    cases l <;> step_cases hn <;>
      simp [MainPc.goPre, List.count_append, List.count_cons] at ih hp ⊢ <;>
      grind [Th.hasPrinted]

/-- **bestmove_at_most_once** -/
theorem bestmove_at_most_once (h : Reachable cfg s) (k : Nat) : s.out.count (.bestmove k) ≤ 1 := by
  rw [inv_count h k]; split <;> omega

/-- **bestmove_only_after_go**: `bestmove k` is printed only by the search thread that an accepted
`go` spawned for slot `k`, and `k` is a slot that has been allocated -/
theorem bestmove_only_after_go (h : Reachable cfg s) {k : Nat} (hk : .bestmove k ∈ s.out) :
    s.th k ≠ .none ∧ k ≤ s.cur := by
  have h1 := inv_count h k
  have h2 : 0 < s.out.count (.bestmove k) := List.count_pos_iff.mpr hk
  have h3 := inv_fresh h k
  grind [Th.hasPrinted]

/-! ## 4. / 5. the repaired order of actions -/

/-- without `buggy`, no thread prints before clearing -/
theorem inv_no_early (hb : cfg.buggy = false) (h : Reachable cfg s) : ∀ k, s.th k ≠ .printedEarly := by
  induction h with
  | init cmds => simp [init]
  | step l hr hn ih =>
    cases l <;> step_cases hn <;> simp [hb] at ih ⊢ <;> grind

/-- **bestmove k printed ⇒ cell k reads false** (false with `buggy`: `original_bestmove_flag_true`) -/
theorem bestmove_flag_false (hb : cfg.buggy = false) (h : Reachable cfg s) {k : Nat}
    (hk : .bestmove k ∈ s.out) : s.flag k = false := by
  have h1 := inv_count h k
  have h2 : 0 < s.out.count (.bestmove k) := List.count_pos_iff.mpr hk
  have h3 := inv_no_early hb h k
  have h4 := inv_cleared h k
  cases hth : s.th k <;> simp_all [Th.hasPrinted, Th.hasCleared]

/-- a timer that has fired leaves the cell `false` (false with `buggy`) -/
theorem timer_fired_flag_false (hb : cfg.buggy = false) (h : Reachable cfg s) :
    ∀ k, s.timer k = .fired → s.flag k = false := by
  induction h with
  | init cmds => simp [init]
  | step l hr hn ih =>
    have hp := (inv_goPre hr).2
    cases l <;> step_cases hn <;> simp [hb, MainPc.timerPre] at ih hp ⊢ <;> grind

/-- some thread of slot `k` exists (or has existed) -/
def State.spawned (s : State) (k : Nat) : Prop := s.th k ≠ .none ∨ s.timer k ≠ .none

/-- **cell_false_stable**, one step: once a thread of slot `k` exists, a `false` cell stays `false` -/
theorem cell_false_stable_step (hb : cfg.buggy = false) (h : Reachable cfg s) {l : Label}
    (hn : next cfg s l = some t) {k : Nat} (hs : s.spawned k) (hf : s.flag k = false) :
    t.flag k = false ∧ t.spawned k := by
  have hp := inv_goPre h
  unfold State.spawned at hs ⊢
  cases l <;> step_cases hn <;> simp [hb, MainPc.timerPre, MainPc.goPre] at hp ⊢ <;> grind

theorem run_reachable (h : Reachable cfg s) {ls : List Label} (hr : run cfg s ls = some t) :
    Reachable cfg t := by
  induction ls generalizing s with
  | nil => simp [run] at hr; exact hr ▸ h
  | cons l ls ih =>
    simp only [run] at hr
    split at hr
    · simp at hr
    · rename_i u hu; exact ih (.step l h hu) hr

/-- **cell_false_stable**: over any number of steps of any threads -/
theorem cell_false_stable (hb : cfg.buggy = false) (h : Reachable cfg s) {ls : List Label}
    (hr : run cfg s ls = some t) {k : Nat} (hs : s.spawned k) (hf : s.flag k = false) :
    t.flag k = false := by
  induction ls generalizing s with
  | nil => simp [run] at hr; exact hr ▸ hf
  | cons l ls ih =>
    simp only [run] at hr
    split at hr
    · simp at hr
    · rename_i u hu
      have := cell_false_stable_step hb h hu hs hf
      exact ih (.step l h hu) hr this.2 this.1

/-- **go_after_bestmove_honoured**: when the main loop is idle and the `bestmove` of the most recently
accepted `go` (slot `k`) is in the output, the current cell reads `false` -/
theorem go_after_bestmove_honoured (hb : cfg.buggy = false) (h : Reachable cfg s) {k : Nat}
    (hlast : ∀ j, j ≤ s.cur → s.th j ≠ .none → j ≤ k) (hk : .bestmove k ∈ s.out) (hidle : s.pc = .idle) :
    s.flag s.cur = false := by
  have h1 := bestmove_flag_false hb h hk
  have h2 := (bestmove_only_after_go h hk).2
  have h3 := inv_alive h s.cur
  have h4 := hlast s.cur (Nat.le_refl _)
  cases hf : s.flag s.cur
  · rfl
  · simp [hf, hidle, MainPc.spawnPending] at h3
    have : s.th s.cur ≠ .none := by
      rcases h3 with h3 | h3
      · intro h5; simp [h5, Th.beforeClear] at h3
      · simp [h3]
    have : s.cur = k := by have := h4 this; omega
    simp_all

/-- …hence a following `position` is not refused: the next step of the main loop prints nothing and
goes on to take the mutex (in the `reap` configuration it first joins the finished search thread) -/
theorem position_honoured {ok keep : Bool} {rest : List Cmd} (hidle : s.pc = .idle)
    (hi : s.input = .position ok keep :: rest) (hf : s.flag s.cur = false) :
    ∃ t, next cfg s .main = some t ∧ t.out = s.out ∧ t.input = rest ∧
      (t.pc = .posLock ok keep ∨ t.pc = .reapJoin (.pos ok keep)) := by
  simp only [next, mainStep, hidle, idleStep, hi, startOrReap, proceed]
  simp only [hf, Bool.false_eq_true, if_false]
  split <;> simp

/-- …and a `go` is not refused either: a new cell is allocated and `command_go` is entered -/
theorem go_not_refused {g : GoArgs} {rest : List Cmd} (hidle : s.pc = .idle)
    (hi : s.input = .go g :: rest) (hf : s.flag s.cur = false) :
    ∃ t, next cfg s .main = some t ∧ t.out = s.out ∧ t.input = rest ∧
      ((t.pc = .goLock g ∧ t.cur = s.cur + 1) ∨ t.pc = .reapJoin (.go g)) := by
  simp only [next, mainStep, hidle, idleStep, hi, startOrReap, proceed]
  simp only [hf, Bool.false_eq_true, if_false]
  split <;> simp

/-- inside `command_go` the `go` is accepted (flag raised, threads spawned) iff a game is set -/
theorem go_accepted_iff_game {g : GoArgs} (hpc : s.pc = .goHold g) :
    ∃ t, next cfg s .main = some t ∧ (t.pc = .goErr ↔ s.game = false) := by
  simp only [next, mainStep, hpc]
  split <;> simp_all <;> split <;> simp

/-! ## 2. `isready`, 6. `quit` -/

/-- **isready_never_blocks**: whatever the other threads are doing, whoever holds the mutex and
whatever the flags read, the step that answers `readyok` is enabled -/
theorem isready_never_blocks {rest : List Cmd} (hidle : s.pc = .idle) (hi : s.input = .isready :: rest) :
    next cfg s .main = some ({ s with input := rest }.emit .readyok) := by
  simp [next, mainStep, hidle, idleStep, hi]

/-- **quit_exits** -/
theorem quit_exits {rest : List Cmd} (hidle : s.pc = .idle) (hi : s.input = .quit :: rest) :
    next cfg s .main = some { s with input := rest, pc := .exited } := by
  simp [next, mainStep, hidle, idleStep, hi]

/-- end of input: `stdin().lines()` ends, `uci_talk` returns `Ok(())` -/
theorem eof_exits (hidle : s.pc = .idle) (hi : s.input = []) :
    next cfg s .main = some { s with pc := .exited } := by
  simp [next, mainStep, hidle, idleStep, hi]

/-- after `main` has returned nothing moves: the process is gone -/
theorem exited_final (hpc : s.running = false) (l : Label) : next cfg s l = none := by
  cases l <;> simp [next, hpc]
  simp only [State.running] at hpc
  split at hpc <;> simp_all [mainStep]

/-- number of main-loop steps until the main loop is idle again -/
def MainPc.rank (cfg : Cfg) : MainPc → Nat
  | .idle | .exited | .exitedErr | .panicked => 0
  | .goSetHandle | .goErr | .posHold _ _ | .showHold | .ngHold | .stopJoin | .waitStore => 1
  | .goUnlock | .posLock _ _ | .showLock | .ngLock | .waitJoin => 2
  | .goSpawnSearch _ | .ngJoin => 3
  | .ngStore => 4
  | .goRaise _ => if cfg.buggy then 4 else 6
  | .goInfo _ => if cfg.buggy then 6 else 5
  | .goSpawnTimer _ => if cfg.buggy then 5 else 4
  | .goHold _ => 7
  | .goLock _ => 8
  | .reapJoin _ => 9

/-- every command is finished within at most 9 steps of the main loop: each step of the main loop
that does not read a new line brings it nearer to `idle` -/
theorem main_returns_to_idle (hn : next cfg s .main = some t) (hpc : s.pc ≠ .idle) :
    t.pc.rank cfg < s.pc.rank cfg := by
  cases hb : cfg.buggy <;> step_cases hn <;> simp_all [MainPc.rank] <;> (try split) <;> simp_all

/-! ## 5. progress of a search thread whose cell reads `false` -/

/-- number of own steps a search thread still has to take until it has ended -/
def Th.rank : Th → Nat
  | .notStarted => 5
  | .searching => 4
  | .returned => 3
  | .cleared | .printedEarly => 2
  | .printed => 1
  | .none | .done | .panicked => 0

/-- the next action of a live search thread is enabled whenever its cell reads `false` (needed only
while it is inside the search) and the mutex is free (needed only while it has not yet taken it) -/
theorem search_step_enabled (hrun : s.running) {k : Nat} (hlive : (s.th k).live)
    (hflag : s.th k = .searching → s.flag k = false)
    (hmutex : s.th k = .notStarted → s.mutex = none ∨ s.poisoned) :
    ∃ t, next cfg s (.search k) = some t := by
  simp only [next, hrun, searchStep]
  cases hth : s.th k <;> simp_all [Th.live]
  · by_cases hp : s.poisoned = true
    · simp [hp]
    · have hm : s.mutex = none := by simpa [hp] using hmutex
      simp [hp, hm]; split <;> simp
  · split <;> simp

/-- every own step brings the thread at least one step nearer to its end -/
theorem own_step_rank {k : Nat}
    (hn : next cfg s (.search k) = some t ∨ next cfg s (.finish k) = some t) :
    (t.th k).rank < (s.th k).rank := by
  rcases hn with hn | hn <;> step_cases hn <;> simp_all [Th.rank]

/-- nobody else moves the thread -/
theorem other_step_keeps (h : Reachable cfg s) {l : Label} (hn : next cfg s l = some t) {k : Nat}
    (h1 : l ≠ .search k) (h2 : l ≠ .finish k) (hs : s.th k ≠ .none) : t.th k = s.th k := by
  have hp := (inv_goPre h).1
  cases l <;> step_cases hn <;> simp [MainPc.goPre] at hp ⊢ <;> grind

/-- the own steps of thread `k` in a schedule -/
def ownCount (k : Nat) (ls : List Label) : Nat :=
  ls.countP (fun l => l = .search k ∨ l = .finish k)

/-- in ANY schedule, the search thread of slot `k` takes at most `rank` (≤ 5) own steps -/
theorem own_steps_bounded (h : Reachable cfg s) {ls : List Label} (hr : run cfg s ls = some t)
    {k : Nat} (hs : s.th k ≠ .none) :
    (t.th k).rank + ownCount k ls ≤ (s.th k).rank ∧ t.th k ≠ .none := by
  induction ls generalizing s with
  | nil => simp [run] at hr; subst hr; simp [ownCount, hs]
  | cons l ls ih =>
    simp only [run] at hr
    split at hr
    · simp at hr
    · rename_i u hu
      by_cases hown : l = .search k ∨ l = .finish k
      · have h1 := own_step_rank (k := k) (by rcases hown with rfl | rfl; exact .inl hu; exact .inr hu)
        have hu' : u.th k ≠ .none := by
          rcases hown with rfl | rfl <;> step_cases hu <;> simp_all
        have h2 := ih (.step l h hu) hr hu'
        refine ⟨?_, h2.2⟩
        simp only [ownCount, List.countP_cons, hown, decide_true, if_true] at h2 ⊢
        omega
      · have h1 : u.th k = s.th k := other_step_keeps h hu (by grind) (by grind) hs
        have h2 := ih (.step l h hu) hr (h1 ▸ hs)
        simp only [ownCount, List.countP_cons, hown, decide_false] at h2 ⊢
        simpa [h1] using h2

/-- a thread with at most one own step left has printed its `bestmove` (unless it panicked) -/
theorem printed_of_rank_le_one (h : Reachable cfg s) {k : Nat} (hs : s.th k ≠ .none)
    (hp : s.th k ≠ .panicked) (hr : (s.th k).rank ≤ 1) : .bestmove k ∈ s.out := by
  have h1 := inv_count h k
  apply List.count_pos_iff.mp
  cases hth : s.th k <;> simp_all [Th.rank, Th.hasPrinted]

/-- **timer_or_stop_leads_to_bestmove**: take any reachable state in which the search thread of slot
`k` exists and its cell reads `false` (because the timer fired, `stop` was read, or it cleared the cell
itself), and ANY continuation `ls` of the schedule.  Then the cell still reads `false`; the thread has
taken at most `rank ≤ 5` own steps in `ls`; whenever it is live and the mutex is free or its own, its
next step is enabled; and once at most one own step is left, `bestmove k` is in the output. -/
theorem timer_or_stop_leads_to_bestmove (hb : cfg.buggy = false) (h : Reachable cfg s) {k : Nat}
    (hs : s.th k ≠ .none) (hf : s.flag k = false) {ls : List Label} (hr : run cfg s ls = some t) :
    t.flag k = false ∧
    (t.th k).rank + ownCount k ls ≤ (s.th k).rank ∧
    (t.running → (t.th k).live → (t.mutex = none ∨ t.mutex = some (.search k) ∨ t.poisoned) →
      ∃ u, next cfg t (.search k) = some u) ∧
    ((t.th k).rank ≤ 1 → t.th k ≠ .panicked → .bestmove k ∈ t.out) := by
  have ht := run_reachable h hr
  have h1 := cell_false_stable hb h hr (.inl hs) hf
  have h2 := own_steps_bounded h hr hs
  refine ⟨h1, h2.1, ?_, fun h3 h4 => printed_of_rank_le_one ht h2.2 h4 h3⟩
  intro hrun hlive hmx
  apply search_step_enabled hrun hlive (fun _ => h1)
  intro hns
  have hm := (inv_mutex ht).1 k
  simp [hns, Th.holds] at hm
  grind

/-- the store of `stop` makes the current cell `false` -/
theorem stop_clears {rest : List Cmd} (hidle : s.pc = .idle) (hi : s.input = .stop :: rest) :
    ∃ t, next cfg s .main = some t ∧ t.flag s.cur = false := by
  simp [next, mainStep, hidle, idleStep, hi]

/-- a timer can fire at any time after it was spawned, and makes its cell `false` -/
theorem fire_clears (hrun : s.running) {k : Nat} (hk : s.timer k = .sleeping) :
    ∃ t, next cfg s (.fire k) = some t ∧ t.flag k = false := by
  simp [next, hrun, fireStep, hk]

/-! ## 3. no deadlock -/

/-- the only state in which nothing but a poll reading `true` can happen: the main loop executes
`wait` (joins the search thread) on a search that cannot end by itself and whose cell reads `true`;
nobody can send `stop` because the main loop is the one that reads stdin.  This is the documented
meaning of `wait` + `go infinite` (the real search ends at `MAX_DEPTH`). -/
def Benign (s : State) : Prop :=
  s.pc = .waitJoin ∧ s.handle = some s.cur ∧ s.th s.cur = .searching ∧ s.flag s.cur = true ∧
    s.fin s.cur = false

theorem thread_can_step (hrun : s.running) {k : Nat} (hlive : (s.th k).live)
    (hflag : s.th k = .searching → s.flag k = false ∨ s.fin k = true)
    (hmutex : s.th k = .notStarted → s.mutex = none ∨ s.poisoned) :
    ∃ l t, next cfg s l = some t := by
  by_cases h1 : s.th k = .searching ∧ s.flag k = true
  · have := hflag h1.1
    refine ⟨.finish k, ?_⟩
    simp [next, hrun, finishStep, h1.1]
    grind
  · obtain ⟨t, ht⟩ := search_step_enabled (cfg := cfg) hrun hlive (by grind) hmutex
    exact ⟨_, t, ht⟩

/-- whoever holds the mutex can move, if his cell reads `false` -/
theorem holder_can_step (h : Reachable cfg s) (hrun : s.running) {j : Nat}
    (hm : s.mutex = some (.search j)) (hf : s.flag j = false ∨ s.fin j = true) :
    ∃ l t, next cfg s l = some t := by
  have h1 := ((inv_mutex h).1 j).2 hm
  apply thread_can_step hrun (k := j)
  · cases hth : s.th j <;> simp_all [Th.holds, Th.live]
  · intro _; exact hf
  · intro h2; simp [h2, Th.holds] at h1


/-- at program points where the current cell cannot read `true`, every cell reads `false` -/
theorem all_flags_false (h : Reachable cfg s) (hpc : s.pc.mayTrue cfg = false) (j : Nat) :
    s.flag j = false := by
  cases hf : s.flag j
  · rfl
  · have := flag_true_cur h hf
    subst this
    have := inv_mayTrue h hf
    simp_all

/-- the main loop waiting for the mutex: it gets it, or whoever has it can move -/
theorem lock_progress (h : Reachable cfg s) (hrun : s.running) (hpc : s.pc.mayTrue cfg = false)
    (hh : s.pc.holds = false) (pc' : MainPc) :
    (∃ t, lockStep s pc' = some t) ∨ ∃ l t, next cfg s l = some t := by
  unfold lockStep
  by_cases hp : s.poisoned = true
  · simp [hp]
  · cases hm : s.mutex with
    | none => simp [hp]
    | some o =>
      cases o with
      | main => have := (inv_mutex h).2.2 hm; simp_all
      | search j => exact .inr (holder_can_step h hrun hm (.inl (all_flags_false h hpc j)))

/-- the main loop joining a search thread: the thread has ended, or somebody can move, or `Benign` -/
theorem join_progress (h : Reachable cfg s) (hrun : s.running)
    (hpc : s.pc.mayTrue cfg = false ∨ s.pc = .waitJoin)
    (hh : s.pc.holds = false) (k : State → State) :
    (∃ t, joinStep s k = some t) ∨ (∃ l t, next cfg s l = some t) ∨ Benign s := by
  unfold joinStep
  cases hhd : s.handle with
  | none => simp
  | some j =>
    have hsp := (inv_spawned h).2 j hhd
    have hcur : s.flag s.cur = true → j = s.cur := by
      intro hf
      have := inv_handle h hf
      rcases hpc with hpc | hpc
      · have := inv_mayTrue h hf; simp_all
      · simp [hpc, MainPc.goMid, hhd] at this; exact this
    -- the thread being joined, or the holder of the mutex it waits for, can move
    by_cases hend : s.th j = .done ∨ s.th j = .panicked
    · rcases hend with hend | hend <;> simp [hend]
    · refine .inr ?_
      have hlive : (s.th j).live := by cases hth : s.th j <;> simp_all [Th.live]
      by_cases hs : s.th j = .searching
      · by_cases hf : s.flag j = false ∨ s.fin j = true
        · exact .inl (thread_can_step hrun hlive (fun _ => hf) (by simp [hs]))
        · have hf1 : s.flag j = true := by grind
          have hjc := flag_true_cur h hf1
          refine .inr ⟨?_, ?_, ?_, ?_, ?_⟩
          · rcases hpc with hpc | hpc
            · have := all_flags_false h hpc j; simp_all
            · exact hpc
          all_goals grind
      · by_cases hns : s.th j = .notStarted
        · by_cases hp : s.poisoned = true
          · exact .inl (thread_can_step hrun hlive (by simp [hs]) (fun _ => .inr hp))
          · cases hm : s.mutex with
            | none => exact .inl (thread_can_step hrun hlive (by simp [hs]) (fun _ => .inl hm))
            | some o =>
              cases o with
              | main => have := (inv_mutex h).2.2 hm; simp_all
              | search i =>
                refine .inl (holder_can_step h hrun hm ?_)
                cases hfi : s.flag i
                · exact .inl rfl
                · -- then `i` is the current slot and the handle is the current slot's: `i = j`
                  have hic := flag_true_cur h hfi
                  have := hcur (hic ▸ hfi)
                  have hhold := ((inv_mutex h).1 i).2 hm
                  subst hic; subst this
                  simp [hns, Th.holds] at hhold
        · exact .inl (thread_can_step hrun hlive (by simp [hs]) (by simp [hns]))

/-- **no_deadlock**: in every reachable state in which the process has not ended, some thread can
take a step — except in the `Benign` wait-on-an-endless-search state.  In particular the main loop
never joins a search thread while holding the mutex that thread needs, and whenever the main loop or
a search thread waits for the mutex, its holder is able to move. -/
theorem no_deadlock (h : Reachable cfg s) (hrun : s.running) :
    (∃ l t, next cfg s l = some t) ∨ Benign s := by
  have main_of : (∃ t, mainStep cfg s = some t) → (∃ l t, next cfg s l = some t) ∨ Benign s :=
    fun ⟨t, ht⟩ => .inl ⟨.main, t, ht⟩
  have lock_of : ∀ pc', s.pc.mayTrue cfg = false → s.pc.holds = false →
      (mainStep cfg s = lockStep s pc') → (∃ l t, next cfg s l = some t) ∨ Benign s := by
    intro pc' h1 h2 h3
    rcases lock_progress h hrun h1 h2 pc' with ⟨t, ht⟩ | h4
    · exact .inl ⟨.main, t, by simp [next, h3, ht]⟩
    · exact .inl h4
  have join_of : ∀ k, (s.pc.mayTrue cfg = false ∨ s.pc = .waitJoin) → s.pc.holds = false →
      (mainStep cfg s = joinStep s k) → (∃ l t, next cfg s l = some t) ∨ Benign s := by
    intro k h1 h2 h3
    rcases join_progress h hrun h1 h2 k with ⟨t, ht⟩ | h4 | h4
    · exact .inl ⟨.main, t, by simp [next, h3, ht]⟩
    · exact .inl h4
    · exact .inr h4
  cases hpc : s.pc with
  | idle =>
    apply main_of
    simp only [mainStep, hpc, idleStep]
    repeat' split
    all_goals simp
  | reapJoin p => exact join_of _ (by simp [hpc, MainPc.mayTrue]) (by simp [hpc, MainPc.holds]) (by unfold mainStep; rw [hpc])
  | ngJoin => exact join_of _ (by simp [hpc, MainPc.mayTrue]) (by simp [hpc, MainPc.holds]) (by unfold mainStep; rw [hpc])
  | stopJoin => exact join_of _ (by simp [hpc, MainPc.mayTrue]) (by simp [hpc, MainPc.holds]) (by unfold mainStep; rw [hpc])
  | waitJoin => exact join_of _ (by simp [hpc]) (by simp [hpc, MainPc.holds]) (by unfold mainStep; rw [hpc])
  | ngLock => exact lock_of _ (by simp [hpc, MainPc.mayTrue]) (by simp [hpc, MainPc.holds]) (by unfold mainStep; rw [hpc])
  | posLock ok keep => exact lock_of _ (by simp [hpc, MainPc.mayTrue]) (by simp [hpc, MainPc.holds]) (by unfold mainStep; rw [hpc])
  | showLock => exact lock_of _ (by simp [hpc, MainPc.mayTrue]) (by simp [hpc, MainPc.holds]) (by unfold mainStep; rw [hpc])
  | goLock g => exact lock_of _ (by simp [hpc, MainPc.mayTrue]) (by simp [hpc, MainPc.holds]) (by unfold mainStep; rw [hpc])
  | exited => simp [State.running, hpc] at hrun
  | exitedErr => simp [State.running, hpc] at hrun
  | panicked => simp [State.running, hpc] at hrun
  | _ =>
    apply main_of
    simp only [mainStep, hpc]
    repeat' split
    all_goals simp

/-! ## 6. panics

`unwrap()`s of the session layer and how the model treats them:
* `data.lock().unwrap()` (main loop, 4 places; search thread, 1 place) fires iff the mutex is poisoned,
  i.e. iff a thread panicked while holding it: modelled (`poisoned`).
* `thread.join().unwrap()` (main loop, 3 places) fires iff the joined search thread panicked: modelled.
* `current_game.as_mut().unwrap()` in the search thread fires iff `current_game` is `None` when the
  search thread gets the mutex: modelled (`Th.panicked`).  It DOES fire in the code as it is
  (`fixed_panic_reachable`), and cannot fire with the `reap` repair (`repaired_no_panic`).
* `search_thread.context(..)?` in `ucinewgame` is an error return, not a panic: modelled (`exitedErr`),
  unreachable (`never_exitedErr`).
* `wtime.unwrap()` … in `command_go` are guarded by `is_some()`.
* panics inside `get_best_move_until_stop` and `println!` on a closed stdout are outside this model. -/

/-- program points of the main loop reached only after the outstanding search thread was joined
(`reap` configuration) -/
def MainPc.reaped : MainPc → Bool
  | .ngLock | .ngHold | .posLock _ _ | .posHold _ _ | .showLock | .showHold
  | .goLock _ | .goHold _ | .goErr | .goRaise _ | .goInfo _ | .goSpawnTimer _ | .goSpawnSearch _
  | .goUnlock | .goSetHandle => true
  | _ => false

theorem inv_reaped (hr : cfg.reap = true) (h : Reachable cfg s) : s.pc.reaped → s.handle = none := by
  induction h with
  | init cmds => simp [init]
  | step l hx hn ih =>
    cases l <;> step_cases hn <;> simp [hr, MainPc.reaped] at ih ⊢ <;> grind [Option.isSome_iff_ne_none]

/-- with `reap`, the only live search thread is the one the main loop has the handle of -/
theorem inv_one_live (hr : cfg.reap = true) (h : Reachable cfg s) :
    ∀ j, (s.th j).live →
      s.handle = some j ∨ (s.handle = none ∧ j = s.cur ∧ (s.pc = .goUnlock ∨ s.pc = .goSetHandle)) := by
  induction h with
  | init cmds => simp [init, Th.live]
  | step l hx hn ih =>
    have h1 := inv_reaped hr hx
    cases l <;> step_cases hn <;> simp [hr, MainPc.reaped] at ih h1 ⊢ <;> grind [Th.live, Option.isSome_iff_ne_none]

/-- while the main loop is between the check of `current_game` and the spawn, a game is set -/
theorem inv_go_game (h : Reachable cfg s) :
    (match s.pc with
      | .goRaise _ | .goInfo _ | .goSpawnTimer _ | .goSpawnSearch _ => true
      | _ => false) → s.game = true := by
  induction h with
  | init cmds => simp [init]
  | step l hx hn ih =>
    have h1 := inv_mutex hx
    cases l <;> step_cases hn <;> simp [MainPc.holds, Th.holds] at ih h1 ⊢ <;> grind [Th.holds]

/-- with `reap`, a search thread that has not yet taken the mutex will find a game -/
theorem inv_game_kept (hr : cfg.reap = true) (h : Reachable cfg s) :
    ∀ j, s.th j = .notStarted → s.game = true := by
  induction h with
  | init cmds => simp [init]
  | step l hx hn ih =>
    have h1 := inv_reaped hr hx
    have h2 := inv_one_live hr hx
    have h3 := inv_go_game hx
    cases l <;> step_cases hn <;> simp [hr, MainPc.reaped] at ih h1 h3 ⊢ <;> grind [Th.live, Option.isSome_iff_ne_none]

/-- **no_panic** for the `reap` repair: no `unwrap()` of the session layer fires, the mutex is never
poisoned, and `uci_talk` never returns an error -/
theorem repaired_no_panic (hr : cfg.reap = true) (h : Reachable cfg s) :
    s.poisoned = false ∧ (∀ k, s.th k ≠ .panicked) ∧ s.pc ≠ .panicked ∧ s.pc ≠ .exitedErr := by
  have key : s.poisoned = false ∧ (∀ k, s.th k ≠ .panicked) ∧ s.pc ≠ .panicked := by
    induction h with
    | init cmds => simp [init]
    | step l hx hn ih =>
      have h1 := inv_game_kept hr hx
      cases l <;> step_cases hn <;> simp [hr] at ih ⊢ <;> grind
  exact ⟨key.1, key.2.1, key.2.2, never_exitedErr h⟩

/-! ## 7. Concrete runs: non-vacuity, and counterexamples

A schedule is a list of labels; `mains n` = the main loop takes `n` steps in a row. -/

def mains (n : Nat) : List Label := List.replicate n .main

/-- what a run ends in: output, main program counter, and for slots 0‥3 cell / search thread / timer -/
def observe (r : Option State) : Option (List Out × MainPc × List (Bool × Th × Tm)) :=
  r.map fun s => (s.out, s.pc, (List.range 4).map fun k => (s.flag k, s.th k, s.timer k))

theorem reachable_of_run {cmds : List Cmd} {ls : List Label} (hr : run cfg (init cmds) ls = some t) :
    Reachable cfg t := run_reachable (.init cmds) hr

abbrev pos : Cmd := .position true true
abbrev goDepth : Cmd := .go ⟨false, true⟩      -- `go depth n`
abbrev goInfinite : Cmd := .go ⟨false, false⟩  -- `go infinite`
abbrev goMovetime : Cmd := .go ⟨true, false⟩   -- `go movetime n` (search does not end by itself)

/-! ### the code as it is (`fixed`) -/

/-- `position`, `go movetime`: the timer fires BEFORE the search thread has taken the mutex; the
search thread then starts, sees `false` at its first poll, and answers; `bestmove` exactly once -/
example : observe (run fixed (init [pos, goMovetime])
      (mains 12 ++ [.fire 1] ++ [.search 1, .search 1, .search 1, .search 1, .search 1] ++ mains 1))
    = some ([.infoTime, .bestmove 1], .exited,
        [(false, .none, .none), (false, .done, .fired), (false, .none, .none), (false, .none, .none)]) := by
  decide

/-- `position`, `go infinite`, `isready`, `stop`: `readyok` while searching, then `bestmove`,
the main loop joins and exits at end of input -/
example : observe (run fixed (init [pos, goInfinite, .isready, .stop, .quit])
      (mains 10 ++ [.search 1] ++ mains 2 ++ [.search 1, .search 1, .search 1, .search 1] ++ mains 2))
    = some ([.readyok, .bestmove 1], .exited,
        [(false, .none, .none), (false, .done, .none), (false, .none, .none), (false, .none, .none)]) := by
  decide

/-- `position`, `go depth`, (bestmove), `position`, `go depth`, (bestmove): the second `position`
is read while the first search thread still holds the mutex (it has cleared the flag and printed,
but not yet released): the main loop waits for the mutex and both commands are honoured -/
example : observe (run fixed (init [pos, goDepth, pos, goDepth])
      (mains 10 ++ [.search 1, .finish 1, .search 1, .search 1] ++ mains 1 ++ [.search 1] ++ mains 9
        ++ [.search 2, .finish 2, .search 2, .search 2, .search 2] ++ mains 1))
    = some ([.bestmove 1, .bestmove 2], .exited,
        [(false, .none, .none), (false, .done, .none), (false, .done, .none), (false, .none, .none)]) := by
  decide

/-- while the first search thread holds the mutex the main loop cannot take it (`position` blocks)… -/
example : (run fixed (init [pos, goDepth, pos, goDepth])
      (mains 10 ++ [.search 1, .finish 1, .search 1, .search 1] ++ mains 2)).isNone := by
  decide

/-- the `Benign` state is reachable: `go infinite`, `wait` -/
example : ∃ t, run fixed (init [pos, goInfinite, .wait]) (mains 11 ++ [.search 1]) = some t ∧
    Benign t ∧ ∀ l, l ∈ labels t → next fixed t l = none := by
  refine ⟨_, rfl, ?_, ?_⟩
  · simp [Benign]; decide
  · decide


/-! ### FINDING: the code as it is can panic (stale search thread)

`go` / `position` / `ucinewgame` look only at the flag.  A timer that fires before the search thread
has taken the mutex makes the flag `false` while that thread still exists; the main loop then changes
`current_game` (or starts a second search thread, and whichever of the two runs first sets
`current_game = None` at its end), and the late thread executes `current_game.as_mut().unwrap()` on
`None` while holding the mutex: the thread panics, the mutex is poisoned, no `bestmove` is ever
printed for that `go`, its cell stays `true` for ever, and the main loop panics at its next
`lock().unwrap()` or `join().unwrap()`. -/

/-- `position`, `go movetime`, `go`: two search threads alive; the second finds no game -/
theorem fixed_panic_two_searches :
    observe (run fixed (init [pos, goMovetime, goInfinite])
      (mains 12 ++ [.fire 1] ++ mains 7 ++ [.search 1, .search 1, .search 1, .search 1, .search 1]
        ++ [.search 2]))
    = some ([.infoTime, .bestmove 1], .idle,
        [(false, .none, .none), (false, .done, .fired), (true, .panicked, .none), (false, .none, .none)]) := by
  decide

/-- `position`, `go movetime`, `position <bad fen>`: ONE search thread; the main loop removed the game -/
theorem fixed_panic_bad_position :
    observe (run fixed (init [pos, goMovetime, .position false false])
      (mains 12 ++ [.fire 1] ++ mains 3 ++ [.search 1]))
    = some ([.infoTime, .error], .idle,
        [(false, .none, .none), (false, .panicked, .fired), (false, .none, .none), (false, .none, .none)]) := by
  decide

/-- `position`, `go movetime`, `ucinewgame`, `stop`: the search thread panics, then the main loop
panics in `thread.join().unwrap()` -/
theorem fixed_panic_ucinewgame_stop :
    observe (run fixed (init [pos, goMovetime, .ucinewgame, .stop])
      (mains 12 ++ [.fire 1] ++ mains 4 ++ [.search 1] ++ mains 1))
    = some ([.infoTime], .panicked,
        [(false, .none, .none), (false, .panicked, .fired), (false, .none, .none), (false, .none, .none)]) := by
  decide

/-- … or in `data.lock().unwrap()` on the poisoned mutex -/
theorem fixed_panic_poisoned_lock :
    observe (run fixed (init [pos, goMovetime, .ucinewgame, .isready, pos])
      (mains 12 ++ [.fire 1] ++ mains 3 ++ [.search 1] ++ mains 3))
    = some ([.infoTime, .readyok], .panicked,
        [(false, .none, .none), (false, .panicked, .fired), (false, .none, .none), (false, .none, .none)]) := by
  decide

/-- so `no_panic` is FALSE for the code as it is -/
theorem fixed_no_panic_fails :
    ¬ ∀ s, Reachable fixed s → s.poisoned = false ∧ (∀ k, s.th k ≠ .panicked) ∧ s.pc ≠ .panicked := by
  intro h
  have hr : run fixed (init [pos, goMovetime, .ucinewgame, .stop])
      (mains 12 ++ [.fire 1] ++ mains 4 ++ [.search 1] ++ mains 1) = some _ := rfl
  exact (h _ (reachable_of_run hr)).2.2 (by decide)

/-- the same schedules are impossible with the `reap` repair: the main loop joins the search thread
before it touches the game (here: the run is stuck at the join until the search thread has ended) -/
example : (run repaired (init [pos, goMovetime, .ucinewgame, .stop])
      (mains 12 ++ [.fire 1] ++ mains 2)).isNone := by decide

/-- FINDING (same cause): `position` + `go` sent after the `bestmove` of the latest `go` are NOT
always honoured by the code as it is.  `go movetime` (its timer fires before its search thread
starts), `go depth` (accepted, answered with `bestmove 2`); the GUI replies `position`, `go depth`;
in between the stale search thread of the first `go` wakes up, searches the NEW position, prints a
second, unrequested `bestmove`, and sets `current_game = None`; the new `go` is answered with
"error: No game to play". -/
theorem fixed_go_after_position_refused :
    observe (run fixed (init [pos, goMovetime, goDepth, pos, goDepth])
      (mains 12 ++ [.fire 1] ++ mains 7
        ++ [.search 2, .finish 2, .search 2, .search 2, .search 2]   -- bestmove 2
        ++ mains 3                                                    -- position honoured
        ++ [.search 1, .search 1, .search 1, .search 1, .search 1]   -- stale thread: bestmove 1
        ++ mains 5))                                                  -- go: no game
    = some ([.infoTime, .bestmove 2, .bestmove 1, .error], .exited,
        [(false, .none, .none), (false, .done, .fired), (false, .done, .none), (false, .none, .none)]) := by
  decide

/-! ### the code as it was (`original`): the theorems of sections 4 and 5 fail -/

/-- `bestmove` is in the output, the main loop is idle, and the current cell still reads `true`… -/
theorem original_bestmove_flag_true :
    ∃ t, run original (init [pos, goDepth, pos]) (mains 10 ++ [.search 1, .finish 1, .search 1]) = some t ∧
      t.pc = .idle ∧ .bestmove 1 ∈ t.out ∧ (∀ j, j ≤ t.cur → t.th j ≠ .none → j ≤ 1) ∧
      t.flag t.cur = true := by
  exact ⟨_, rfl, by decide, by decide, by decide, by decide⟩

/-- …so `go_after_bestmove_honoured` fails -/
theorem original_go_after_bestmove_fails :
    ¬ ∀ s k, Reachable original s → (∀ j, j ≤ s.cur → s.th j ≠ .none → j ≤ k) → .bestmove k ∈ s.out → s.pc = .idle →
      s.flag s.cur = false := by
  intro h
  obtain ⟨t, ht, h1, h2, h3, h4⟩ := original_bestmove_flag_true
  have := h t 1 (reachable_of_run ht) h3 h2 h1
  simp [this] at h4

/-- …and the `position` the GUI sends in reply to `bestmove` is refused -/
theorem original_position_refused :
    observe (run original (init [pos, goDepth, pos]) (mains 10 ++ [.search 1, .finish 1, .search 1] ++ mains 1))
    = some ([.bestmove 1, .refused], .idle,
        [(false, .none, .none), (true, .printedEarly, .none), (false, .none, .none), (false, .none, .none)]) := by
  decide

/-- `cell_false_stable` fails: the timer exists and has stored `false`; then the main loop stores `true` -/
theorem original_cell_false_stable_fails :
    ∃ s t, Reachable original s ∧ next original s .main = some t ∧
      s.spawned 1 ∧ s.flag 1 = false ∧ t.flag 1 = true := by
  have hr : run original (init [pos, goMovetime]) (mains 8 ++ [.fire 1]) = some _ := rfl
  refine ⟨_, _, reachable_of_run hr, rfl, .inr (by decide), by decide, by decide⟩

/-- …so the time budget is lost: the timer has fired, the cell reads `true`, the search (which does
not end by itself) goes on until somebody sends `stop` -/
theorem original_timer_lost :
    observe (run original (init [pos, goMovetime]) (mains 8 ++ [.fire 1] ++ mains 4 ++ [.search 1]))
    = some ([.infoTime], .idle,
        [(false, .none, .none), (true, .searching, .fired), (false, .none, .none), (false, .none, .none)]) := by
  decide

theorem original_timer_fired_flag_false_fails :
    ¬ ∀ s k, Reachable original s → s.timer k = .fired → s.flag k = false := by
  intro h
  have hr : run original (init [pos, goMovetime]) (mains 8 ++ [.fire 1] ++ mains 4 ++ [.search 1]) = some _ := rfl
  have := h _ 1 (reachable_of_run hr) (by decide)
  revert this
  decide

/-- with `reap`, a cell that reads `true` always has a search thread that can still be reached by
`stop`, the timer or the depth limit -/
theorem repaired_flag_true_implies_search_alive (hr : cfg.reap = true) (h : Reachable cfg s) {k : Nat}
    (hk : s.flag k = true) :
    k = s.cur ∧ ((s.pc.spawnPending cfg ∧ s.th k = .none) ∨ (s.th k).beforeClear) := by
  have h1 := flag_true_implies_search_alive h hk
  have h2 := (repaired_no_panic hr h).2.1 k
  grind

/-! ## 4'. with the `reap` repair, `position` + `go` are honoured whatever the timing -/

/-- no search thread is alive, the main loop has no handle, a game is set, the mutex is sound -/
def Quiet (s : State) : Prop :=
  s.game = true ∧ s.handle = none ∧ (∀ j, (s.th j).live = false) ∧ s.poisoned = false

/-- the main loop is somewhere between reading `go g` and the check of `current_game` -/
def GoPhase (s : State) (g : GoArgs) (rest : List Cmd) : Prop :=
  (s.pc = .idle ∧ s.input = .go g :: rest ∧ s.mutex = none ∧ s.flag s.cur = false) ∨
  (s.pc = .goLock g ∧ s.input = rest ∧ s.mutex = none) ∨
  (s.pc = .goHold g ∧ s.input = rest)

/-- the step in which a successful `position` takes effect establishes `Quiet` -/
theorem repaired_position_quiet (hr : cfg.reap = true) (h : Reachable cfg s) {keep : Bool}
    {g : GoArgs} {rest : List Cmd} (hpc : s.pc = .posHold true keep) (hi : s.input = .go g :: rest) :
    ∃ t, next cfg s .main = some t ∧ t.out = s.out ∧ Quiet t ∧ GoPhase t g rest := by
  have h1 := inv_reaped hr h (by simp [hpc, MainPc.reaped])
  have h2 := inv_one_live hr h
  have h3 := (repaired_no_panic hr h).1
  have h4 := inv_mayTrue h
  refine ⟨{ s with game := true, mutex := none, pc := .idle }, by simp [next, mainStep, hpc], rfl,
    ⟨rfl, h1, ?_, h3⟩, .inl ⟨rfl, hi, rfl, ?_⟩⟩
  · intro j
    have := h2 j
    cases hl : (s.th j).live <;> simp_all
  · cases hf : s.flag s.cur <;> simp_all [MainPc.mayTrue]

/-- from then on, whatever any thread does (only timers can do anything), the `go` goes on to be
accepted: it is never refused, it finds the mutex free and the game set -/
theorem quiet_go_accepted {g : GoArgs} {rest : List Cmd}
    (hq : Quiet s) (hp : GoPhase s g rest) {l : Label} (hn : next cfg s l = some t) :
    t.out = s.out ∧ Quiet t ∧ (GoPhase t g rest ∨ t.pc = .goRaise g ∨ t.pc = .goInfo g) := by
  obtain ⟨q1, q2, q3, q4⟩ := hq
  unfold Quiet GoPhase at *
  cases l <;> step_cases hn <;> simp at hp ⊢ <;> grind [Th.live, Option.isSome_iff_ne_none]

/-- and the main loop's own next step is always enabled in that phase: the `go` is not delayed by
anybody -/
theorem quiet_go_not_delayed {g : GoArgs} {rest : List Cmd} (hq : Quiet s) (hp : GoPhase s g rest) :
    ∃ t, next cfg s .main = some t := by
  obtain ⟨q1, q2, q3, q4⟩ := hq
  rcases hp with ⟨h1, h2, h3, h4⟩ | ⟨h1, h2, h3⟩ | ⟨h1, h2⟩
  · simp [next, mainStep, h1, idleStep, h2, h4]
  · simp [next, mainStep, h1, lockStep, q4, h3]
  · simp [next, mainStep, h1, q1]

/-! ## 6'. the panic needs a timer: without timed `go`s the code as it is does not panic -/

/-- reachability from a given state (to speak about a given command list) -/
inductive ReachableFrom (cfg : Cfg) (s0 : State) : State → Prop where
  | refl : ReachableFrom cfg s0 s0
  | step {s t : State} (l : Label) : ReachableFrom cfg s0 s → next cfg s l = some t → ReachableFrom cfg s0 t

theorem ReachableFrom.reachable {cmds : List Cmd} (h : ReachableFrom cfg (init cmds) s) :
    Reachable cfg s := by
  induction h with
  | refl => exact .init cmds
  | step l _ hn ih => exact .step l ih hn

theorem reachable_iff : Reachable cfg s ↔ ∃ cmds, ReachableFrom cfg (init cmds) s := by
  constructor
  · intro h
    induction h with
    | init cmds => exact ⟨cmds, .refl⟩
    | step l _ hn ih => obtain ⟨c, hc⟩ := ih; exact ⟨c, .step l hc hn⟩
  · rintro ⟨c, hc⟩; exact hc.reachable

def Cmd.untimed : Cmd → Bool
  | .go g => !g.timed
  | _ => true

def MainPc.untimed : MainPc → Bool
  | .reapJoin (.go g) | .goLock g | .goHold g | .goRaise g | .goInfo g | .goSpawnTimer g
  | .goSpawnSearch g => !g.timed
  | _ => true

/-- no timer thread exists and none will be spawned -/
def Untimed (s : State) : Prop :=
  s.input.all Cmd.untimed = true ∧ s.pc.untimed ∧ (∀ k, s.timer k = .none) ∧
    (match s.pc with | .goInfo _ | .goSpawnTimer _ => False | _ => True)

theorem untimed_step (hb : cfg.buggy = false) (hu : Untimed s) {l : Label} (hn : next cfg s l = some t) :
    Untimed t := by
  unfold Untimed at hu ⊢
  cases l <;> step_cases hn <;> simp_all [MainPc.untimed, Cmd.untimed]

theorem untimed_of_init {cmds : List Cmd} (hc : cmds.all Cmd.untimed = true)
    (hb : cfg.buggy = false) (h : ReachableFrom cfg (init cmds) s) : Untimed s := by
  induction h with
  | refl => exact ⟨hc, by simp [init, MainPc.untimed], by simp [init], by simp [init]⟩
  | step l _ hn ih => exact untimed_step hb ih hn


/-- `wait` has dropped the handle before it stores `false` -/
theorem inv_waitStore (h : Reachable cfg s) : s.pc = .waitStore → s.handle = none := by
  induction h with
  | init cmds => simp [init]
  | step l hx hn ih =>
    cases l <;> step_cases hn <;> simp at ih ⊢ <;> grind

section untimed
variable {cmds : List Cmd} (hb : cfg.buggy = false) (hc : cmds.all Cmd.untimed = true)
include hb hc

/-- without timers: between raise and spawn the cell reads `true` -/
theorem inv_raised (h : ReachableFrom cfg (init cmds) s) :
    ∀ g, s.pc = .goSpawnSearch g → s.flag s.cur = true := by
  induction h with
  | refl => simp [init]
  | step l hx hn ih =>
    have hu := untimed_of_init hc hb hx
    have hp := (inv_goPre hx.reachable).1
    unfold Untimed at hu
    cases l <;> step_cases hn <;> simp [hb, MainPc.goPre, MainPc.untimed] at ih hp hu ⊢ <;> grind

/-- without timers: a search thread that has not yet stored `false` is the current slot's, and
its cell reads `true` unless the main loop has stored `false` and is joining it -/
theorem inv_before_clear (h : ReachableFrom cfg (init cmds) s) :
    ∀ j, (s.th j).beforeClear →
      j = s.cur ∧ (s.flag j = true ∨ ((s.pc = .stopJoin ∨ s.pc = .ngJoin) ∧ s.handle = some j)) := by
  induction h with
  | refl => simp [init, Th.beforeClear]
  | step l hx hn ih =>
    have hu := untimed_of_init hc hb hx
    have hr := hx.reachable
    have h1 := inv_raised hb hc hx
    have h2 := inv_handle hr
    have h3 := inv_waitStore hr
    have h4 := inv_no_early hb hr
    have h5 := (inv_goPre hr).1
    unfold Untimed at hu
    cases l <;> step_cases hn <;>
      simp [hb, MainPc.goPre, MainPc.goMid, MainPc.untimed] at ih h1 h2 h3 h5 hu ⊢ <;>
      grind [Th.beforeClear]

/-- without timers: while a search thread waits for the mutex, no other search thread holds it -/
theorem inv_no_rival (h : ReachableFrom cfg (init cmds) s) :
    ∀ j j', s.th j = .notStarted → (s.th j').holds → False := by
  induction h with
  | refl => simp [init]
  | step l hx hn ih =>
    have hr := hx.reachable
    have h1 := inv_before_clear hb hc hx
    have h2 := inv_mutex hr
    cases l <;> step_cases hn <;> simp [MainPc.holds] at ih h2 ⊢ <;> grind [Th.beforeClear, Th.holds]

/-- without timers: a search thread that has not yet taken the mutex will find a game -/
theorem inv_game_kept_untimed (h : ReachableFrom cfg (init cmds) s) :
    ∀ j, s.th j = .notStarted → s.game = true := by
  induction h with
  | refl => simp [init]
  | step l hx hn ih =>
    have hr := hx.reachable
    have h1 := inv_before_clear hb hc hx
    have h2 := inv_no_rival hb hc hx
    have h3 := inv_go_game hr
    have h4 := inv_mayTrue hr
    cases l <;> step_cases hn <;> simp [MainPc.mayTrue] at ih h3 h4 ⊢ <;>
      grind [Th.beforeClear, Th.holds]

/-- **no_panic without timers**: if no `go` of the command list sets a timer (no `movetime`, no
complete `wtime btime winc binc`; or `infinite`), the code as it is never panics, whatever the
schedule -/
theorem untimed_no_panic (h : ReachableFrom cfg (init cmds) s) :
    s.poisoned = false ∧ (∀ k, s.th k ≠ .panicked) ∧ s.pc ≠ .panicked ∧ s.pc ≠ .exitedErr := by
  have key : s.poisoned = false ∧ (∀ k, s.th k ≠ .panicked) ∧ s.pc ≠ .panicked := by
    induction h with
    | refl => simp [init]
    | step l hx hn ih =>
      have h1 := inv_game_kept_untimed hb hc hx
      cases l <;> step_cases hn <;> simp at ih ⊢ <;> grind
  exact ⟨key.1, key.2.1, key.2.2, never_exitedErr h.reachable⟩

end untimed

/-! ## the executable enumerator `steps` is exact on reachable states -/

theorem label_le_cur (h : Reachable cfg s) {l : Label} (hn : next cfg s l = some t) : l ∈ labels s := by
  have hf := inv_fresh h
  simp only [labels, List.mem_cons, List.mem_flatMap, List.mem_range]
  cases l with
  | main => simp
  | search k =>
    refine .inr ⟨k, ?_, by simp⟩
    have := hf k
    step_cases hn <;> grind
  | finish k =>
    refine .inr ⟨k, ?_, by simp⟩
    have := hf k
    step_cases hn <;> grind
  | fire k =>
    refine .inr ⟨k, ?_, by simp⟩
    have := hf k
    step_cases hn <;> grind

theorem mem_steps_iff (h : Reachable cfg s) {l : Label} :
    (l, t) ∈ steps cfg s ↔ next cfg s l = some t := by
  simp only [steps, List.mem_filterMap, Option.map_eq_some_iff, Prod.mk.injEq]
  constructor
  · rintro ⟨l', _, t', h1, rfl, rfl⟩; exact h1
  · intro hn; exact ⟨l, label_le_cur h hn, t, hn, rfl, rfl⟩

theorem step_iff_steps (h : Reachable cfg s) : Step cfg s t ↔ ∃ l, (l, t) ∈ steps cfg s := by
  simp only [Step, mem_steps_iff h]


/-! ## "exactly one `bestmove`": the two ways a search thread can end -/

/-- a search thread that has ended normally has printed exactly one `bestmove` -/
theorem bestmove_exactly_once_when_done (h : Reachable cfg s) {k : Nat} (hd : s.th k = .done) :
    s.out.count (.bestmove k) = 1 := by
  rw [inv_count h k, hd]; rfl

/-- a search thread that has panicked has printed nothing, and never will: that `go` stays unanswered -/
theorem panicked_never_prints (h : Reachable cfg s) {k : Nat} (hp : s.th k = .panicked) :
    .bestmove k ∉ s.out ∧ ∀ l t, next cfg s l = some t → t.th k = .panicked := by
  constructor
  · intro hm
    have h1 := inv_count h k
    have h2 : 0 < s.out.count (.bestmove k) := List.count_pos_iff.mpr hm
    simp [hp, Th.hasPrinted] at h1
    omega
  · intro l t hn
    have hg := (inv_goPre h).1
    cases l <;> step_cases hn <;> simp [MainPc.goPre] at hg ⊢ <;> grind

/-! ## axioms used -/

#print axioms bestmove_at_most_once
#print axioms bestmove_only_after_go
#print axioms bestmove_exactly_once_when_done
#print axioms panicked_never_prints
#print axioms isready_never_blocks
#print axioms no_deadlock
#print axioms main_returns_to_idle
#print axioms go_after_bestmove_honoured
#print axioms bestmove_flag_false
#print axioms position_honoured
#print axioms go_not_refused
#print axioms go_accepted_iff_game
#print axioms flag_true_implies_search_alive
#print axioms inv_old_false
#print axioms inv_mutex
#print axioms never_exitedErr
#print axioms cell_false_stable_step
#print axioms cell_false_stable
#print axioms timer_fired_flag_false
#print axioms search_step_enabled
#print axioms own_step_rank
#print axioms own_steps_bounded
#print axioms timer_or_stop_leads_to_bestmove
#print axioms stop_clears
#print axioms fire_clears
#print axioms quit_exits
#print axioms eof_exits
#print axioms exited_final
#print axioms repaired_no_panic
#print axioms repaired_flag_true_implies_search_alive
#print axioms repaired_position_quiet
#print axioms quiet_go_accepted
#print axioms quiet_go_not_delayed
#print axioms untimed_no_panic
#print axioms fixed_panic_two_searches
#print axioms fixed_panic_bad_position
#print axioms fixed_panic_ucinewgame_stop
#print axioms fixed_panic_poisoned_lock
#print axioms fixed_no_panic_fails
#print axioms fixed_go_after_position_refused
#print axioms original_bestmove_flag_true
#print axioms original_go_after_bestmove_fails
#print axioms original_position_refused
#print axioms original_cell_false_stable_fails
#print axioms original_timer_lost
#print axioms original_timer_fired_flag_false_fails
#print axioms mem_steps_iff
#print axioms step_iff_steps

end Chess.Session
