import Chess.Lemmas.Bounds
import Chess.Lemmas.ScoreRangeAux

/-!
# Score range, part 2: the material invariant survives every fitting move, half-step by half-step
-/
namespace Chess.Range

open Chess Chess.Game

/-! ## bridge between `Game` and board operations -/

theorem setPosition_board_eq (g : Game) (p : Pos) (x : Option Piece) :
    (g.setPosition p x).board = bset g.board p x := by
  unfold setPosition bset
  split <;> rfl

theorem get_eq_bget (g : Game) (p : Pos) : g.get p = bget g.board p := rfl

theorem setMany_board_eq (g : Game) (l : List (Pos × Option Piece)) :
    (g.setMany l).board = bsetMany g.board l := by
  induction l generalizing g with
  | nil => rfl
  | cons e l ih =>
    obtain ⟨p, x⟩ := e
    rw [setMany, ih, setPosition_board_eq]; rfl

theorem push_board_eq (g : Game) (m : Move) :
    (g.push m).board = bsetMany g.board (Bounds.writes m) := by
  rw [Bounds.push_board, Bounds.applyMoveG_board, setMany_board_eq]

/-! ## prefixes -/

theorem inits_sublist {α : Type} {l l' : List α} (h : l' ∈ inits l) : List.Sublist l' l := by
  induction l generalizing l' with
  | nil => simp [inits] at h; subst h; exact List.Sublist.refl _
  | cons a l ih =>
    simp only [inits, List.mem_cons, List.mem_map] at h
    rcases h with rfl | ⟨l'', hl'', rfl⟩
    · exact List.nil_sublist _
    · exact (ih hl'').cons_cons a

/-- counts do not grow when, kind by kind, no more is put than was there -/
theorem materialOk_of_le {b : Board} (h : MaterialOk b) (l : List (Pos × Option Piece))
    (hv : ∀ e ∈ l, e.1.Valid) (hd : l.Pairwise (fun a b => a.1 ≠ b.1))
    (hle : ∀ pl t, sumNew pl t l ≤ sumOld pl t b l) : MaterialOk (bsetMany b l) := by
  have hc : ∀ pl t, countPieces (bsetMany b l) pl t ≤ countPieces b pl t := by
    intro pl t
    have := count_bsetMany b l hv hd pl t
    have := hle pl t
    omega
  exact ⟨sideOkB_mono h.1 (hc .white), sideOkB_mono h.2 (hc .black)⟩

theorem ind_some (pl pl' : Player) (t t' : PieceType) :
    ind pl t (some ⟨t', pl'⟩) = if t' = t ∧ pl' = pl then 1 else 0 := by
  unfold ind
  simp only [Option.some.injEq, Piece.mk.injEq]

/-- promotions to a king do not exist (the generator and the UCI reader only offer Q, R, B, N) -/
def PromoOk : Move → Prop
  | .promotion _ t _ _ _ => t ≠ .king
  | _ => True

theorem promoOk_of_moverOk {g : Game} {m : Move} (h : g.MoverOk m) : PromoOk m := by
  cases m with
  | promotion o t s e cap =>
    obtain ⟨-, h | h | h | h⟩ := h <;> simp [PromoOk, h]
  | _ => trivial

/-- the board after a promotion -/
theorem promo_material {b : Board} (h : MaterialOk b) (o : Player) (t : PieceType) (s e : Pos)
    (cap : Option Piece) (hs : s.Valid) (he : e.Valid) (hne : s ≠ e)
    (h1 : bget b s = some ⟨.pawn, o⟩) (h2 : bget b e = cap) (ht : t ≠ .king) :
    MaterialOk (bsetMany b [(s, none), (e, some ⟨t, o⟩)]) := by
  have bal := fun pl t' => count_bsetMany b [(s, none), (e, some ⟨t, o⟩)]
    (by simp [hs, he]) (by simpa using hne) pl t'
  simp only [sumOld, sumNew, List.map_cons, List.map_nil, List.sum_cons, List.sum_nil, h1, h2,
    ind_none, ind_some] at bal
  -- the side that does not promote
  have other : ∀ pl, pl ≠ o → SideOkB b pl → SideOkB (bsetMany b [(s, none), (e, some ⟨t, o⟩)]) pl := by
    intro pl hpl hb
    apply sideOkB_mono hb
    intro t'
    have := bal pl t'
    have e1 : ¬ (PieceType.pawn = t' ∧ o = pl) := fun h => hpl h.2.symm
    have e2 : ¬ (t = t' ∧ o = pl) := fun h => hpl h.2.symm
    rw [if_neg e1, if_neg e2] at this
    omega
  -- the side that promotes
  have own : SideOkB b o → SideOkB (bsetMany b [(s, none), (e, some ⟨t, o⟩)]) o := by
    intro hb
    apply sideOkB_promo hb t ht
    · have := bal o .pawn
      simp only [and_true, if_true] at this
      by_cases e : t = .pawn
      · rw [if_pos e] at this ⊢; omega
      · rw [if_neg e] at this ⊢; omega
    · intro t' ht'
      have := bal o t'
      simp only [and_true] at this
      have e1 : ¬ (PieceType.pawn = t') := fun h => ht' h.symm
      rw [if_neg e1] at this
      by_cases e : t = t'
      · rw [if_pos e] at this; rw [if_pos e.symm]; omega
      · rw [if_neg e] at this; rw [if_neg (fun h => e h.symm)]; omega
  cases o
  · exact ⟨own h.1, other .black (by decide) h.2⟩
  · exact ⟨other .white (by decide) h.1, own h.2⟩

/-- **every board a fitting move passes through — after each of its `set_position` calls —
satisfies the material invariant** -/
theorem inits_material {g : Game} {m : Move} (hf : g.Fits m) (hp : PromoOk m)
    (hm : MaterialOk g.board) :
    ∀ l' ∈ inits (Bounds.writes m), MaterialOk (bsetMany g.board l') := by
  intro l' hl'
  have hsub := inits_sublist hl'
  have hv : ∀ e ∈ l', e.1.Valid := fun e he => Bounds.writes_valid hf e (hsub.subset he)
  have hd : l'.Pairwise (fun a b => a.1 ≠ b.1) := (Bounds.writes_distinct hf).sublist hsub
  cases m with
  | normal pc s e cap =>
    obtain ⟨-, -, -, h1, h2, -⟩ := hf
    rw [get_eq_bget] at h1 h2
    simp only [Bounds.writes, inits, List.map_cons, List.map_nil, List.mem_cons, List.not_mem_nil,
      or_false] at hl'
    rcases hl' with rfl | rfl | rfl <;> apply materialOk_of_le hm _ hv hd <;> intro pl t <;>
      simp only [sumOld, sumNew, List.map_cons, List.map_nil, List.sum_cons, List.sum_nil, h1, h2,
        ind_none] <;> omega
  | promotion o t s e cap =>
    obtain ⟨hs, he, hne, h1, h2⟩ := hf
    rw [get_eq_bget] at h1 h2
    simp only [Bounds.writes, inits, List.map_cons, List.map_nil, List.mem_cons, List.not_mem_nil,
      or_false] at hl'
    rcases hl' with rfl | rfl | rfl
    · exact hm
    · apply materialOk_of_le hm _ hv hd; intro pl t
      simp only [sumOld, sumNew, List.map_cons, List.map_nil, List.sum_cons, List.sum_nil, h1, ind_none]
      omega
    · exact promo_material hm o t s e cap hs he hne h1 h2 hp
  | enPassant o sc ec =>
    obtain ⟨-, -, -, -, -, h1, h2, h3⟩ := hf
    rw [get_eq_bget] at h1 h2 h3
    simp only [Bounds.writes, inits, List.map_cons, List.map_nil, List.mem_cons, List.not_mem_nil,
      or_false] at hl'
    rcases hl' with rfl | rfl | rfl | rfl <;> apply materialOk_of_le hm _ hv hd <;> intro pl t <;>
      simp only [sumOld, sumNew, List.map_cons, List.map_nil, List.sum_cons, List.sum_nil, h1, h2, h3,
        ind_none] <;> omega
  | castlingLong o =>
    obtain ⟨-, -, h4, h0, h3, h2⟩ := hf
    rw [get_eq_bget] at h4 h0 h3 h2
    simp only [Bounds.writes, inits, List.map_cons, List.map_nil, List.mem_cons, List.not_mem_nil,
      or_false] at hl'
    rcases hl' with rfl | rfl | rfl | rfl | rfl <;> apply materialOk_of_le hm _ hv hd <;> intro pl t <;>
      simp only [sumOld, sumNew, List.map_cons, List.map_nil, List.sum_cons, List.sum_nil, h4, h0, h3, h2,
        ind_none] <;> omega
  | castlingShort o =>
    obtain ⟨-, -, h4, h7, h5, h6⟩ := hf
    rw [get_eq_bget] at h4 h7 h5 h6
    simp only [Bounds.writes, inits, List.map_cons, List.map_nil, List.mem_cons, List.not_mem_nil,
      or_false] at hl'
    rcases hl' with rfl | rfl | rfl | rfl | rfl <;> apply materialOk_of_le hm _ hv hd <;> intro pl t <;>
      simp only [sumOld, sumNew, List.map_cons, List.map_nil, List.sum_cons, List.sum_nil, h4, h7, h5, h6,
        ind_none] <;> omega

theorem mem_inits_self {α : Type} (l : List α) : l ∈ inits l := by
  induction l with
  | nil => simp [inits]
  | cons a l ih => simp only [inits, List.mem_cons, List.mem_map]; exact .inr ⟨l, ih, rfl⟩

/-- all boards between the half-steps of the `set_position` calls of a fitting move -/
theorem midBoards_material {g : Game} {m : Move} (hf : g.Fits m) (hp : PromoOk m)
    (hm : MaterialOk g.board) : ∀ b' ∈ midBoards g.board (Bounds.writes m), MaterialOk b' :=
  midBoards_of_inits _ _ (inits_material hf hp hm)

/-- **`push` of a fitting move keeps the material invariant** -/
theorem push_materialOk {g : Game} {m : Move} (hf : g.Fits m) (hp : PromoOk m)
    (hm : MaterialOk g.board) : MaterialOk (g.push m).board := by
  rw [push_board_eq]
  exact inits_material hf hp hm _ (mem_inits_self _)

end Chess.Range
