import Chess.Lemmas.Mate2Aux4

/-!
# Mate in two: the root loop and the root search, without null-window re-search
-/
namespace Chess.Search.Mate2
open Chess.Search Chess.Search.Mate

variable {G M : Type}

/-- the invariant of the root loop: `PW` says that the moves tried so far all lead to won
positions, `pend` that a move into a `Lost1` position is still to come, `first` that no move has
been tried -/
structure RInv (o : Ops G M) (S : Sem o) (cr : Prop) (remc : Nat) (g : G) (PW pend first : Prop) (bs : Int)
    (bm : Option M) : Prop where
  lo : scoreMin + 1 ≤ bs
  hi : bs ≤ mS
  nL : first ∨ -mS ≤ bs
  good : bs ≤ evalBound ∨ ∃ m, bm = some m ∧ m ∈ o.checked g ∧ S.L remc (o.push g m)
  low : PW ∨ -evalBound ≤ bs
  cmp : cr → pend ∨ evalBound < bs

theorem RInv.imp {o : Ops G M} {S : Sem o} {cr : Prop} {remc : Nat} {g : G} {PW pend first PW' pend' first' : Prop}
    {bs : Int} {bm : Option M} (h : RInv o S cr remc g PW pend first bs bm) (h1 : PW → PW')
    (h2 : pend → pend') (h3 : first → first') : RInv o S cr remc g PW' pend' first' bs bm where
  lo := h.lo
  hi := h.hi
  nL := h.nL.imp h3 id
  good := h.good
  low := h.low.imp h1 id
  cmp := fun k => (h.cmp k).imp h2 id

/-- **The root loop when every move is searched with the full window.** -/
theorem rootLoop_ok (o : Ops G M) (S : Sem o) (cm cr : Prop) (D : Nat)
    (child : G → Int → Int → Int → St M → Option (Int × St M)) (g : G) (remc : Nat)
    (hremc : cr → cm ∧ 4 ≤ remc) :
    ∀ (ms : List M), (∀ m ∈ ms, m ∈ o.checked g ∧ ChildOK o S cm D child remc (o.push g m) 1) →
      ∀ (index : Nat) (bs : Int) (bm : Option M) (st : St M) (PW first : Prop),
        index + ms.length ≤ Gen.fullWindowMaxIndex + 1 → TInv o S cm D st.tt →
        RInv o S cr remc g PW (∃ m ∈ ms, Lost1 o (o.push g m)) first bs bm →
        ∃ bs' bm' st', rootLoop o child g ms index bs bm st = some (bs', bm', st') ∧
          TInv o S cm D st'.tt ∧
          RInv o S cr remc g (PW ∧ ∀ m ∈ ms, S.W remc (o.push g m)) False (first ∧ ms = []) bs' bm' := by
  intro ms
  induction ms with
  | nil =>
    intro _ index bs bm st PW first _ hQ hI
    refine ⟨bs, bm, st, rfl, hQ, hI.imp (fun k => ⟨k, fun _ h => by cases h⟩) ?_
      (fun k => ⟨k, rfl⟩)⟩
    rintro ⟨_, h, _⟩
    cases h
  | cons m ms ih =>
    intro hc index bs bm st PW first hidx hQ hI
    obtain ⟨hm, hcm⟩ := hc m List.mem_cons_self
    have hE := evalBound_le_mS
    have hlo := hI.lo
    have hhi := hI.hi
    have hmS : mS = 32668 := by decide
    obtain ⟨v, st1, he, hQ1, r, c, p, _⟩ := hcm (scoreMin + 1) (-bs) st
      (by simp only [scoreMin] at *; omega) hQ
    have hidx' : index ≤ Gen.fullWindowMaxIndex := by
      simp only [List.length_cons] at hidx; omega
    unfold rootLoop
    simp only []
    rw [if_pos hidx', he]
    simp only []
    unfold RngS at r
    obtain ⟨r1, r2⟩ := r
    obtain ⟨c1, c2⟩ := c
    have hsm : scoreMin = -32768 := rfl
    have hEB : evalBound = 31767 := by decide
    -- the tail, from the new pair
    have tail : ∀ (bs1 : Int) (bm1 : Option M),
        RInv o S cr remc g (PW ∧ S.W remc (o.push g m)) (∃ m' ∈ ms, Lost1 o (o.push g m')) False bs1 bm1 →
        ∃ bs' bm' st', rootLoop o child g ms (index + 1) bs1 bm1 st1 = some (bs', bm', st') ∧
          TInv o S cm D st'.tt ∧
          RInv o S cr remc g (PW ∧ ∀ m' ∈ m :: ms, S.W remc (o.push g m')) False (first ∧ m :: ms = [])
            bs' bm' := by
      intro bs1 bm1 hI1
      obtain ⟨bs', bm', st', k1, k2, k3⟩ := ih
        (fun m' hm' => hc m' (List.mem_cons_of_mem _ hm')) (index + 1) bs1 bm1 st1 _ False
        (by simp only [List.length_cons] at hidx; omega) hQ1 hI1
      refine ⟨bs', bm', st', k1, k2, k3.imp ?_ id (fun k => k.1.elim)⟩
      rintro ⟨⟨k4, k5⟩, k6⟩
      refine ⟨k4, fun m' hm' => ?_⟩
      rcases List.mem_cons.1 hm' with rfl | hm'
      · exact k5
      · exact k6 m' hm'
    -- the completeness clause for this move
    have hcmp : ∀ bs1 : Int, -v ≤ bs1 → bs ≤ bs1 → cr →
        (∃ m' ∈ ms, Lost1 o (o.push g m')) ∨ evalBound < bs1 := by
      intro bs1 h1 h2 hcm'
      rcases hI.cmp hcm' with ⟨m', hm', hL⟩ | k
      · rcases List.mem_cons.1 hm' with rfl | hm'
        · have := (p (hremc hcm').1).2 hL (hremc hcm').2
          exact Or.inr (by omega)
        · exact Or.inl ⟨m', hm', hL⟩
      · exact Or.inr (by omega)
    by_cases hsc : -v > bs
    · simp only [hsc, if_true]
      apply tail
      refine ⟨by omega, by omega, Or.inr (by omega), ?_, ?_, hcmp (-v) (by omega) (by omega)⟩
      · rcases c2 with k | k
        · by_cases hle : -v ≤ evalBound
          · exact Or.inl hle
          · exact absurd k (by omega)
        · exact Or.inr ⟨m, rfl, hm, k⟩
      · rcases c1 with k | k
        · exact Or.inr (by omega)
        · rcases hI.low with k' | k'
          · exact Or.inl ⟨k', k⟩
          · exact Or.inr (by omega)
    · simp only [hsc, if_false]
      apply tail
      refine ⟨hlo, hhi, Or.inr (by omega), hI.good, ?_, hcmp bs (by omega) (by omega)⟩
      rcases c1 with k | k
      · exact Or.inr (by omega)
      · rcases hI.low with k' | k'
        · exact Or.inl ⟨k', k⟩
        · exact Or.inr k'

variable [DecidableEq M]

theorem length_rootMoves_le (o : Ops G M) (g : G) :
    (rootMoves o g).length ≤ (o.checked g).length := by
  unfold rootMoves
  split
  · rw [(swapRemoveFirst_perm_erase _ _).length_eq, List.length_erase]
    split <;> omega
  · omega

/-- what the root search needs of the root: some kept move does not lead to a won position, or the
repetition filter keeps all the moves and there is one -/
def RootLow (o : Ops G M) (S : Sem o) (remc : Nat) (g : G) : Prop :=
  (∃ m ∈ rootMoves o g, ¬ S.W remc (o.push g m)) ∨
    (rootMoves o g = o.checked g ∧ o.checked g ≠ [])

/-- **The root search when no position has more than three legal moves.** From a table that is
fine for the depths below `remc + 1`, with two or three legal moves at the root: the root search to
depth `remc + 1` answers, the table is fine for `remc + 1`, and the pair returned is sound: a score
above `evalBound` comes with a move after which the opponent is lost (`S.L remc`); the score is at
least `-evalBound` if some kept move does not lead to a won position; and (completeness switch on)
it is above `evalBound` from depth 5 on if some kept move leads to a `Lost1` position. -/
theorem rootSearch_ok (o : Ops G M) (hb : Bounded o) (hn : Narrow o) (S : Sem o) (cm : Prop)
    {runs : Nat → Bool} (hr : ∀ i, runs i = true) (g : G) (remc : Nat)
    (hd2 : remc + 1 ≤ 500) (hNr : S.Nx (remc + 1) (remc + 1) g) (st : St M)
    (hQ : TInv o S cm remc st.tt)
    (hl : (o.checked g).length ≠ 1) (hlow : RootLow o S remc g)
    (hroot : cm → ¬ MateIn1 o g ∧ ¬ Lost1 o g) :
    ∃ bm bs st', rootSearch o runs g (remc + 1) st = some ((bm, bs, false), st') ∧
      TInv o S cm (remc + 1) st'.tt ∧
      (bs ≤ evalBound ∨ ∃ m, bm = some m ∧ m ∈ o.checked g ∧ S.L remc (o.push g m)) ∧
      ((∃ m ∈ rootMoves o g, ¬ S.W remc (o.push g m)) → -evalBound ≤ bs) ∧
      (cm → 4 ≤ remc → (∃ m ∈ rootMoves o g, Lost1 o (o.push g m)) → evalBound < bs) ∧
      (bs < -evalBound → ∀ m ∈ rootMoves o g, S.W remc (o.push g m)) := by
  rw [rootSearch_eq, if_neg hl]
  have hmiss : rootHit (ttGet (rootSt st) (o.hash g)) (remc + 1) = none := by
    apply rootHit_none_of_miss
    intro e he h
    have := (hQ _ e he).1
    omega
  rw [hmiss]
  simp only []
  have hQ0 : TInv o S cm (remc + 1) (rootSt st).tt := hQ.mono (by omega)
  have hmem : ∀ m, m ∈ rootSorted o g (rootSt st) ↔ m ∈ rootMoves o g :=
    fun m => mem_sortMoves _ _ m
  have hlen : (rootSorted o g (rootSt st)).length ≤ Gen.fullWindowMaxIndex + 1 := by
    unfold rootSorted
    rw [length_sortMoves]
    exact Nat.le_trans (length_rootMoves_le o g) (hn g)
  have hne : rootMoves o g ≠ [] := by
    rcases hlow with ⟨m, hm, _⟩ | ⟨k1, k2⟩
    · intro h; rw [h] at hm; cases hm
    · rw [k1]; exact k2
  have hcne : o.checked g ≠ [] := rootMoves_checked_ne hne
  have hch : ∀ m ∈ rootSorted o g (rootSt st), m ∈ o.checked g ∧
      ChildOK o S cm (remc + 1) (node o runs (remc + 1 - 1)) remc (o.push g m) 1 := by
    intro m hm
    exact ⟨mem_rootSorted hm, node_ok o hb hn S cm (remc + 1) hr remc (o.push g m) 1
      (by omega) (by omega) (by omega) (S.child hNr (mem_rootSorted hm))⟩
  let cr : Prop := cm ∧ 4 ≤ remc ∧ ∃ m ∈ rootMoves o g, Lost1 o (o.push g m)
  have hI0 : RInv o S cr remc g True
      (∃ m ∈ rootSorted o g (rootSt st), Lost1 o (o.push g m)) True (scoreMin + 1) none := by
    refine ⟨Int.le_refl _, by decide, Or.inl trivial, Or.inl (by decide), Or.inl trivial,
      fun k => Or.inl ?_⟩
    obtain ⟨m, hm, hL⟩ := k.2.2
    exact ⟨m, (hmem m).2 hm, hL⟩
  obtain ⟨bs, bm, st2, k1, k2, k3⟩ := rootLoop_ok o S cm cr (remc + 1)
    (node o runs (remc + 1 - 1)) g remc (fun k => ⟨k.1, k.2.1⟩) (rootSorted o g (rootSt st)) hch 0
    (scoreMin + 1) none (rootSt st) True True (by omega) hQ0 hI0
  rw [k1]
  have hsne : rootSorted o g (rootSt st) ≠ [] := rootSorted_ne hne _
  have nL : -mS ≤ bs := by
    rcases k3.nL with k | k
    · exact absurd k.2 hsne
    · exact k
  have hallwin : (True ∧ ∀ m ∈ rootSorted o g (rootSt st), S.W remc (o.push g m)) →
      ∀ m ∈ rootMoves o g, S.W remc (o.push g m) := fun k m hm => k.2 m ((hmem m).2 hm)
  have hlowbs : (∃ m ∈ rootMoves o g, ¬ S.W remc (o.push g m)) → -evalBound ≤ bs := by
    rintro ⟨m, hm, hW⟩
    rcases k3.low with k | k
    · exact absurd (hallwin k m hm) hW
    · exact k
  have hcmp : cm → 4 ≤ remc → (∃ m ∈ rootMoves o g, Lost1 o (o.push g m)) →
      evalBound < bs := by
    intro h1 h2 h3
    rcases k3.cmp ⟨h1, h2, h3⟩ with k | k
    · exact k.elim
    · exact k
  have hlost : bs < -evalBound → ∀ m ∈ rootMoves o g, S.W remc (o.push g m) := by
    intro hb'
    rcases k3.low with k | k
    · exact hallwin k
    · omega
  refine ⟨bm, bs, _, rfl, ?_, k3.good, hlowbs, hcmp, hlost⟩
  apply k2.rootStore
  refine ⟨Nat.le_refl _, fun _ => k3.hi, fun _ => nL, fun y hy => ⟨?_, S.store hNr hy,
    fun _ => ?_, fun _ => ?_,
    fun hcm hM _ _ => absurd (S.mate1 y g hy hM) (hroot hcm).1,
    fun hcm hL _ _ => absurd (S.lost1 y g hy hL) (hroot hcm).2⟩⟩
  · intro h0
    exact hcne (S.dead y g hy h0)
  · rcases k3.good with k | ⟨m, _, hm, hL⟩
    · exact Or.inl k
    · exact Or.inr (S.hashW hy.symm (S.win hm hL))
  · rcases hlow with k | ⟨j1, j2⟩
    · exact Or.inl (hlowbs k)
    · rcases k3.low with k | k
      · refine Or.inr (S.hashL hy.symm (S.lose j2 fun m hm => ?_))
        exact hallwin k m (j1 ▸ hm)
      · exact Or.inl k

end Chess.Search.Mate2
