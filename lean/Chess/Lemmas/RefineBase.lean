import Chess.Lemmas.RefineBits
import Chess.Lemmas.RefineShape
import Chess.Lemmas.AttackAux

/-!
# C02, part 2 — both sides of the refinement square, field by field

The four castling rights uniformly (`GState.right`, `APos.right`), what the engine's `clear…`
functions do to them, the state byte `push` records (`pushState_rf`), the fields of `Spec.play`
(`play_board`, `play_side`, `play_right`, `play_ep`), and the bridge between `Spec.setSq` on the
bare vector and `Game.setPosition`.
-/
namespace Chess

/-! ## The four castling rights, uniformly: `(owner, kingside?)` -/

namespace GState
/-- the right of `pl` to castle on the king's (`true`) or queen's (`false`) side -/
def right (s : GState) : Player → Bool → Bool
  | .white, true => s.wk
  | .white, false => s.wq
  | .black, true => s.bk
  | .black, false => s.bq
end GState

namespace Spec
def APos.right (a : APos) : Player → Bool → Bool
  | .white, true => a.wk
  | .white, false => a.wq
  | .black, true => a.bk
  | .black, false => a.bq

theorem APos.ext' {a b : APos} (h1 : a.board = b.board) (h2 : a.side = b.side)
    (h3 : ∀ pl ks, a.right pl ks = b.right pl ks) (h4 : a.ep = b.ep) : a = b := by
  have e1 := h3 .white true
  have e2 := h3 .white false
  have e3 := h3 .black true
  have e4 := h3 .black false
  cases a; cases b
  simp only [APos.right] at e1 e2 e3 e4
  simp only at h1 h2 h4
  simp only [APos.mk.injEq]
  exact ⟨h1, h2, e1, e2, e3, e4, h4⟩
end Spec

namespace Game

/-- the rook's home square of a right -/
def rookHome (pl : Player) (ks : Bool) : Pos := ⟨homeRow pl, if ks then 7 else 0⟩
/-- the king's home square -/
def kingHome (pl : Player) : Pos := ⟨homeRow pl, 4⟩

theorem abs_right (g : Game) (pl : Player) (ks : Bool) : g.abs.right pl ks = g.top.right pl ks := by
  cases pl <;> cases ks <;> rfl

theorem rightsInv_right {g : Game} (h : g.RightsInv) {pl : Player} {ks : Bool}
    (hr : g.top.right pl ks = true) :
    g.get (rookHome pl ks) = some ⟨.rook, pl⟩ ∧ g.kingPos pl = kingHome pl
      ∧ (g.kingExists pl = true → g.get (kingHome pl) = some ⟨.king, pl⟩) := by
  cases pl <;> cases ks
  · exact h.wq hr
  · exact h.wk hr
  · exact h.bq hr
  · exact h.bk hr

theorem clearBoth_right (s : GState) (pl' pl : Player) (ks : Bool) :
    (clearBoth s pl').right pl ks = (s.right pl ks && !decide (pl' = pl)) := by
  cases pl' <;> cases pl <;> cases ks <;> simp [clearBoth, GState.right]

theorem clearRookFrom_right (s : GState) (p : Pos) (pl : Player) (ks : Bool) :
    (clearRookFrom s p).right pl ks = (s.right pl ks && !decide (p = rookHome pl ks)) := by
  obtain ⟨r, c⟩ := p
  unfold clearRookFrom
  simp only [pos, Gen.whiteQueenRook, Gen.whiteKingRook, Gen.blackQueenRook, Gen.blackKingRook,
    Pos.mk.injEq]
  cases pl <;> cases ks <;> simp only [rookHome, homeRow, GState.right, Pos.mk.injEq] <;>
    (repeat' split) <;> simp_all <;> omega


theorem clearCaptured_right (s : GState) (cap : Option Piece) (p : Pos) (pl : Player) (ks : Bool) :
    (clearCaptured s cap p).right pl ks
      = (s.right pl ks && !(decide (cap = some ⟨.rook, pl⟩) && decide (p = rookHome pl ks))) := by
  obtain ⟨r, c⟩ := p
  unfold clearCaptured
  simp only [pos, Gen.whiteQueenRook, Gen.whiteKingRook, Gen.blackQueenRook, Gen.blackKingRook,
    Pos.mk.injEq]
  cases pl <;> cases ks <;> simp only [rookHome, homeRow, GState.right, Pos.mk.injEq] <;>
    (repeat' split) <;> simp_all <;> omega

theorem clearBoth_ep (s : GState) (pl : Player) : (clearBoth s pl).enPassant = s.enPassant := by
  cases pl <;> simp [clearBoth]

theorem clearRookFrom_ep (s : GState) (p : Pos) : (clearRookFrom s p).enPassant = s.enPassant := by
  unfold clearRookFrom
  (repeat' split) <;> simp

theorem clearCaptured_ep (s : GState) (cap : Option Piece) (p : Pos) :
    (clearCaptured s cap p).enPassant = s.enPassant := by
  unfold clearCaptured
  (repeat' split) <;> simp

theorem setEnPassant_right (s : GState) (v : Int) (h0 : 0 ≤ v) (h8 : v ≤ 8) (pl : Player) (ks : Bool) :
    (s.setEnPassant v).right pl ks = s.right pl ks := by
  obtain ⟨a, b, c, d, _⟩ := GState.setEnPassant_spec s v h0 h8
  cases pl <;> cases ks <;> simp [GState.right, *]

theorem setEnPassant_ep (s : GState) (v : Int) (h0 : 0 ≤ v) (h8 : v ≤ 8) :
    (s.setEnPassant v).enPassant = v := (GState.setEnPassant_spec s v h0 h8).2.2.2.2


/-! ## What `push` leaves behind, field by field -/

/-- the state byte `push` records -/
def pushState_rf (g : Game) (m : Move) : GState := (applyMove g m (g.top.setEnPassant 8)).2

theorem push_top_rf (g : Game) (m : Move) : (g.push m).top = pushState_rf g m := rfl

theorem push_board (g : Game) (m : Move) : (g.push m).board = (applyMoveG g m).board := by
  rw [push_eq_wrap, applyMove_fst]; rfl

theorem applyMoveG_player (g : Game) (m : Move) : (applyMoveG g m).player = g.player := by
  cases m <;> simp only [applyMoveG] <;> (try split) <;> simp

theorem push_player (g : Game) (m : Move) : (g.push m).player = g.player.other := by
  rw [push_eq_wrap, applyMove_fst]
  show (applyMoveG g m).player.other = _
  rw [applyMoveG_player]

/-- the pawn-beside test of `push` after a double step -/
def besideTest (g1 : Game) (stop : Pos) (owner : Player) : Bool :=
  (if stop.col > 0 then isEnemyPawn (g1.get ⟨stop.row, stop.col - 1⟩) owner else false)
  || (if stop.col < 7 then isEnemyPawn (g1.get ⟨stop.row, stop.col + 1⟩) owner else false)

theorem pushState_normal_rf (g : Game) (pc : Piece) (start stop : Pos) (cap : Option Piece) :
    pushState_rf g (.normal pc start stop cap) =
      (let g1 := (g.setPosition start none).setPosition stop (some pc)
       let s0 := g.top.setEnPassant 8
       let s1 := if pc.pieceType = .king then clearBoth s0 g.player
         else if pc.pieceType = .rook then clearRookFrom s0 start else s0
       let s2 := clearCaptured s1 cap stop
       if (decide (pc.pieceType = .pawn) && decide ((stop.row - start.row).natAbs = 2)) = true then
         if besideTest g1 stop pc.owner = true then s2.setEnPassant start.col else s2
       else s2) := by
  unfold pushState_rf applyMove besideTest
  by_cases hk : pc.pieceType = .king
  · simp [hk]
  · by_cases hr : pc.pieceType = .rook
    · simp [hr]
    · simp [hk, hr]

theorem pushState_promotion_rf (g : Game) (o : Player) (t : PieceType) (start stop : Pos)
    (cap : Option Piece) :
    pushState_rf g (.promotion o t start stop cap) = clearCaptured (g.top.setEnPassant 8) cap stop := rfl

theorem pushState_enPassant_rf (g : Game) (o : Player) (sc ec : Int) :
    pushState_rf g (.enPassant o sc ec) = g.top.setEnPassant 8 := by
  cases o <;> rfl

theorem pushState_castlingShort_rf (g : Game) (o : Player) :
    pushState_rf g (.castlingShort o) = clearBoth (g.top.setEnPassant 8) g.player := by
  simp [pushState_rf, applyMove]

theorem pushState_castlingLong_rf (g : Game) (o : Player) :
    pushState_rf g (.castlingLong o) = clearBoth (g.top.setEnPassant 8) g.player := by
  simp [pushState_rf, applyMove]

end Game

/-! ## What `Spec.play` prescribes, field by field -/

namespace Spec

/-- reading a bare board -/
def atB_rf (b : Vector (Option Piece) 64) (s : Sq) : Option Piece :=
  if onBoard s then b.toArray.getD (s.1 * 8 + s.2).toNat none else none

theorem APos.at_eq_atB (a : APos) (s : Sq) : a.at s = atB_rf a.board s := rfl

/-- the board `play` builds when the source square holds `pc` -/
def playBoard (a : APos) (m : UciMove) (pc : Piece) : Vector (Option Piece) 64 :=
  let dc := m.dst.2 - m.src.2
  let isCastle := pc.pieceType = .king && dc.natAbs = 2
  let isEp := pc.pieceType = .pawn && dc ≠ 0 && (a.at m.dst).isNone
  let placed : Piece := match m.promo with
    | some t => ⟨t, pc.owner⟩
    | none => pc
  let b := setSq (setSq a.board m.src none) m.dst (some placed)
  let b := if isEp then setSq b (m.src.1, m.dst.2) none else b
  if isCastle then
    if dc > 0 then setSq (setSq b (m.src.1, 7) none) (m.src.1, 5) (some ⟨.rook, pc.owner⟩)
    else setSq (setSq b (m.src.1, 0) none) (m.src.1, 3) (some ⟨.rook, pc.owner⟩)
  else b

variable {a : APos} {m : UciMove} {pc : Piece}

theorem play_board (h : a.at m.src = some pc) : (play a m).board = playBoard a m pc := by
  unfold play; rw [h]; rfl

theorem play_side (h : a.at m.src = some pc) : (play a m).side = a.side.other := by
  unfold play; rw [h]

theorem play_right (h : a.at m.src = some pc) (pl : Player) (ks : Bool) :
    (play a m).right pl ks =
      (a.right pl ks
        && !(decide (m.src = (homeRow pl, 4)) || decide (m.dst = (homeRow pl, 4)))
        && !(decide (m.src = (homeRow pl, if ks then 7 else 0))
              || decide (m.dst = (homeRow pl, if ks then 7 else 0)))) := by
  cases pl <;> cases ks <;> simp only [play, h, APos.right, homeRow] <;> rfl

theorem play_ep (h : a.at m.src = some pc) :
    (play a m).ep =
      if (decide (pc.pieceType = .pawn) && decide ((m.dst.1 - m.src.1).natAbs = 2)
          && (decide (atB_rf (playBoard a m pc) (m.dst.1, m.dst.2 - 1) = some ⟨.pawn, pc.owner.other⟩)
              || decide (atB_rf (playBoard a m pc) (m.dst.1, m.dst.2 + 1) = some ⟨.pawn, pc.owner.other⟩)))
          = true
      then some m.src.2.toNat else none := by
  unfold play; rw [h]; rfl

theorem playBoard_plain
    (hc : (decide (pc.pieceType = .king) && decide ((m.dst.2 - m.src.2).natAbs = 2)) = false)
    (he : (decide (pc.pieceType = .pawn) && decide (m.dst.2 - m.src.2 ≠ 0) && (a.at m.dst).isNone) = false) :
    playBoard a m pc = setSq (setSq a.board m.src none) m.dst
      (some (match m.promo with
        | some t => ⟨t, pc.owner⟩
        | none => pc)) := by
  unfold playBoard
  simp only [hc, he, Bool.false_eq_true, if_false]

theorem playBoard_ep
    (hc : (decide (pc.pieceType = .king) && decide ((m.dst.2 - m.src.2).natAbs = 2)) = false)
    (he : (decide (pc.pieceType = .pawn) && decide (m.dst.2 - m.src.2 ≠ 0) && (a.at m.dst).isNone) = true) :
    playBoard a m pc = setSq (setSq (setSq a.board m.src none) m.dst
      (some (match m.promo with
        | some t => ⟨t, pc.owner⟩
        | none => pc))) (m.src.1, m.dst.2) none := by
  unfold playBoard
  simp only [hc, he, Bool.false_eq_true, if_false, if_true]

theorem playBoard_castle (hk : pc.pieceType = .king) (hd : (m.dst.2 - m.src.2).natAbs = 2) :
    playBoard a m pc =
      if m.dst.2 - m.src.2 > 0 then
        setSq (setSq (setSq (setSq a.board m.src none) m.dst
          (some (match m.promo with
            | some t => ⟨t, pc.owner⟩
            | none => pc))) (m.src.1, 7) none) (m.src.1, 5) (some ⟨.rook, pc.owner⟩)
      else
        setSq (setSq (setSq (setSq a.board m.src none) m.dst
          (some (match m.promo with
            | some t => ⟨t, pc.owner⟩
            | none => pc))) (m.src.1, 0) none) (m.src.1, 3) (some ⟨.rook, pc.owner⟩) := by
  unfold playBoard
  simp [hk, hd]

end Spec

/-! ## Bridging the two board views -/

namespace Game

theorem setSq_board (g : Game) (p : Pos) (hp : p.Valid) (v : Option Piece) :
    Spec.setSq g.board (p.row, p.col) v = (g.setPosition p v).board := by
  rw [setPosition_board g p v hp]
  unfold Spec.setSq
  rw [if_pos ((Pos.valid_iff_onBoard p).1 hp)]
  show g.board.setIfInBounds p.idx v = _
  have := Pos.idx_lt hp
  apply Vector.ext
  intro i hi
  simp [Vector.getElem_setIfInBounds, Vector.getElem_set]

theorem atB_board (g : Game) (s : Spec.Sq) : Spec.atB_rf g.board s = g.abs.at s := rfl

theorem get_eq_atB (g : Game) (p : Pos) (hp : p.Valid) : g.get p = Spec.atB_rf g.board (p.row, p.col) :=
  g.get_eq_at p hp

theorem sq_eq_iff (p : Pos) (r c : Int) : ((p.row, p.col) = (r, c)) ↔ p = ⟨r, c⟩ := by
  cases p; simp

end Game
end Chess
