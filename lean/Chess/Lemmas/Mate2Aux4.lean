import Chess.Lemmas.Mate2Aux3

/-!
# Mate in two: the contract of an interior node, at every depth, when no position has more than
three legal moves (no null-window re-search)
-/
namespace Chess.Search.Mate2
open Chess.Search Chess.Search.Mate

variable {G M : Type}

theorem storeFlag_ne_upper {bs a b : Int} (h : storeFlag bs a b ≠ Flag.upper) : a < bs := by
  unfold storeFlag at h
  split at h
  · exact absurd rfl h
  · omega

theorem storeFlag_ne_lower {bs a b : Int} (hab : a < b) (h : storeFlag bs a b ≠ Flag.lower) :
    bs < b := by
  unfold storeFlag at h
  split at h
  · omega
  · split at h
    · exact absurd rfl h
    · omega

/-- no position has more legal moves than are searched with the full window -/
def Narrow (o : Ops G M) : Prop := ∀ x, (o.checked x).length ≤ Gen.fullWindowMaxIndex + 1

/-- the entry stored by an interior node is fine -/
theorem entryOk_of_loop {o : Ops G M} {S : Sem o} {cm : Prop} {D : Nat} {x : G} {r : Nat}
    {a b : Int} (hab : a < b) (hD : r + 2 ≤ D) (hN : S.Nx D (r + 2) x) (hne : o.checked x ≠ [])
    {PW : Prop} (hPW : PW → S.L (r + 2) x) {alpha bs : Int} (bm : Option M)
    (hI : LInv o S cm (r + 1) x a b PW False False alpha bs) :
    EntryOk o S cm D (o.hash x) ⟨bs, bm, r + 2, storeFlag bs a b⟩ := by
  obtain ⟨nU1, nU2⟩ := hI.nU
  have nL : min b (-mS) ≤ alpha ∧ min b (-mS) ≤ bs := by
    rcases hI.nL with k | k
    · exact k.elim
    · exact k
  refine ⟨hD, fun hf => ?_, fun hf => ?_, fun y hy => ⟨?_, S.store hN hy, fun hf => ?_,
    fun hf => ?_, fun hcm hM h3 hf => ?_, fun hcm hL h4 hf => ?_⟩⟩
  · have := storeFlag_ne_upper hf
    show bs ≤ mS
    omega
  · have := storeFlag_ne_lower hab hf
    show -mS ≤ bs
    omega
  · intro h0
    exact hne (S.dead y x hy h0)
  · have := storeFlag_ne_upper hf
    show bs ≤ evalBound ∨ S.W (r + 2) y
    rcases hI.cU with ⟨_, k⟩ | k
    · exact Or.inl (by omega)
    · exact Or.inr (S.hashW hy.symm k)
  · have := storeFlag_ne_lower hab hf
    show -evalBound ≤ bs ∨ S.L (r + 2) y
    rcases hI.cL with k | ⟨_, k⟩
    · exact Or.inr (S.hashL hy.symm (hPW k))
    · exact Or.inl (by omega)
  · have := storeFlag_ne_lower hab hf
    show evalBound < bs
    have h3 : 3 ≤ r + 2 := h3
    rcases hI.c1 hcm (by omega) (S.mate1 y x hy hM) with k | ⟨_, k⟩ | ⟨_, k⟩
    · exact k.elim
    · exact k
    · omega
  · have := storeFlag_ne_upper hf
    show bs < -evalBound
    have h4 : 4 ≤ r + 2 := h4
    have := (hI.c2 hcm (by omega) (S.lost1 y x hy hL)).2
    omega

variable [DecidableEq M]

/-- **The contract of a node**, at every depth: in a game where no position has more than three
legal moves, with static evaluations out of the mate range, every call with a non-empty window made
in a state whose table is fine answers, keeps the table fine, and its value is sound (`Claims`), in
range (`RngS`) and, for the two shapes of the mate in two, complete (`Compl`). -/
theorem node_ok (o : Ops G M) (hb : Bounded o) (hn : Narrow o) (S : Sem o) (cm : Prop)
    (D : Nat) {runs : Nat → Bool} (hr : ∀ i, runs i = true) :
    ∀ (rem : Nat) (x : G) (rd : Int), 0 ≤ rd → rd + rem ≤ 600 → rem ≤ D → S.Nx D rem x →
      ChildOK o S cm D (node o runs rem) rem x rd := by
  intro rem
  induction rem using Nat.strongRecOn with
  | _ rem ih =>
    intro x rd h0 h1 hD hN a b st hab hQ
    rw [node_eq]
    simp only [hr, Bool.not_true, Bool.false_eq_true, if_false]
    have hQ1 := hQ.poll
    split
    · next v hv =>
      have k := ttCut_ok hQ1 x rem hN a b v hv
      refine ⟨v, _, rfl, hQ1, k.1, k.2.1, k.2.2, fun hM _ => ?_⟩
      have hnone : ttGet (pollSt st) (o.hash x) = none := hQ1.none_of_dead hM.1
      rw [hnone] at hv
      simp [ttCut] at hv
    · match rem, ih, h1, hD, hN with
      | 0, _, h1, _, _ =>
        have k := of_rng (o := o) (S := S) (cm := cm) (rem := 0) (by omega) x
          (qsearch_rng o hb qFuel x a b rd h0 (by unfold qFuel; omega))
        exact ⟨_, _, rfl, hQ1, k.1, k.2.1, k.2.2, fun _ h => by omega⟩
      | 1, _, h1, _, _ =>
        have k := of_rng (o := o) (S := S) (cm := cm) (rem := 1) (by omega) x
          (depth1_rng o hb x a b rd h0 (by omega))
        exact ⟨_, _, rfl, hQ1, k.1, k.2.1, k.2.2, fun _ h => by omega⟩
      | r + 2, ih, h1, hD, hN =>
        by_cases he : (o.checked x).isEmpty = true
        · simp only [he, if_true]
          have hnil : o.checked x = [] := List.isEmpty_iff.1 he
          have nm1 : ¬ MateIn1 o x := by
            rintro ⟨m, hm, _⟩; rw [hnil] at hm; cases hm
          have nl1 : ¬ Lost1 o x := fun k => k.1 hnil
          cases hsafe : o.safe x with
          | true =>
            simp only [if_true]
            refine ⟨_, _, rfl, hQ1, ?_, ⟨Or.inl ?_, Or.inl ?_⟩,
              fun _ => ⟨fun k => absurd k nm1, fun k => absurd k nl1⟩, fun hM _ => ?_⟩
            · unfold RngS; simp only [mS, scoreMin, Gen.mateNode]; omega
            · simp only [evalBound, scoreMax, Gen.exitHi]; omega
            · simp only [evalBound, scoreMax, Gen.exitHi]; omega
            · rw [hM.2] at hsafe; cases hsafe
          | false =>
            simp only [Bool.false_eq_true, if_false]
            refine ⟨_, _, rfl, hQ1, ?_, ⟨Or.inl ?_, Or.inr (S.mated ⟨hnil, hsafe⟩)⟩,
              fun _ => ⟨fun k => absurd k nm1, fun k => absurd k nl1⟩, fun _ _ => rfl⟩
            · unfold RngS; simp only [mS, scoreMin, Gen.mateNode]; omega
            · simp only [evalBound, scoreMax, scoreMin, Gen.exitHi, Gen.mateNode]; omega
        · simp only [he]
          have hne : o.checked x ≠ [] := fun h => he (by rw [h]; rfl)
          have hmem : ∀ m, m ∈ nodeMoves o x rd (pollSt st) ↔ m ∈ o.checked x :=
            fun m => mem_sortMoves _ _ m
          have hlen : (nodeMoves o x rd (pollSt st)).length ≤ Gen.fullWindowMaxIndex + 1 := by
            unfold nodeMoves
            rw [length_sortMoves]
            exact hn x
          have hch : ∀ m ∈ nodeMoves o x rd (pollSt st), m ∈ o.checked x ∧
              ChildOK o S cm D (node o runs (r + 1)) (r + 1) (o.push x m) (rd + 1) := by
            intro m hm
            exact ⟨(hmem m).1 hm, ih (r + 1) (by omega) (o.push x m) (rd + 1) (by omega)
              (by omega) (by omega) (S.child hN ((hmem m).1 hm))⟩
          have hI0 : LInv o S cm (r + 1) x a b True
              (∃ m ∈ nodeMoves o x rd (pollSt st), Mated o (o.push x m)) True a scoreMin := by
            refine ⟨Int.le_refl _, ⟨by omega, ?_⟩, Or.inl trivial, Or.inl ⟨by omega, ?_⟩,
              Or.inl trivial, fun _ _ hM => Or.inl ?_, fun _ _ _ => ⟨by omega, ?_⟩⟩
            · simp only [mS, scoreMin, Gen.mateNode]; omega
            · simp only [evalBound, scoreMax, scoreMin, Gen.exitHi]; omega
            · obtain ⟨m, hm, hM⟩ := hM
              exact ⟨m, (hmem m).2 hm, hM⟩
            · simp only [evalBound, scoreMax, scoreMin, Gen.exitHi]; omega
          obtain ⟨out, k1, k2, k3⟩ := nodeLoop_ok o S cm D (node o runs (r + 1)) x (r + 1) rd a b
            ⟨h0, by omega⟩ (nodeMoves o x rd (pollSt st)) hch 0 a scoreMin none (pollSt st)
            True True (by omega) hQ1 hab hI0
          rw [k1]
          simp only []
          have hmne : nodeMoves o x rd (pollSt st) ≠ [] := sortMoves_ne hne
          have k3' : LInv o S cm (r + 1) x a b
              (True ∧ ∀ m ∈ nodeMoves o x rd (pollSt st), S.W (r + 1) (o.push x m)) False False
              out.alpha out.bestScore := k3.imp id id (fun k => hmne k.2)
          have hPW : (True ∧ ∀ m ∈ nodeMoves o x rd (pollSt st), S.W (r + 1) (o.push x m)) →
              S.L (r + 2) x := fun k => S.lose hne (fun m hm => k.2 m ((hmem m).2 hm))
          have nL : min b (-mS) ≤ out.alpha := by
            rcases k3'.nL with k | k
            · exact k.elim
            · exact k.1
          refine ⟨_, _, rfl, ?_, ⟨nL, k3'.nU.1⟩, ⟨?_, ?_⟩, fun hcm => ⟨fun hM h3 => ?_,
            fun hL h4 => (k3'.c2 hcm (by omega) hL).1⟩, fun hM _ => absurd hM.1 hne⟩
          · exact k2.nodeStore _ _ _ (entryOk_of_loop hab hD hN hne hPW _ k3')
          · rcases k3'.cU with k | k
            · exact Or.inl k.1
            · exact Or.inr k
          · rcases k3'.cL with k | k
            · exact Or.inr (hPW k)
            · exact Or.inl k.1
          · rcases k3'.c1 hcm (by omega) hM with k | k | k
            · exact k.elim
            · have := k.1; omega
            · have := k.1; omega

end Chess.Search.Mate2
