import Chess.Model.Text
import Chess.Lemmas.Cache

/-!
# Score range, part 1: the generated tables and the arithmetic of a bounded material

Everything here is about lists / vectors and the generated piece-square tables; nothing about
moves.  Namespace `Chess.Range`.
-/
namespace Chess.Range

open Chess

/-! ## 1. Extremes of the generated tables -/

/-- largest entry of the table(s) of a piece kind (the king: of both its tables) -/
def vmax : PieceType → Nat
  | .queen => 905 | .rook => 510 | .bishop => 340 | .knight => 340 | .pawn => 150 | .king => 20040

/-- every entry of `a` lies in `[0, hi]` -/
def tableWithin (a : Array Int) (hi : Int) : Bool := a.all fun x => decide (0 ≤ x) && decide (x ≤ hi)

/-- the finite facts about the seven generated tables, checked by the kernel over all 448 entries -/
theorem tables_within :
    tableWithin Gen.queenScores 905 = true ∧ tableWithin Gen.rookScores 510 = true
    ∧ tableWithin Gen.bishopScores 340 = true ∧ tableWithin Gen.knightScores 340 = true
    ∧ tableWithin Gen.pawnScores 150 = true ∧ tableWithin Gen.kingScoresMiddle 20040 = true
    ∧ tableWithin Gen.kingScoresEnd 20040 = true := by decide +kernel

/-- the bounds are attained: they are the true extremes, not just some bound -/
theorem tables_extremes_attained :
    Gen.queenScores.contains 905 = true ∧ Gen.rookScores.contains 510 = true
    ∧ Gen.bishopScores.contains 340 = true ∧ Gen.knightScores.contains 340 = true
    ∧ Gen.pawnScores.contains 150 = true ∧ Gen.kingScoresEnd.contains 20040 = true := by
  decide +kernel

theorem getD_within {a : Array Int} {hi : Int} (h : tableWithin a hi = true) (hhi : 0 ≤ hi) (i : Nat) :
    0 ≤ a.getD i 0 ∧ a.getD i 0 ≤ hi := by
  unfold tableWithin at h
  rw [Array.all_eq_true] at h
  rw [Array.getD_eq_getD_getElem?]
  by_cases hi' : i < a.size
  · rw [Array.getElem?_eq_getElem hi']
    have := h i hi'
    simp only [Bool.and_eq_true, decide_eq_true_eq] at this
    exact this
  · rw [Array.getElem?_eq_none (by omega)]
    exact ⟨Int.le_refl 0, hhi⟩

/-- **every entry of every table a piece kind can be scored with is within `[0, vmax kind]`**
(whatever the index, whatever the phase) -/
theorem scoreTable_within (t : PieceType) (e : Bool) (i : Nat) :
    0 ≤ (Piece.scoreTable t e).getD i 0 ∧ (Piece.scoreTable t e).getD i 0 ≤ (vmax t : Int) := by
  obtain ⟨h1, h2, h3, h4, h5, h6, h7⟩ := tables_within
  cases t <;> simp only [Piece.scoreTable, vmax]
  · exact getD_within h1 (by decide) i
  · exact getD_within h2 (by decide) i
  · exact getD_within h3 (by decide) i
  · exact getD_within h4 (by decide) i
  · exact getD_within h5 (by decide) i
  · cases e
    · exact getD_within h6 (by decide) i
    · exact getD_within h7 (by decide) i


/-! ## 2. What a cached contribution may be -/

/-- the cached contribution `s` of a square is compatible with its content `o`: zero for an empty
square, otherwise a table entry in `[0, vmax kind]` times the owner's sign -/
def Bounded (o : Option Piece) (s : Int) : Prop :=
  match o with
  | none => s = 0
  | some pc => 0 ≤ s * pc.owner.sign ∧ s * pc.owner.sign ≤ (vmax pc.pieceType : Int)

theorem sign_mul_sign (pl : Player) : pl.sign * pl.sign = 1 := by cases pl <;> rfl

/-- `Piece::score` is bounded for every square and phase -/
theorem score_bounded (pc : Piece) (p : Pos) (e : Bool) : Bounded (some pc) (pc.score p e) := by
  unfold Bounded Piece.score
  simp only
  rw [Int.mul_assoc, sign_mul_sign, Int.mul_one]
  exact scoreTable_within _ _ _

/-- what `set_position` stores for a square is bounded, whatever is put there -/
theorem placeScore_bounded (p : Pos) (e : Bool) (x : Option Piece) : Bounded x (placeScore p e x) := by
  cases x with
  | none => rfl
  | some pc => exact score_bounded pc p e

/-- a single contribution fits `i16` with a wide margin (`piece_score * self.owner as Score`) -/
theorem bounded_abs {o : Option Piece} {s : Int} (h : Bounded o s) : -20040 ≤ s ∧ s ≤ 20040 := by
  cases o with
  | none => simp only [Bounded] at h; omega
  | some pc =>
    obtain ⟨t, pl⟩ := pc
    simp only [Bounded] at h
    cases pl <;> cases t <;> simp only [Player.sign, vmax] at h <;> omega

/-! ## 3. Sums over (content, contribution) pairs -/

/-- number of squares of a list holding exactly `⟨t, pl⟩` (`countPieces` on lists) -/
def cntL (l : List (Option Piece)) (pl : Player) (t : PieceType) : Nat :=
  (l.filter (fun o => o = some ⟨t, pl⟩)).length

theorem countPieces_eq (b : Vector (Option Piece) 64) (pl : Player) (t : PieceType) :
    countPieces b pl t = cntL b.toList pl t := rfl

theorem cntL_cons (a : Option Piece) (l : List (Option Piece)) (pl : Player) (t : PieceType) :
    cntL (a :: l) pl t = (if a = some ⟨t, pl⟩ then 1 else 0) + cntL l pl t := by
  unfold cntL
  rw [List.filter_cons]
  by_cases h : a = some ⟨t, pl⟩
  · simp [h]; omega
  · simp [h]

/-- value of side `pl` in a list of (content, contribution) pairs, counted positively -/
def sideSum (pl : Player) : List (Option Piece × Int) → Int
  | [] => 0
  | (o, s) :: l =>
    (match o with
     | some pc => if pc.owner = pl then s * pl.sign else 0
     | none => 0) + sideSum pl l

/-- the most side `pl` can be worth given how many men of each kind it has -/
def capL (l : List (Option Piece)) (pl : Player) : Int :=
  (vmax .king : Int) * cntL l pl .king + (vmax .queen : Int) * cntL l pl .queen
    + (vmax .rook : Int) * cntL l pl .rook + (vmax .bishop : Int) * cntL l pl .bishop
    + (vmax .knight : Int) * cntL l pl .knight + (vmax .pawn : Int) * cntL l pl .pawn

def sumL (l : List (Option Piece × Int)) : Int := (l.map (·.2)).foldr (· + ·) 0

/-- the sum of the contributions is White's value minus Black's -/
theorem sumL_eq (l : List (Option Piece × Int)) (h : ∀ e ∈ l, Bounded e.1 e.2) :
    sumL l = sideSum .white l - sideSum .black l := by
  induction l with
  | nil => rfl
  | cons a l ih =>
    obtain ⟨o, s⟩ := a
    have ih' := ih (fun e he => h e (by simp [he]))
    have ha := h (o, s) (by simp)
    have e0 : sumL ((o, s) :: l) = s + sumL l := rfl
    rw [e0, ih']
    cases o with
    | none => simp only [Bounded] at ha; simp only [sideSum]; omega
    | some pc =>
      obtain ⟨t, pl⟩ := pc
      cases pl <;> simp [sideSum, Player.sign] <;> omega

/-- a side's value is between 0 and its cap -/
theorem sideSum_bounds (pl : Player) (l : List (Option Piece × Int)) (h : ∀ e ∈ l, Bounded e.1 e.2) :
    0 ≤ sideSum pl l ∧ sideSum pl l ≤ capL (l.map (·.1)) pl := by
  induction l with
  | nil => simp [sideSum, capL, cntL]
  | cons a l ih =>
    obtain ⟨o, s⟩ := a
    have ih' := ih (fun e he => h e (by simp [he]))
    have ha := h (o, s) (by simp)
    simp only [sideSum, List.map_cons, capL, cntL_cons] at ih' ⊢
    cases o with
    | none => simp; exact ih'
    | some pc =>
      obtain ⟨t, o⟩ := pc
      simp only [Bounded] at ha
      cases t <;> cases o <;> cases pl <;> simp [vmax] at ha ih' ⊢ <;> omega

/-! ## 4. The material invariant and the bound `B` -/

/-- one side's material in counts: at most one king, and pawns plus promoted surplus at most 8 -/
def SideOk (k q r b n p : Nat) : Prop :=
  k ≤ 1 ∧ p + ((q - 1) + (r - 2) + (b - 2) + (n - 2)) ≤ 8

/-- **the bound**: king on its best square, nine queens, two rooks, two bishops, two knights, each
on the best square of its kind: `20040 + 9·905 + 2·510 + 2·340 + 2·340` -/
def B : Int := 30565

theorem B_eq : B = (vmax .king : Int) + 9 * (vmax .queen : Int) + 2 * (vmax .rook : Int)
    + 2 * (vmax .bishop : Int) + 2 * (vmax .knight : Int) := by decide

theorem B_lt_i16 : B ≤ 32767 ∧ -32768 ≤ -B := by decide

/-- the arithmetic heart: under `SideOk` the cap is at most `B` -/
theorem cap_le_B {k q r b n p : Nat} (h : SideOk k q r b n p) :
    (20040 : Int) * k + 905 * q + 510 * r + 340 * b + 340 * n + 150 * p ≤ 30565 := by
  obtain ⟨h1, h2⟩ := h
  omega


/-! ## 5. Vectors: the material check on a board, and the range of the sum of a cache -/

abbrev Board := Vector (Option Piece) 64

/-- one side of a board passes the (weakened: at most one king) material check; the counts are the
reader's own `countPieces` -/
def SideOkB (b : Board) (pl : Player) : Prop :=
  SideOk (countPieces b pl .king) (countPieces b pl .queen) (countPieces b pl .rook)
    (countPieces b pl .bishop) (countPieces b pl .knight) (countPieces b pl .pawn)

/-- both sides: at most one king, pawns + promoted surplus at most 8 -/
def MaterialOk (b : Board) : Prop := SideOkB b .white ∧ SideOkB b .black

instance (b : Board) : Decidable (MaterialOk b) := by
  unfold MaterialOk SideOkB SideOk; infer_instance

/-- the reader's check implies the invariant (`= 1` king is weakened to `≤ 1`) -/
theorem sideOkB_of_check {b : Board} {pl : Player} (h : materialOkSide b pl = true) : SideOkB b pl := by
  unfold materialOkSide at h
  simp only [Bool.and_eq_true, decide_eq_true_eq] at h
  exact ⟨Nat.le_of_eq h.1, h.2⟩

/-- every cached contribution is compatible with the content of its square -/
def CacheBounded (b : Board) (v : Vector Int 64) : Prop :=
  ∀ (i : Nat) (h : i < 64), Bounded b[i] v[i]

theorem capL_le_B {b : Board} {pl : Player} (h : SideOkB b pl) : capL b.toList pl ≤ B := by
  have := cap_le_B h
  simp only [countPieces_eq] at this
  unfold capL B vmax
  simp only
  omega

/-- **a cache that is compatible with a board of possible material sums to a value in `[-B, B]`** -/
theorem sum_range {b : Board} {v : Vector Int 64} (hb : CacheBounded b v) (hm : MaterialOk b) :
    -B ≤ v.toList.foldr (· + ·) 0 ∧ v.toList.foldr (· + ·) 0 ≤ B := by
  have hlen : b.toList.length = v.toList.length := by simp
  have hz : ∀ e ∈ List.zip b.toList v.toList, Bounded e.1 e.2 := by
    intro e he
    obtain ⟨i, hi, rfl⟩ := List.mem_iff_getElem.mp he
    have hi' : i < 64 := by simp at hi; omega
    rw [List.getElem_zip]
    simpa using hb i hi'
  have e1 : sumL (List.zip b.toList v.toList) = v.toList.foldr (· + ·) 0 := by
    unfold sumL
    rw [show (fun x : Option Piece × Int => x.2) = Prod.snd from rfl, List.map_snd_zip (by omega)]
  have e2 : (List.zip b.toList v.toList).map (·.1) = b.toList := by
    rw [show (fun x : Option Piece × Int => x.1) = Prod.fst from rfl, List.map_fst_zip (by omega)]
  have hs := sumL_eq _ hz
  have hw := sideSum_bounds .white _ hz
  have hk := sideSum_bounds .black _ hz
  rw [e2] at hw hk
  have cw := capL_le_B hm.1
  have ck := capL_le_B hm.2
  rw [← e1, hs]
  omega

/-! ## 6. Writes on a board and their effect on the counts -/

/-- the board part of `set_position` -/
def bset (b : Board) (p : Pos) (x : Option Piece) : Board :=
  if h : p.idx < 64 then b.set p.idx x else b

/-- `get_position` on a board -/
def bget (b : Board) (p : Pos) : Option Piece := if h : p.idx < 64 then b[p.idx] else none

def bsetMany (b : Board) : List (Pos × Option Piece) → Board
  | [] => b
  | (p, x) :: l => bsetMany (bset b p x) l

/-- indicator of "this square holds exactly `⟨t, pl⟩`" -/
def ind (pl : Player) (t : PieceType) (o : Option Piece) : Nat := if o = some ⟨t, pl⟩ then 1 else 0

@[simp] theorem ind_none (pl : Player) (t : PieceType) : ind pl t none = 0 := rfl

theorem ind_le_one (pl : Player) (t : PieceType) (o : Option Piece) : ind pl t o ≤ 1 := by
  unfold ind; split <;> omega

theorem cntL_set (l : List (Option Piece)) (i : Nat) (x : Option Piece) (h : i < l.length)
    (pl : Player) (t : PieceType) :
    cntL (l.set i x) pl t + ind pl t l[i] = cntL l pl t + ind pl t x := by
  induction l generalizing i with
  | nil => simp at h
  | cons a l ih =>
    cases i with
    | zero =>
      simp only [List.set_cons_zero, cntL_cons, List.getElem_cons_zero, ind]; omega
    | succ i =>
      have := ih i (by simpa using h)
      simp only [List.set_cons_succ, cntL_cons, List.getElem_cons_succ]
      omega

theorem bget_of_valid (b : Board) {p : Pos} (hp : p.Valid) : bget b p = b[p.idx]'(Pos.idx_lt hp) := by
  unfold bget; rw [dif_pos (Pos.idx_lt hp)]

theorem bset_of_valid (b : Board) {p : Pos} (hp : p.Valid) (x : Option Piece) :
    bset b p x = b.set p.idx x (Pos.idx_lt hp) := by
  unfold bset; rw [dif_pos (Pos.idx_lt hp)]

/-- one write: what stood there leaves the count, what is put enters it -/
theorem count_bset (b : Board) {p : Pos} (hp : p.Valid) (x : Option Piece) (pl : Player)
    (t : PieceType) :
    countPieces (bset b p x) pl t + ind pl t (bget b p) = countPieces b pl t + ind pl t x := by
  rw [bset_of_valid b hp, bget_of_valid b hp, countPieces_eq, countPieces_eq, Vector.toList_set]
  have := cntL_set b.toList p.idx x (by simpa using Pos.idx_lt hp) pl t
  simpa using this

theorem bget_bset_ne (b : Board) {p q : Pos} (hp : p.Valid) (hq : q.Valid) (x : Option Piece)
    (hne : q ≠ p) : bget (bset b p x) q = bget b q := by
  rw [bget_of_valid _ hq, bget_of_valid _ hq]
  simp only [bset_of_valid b hp]
  have : p.idx ≠ q.idx := fun e => hne (Pos.idx_inj hq hp e.symm)
  rw [Vector.getElem_set_ne _ _ this]

def sumOld (pl : Player) (t : PieceType) (b : Board) (l : List (Pos × Option Piece)) : Nat :=
  (l.map fun e => ind pl t (bget b e.1)).sum
def sumNew (pl : Player) (t : PieceType) (l : List (Pos × Option Piece)) : Nat :=
  (l.map fun e => ind pl t e.2).sum

/-- **balance of a sequence of writes to pairwise distinct squares of the board**, per piece -/
theorem count_bsetMany (b : Board) (l : List (Pos × Option Piece)) (hv : ∀ e ∈ l, e.1.Valid)
    (hd : l.Pairwise (fun a b => a.1 ≠ b.1)) (pl : Player) (t : PieceType) :
    countPieces (bsetMany b l) pl t + sumOld pl t b l = countPieces b pl t + sumNew pl t l := by
  induction l generalizing b with
  | nil => simp [bsetMany, sumOld, sumNew]
  | cons e l ih =>
    obtain ⟨p, x⟩ := e
    have hp : p.Valid := hv (p, x) (by simp)
    rw [List.pairwise_cons] at hd
    have h1 := ih (bset b p x) (fun e he => hv e (by simp [he])) hd.2
    have h2 := count_bset b hp x pl t
    have h3 : sumOld pl t (bset b p x) l = sumOld pl t b l := by
      unfold sumOld
      congr 1
      apply List.map_congr_left
      intro e he
      rw [bget_bset_ne b hp (hv e (by simp [he])) x (fun h => hd.1 e he h.symm)]
    rw [h3] at h1
    simp only [bsetMany, sumOld, sumNew, List.map_cons, List.sum_cons] at h1 h2 ⊢
    omega

/-- the invariant is downward closed in the counts -/
theorem sideOkB_mono {b b' : Board} {pl : Player} (h : SideOkB b pl)
    (hle : ∀ t, countPieces b' pl t ≤ countPieces b pl t) : SideOkB b' pl := by
  have k := hle .king; have q := hle .queen; have r := hle .rook
  have bb := hle .bishop; have n := hle .knight; have p := hle .pawn
  unfold SideOkB SideOk at *
  omega

/-- a pawn of `pl` becomes a non-king man of `pl` (everything else does not grow): still fine -/
theorem sideOkB_promo {b b' : Board} {pl : Player} (h : SideOkB b pl) (t0 : PieceType)
    (ht0 : t0 ≠ .king)
    (hp : countPieces b' pl .pawn + 1 ≤ countPieces b pl .pawn + (if t0 = .pawn then 1 else 0))
    (hle : ∀ t, t ≠ .pawn → countPieces b' pl t ≤ countPieces b pl t + (if t = t0 then 1 else 0)) :
    SideOkB b' pl := by
  have k := hle .king (by decide); have q := hle .queen (by decide); have r := hle .rook (by decide)
  have bb := hle .bishop (by decide); have n := hle .knight (by decide)
  unfold SideOkB SideOk at *
  cases t0 <;> simp at * <;> omega

/-- emptying a square never breaks the invariant -/
theorem materialOk_bset_none {b : Board} (h : MaterialOk b) (p : Pos) : MaterialOk (bset b p none) := by
  by_cases hp : p.idx < 64
  · have hv : ∀ pl t, countPieces (bset b p none) pl t ≤ countPieces b pl t := by
      intro pl t
      unfold bset; rw [dif_pos hp]
      rw [countPieces_eq, countPieces_eq, Vector.toList_set]
      have := cntL_set b.toList p.idx none (by simpa using hp) pl t
      simp only [ind_none] at this
      omega
    exact ⟨sideOkB_mono h.1 (hv .white), sideOkB_mono h.2 (hv .black)⟩
  · unfold bset; rw [dif_neg hp]; exact h

/-! ### prefixes of a write list and the boards between the half-steps of `set_position` -/

def inits {α : Type} : List α → List (List α)
  | [] => [[]]
  | a :: l => [] :: (inits l).map (a :: ·)

/-- the boards whose piece-square sums the score passes through: for each write, the board with the
square emptied (`score -= old`), then the board with the new content (`score += new`) -/
def midBoards (b : Board) : List (Pos × Option Piece) → List Board
  | [] => []
  | (p, x) :: l => bset b p none :: bset b p x :: midBoards (bset b p x) l

theorem midBoards_of_inits (b : Board) (l : List (Pos × Option Piece))
    (h : ∀ l' ∈ inits l, MaterialOk (bsetMany b l')) : ∀ b' ∈ midBoards b l, MaterialOk b' := by
  induction l generalizing b with
  | nil => intro b' hb'; simp [midBoards] at hb'
  | cons e l ih =>
    obtain ⟨p, x⟩ := e
    have h0 : MaterialOk b := h [] (by simp [inits])
    have h1 : MaterialOk (bset b p x) := by
      have : [] ∈ inits l := by cases l <;> simp [inits]
      exact h [(p, x)] (by simp only [inits, List.mem_cons, List.mem_map]; exact .inr ⟨[], this, rfl⟩)
    have h2 : ∀ l' ∈ inits l, MaterialOk (bsetMany (bset b p x) l') := by
      intro l' hl'
      exact h ((p, x) :: l') (by simp only [inits, List.mem_cons, List.mem_map]; exact .inr ⟨l', hl', rfl⟩)
    intro b' hb'
    simp only [midBoards, List.mem_cons] at hb'
    rcases hb' with rfl | rfl | hb'
    · exact materialOk_bset_none h0 p
    · exact h1
    · exact ih _ h2 b' hb'

/-! ## 7. A king that is on the board is worth at least 19950 (used for take-back, where the
moving king stands on two squares for one half-step) -/

/-- smallest entry of the two king tables -/
def kingMin : Int := 19950

def tableAtLeast (a : Array Int) (lo : Int) : Bool := a.all fun x => decide (lo ≤ x)

theorem king_tables_min :
    tableAtLeast Gen.kingScoresMiddle 19950 = true ∧ tableAtLeast Gen.kingScoresEnd 19950 = true
    ∧ Gen.kingScoresMiddle.contains 19950 = true ∧ Gen.kingScoresEnd.contains 19950 = true
    ∧ Gen.kingScoresMiddle.size = 64 ∧ Gen.kingScoresEnd.size = 64 := by
  decide +kernel

/-- a king on a square of the board is worth at least `kingMin`, in either phase -/
theorem king_score_lb (pl : Player) {p : Pos} (hp : p.Valid) (e : Bool) :
    kingMin ≤ (Piece.score ⟨.king, pl⟩ p e) * pl.sign := by
  obtain ⟨h1, h2, -, -, s1, s2⟩ := king_tables_min
  unfold Piece.score
  simp only
  rw [Int.mul_assoc, sign_mul_sign, Int.mul_one]
  have key : ∀ i, i < 64 → kingMin ≤ (Piece.scoreTable .king e).getD i 0 := by
    intro i hi
    unfold tableAtLeast at h1 h2
    rw [Array.all_eq_true] at h1 h2
    rw [Array.getD_eq_getD_getElem?]
    cases e
    · have hi' : i < Gen.kingScoresMiddle.size := by omega
      simp only [Piece.scoreTable, Bool.false_eq_true, if_false]
      rw [Array.getElem?_eq_getElem hi']
      simpa [kingMin] using h1 i hi'
    · have hi' : i < Gen.kingScoresEnd.size := by omega
      simp only [Piece.scoreTable, if_true]
      rw [Array.getElem?_eq_getElem hi']
      simpa [kingMin] using h2 i hi'
  unfold Pos.Valid at hp
  cases pl
  · exact key ((7 - p.row) * 8 + p.col).toNat (by omega)
  · exact key (p.row * 8 + p.col).toNat (by omega)

/-- every king recorded in the cache is recorded with at least `kingMin` -/
def KingLB (b : Board) (v : Vector Int 64) : Prop :=
  ∀ (i : Nat) (h : i < 64) (pl : Player), b[i] = some ⟨.king, pl⟩ → kingMin ≤ v[i] * pl.sign

theorem sideSum_king_lb (pl : Player) (l : List (Option Piece × Int))
    (h : ∀ e ∈ l, Bounded e.1 e.2)
    (hk : ∀ e ∈ l, e.1 = some ⟨.king, pl⟩ → kingMin ≤ e.2 * pl.sign) :
    kingMin * cntL (l.map (·.1)) pl .king ≤ sideSum pl l := by
  induction l with
  | nil => simp [sideSum, cntL]
  | cons a l ih =>
    obtain ⟨o, s⟩ := a
    have ih' := ih (fun e he => h e (by simp [he])) (fun e he => hk e (by simp [he]))
    have ha := h (o, s) (by simp)
    have hka := hk (o, s) (by simp)
    simp only [sideSum, List.map_cons, cntL_cons] at ih' ⊢
    unfold kingMin at *
    cases o with
    | none => simp; exact ih'
    | some pc =>
      obtain ⟨t, o⟩ := pc
      simp only [Bounded] at ha
      cases t <;> cases o <;> cases pl <;> simp at ha hka ih' ⊢ <;> omega

/-- **with the other side's king on the board, the sum seen from `pl` is at most `B − 19950`** -/
theorem sum_range_king {b : Board} {v : Vector Int 64} (hb : CacheBounded b v) (hk : KingLB b v)
    (hm : MaterialOk b) (pl : Player) (h1 : countPieces b pl.other .king = 1) :
    v.toList.foldr (· + ·) 0 * pl.sign ≤ B - kingMin := by
  have hlen : b.toList.length = v.toList.length := by simp
  have hz : ∀ e ∈ List.zip b.toList v.toList, Bounded e.1 e.2 := by
    intro e he
    obtain ⟨i, hi, rfl⟩ := List.mem_iff_getElem.mp he
    have hi' : i < 64 := by simp at hi; omega
    rw [List.getElem_zip]
    simpa using hb i hi'
  have hzk : ∀ pl', ∀ e ∈ List.zip b.toList v.toList, e.1 = some ⟨.king, pl'⟩ → kingMin ≤ e.2 * pl'.sign := by
    intro pl' e he
    obtain ⟨i, hi, rfl⟩ := List.mem_iff_getElem.mp he
    have hi' : i < 64 := by simp at hi; omega
    rw [List.getElem_zip]
    simpa using hk i hi' pl'
  have e1 : sumL (List.zip b.toList v.toList) = v.toList.foldr (· + ·) 0 := by
    unfold sumL
    rw [show (fun x : Option Piece × Int => x.2) = Prod.snd from rfl, List.map_snd_zip (by omega)]
  have e2 : (List.zip b.toList v.toList).map (·.1) = b.toList := by
    rw [show (fun x : Option Piece × Int => x.1) = Prod.fst from rfl, List.map_fst_zip (by omega)]
  have hs := sumL_eq _ hz
  have hw := sideSum_bounds .white _ hz
  have hbk := sideSum_bounds .black _ hz
  have lw := sideSum_king_lb .white _ hz (hzk .white)
  have lb := sideSum_king_lb .black _ hz (hzk .black)
  rw [e2] at hw hbk lw lb
  have cw := capL_le_B hm.1
  have ck := capL_le_B hm.2
  rw [← e1, hs]
  rw [countPieces_eq] at h1
  unfold kingMin at *
  cases pl
  · simp only [Player.other] at h1
    rw [h1] at lb
    simp only [Player.sign]; omega
  · simp only [Player.other] at h1
    rw [h1] at lw
    simp only [Player.sign]; omega

theorem vmax_le_of_ne_king {t : PieceType} (h : t ≠ .king) : vmax t ≤ 905 := by
  cases t <;> simp [vmax] at h ⊢

end Chess.Range
