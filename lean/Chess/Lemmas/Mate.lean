import Chess.Lemmas.SearchDriver

/-!
# Mate in one (C10)

"From a fresh table, if the side to move can give checkmate in one move, a search to depth 3 or
more plays a mating move and stops by itself once the mate is seen; in a position with no legal
move the engine reports no move."

Everything is proved for EVERY game interface `Ops G M`. Main statements:

* `mate_in_one_found` (and the form `mate_in_one_found'` with `o.repetition g = none` and an
  injective hash): fresh table, flag that stays up, C09 hook on or off, no limit or a limit `≥ 3`;
  hypotheses `Bounded o` (static evaluations in `[-31767, 31767]`, i.e. never in the driver's mate
  range), `HashSep o g` (no position with a legal move shares its hash with a mated child of the
  root), some move kept by the repetition filter mates. Conclusion: the answer is a mating move,
  `stopped = false`, no report deeper than 3. `mate_in_one_many` adds: with two or more legal
  moves the reported depths are exactly `[1, 2, 3]` and the last score is `mateScore = 32667`.
  With a single legal move (`mate_in_one_single`) the only-move shortcut answers at depth 1.
* `dead_root_reports_none`: no legal move, fresh table, ANY flag, hook, limit: `found = none`,
  one report. (`dead_root_reports_none_of_TTInv` re-exports `driver_none_iff` for tables satisfying
  `TTInv`; for an arbitrary table the statement is false: `driver_returns_cached_move`.)
* `mated_child_value`: a mated node with `remaining ≥ 2` and no table entry under its hash returns
  exactly `scoreMin + 100 + rd` whatever the window, and only polls.

## How the proof goes

`Rng α β r := min β (-evalBound) ≤ r ≤ max α evalBound` (with `evalBound = scoreMax - 1000`) is
obeyed, for EVERY window (also empty or inverted ones), by `qsearch` (`qsearch_rng`), `depth1`
(`depth1_rng`), and by a table cut-off as soon as the table satisfies `TTOk`: every entry has a
score `≤ evalBound` unless its flag is `upper`, `≥ -evalBound` unless its flag is `lower`, a
bounded depth, and sits under the hash of a position that has a legal move. So in iterations 1 and
2 every root score lies in `[-evalBound, evalBound]` (`rootLoop_low`, `rootSearch_low`): no early
exit through the mate range, and the root entries stored keep `TTOk`. At iteration 3 a child of
the root is either mated, and then returns exactly `scoreMin + 101` (nothing is stored under its
hash by `TTOk` and `HashSep`), or obeys `Rng` for the windows the root uses (`node2_rng`; the entry
it stores keeps `TTOk` because these windows have `α ≤ evalBound` and `α < β`). Hence
(`rootLoop_mate`) the best score is `≤ evalBound`, or it is `mateScore` and the best move mates;
and it is `mateScore` once a mating move has been looped over. The driver then exits through
`bestScore > scoreMax - 1000`.

## Sharpness (brute force on random games, and the `#guard`s of the `Example` section)

* `evalBound = 31767` is sharp: with one evaluation equal to `±31768` iteration 1 or 2 ends the
  search in the mate range with a move that does not mate (`Example.exBig`; 172 of 1537 random
  games with two or more root moves). With evaluations in `±31767`: 0 failure in 8873 random games
  (transpositions, cycles, `unchecked` unrelated to `checked`, several move orderings; 1954 of
  them with hash collisions allowed by `HashSep`); without `HashSep`, 3637 failures in 20000.
* `HashSep` cannot be dropped: if the mated child shares its hash with the root, at iteration 3 it
  returns the score of the root entry of iteration 2 and the mate is never seen
  (`Example.exCollide`: the engine plays another move and searches to depth 32).
* a limit of 2 does not see the mate as a mate (score `30767`, the no-move value of `depth1`), but
  then the limit ends the search; which move is played is not covered here.
-/
namespace Chess.Search.Mate
open Chess.Search

variable {G M : Type}

/-! ## Definitions -/

/-- no legal move and in check -/
def Mated (o : Ops G M) (g : G) : Prop := o.checked g = [] ∧ o.safe g = false

/-- a legal move after which the opponent is mated -/
def MatingMove (o : Ops G M) (g : G) (m : M) : Prop := m ∈ o.checked g ∧ Mated o (o.push g m)

/-- the largest static evaluation that is not in the driver's mate range: `31767` -/
def evalBound : Int := scoreMax - Gen.exitHi

/-- the score the root gives to a move that mates: `32667` -/
def mateScore : Int := -(scoreMin + Gen.mateNode + 1)

/-- static evaluations are never in the driver's mate range -/
def Bounded (o : Ops G M) : Prop := ∀ g, -evalBound ≤ o.eval g ∧ o.eval g ≤ evalBound

/-- the window-relative bound obeyed by every value that is not an exact mate score -/
def Rng (α β r : Int) : Prop := min β (-evalBound) ≤ r ∧ r ≤ max α evalBound

local macro "nums" : tactic =>
  `(tactic| simp only [Rng, evalBound, mateScore, scoreMax, scoreMin, Gen.exitHi, Gen.exitLo,
      Gen.mateNode, Gen.mateD1, Gen.mateQ, Gen.fullWindowMaxIndex] at *)

/-! ## quiescence and depth 1 -/

theorem qLoop_rng (o : Ops G M) (child : G → Int → Int → Int → Int) (g : G) (β rd T : Int)
    (hchild : ∀ c a b, Rng a b (child c a b (rd + 1))) (hT : evalBound ≤ T) :
    ∀ (ms : List M) (alpha : Int), -evalBound ≤ alpha → alpha ≤ T →
      min β (-evalBound) ≤ qLoop o child g β rd ms alpha ∧ qLoop o child g β rd ms alpha ≤ T := by
  intro ms
  induction ms with
  | nil =>
    intro alpha h1 h2
    simp only [qLoop]
    omega
  | cons m ms ih =>
    intro alpha h1 h2
    simp only [qLoop]
    split
    · exact ih alpha h1 h2
    · have hc := hchild (o.push g m) (-β) (-alpha)
      generalize child (o.push g m) (-β) (-alpha) (rd + 1) = v at hc ⊢
      unfold Rng at hc
      have key : ∀ a', alpha ≤ a' → a' ≤ max alpha (-v) →
          min β (-evalBound) ≤ (if a' ≥ β then β else qLoop o child g β rd ms a') ∧
          (if a' ≥ β then β else qLoop o child g β rd ms a') ≤ T := by
        intro a' k1 k2
        split
        · omega
        · exact ih a' (by omega) (by omega)
      split
      · exact key _ (by omega) (by omega)
      · exact key _ (by omega) (by omega)

theorem qsearch_rng (o : Ops G M) (hb : Bounded o) :
    ∀ (fuel : Nat) (g : G) (α β rd : Int), 0 ≤ rd → rd + fuel ≤ 1000 →
      Rng α β (qsearch o fuel g α β rd) := by
  intro fuel
  induction fuel with
  | zero =>
    intro g α β rd _ _
    have := hb g
    simp only [qsearch]
    unfold Rng
    omega
  | succ f ih =>
    intro g α β rd h0 h1
    have he := hb g
    simp only [qsearch]
    split
    · unfold Rng; omega
    · split
      · split
        · nums; omega
        · nums; omega
      · have := qLoop_rng o (qsearch o f) g β rd (max α evalBound)
          (fun c a b => ih c a b (rd + 1) (by omega) (by omega)) (by omega)
          (o.unchecked g) (max α (o.eval g)) (by omega) (by omega)
        exact this

theorem d1Loop_rng (o : Ops G M) (g : G) (β rd T : Int)
    (hq : ∀ c a b, Rng a b (qsearch o qFuel c a b (rd + 1))) (hT : evalBound ≤ T) :
    ∀ (ms : List M) (alpha : Int), alpha ≤ T →
      alpha ≤ d1Loop o g β rd ms alpha ∧ d1Loop o g β rd ms alpha ≤ T ∧
      (ms ≠ [] → min β (-evalBound) ≤ d1Loop o g β rd ms alpha) := by
  intro ms
  induction ms with
  | nil =>
    intro alpha h2
    simp only [d1Loop]
    exact ⟨Int.le_refl _, h2, fun h => absurd rfl h⟩
  | cons m ms ih =>
    intro alpha h2
    simp only [d1Loop]
    have hc := hq (o.push g m) (-β) (-alpha)
    generalize qsearch o qFuel (o.push g m) (-β) (-alpha) (rd + 1) = v at hc ⊢
    unfold Rng at hc
    have key : ∀ a', alpha ≤ a' → -v ≤ a' → a' ≤ max alpha (-v) →
        alpha ≤ (if a' ≥ β then a' else d1Loop o g β rd ms a') ∧
        (if a' ≥ β then a' else d1Loop o g β rd ms a') ≤ T ∧
        (m :: ms ≠ [] → min β (-evalBound) ≤ (if a' ≥ β then a' else d1Loop o g β rd ms a')) := by
      intro a' k1 k2 k3
      split
      · exact ⟨k1, by omega, fun _ => by omega⟩
      · obtain ⟨i1, i2, _⟩ := ih a' (by omega)
        exact ⟨by omega, i2, fun _ => by omega⟩
    split
    · exact key _ (by omega) (by omega) (by omega)
    · exact key _ (by omega) (by omega) (by omega)

theorem depth1_rng (o : Ops G M) (hb : Bounded o) (g : G) (α β rd : Int) (h0 : 0 ≤ rd)
    (h1 : rd ≤ 800) : Rng α β (depth1 o g α β rd) := by
  unfold depth1
  simp only []
  split
  · split
    · nums; omega
    · nums; omega
  · next hne =>
    obtain ⟨k1, k2, k3⟩ := d1Loop_rng o g β rd (max α evalBound)
      (fun c a b => qsearch_rng o hb qFuel c a b (rd + 1) (by omega) (by unfold qFuel; omega))
      (by omega) (o.unchecked g) α (by omega)
    have hne' : o.unchecked g ≠ [] := by
      intro h; rw [h] at hne; exact hne rfl
    exact ⟨k3 hne', k2⟩

/-! ## the table invariant -/

/-- every entry has depth at most `d`, a score that is not in the mate range on the side on which
its flag makes it usable, and is stored under the hash of a position that has a legal move -/
def TTOk (o : Ops G M) (d : Nat) (tt : Table M) : Prop :=
  ∀ (h : UInt64) (e : Entry M), tt[h]? = some e →
    e.depth ≤ d ∧ (e.flag ≠ Flag.upper → e.score ≤ evalBound) ∧
    (e.flag ≠ Flag.lower → -evalBound ≤ e.score) ∧ ∃ x, o.hash x = h ∧ o.checked x ≠ []

theorem TTOk_empty (o : Ops G M) (d : Nat) : TTOk o d ({} : Table M) := by
  intro h e he
  rw [Std.HashMap.getElem?_empty] at he
  cases he

theorem TTOk.mono {o : Ops G M} {d d' : Nat} {tt : Table M} (h : TTOk o d tt) (hd : d ≤ d') :
    TTOk o d' tt := by
  intro k e he
  obtain ⟨h1, h2⟩ := h k e he
  exact ⟨Nat.le_trans h1 hd, h2⟩

theorem TTOk.insert {o : Ops G M} {d : Nat} {tt : Table M} (h : TTOk o d tt) (x : G) (e : Entry M)
    (hx : o.checked x ≠ []) (hd : e.depth ≤ d) (h1 : e.flag ≠ Flag.upper → e.score ≤ evalBound)
    (h2 : e.flag ≠ Flag.lower → -evalBound ≤ e.score) : TTOk o d (tt.insert (o.hash x) e) := by
  intro k e' he
  rw [Std.HashMap.getElem?_insert] at he
  split at he
  · next hk =>
    cases he
    exact ⟨hd, h1, h2, x, eq_of_beq hk, hx⟩
  · exact h k e' he

theorem TTOk.poll {o : Ops G M} {d : Nat} {st : St M} (h : TTOk o d st.tt) :
    TTOk o d (pollSt st).tt := by
  simp only [pollSt]
  split
  · exact TTOk_empty o d
  · exact h

theorem ttCut_rng {o : Ops G M} {d : Nat} {tt : Table M} (h : TTOk o d tt) (k : UInt64)
    (rem : Nat) (a b v : Int) (hv : ttCut tt[k]? rem a b = some v) : Rng a b v := by
  unfold ttCut at hv
  split at hv
  · next e he =>
    obtain ⟨_, h1, h2, _⟩ := h k e he
    split at hv
    · split at hv
      · next hf =>
        cases hv
        have := h1 (by rw [hf]; decide); have := h2 (by rw [hf]; decide)
        unfold Rng; omega
      · next hf =>
        split at hv
        · cases hv
          have := h1 (by rw [hf]; decide)
          unfold Rng; omega
        · cases hv
      · next hf =>
        split at hv
        · cases hv
          have := h2 (by rw [hf]; decide)
          unfold Rng; omega
        · cases hv
    · cases hv
  · cases hv

variable [DecidableEq M]

/-- the leaves of iterations 1, 2 and 3: a node with `remaining ≤ 1` answers, only polls, and its
value obeys the window-relative bound -/
theorem node01_rng {o : Ops G M} (hb : Bounded o) {runs : Nat → Bool} (hr : ∀ i, runs i = true)
    {d : Nat} (r : Nat) (hr1 : r ≤ 1) (c : G) (a b rd : Int) (h0 : 0 ≤ rd) (h1 : rd ≤ 800)
    (st : St M) (hQ : TTOk o d st.tt) :
    ∃ v, node o runs r c a b rd st = some (v, pollSt st) ∧ Rng a b v := by
  rw [node_eq]
  simp only [hr, Bool.not_true, Bool.false_eq_true, if_false]
  split
  · next v hv => exact ⟨v, rfl, ttCut_rng hQ.poll _ _ _ _ _ hv⟩
  · match r with
    | 0 => exact ⟨_, rfl, qsearch_rng o hb qFuel c a b rd h0 (by unfold qFuel; omega)⟩
    | 1 => exact ⟨_, rfl, depth1_rng o hb c a b rd h0 h1⟩
    | r + 2 => omega

/-! ## the root loop of iterations 1 and 2 -/

/-- the child answers every call made in a state whose table is fine, keeps the table fine, and
its value obeys the window-relative bound -/
def ChildRng (o : Ops G M) (d : Nat) (child : G → Int → Int → Int → St M → Option (Int × St M))
    (c : G) (rd : Int) : Prop :=
  ∀ a b st, TTOk o d st.tt →
    ∃ v st', child c a b rd st = some (v, st') ∧ TTOk o d st'.tt ∧ Rng a b v

omit [DecidableEq M] in
theorem rootLoop_low (o : Ops G M) (d : Nat)
    (child : G → Int → Int → Int → St M → Option (Int × St M)) (g : G) (ms : List M)
    (hc : ∀ m ∈ ms, ChildRng o d child (o.push g m) 1) :
    ∀ (index : Nat) (bs : Int) (bm : Option M) (st : St M), TTOk o d st.tt →
      scoreMin + 1 ≤ bs → bs ≤ evalBound → (index ≤ Gen.fullWindowMaxIndex ∨ -evalBound ≤ bs) →
      ∃ bs' bm' st', rootLoop o child g ms index bs bm st = some (bs', bm', st') ∧
        TTOk o d st'.tt ∧ scoreMin + 1 ≤ bs' ∧ bs' ≤ evalBound ∧
        ((-evalBound ≤ bs ∨ ms ≠ []) → -evalBound ≤ bs') := by
  induction ms with
  | nil =>
    intro index bs bm st hQ h1 h2 _
    refine ⟨bs, bm, st, rfl, hQ, h1, h2, fun h => ?_⟩
    rcases h with h | h
    · exact h
    · exact absurd rfl h
  | cons m ms ih =>
    intro index bs bm st hQ h1 h2 h3
    have ih' := ih (fun m' hm' => hc m' (List.mem_cons_of_mem _ hm'))
    have hcm := hc m List.mem_cons_self
    unfold rootLoop
    simp only []
    by_cases hidx : index ≤ Gen.fullWindowMaxIndex
    · simp only [hidx, if_true]
      obtain ⟨v, st1, he, hQ1, hv⟩ := hcm (scoreMin + 1) (-bs) st hQ
      rw [he]
      simp only []
      have hv' : -evalBound ≤ -v ∧ -v ≤ evalBound := by nums; omega
      by_cases hs : -v > bs
      · simp only [hs, if_true]
        obtain ⟨bs', bm', st', k1, k2, k3, k4, k5⟩ :=
          ih' (index + 1) (-v) (some m) st1 hQ1 (by omega) hv'.2 (Or.inr hv'.1)
        exact ⟨bs', bm', st', k1, k2, k3, k4, fun _ => k5 (Or.inl hv'.1)⟩
      · simp only [hs, if_false]
        obtain ⟨bs', bm', st', k1, k2, k3, k4, k5⟩ :=
          ih' (index + 1) bs bm st1 hQ1 h1 h2 (Or.inr (by omega))
        exact ⟨bs', bm', st', k1, k2, k3, k4, fun _ => k5 (Or.inl (by omega))⟩
    · simp only [hidx, if_false]
      have h3 : -evalBound ≤ bs := by
        rcases h3 with h | h
        · exact absurd h hidx
        · exact h
      obtain ⟨v, st1, he, hQ1, hv⟩ := hcm (-bs - 1) (-bs) st hQ
      rw [he]
      simp only []
      have hv' : -evalBound ≤ -v ∧ -v ≤ evalBound := by nums; omega
      by_cases hs : -v > bs
      · simp only [hs, if_true]
        obtain ⟨v2, st2, he2, hQ2, hv2⟩ := hcm (scoreMin + 1) (- -v) st1 hQ1
        rw [he2]
        simp only []
        have hv2' : -evalBound ≤ -v2 ∧ -v2 ≤ evalBound := by nums; omega
        obtain ⟨bs', bm', st', k1, k2, k3, k4, k5⟩ :=
          ih' (index + 1) (-v2) (some m) st2 hQ2 (by nums; omega) hv2'.2 (Or.inr hv2'.1)
        exact ⟨bs', bm', st', k1, k2, k3, k4, fun _ => k5 (Or.inl hv2'.1)⟩
      · simp only [hs, if_false]
        obtain ⟨bs', bm', st', k1, k2, k3, k4, k5⟩ :=
          ih' (index + 1) bs bm st1 hQ1 h1 h2 (Or.inr h3)
        exact ⟨bs', bm', st', k1, k2, k3, k4, fun _ => k5 (Or.inl h3)⟩

/-! ## the stores -/

omit [DecidableEq M] in
theorem TTOk.rootStore {o : Ops G M} {d : Nat} {st : St M} (h : TTOk o d st.tt) (x : G) (k : Nat)
    (e : Entry M) (hx : o.checked x ≠ []) (hd : e.depth ≤ d)
    (h1 : e.flag ≠ Flag.upper → e.score ≤ evalBound)
    (h2 : e.flag ≠ Flag.lower → -evalBound ≤ e.score) :
    TTOk o d (rootStore (o.hash x) k e st).tt := by
  unfold Chess.Search.rootStore
  split
  · split
    · exact h.insert x e hx hd h1 h2
    · exact h
  · exact h.insert x e hx hd h1 h2

omit [DecidableEq M] in
theorem TTOk.nodeStore {o : Ops G M} {d : Nat} {st : St M} (h : TTOk o d st.tt) (x : G) (k : Nat)
    (e : Entry M) (hx : o.checked x ≠ []) (hd : e.depth ≤ d)
    (h1 : e.flag ≠ Flag.upper → e.score ≤ evalBound)
    (h2 : e.flag ≠ Flag.lower → -evalBound ≤ e.score) :
    TTOk o d (nodeStore (o.hash x) k e st).tt := by
  unfold Chess.Search.nodeStore
  split
  · split
    · exact h.insert x e hx hd h1 h2
    · exact h
  · exact h.insert x e hx hd h1 h2

/-! ## the root search of iterations 1 and 2 -/

theorem rootMoves_checked_ne {o : Ops G M} {g : G} (h : rootMoves o g ≠ []) : o.checked g ≠ [] := by
  cases hm : rootMoves o g with
  | nil => exact absurd hm h
  | cons m ms =>
    have : m ∈ o.checked g := mem_rootMoves (by rw [hm]; exact List.mem_cons_self)
    intro h0; rw [h0] at this; cases this

theorem rootSorted_ne {o : Ops G M} {g : G} (h : rootMoves o g ≠ []) (st : St M) :
    rootSorted o g st ≠ [] := by
  intro h0
  have := length_sortMoves (moveKey o ((ttGet st (o.hash g)).bind (·.pv)) none st.history)
    (rootMoves o g)
  unfold rootSorted at h0
  rw [h0] at this
  exact h (List.eq_nil_of_length_eq_zero this.symm)

theorem rootSearch_low (o : Ops G M) (runs : Nat → Bool) (g : G) (k : Nat) (hk : 1 ≤ k)
    (st : St M) (hQ : TTOk o (k - 1) st.tt) (hl : (o.checked g).length ≠ 1)
    (hne : rootMoves o g ≠ [])
    (hc : ∀ c, ChildRng o k (node o runs (k - 1)) c 1) :
    ∃ bm bs st', rootSearch o runs g k st = some ((bm, bs, false), st') ∧ TTOk o k st'.tt ∧
      -evalBound ≤ bs ∧ bs ≤ evalBound := by
  rw [rootSearch_eq, if_neg hl]
  have hmiss : rootHit (ttGet (rootSt st) (o.hash g)) k = none := by
    apply rootHit_none_of_miss
    intro e he h
    have := (hQ _ e he).1
    omega
  rw [hmiss]
  simp only []
  have hQ0 : TTOk o k (rootSt st).tt := hQ.mono (by omega)
  obtain ⟨bs', bm', st', k1, k2, k3, k4, k5⟩ :=
    rootLoop_low o k (node o runs (k - 1)) g (rootSorted o g (rootSt st))
      (fun m _ => hc (o.push g m)) 0 (scoreMin + 1) none (rootSt st) hQ0 (Int.le_refl _)
      (by nums; omega) (Or.inl (Nat.zero_le _))
  rw [k1]
  have k5 := k5 (Or.inr (rootSorted_ne hne _))
  refine ⟨bm', bs', _, rfl, ?_, k5, k4⟩
  exact k2.rootStore g k _ (rootMoves_checked_ne hne) (Nat.le_refl _) (fun _ => k4) (fun _ => k5)

/-! ## an interior node over children that obey the bound -/

omit [DecidableEq M] in
theorem nodeStep_rng (o : Ops G M) (d : Nat)
    (child : G → Int → Int → Int → St M → Option (Int × St M)) (g : G) (rd β T : Int)
    (hT : evalBound ≤ T) (m : M) (hc : ChildRng o d child (o.push g m) (rd + 1))
    (index : Nat) (alpha bs : Int) (bm : Option M) (st : St M) (hQ : TTOk o d st.tt)
    (h1 : alpha ≤ T) (h2 : bs ≤ T)
    (h3 : index ≤ Gen.fullWindowMaxIndex ∨
      (min β (-evalBound) ≤ alpha ∧ min β (-evalBound) ≤ bs)) :
    ∃ a' bs' bm' st', nodeStep o child g rd β m index alpha bs bm st = some (a', bs', bm', st') ∧
      TTOk o d st'.tt ∧ a' ≤ T ∧ bs' ≤ T ∧ min β (-evalBound) ≤ a' ∧ min β (-evalBound) ≤ bs' := by
  unfold nodeStep
  simp only []
  by_cases hidx : index ≤ Gen.fullWindowMaxIndex
  · rw [if_pos hidx]
    obtain ⟨v, st1, he, hQ1, hv⟩ := hc (-β) (-alpha) st hQ
    simp only [he]
    unfold Rng at hv
    by_cases hs : -v > bs
    · simp only [hs, if_true]
      exact ⟨_, _, _, _, rfl, hQ1, by omega, by omega, by omega, by omega⟩
    · simp only [hs, if_false]
      exact ⟨_, _, _, _, rfl, hQ1, by omega, by omega, by omega, by omega⟩
  · rw [if_neg hidx]
    have h3 : min β (-evalBound) ≤ alpha ∧ min β (-evalBound) ≤ bs := by
      rcases h3 with h | h
      · exact absurd h hidx
      · exact h
    obtain ⟨v, st1, he, hQ1, hv⟩ := hc (-alpha - 1) (-alpha) st hQ
    simp only [he]
    unfold Rng at hv
    by_cases hs : -v > bs
    · simp only [hs, if_true]
      obtain ⟨v2, st2, he2, hQ2, hv2⟩ := hc (-β) (- -v) st1 hQ1
      simp only [he2]
      unfold Rng at hv2
      exact ⟨_, _, _, _, rfl, hQ2, by omega, by omega, by omega, by omega⟩
    · simp only [hs, if_false]
      exact ⟨_, _, _, _, rfl, hQ1, h1, h2, h3.1, h3.2⟩

omit [DecidableEq M] in
theorem nodeLoop_rng (o : Ops G M) (d : Nat)
    (child : G → Int → Int → Int → St M → Option (Int × St M)) (g : G) (remaining : Nat)
    (rd β T : Int) (hT : evalBound ≤ T) (ms : List M)
    (hc : ∀ m ∈ ms, ChildRng o d child (o.push g m) (rd + 1)) :
    ∀ (index : Nat) (alpha bs : Int) (bm : Option M) (st : St M), TTOk o d st.tt →
      alpha ≤ T → bs ≤ T →
      (index ≤ Gen.fullWindowMaxIndex ∨
        (min β (-evalBound) ≤ alpha ∧ min β (-evalBound) ≤ bs)) →
      ∃ out, nodeLoop o child g remaining rd β ms index alpha bs bm st = some out ∧
        TTOk o d out.st.tt ∧ out.alpha ≤ T ∧ out.bestScore ≤ T ∧
        (ms ≠ [] → min β (-evalBound) ≤ out.alpha ∧ min β (-evalBound) ≤ out.bestScore) := by
  induction ms with
  | nil =>
    intro index alpha bs bm st hQ h1 h2 _
    exact ⟨⟨alpha, bs, bm, st⟩, rfl, hQ, h1, h2, fun h => absurd rfl h⟩
  | cons m ms ih =>
    intro index alpha bs bm st hQ h1 h2 h3
    obtain ⟨a', bs', bm', st', he, hQ', k1, k2, k3, k4⟩ :=
      nodeStep_rng o d child g rd β T hT m (hc m List.mem_cons_self) index alpha bs bm st hQ h1 h2 h3
    rw [nodeLoop_cons, he]
    simp only []
    by_cases hcut : a' ≥ β
    · simp only [hcut, if_true]
      refine ⟨_, rfl, ?_, k1, k2, fun _ => ⟨k3, k4⟩⟩
      cases o.histIdx m <;> exact hQ'
    · simp only [hcut, if_false]
      obtain ⟨out, j1, j2, j3, j4, j5⟩ :=
        ih (fun m' hm' => hc m' (List.mem_cons_of_mem _ hm')) (index + 1) a' bs' bm' st' hQ' k1 k2
          (Or.inr ⟨k3, k4⟩)
      refine ⟨out, j1, j2, j3, j4, fun _ => ?_⟩
      cases ms with
      | nil => cases j1; exact ⟨k3, k4⟩
      | cons x xs => exact j5 (List.cons_ne_nil _ _)

/-! ## the children of the root at iteration 3 -/

omit [DecidableEq M] in
theorem pollSt_tt_none {st : St M} {k : UInt64} (h : st.tt[k]? = none) : (pollSt st).tt[k]? = none := by
  simp only [pollSt]
  split
  · exact Std.HashMap.getElem?_empty
  · exact h

/-- **A mated node returns the exact mate score, whatever the window**, as soon as two plies
remain and the table holds nothing under its hash; it only polls (the return precedes the store),
so the table still holds nothing under that hash afterwards. -/
theorem mated_child_value {o : Ops G M} {runs : Nat → Bool} {c : G} (hm : Mated o c)
    (remaining : Nat) (h2 : 2 ≤ remaining) (a b rd : Int) (st : St M)
    (hr : runs st.polls = true) (hnone : st.tt[o.hash c]? = none) :
    node o runs remaining c a b rd st = some (scoreMin + Gen.mateNode + rd, pollSt st) ∧
      (pollSt st).tt[o.hash c]? = none := by
  refine ⟨?_, pollSt_tt_none hnone⟩
  rw [node_eq]
  simp only [hr, Bool.not_true, Bool.false_eq_true, if_false]
  have : ttGet (pollSt st) (o.hash c) = none := pollSt_tt_none hnone
  rw [this]
  simp only [ttCut]
  match remaining, h2 with
  | r + 2, _ =>
    simp only [hm.1, hm.2, List.isEmpty_nil, if_true, Bool.false_eq_true, if_false]

omit [DecidableEq M] in
theorem sortMoves_ne {key : M → Nat} {ms : List M} (h : ms ≠ []) : sortMoves key ms ≠ [] := by
  intro h0
  have := length_sortMoves key ms
  rw [h0] at this
  exact h (List.eq_nil_of_length_eq_zero this.symm)

/-- **A node with two plies left that is not mated obeys the window-relative bound**, for the
windows the root uses (`a ≤ evalBound`, `a < b`), and keeps the table fine. -/
theorem node2_rng {o : Ops G M} (hb : Bounded o) {runs : Nat → Bool} (hr : ∀ i, runs i = true)
    {d : Nat} (hd : 2 ≤ d) (c : G) (hc : ¬ Mated o c) (a b rd : Int) (h0 : 0 ≤ rd)
    (h1 : rd ≤ 700) (ha : a ≤ evalBound) (hab : a < b) (st : St M) (hQ : TTOk o d st.tt) :
    ∃ v st', node o runs (0 + 2) c a b rd st = some (v, st') ∧ TTOk o d st'.tt ∧ Rng a b v := by
  rw [node_eq]
  simp only [hr, Bool.not_true, Bool.false_eq_true, if_false]
  split
  · next v hv => exact ⟨v, _, rfl, hQ.poll, ttCut_rng hQ.poll _ _ _ _ _ hv⟩
  · by_cases he : (o.checked c).isEmpty = true
    · simp only [he, if_true]
      have hs : o.safe c = true := by
        cases h : o.safe c with
        | true => rfl
        | false => exact absurd ⟨List.isEmpty_iff.1 he, h⟩ hc
      simp only [hs, if_true]
      exact ⟨_, _, rfl, hQ.poll, by nums; omega⟩
    · simp only [he]
      have hne : o.checked c ≠ [] := fun h => he (by rw [h]; rfl)
      have hch : ∀ m ∈ nodeMoves o c rd (pollSt st),
          ChildRng o d (node o runs (0 + 1)) (o.push c m) (rd + 1) := by
        intro m _ a' b' st1 hQ1
        obtain ⟨v, k1, k2⟩ := node01_rng hb hr (d := d) 1 (Nat.le_refl _) (o.push c m) a' b'
          (rd + 1) (by omega) (by omega) st1 hQ1
        exact ⟨v, _, k1, hQ1.poll, k2⟩
      obtain ⟨out, j1, j2, j3, j4, j5⟩ :=
        nodeLoop_rng o d (node o runs (0 + 1)) c (0 + 2) rd b evalBound (Int.le_refl _)
          (nodeMoves o c rd (pollSt st)) hch 0 a scoreMin none (pollSt st) hQ.poll ha
          (by nums; omega) (Or.inl (Nat.zero_le _))
      obtain ⟨j5, j6⟩ := j5 (sortMoves_ne hne)
      rw [j1]
      simp only []
      refine ⟨_, _, rfl, ?_, ⟨j5, by omega⟩⟩
      apply j2.nodeStore c _ _ hne hd
      · intro _; exact j4
      · simp only [storeFlag]
        split
        · intro _; omega
        · split
          · intro h; exact absurd rfl h
          · intro _; omega

/-! ## the root loop of iteration 3 -/

/-- what the root loop of iteration 3 needs of its child function -/
structure Child3 (o : Ops G M) (d : Nat)
    (child : G → Int → Int → Int → St M → Option (Int × St M)) (c : G) : Prop where
  mated : Mated o c → ∀ a b st, TTOk o d st.tt →
    ∃ st', child c a b 1 st = some (scoreMin + Gen.mateNode + 1, st') ∧ TTOk o d st'.tt
  other : ¬ Mated o c → ∀ a b st, TTOk o d st.tt → a ≤ evalBound → a < b →
    ∃ v st', child c a b 1 st = some (v, st') ∧ TTOk o d st'.tt ∧ Rng a b v

/-- the best score is not in the mate range, or it is the mate-in-one score and the best move is
a mating move of the list `all` -/
def Good (o : Ops G M) (g : G) (all : List M) (bs : Int) (bm : Option M) : Prop :=
  bs ≤ evalBound ∨ (bs = mateScore ∧ ∃ m, bm = some m ∧ m ∈ all ∧ Mated o (o.push g m))

omit [DecidableEq M] in
theorem rootLoop_mate (o : Ops G M) (d : Nat)
    (child : G → Int → Int → Int → St M → Option (Int × St M)) (g : G) (all ms : List M)
    (hsub : ∀ m ∈ ms, m ∈ all) (hc : ∀ m ∈ ms, Child3 o d child (o.push g m)) :
    ∀ (index : Nat) (bs : Int) (bm : Option M) (st : St M), TTOk o d st.tt →
      scoreMin + 1 ≤ bs → Good o g all bs bm →
      (index ≤ Gen.fullWindowMaxIndex ∨ -evalBound ≤ bs) →
      ∃ bs' bm' st', rootLoop o child g ms index bs bm st = some (bs', bm', st') ∧
        TTOk o d st'.tt ∧ Good o g all bs' bm' ∧
        ((bs = mateScore ∨ ∃ m ∈ ms, Mated o (o.push g m)) → bs' = mateScore) := by
  induction ms with
  | nil =>
    intro index bs bm st hQ h1 h2 _
    refine ⟨bs, bm, st, rfl, hQ, h2, fun h => ?_⟩
    rcases h with h | ⟨m, hm, _⟩
    · exact h
    · cases hm
  | cons m ms ih =>
    intro index bs bm st hQ h1 h2 h3
    have ih' := ih (fun m' hm' => hsub m' (List.mem_cons_of_mem _ hm'))
      (fun m' hm' => hc m' (List.mem_cons_of_mem _ hm'))
    have hcm := hc m List.mem_cons_self
    have hmall := hsub m List.mem_cons_self
    have hms : mateScore = 32667 := by nums; rfl
    have hbs : bs ≤ evalBound ∨ bs = mateScore := by
      rcases h2 with h | h
      · exact Or.inl h
      · exact Or.inr h.1
    -- the conclusion for the tail, when the pair is kept
    have keep : ∀ st1, TTOk o d st1.tt → -evalBound ≤ bs →
        (Mated o (o.push g m) → bs = mateScore) →
        ∃ bs' bm' st', rootLoop o child g ms (index + 1) bs bm st1 = some (bs', bm', st') ∧
          TTOk o d st'.tt ∧ Good o g all bs' bm' ∧
          ((bs = mateScore ∨ ∃ m' ∈ m :: ms, Mated o (o.push g m')) → bs' = mateScore) := by
      intro st1 hQ1 hlo hmm
      obtain ⟨bs', bm', st', k1, k2, k3, k4⟩ := ih' (index + 1) bs bm st1 hQ1 h1 h2 (Or.inr hlo)
      refine ⟨bs', bm', st', k1, k2, k3, fun h => ?_⟩
      rcases h with h | ⟨m', hm', hM⟩
      · exact k4 (Or.inl h)
      · rcases List.mem_cons.1 hm' with h | h
        · subst h; exact k4 (Or.inl (hmm hM))
        · exact k4 (Or.inr ⟨m', h, hM⟩)
    -- the conclusion for the tail, when the move becomes the best move with a score out of the
    -- mate range
    have take : ∀ st1 s, TTOk o d st1.tt → -evalBound ≤ s → s ≤ evalBound →
        ¬ Mated o (o.push g m) → bs ≠ mateScore →
        ∃ bs' bm' st', rootLoop o child g ms (index + 1) s (some m) st1 = some (bs', bm', st') ∧
          TTOk o d st'.tt ∧ Good o g all bs' bm' ∧
          ((bs = mateScore ∨ ∃ m' ∈ m :: ms, Mated o (o.push g m')) → bs' = mateScore) := by
      intro st1 s hQ1 hlo hhi hnm hne
      obtain ⟨bs', bm', st', k1, k2, k3, k4⟩ :=
        ih' (index + 1) s (some m) st1 hQ1 (by nums; omega) (Or.inl hhi) (Or.inr hlo)
      refine ⟨bs', bm', st', k1, k2, k3, fun h => ?_⟩
      rcases h with h | ⟨m', hm', hM⟩
      · exact absurd h hne
      · rcases List.mem_cons.1 hm' with h | h
        · subst h; exact absurd hM hnm
        · exact k4 (Or.inr ⟨m', h, hM⟩)
    -- the conclusion for the tail, when the move mates
    have mate : ∀ st1, TTOk o d st1.tt → Mated o (o.push g m) →
        ∃ bs' bm' st', rootLoop o child g ms (index + 1) (-(scoreMin + Gen.mateNode + 1)) (some m)
            st1 = some (bs', bm', st') ∧
          TTOk o d st'.tt ∧ Good o g all bs' bm' ∧
          ((bs = mateScore ∨ ∃ m' ∈ m :: ms, Mated o (o.push g m')) → bs' = mateScore) := by
      intro st1 hQ1 hM
      obtain ⟨bs', bm', st', k1, k2, k3, k4⟩ :=
        ih' (index + 1) (-(scoreMin + Gen.mateNode + 1)) (some m) st1 hQ1 (by nums; omega)
          (Or.inr ⟨rfl, m, rfl, hmall, hM⟩) (Or.inr (by nums; omega))
      exact ⟨bs', bm', st', k1, k2, k3, fun _ => k4 (Or.inl rfl)⟩
    unfold rootLoop
    simp only []
    by_cases hM : Mated o (o.push g m)
    · by_cases hidx : index ≤ Gen.fullWindowMaxIndex
      · simp only [hidx, if_true]
        obtain ⟨st1, he, hQ1⟩ := hcm.mated hM (scoreMin + 1) (-bs) st hQ
        rw [he]
        simp only []
        by_cases hs : -(scoreMin + Gen.mateNode + 1) > bs
        · simp only [hs, if_true]
          exact mate st1 hQ1 hM
        · simp only [hs, if_false]
          have : bs = mateScore := by nums; omega
          exact keep st1 hQ1 (by nums; omega) (fun _ => this)
      · simp only [hidx, if_false]
        obtain ⟨st1, he, hQ1⟩ := hcm.mated hM (-bs - 1) (-bs) st hQ
        rw [he]
        simp only []
        by_cases hs : -(scoreMin + Gen.mateNode + 1) > bs
        · simp only [hs, if_true]
          obtain ⟨st2, he2, hQ2⟩ := hcm.mated hM (scoreMin + 1)
            (- -(scoreMin + Gen.mateNode + 1)) st1 hQ1
          rw [he2]
          simp only []
          exact mate st2 hQ2 hM
        · simp only [hs, if_false]
          have : bs = mateScore := by nums; omega
          exact keep st1 hQ1 (by nums; omega) (fun _ => this)
    · by_cases hidx : index ≤ Gen.fullWindowMaxIndex
      · simp only [hidx, if_true]
        obtain ⟨v, st1, he, hQ1, hv⟩ := hcm.other hM (scoreMin + 1) (-bs) st hQ (by nums; omega)
          (by nums; omega)
        rw [he]
        simp only []
        by_cases hs : -v > bs
        · simp only [hs, if_true]
          exact take st1 (-v) hQ1 (by nums; omega) (by nums; omega) hM (by nums; omega)
        · simp only [hs, if_false]
          exact keep st1 hQ1 (by nums; omega) (fun h => absurd h hM)
      · simp only [hidx, if_false]
        have h3 : -evalBound ≤ bs := by
          rcases h3 with h | h
          · exact absurd h hidx
          · exact h
        obtain ⟨v, st1, he, hQ1, hv⟩ := hcm.other hM (-bs - 1) (-bs) st hQ (by nums; omega)
          (by omega)
        rw [he]
        simp only []
        by_cases hs : -v > bs
        · simp only [hs, if_true]
          have hv1 : bs ≠ mateScore ∧ -v ≤ evalBound := by nums; omega
          obtain ⟨v2, st2, he2, hQ2, hv2⟩ := hcm.other hM (scoreMin + 1) (- -v) st1 hQ1
            (by nums; omega) (by nums; omega)
          rw [he2]
          simp only []
          exact take st2 (-v2) hQ2 (by nums; omega) (by nums; omega) hM hv1.1
        · simp only [hs, if_false]
          exact keep st1 hQ1 h3 (fun h => absurd h hM)

/-! ## the hash hypothesis -/

/-- no position that has a legal move shares its hash with a mated child of `g` (otherwise the
entry stored for that position could be used, un-validated, in the mated child) -/
def HashSep (o : Ops G M) (g : G) : Prop :=
  ∀ m ∈ o.checked g, Mated o (o.push g m) →
    ∀ x, o.checked x ≠ [] → o.hash x ≠ o.hash (o.push g m)

omit [DecidableEq M] in
/-- the Zobrist hypothesis of `SearchDriver` (equal hashes, equal move lists) is enough -/
theorem HashSep.of_hashOk {o : Ops G M} (h : HashOk o (fun _ => True)) (g : G) : HashSep o g := by
  intro m _ hM x hx hh
  exact hx ((h x _ trivial trivial hh).trans hM.1)

omit [DecidableEq M] in
theorem HashSep.of_injective {o : Ops G M} (h : ∀ x y, o.hash x = o.hash y → x = y) (g : G) :
    HashSep o g := by
  intro m _ hM x hx hh
  rw [h x _ hh] at hx
  exact hx hM.1

theorem child3_node2 {o : Ops G M} (hb : Bounded o) {runs : Nat → Bool} (hr : ∀ i, runs i = true)
    {d : Nat} (hd : 2 ≤ d) (c : G)
    (hsep : Mated o c → ∀ x, o.checked x ≠ [] → o.hash x ≠ o.hash c) :
    Child3 o d (node o runs (3 - 1)) c where
  mated := by
    intro hM a b st hQ
    have hnone : st.tt[o.hash c]? = none := by
      cases he : st.tt[o.hash c]? with
      | none => rfl
      | some e =>
        obtain ⟨_, _, _, x, hx1, hx2⟩ := hQ _ e he
        exact absurd hx1 (hsep hM x hx2)
    exact ⟨pollSt st, (mated_child_value hM (3 - 1) (by decide) a b 1 st (hr _) hnone).1, hQ.poll⟩
  other := by
    intro hM a b st hQ ha hab
    exact node2_rng hb hr hd c hM a b 1 (by decide) (by decide) ha hab st hQ

/-! ## the root search of iteration 3 -/

theorem rootSearch_mate (o : Ops G M) (runs : Nat → Bool) (g : G) (st : St M)
    (hQ : TTOk o 2 st.tt) (hl : (o.checked g).length ≠ 1)
    (hmate : ∃ m ∈ rootMoves o g, Mated o (o.push g m))
    (hc : ∀ m ∈ o.checked g, Child3 o 3 (node o runs (3 - 1)) (o.push g m)) :
    ∃ m st', rootSearch o runs g 3 st = some ((some m, mateScore, false), st') ∧
      MatingMove o g m := by
  rw [rootSearch_eq, if_neg hl]
  have hmiss : rootHit (ttGet (rootSt st) (o.hash g)) 3 = none := by
    apply rootHit_none_of_miss
    intro e he h
    have := (hQ _ e he).1
    omega
  rw [hmiss]
  simp only []
  have hQ0 : TTOk o 3 (rootSt st).tt := hQ.mono (by omega)
  obtain ⟨m₀, hm₀, hM₀⟩ := hmate
  obtain ⟨bs', bm', st', k1, _, k3, k4⟩ :=
    rootLoop_mate o 3 (node o runs (3 - 1)) g (o.checked g) (rootSorted o g (rootSt st))
      (fun m hm => mem_rootSorted hm) (fun m hm => hc m (mem_rootSorted hm)) 0 (scoreMin + 1) none
      (rootSt st) hQ0 (Int.le_refl _) (Or.inl (by nums; omega)) (Or.inl (Nat.zero_le _))
  have k4 := k4 (Or.inr ⟨m₀, (mem_sortMoves _ _ _).2 hm₀, hM₀⟩)
  rw [k1]
  subst k4
  rcases k3 with k3 | ⟨_, m, hbm, hmem, hM⟩
  · exact absurd k3 (by nums; omega)
  · subst hbm
    exact ⟨m, _, rfl, hmem, hM⟩

/-! ## the driver -/

theorem exitCond_inside {limit depth : Nat} {sc : Int} (hd : depth ≠ limit)
    (h1 : -evalBound ≤ sc) (h2 : sc ≤ evalBound) : ¬ exitCond limit depth false sc = true := by
  unfold exitCond
  simp only [Bool.or_eq_true, decide_eq_true_eq, Bool.or_false]
  nums
  omega

theorem exitCond_mate (limit depth : Nat) (only : Bool) : exitCond limit depth only mateScore = true := by
  unfold exitCond
  simp only [Bool.or_eq_true, decide_eq_true_eq]
  refine Or.inl (Or.inr ?_)
  nums
  omega

omit [DecidableEq M] in
theorem startDepth_fresh (o : Ops G M) (g : G) (md : Option Nat) :
    startDepth o g ({} : Table M) md = 1 := by
  unfold startDepth cachedDepth
  rw [Std.HashMap.getElem?_empty]
  have := one_le_limitOf md
  simp only []
  omega

/-- **Mate in one, two or more root moves**: from the fresh table, with evaluations out of the
mate range, if a move kept by the repetition filter mates, iterations 1 and 2 do not end the
search, iteration 3 returns a mating move with the score `mateScore`, and the driver stops there by
itself. -/
theorem mate_in_one_many (o : Ops G M) (hb : Bounded o) (g : G) (hsep : HashSep o g)
    (hl : (o.checked g).length ≠ 1) (hmate : ∃ m ∈ rootMoves o g, Mated o (o.push g m))
    (runs : Nat → Bool) (hr : ∀ i, runs i = true) (off : Bool) (md : Option Nat)
    (hmd : 3 ≤ limitOf md) :
    ∃ m, (driver o runs g {} off md).found = some m ∧ MatingMove o g m ∧
      (driver o runs g {} off md).stopped = false ∧
      (driver o runs g {} off md).infos.map (·.depth) = [1, 2, 3] ∧
      ((driver o runs g {} off md).infos.map (·.score)).getLast? = some mateScore := by
  have hne : rootMoves o g ≠ [] := by
    obtain ⟨m, hm, _⟩ := hmate
    intro h; rw [h] at hm; cases hm
  rw [driver_eq, startDepth_fresh]
  obtain ⟨f, hf⟩ : ∃ f, limitOf md - 1 + 1 = f + 1 + 1 + 1 := ⟨limitOf md - 3, by omega⟩
  rw [hf]
  generalize limitOf md = L at hmd ⊢
  -- iteration 1
  obtain ⟨bm1, bs1, st1, e1, Q1, lo1, hi1⟩ := rootSearch_low o runs g 1 (Nat.le_refl _)
    (initSt {} off) (TTOk_empty o _) hl hne
    (fun c a b st hQ => by
      obtain ⟨v, k1, k2⟩ := node01_rng hb hr (1 - 1) (by decide) c a b 1 (by decide) (by decide)
        st hQ
      exact ⟨v, _, k1, hQ.poll, k2⟩)
  rw [driverLoop_succ, e1]
  simp only []
  rw [if_neg (exitCond_inside (by omega) lo1 hi1)]
  -- iteration 2
  obtain ⟨bm2, bs2, st2, e2, Q2, lo2, hi2⟩ := rootSearch_low o runs g 2 (by decide) st1 Q1 hl hne
    (fun c a b st hQ => by
      obtain ⟨v, k1, k2⟩ := node01_rng hb hr (2 - 1) (by decide) c a b 1 (by decide) (by decide)
        st hQ
      exact ⟨v, _, k1, hQ.poll, k2⟩)
  rw [driverLoop_succ, e2]
  simp only []
  rw [if_neg (exitCond_inside (by omega) lo2 hi2)]
  -- iteration 3
  obtain ⟨m, st3, e3, hm⟩ := rootSearch_mate o runs g st2 Q2 hl hmate
    (fun m hm => child3_node2 hb hr (by decide) _ (hsep m hm))
  rw [driverLoop_succ, e3]
  simp only []
  rw [if_pos (exitCond_mate _ _ _)]
  refine ⟨m, rfl, hm, rfl, ?_, ?_⟩
  · simp [mkInfo]
  · simp [mkInfo]

/-- **Mate in one, a single legal move**: the only-move shortcut answers with it at once. -/
theorem mate_in_one_single (o : Ops G M) (g : G) (m₀ : M) (hm : MatingMove o g m₀)
    (hl : (o.checked g).length = 1) (runs : Nat → Bool) (off : Bool) (md : Option Nat) :
    (driver o runs g {} off md).found = some m₀ ∧
      (driver o runs g {} off md).stopped = false ∧
      (driver o runs g {} off md).infos.map (·.depth) = [1] := by
  have hc : o.checked g = [m₀] := by
    cases h : o.checked g with
    | nil => rw [h] at hl; cases hl
    | cons a l =>
      cases l with
      | nil =>
        have := hm.1
        rw [h] at this
        rw [List.mem_singleton.1 this]
      | cons b l => rw [h] at hl; simp at hl
  rw [driver_eq, startDepth_fresh]
  obtain ⟨f, hf⟩ : ∃ f, limitOf md - 1 + 1 = f + 1 := ⟨limitOf md - 1, rfl⟩
  rw [hf, driverLoop_succ, rootSearch_eq, if_pos hl]
  simp only []
  have : exitCond (limitOf md) 1 true 0 = true := by simp [exitCond]
  rw [if_pos this, hc]
  exact ⟨rfl, rfl, by simp [mkInfo]⟩

theorem three_le_limitOf {md : Option Nat} (h : md = none ∨ ∃ N, md = some N ∧ 3 ≤ N) :
    3 ≤ limitOf md := by
  rcases h with h | ⟨N, h, hN⟩
  · subst h; decide
  · subst h
    unfold limitOf maxDepth Gen.maxDepth
    simp only [Option.getD_some]
    omega

/-- **C10, mate in one.** From the fresh table, with a flag that stays up, without a depth limit
or with a limit of at least 3: if static evaluations are never in the driver's mate range
(`Bounded`), if no position with a legal move shares its hash with a mated child of the root
(`HashSep`), and if some move kept by the repetition filter mates, then the driver answers with a
mating move, stops by itself, and never searches deeper than 3. -/
theorem mate_in_one_found (o : Ops G M) (hb : Bounded o) (g : G) (hsep : HashSep o g)
    (hmate : ∃ m ∈ rootMoves o g, Mated o (o.push g m))
    (runs : Nat → Bool) (hr : ∀ i, runs i = true) (off : Bool) (md : Option Nat)
    (hmd : md = none ∨ ∃ N, md = some N ∧ 3 ≤ N) :
    let out := driver o runs g {} off md
    ∃ m, out.found = some m ∧ MatingMove o g m ∧ out.stopped = false ∧
      ∀ info ∈ out.infos, info.depth ≤ 3 := by
  intro out
  have hdepth : ∀ l : List Nat, (out.infos.map (·.depth) = l) → (∀ x ∈ l, x ≤ 3) →
      ∀ info ∈ out.infos, info.depth ≤ 3 := by
    intro l h1 h2 info hi
    exact h2 _ (h1 ▸ List.mem_map_of_mem hi)
  by_cases hl : (o.checked g).length = 1
  · obtain ⟨m₀, hm₀, hM₀⟩ := hmate
    obtain ⟨k1, k2, k3⟩ := mate_in_one_single o g m₀ ⟨mem_rootMoves hm₀, hM₀⟩ hl runs off md
    exact ⟨m₀, k1, ⟨mem_rootMoves hm₀, hM₀⟩, k2, hdepth _ k3 (by decide)⟩
  · obtain ⟨m, k1, k2, k3, k4, _⟩ := mate_in_one_many o hb g hsep hl hmate runs hr off md
      (three_le_limitOf hmd)
    exact ⟨m, k1, k2, k3, hdepth _ k4 (by decide)⟩

/-- **C10 as asked**: the position does not repeat (`o.repetition g = none`), hashes are injective,
the flag stays up, the hook is off. -/
theorem mate_in_one_found' (o : Ops G M) (hb : Bounded o) (g : G)
    (hinj : ∀ x y, o.hash x = o.hash y → x = y) (m₀ : M) (hm₀ : MatingMove o g m₀)
    (hrep : o.repetition g = none) (md : Option Nat)
    (hmd : md = none ∨ ∃ N, md = some N ∧ 3 ≤ N) :
    let out := driver o (fun _ => true) g {} false md
    ∃ m, out.found = some m ∧ MatingMove o g m ∧ out.stopped = false ∧
      ∀ info ∈ out.infos, info.depth ≤ 3 := by
  have : rootMoves o g = o.checked g := by unfold rootMoves; rw [hrep]
  exact mate_in_one_found o hb g (HashSep.of_injective hinj g) ⟨m₀, this ▸ hm₀.1, hm₀.2⟩ _
    (fun _ => rfl) false md hmd

/-! ## a position without legal moves -/

/-- **C10, no legal move**: from the fresh table the driver reports no move, whatever the flag, the
hook and the limit are (one iteration: the root loop over no move returns the score
`scoreMin + 1`, which is in the mate range). -/
theorem dead_root_reports_none (o : Ops G M) (runs : Nat → Bool) (g : G) (off : Bool)
    (md : Option Nat) (h : o.checked g = []) :
    (driver o runs g {} off md).found = none ∧ (driver o runs g {} off md).stopped = false ∧
      (driver o runs g {} off md).infos.map (·.depth) = [1] := by
  rw [driver_eq, startDepth_fresh]
  obtain ⟨f, hf⟩ : ∃ f, limitOf md - 1 + 1 = f + 1 := ⟨limitOf md - 1, rfl⟩
  rw [hf, driverLoop_succ, rootSearch_eq, if_neg (by rw [h]; simp)]
  have hmiss : rootHit (ttGet (rootSt (initSt ({} : Table M) off)) (o.hash g)) 1 = none := by
    apply rootHit_none_of_miss
    intro e he
    have he : ({} : Table M)[o.hash g]? = some e := he
    rw [Std.HashMap.getElem?_empty] at he
    cases he
  rw [hmiss]
  have hs : rootSorted o g (rootSt (initSt ({} : Table M) off)) = [] := by
    apply List.eq_nil_of_length_eq_zero
    unfold rootSorted
    rw [length_sortMoves]
    have : rootMoves o g = [] := by
      cases hm : rootMoves o g with
      | nil => rfl
      | cons a l =>
        have := mem_rootMoves (o := o) (g := g) (m := a) (by rw [hm]; exact List.mem_cons_self)
        rw [h] at this; cases this
    rw [this]; rfl
  simp only [hs, rootLoop]
  have : exitCond (limitOf md) 1 false (scoreMin + 1) = true := by
    unfold exitCond
    simp only [Bool.or_eq_true, decide_eq_true_eq]
    refine Or.inr ?_
    nums
    omega
  rw [if_pos this, h]
  exact ⟨rfl, rfl, by simp [mkInfo]⟩

/-- the same from any table that satisfies the invariant `TTInv` of `SearchDriver` (re-export of
`driver_none_iff`); for an arbitrary table the statement is false, see
`driver_returns_cached_move` and the example below -/
theorem dead_root_reports_none_of_TTInv {o : Ops G M} {P : G → Prop} (hH : HashOk o P)
    (hC : Closed o P) (runs : Nat → Bool) (g : G) (tt : Table M) (off : Bool) (md : Option Nat)
    (hP : P g) (hT : TTInv o P tt) (h : o.checked g = []) :
    (driver o runs g tt off md).found = none :=
  (driver_none_iff hH hC runs g tt off md hP hT).2 h

/-! ## the value bound, as used at the root -/

/-- at iteration 3 a move that does not mate never gets a score above `evalBound` unless that score
does not beat the current best: its score is at most `max bestScore evalBound`, hence strictly
below `mateScore` as long as no mating move has been seen -/
theorem nonmating_root_score {o : Ops G M} (hb : Bounded o) {runs : Nat → Bool}
    (hr : ∀ i, runs i = true) (c : G) (hc : ¬ Mated o c) (a bs : Int) (ha : a ≤ evalBound)
    (hab : a < -bs) (st : St M) (hQ : TTOk o 3 st.tt) :
    ∃ v st', node o runs (3 - 1) c a (-bs) 1 st = some (v, st') ∧ -v ≤ max bs evalBound := by
  obtain ⟨v, st', k1, _, k2⟩ := node2_rng hb hr (d := 3) (by decide) c hc a (-bs) 1 (by decide)
    (by decide) ha hab st hQ
  refine ⟨v, st', k1, ?_⟩
  unfold Rng at k2
  omega

theorem evalBound_lt_mateScore : evalBound < mateScore := by decide

/-! ## Non-vacuity and counterexamples: a concrete game

Positions are `UInt64`, moves are `Nat`, the move `m` leads from `g` to `3 * g + m`. The root `0`
has the moves `1, 2, 3`; positions `1` and `3` have the moves `1, 2`; the others have none, and
position `2` is in check: the move `2` mates. The evaluation and the hash are parameters.
`Std.HashMap` does not reduce in the kernel: the facts are obtained by applying the theorems, the
`#guard`s are side checks by evaluation. -/
namespace Example

def exOps (ev : UInt64 → Int) (hs : UInt64 → UInt64) : Ops UInt64 Nat where
  checked g := if g = 0 then [1, 2, 3] else if g = 1 ∨ g = 3 then [1, 2] else []
  unchecked g := if g = 0 then [1, 2, 3] else if g = 1 ∨ g = 3 then [1, 2] else []
  push g m := 3 * g + m.toUInt64
  eval := ev
  safe g := g != 2
  hash := hs
  tactical _ := false
  histIdx m := some m
  orderKey m _ := m
  repetition _ := none

def ev0 (g : UInt64) : Int := (g.toNat % 7 : Int) - 3

/-- the position is its own hash -/
def ex : Ops UInt64 Nat := exOps ev0 id

theorem ex_bounded : Bounded ex := by
  intro g
  show -evalBound ≤ ev0 g ∧ ev0 g ≤ evalBound
  unfold ev0
  nums
  omega

theorem ex_mating : MatingMove ex 0 2 := ⟨by decide, by decide, by decide⟩

theorem ex_mating_unique (m : Nat) (h : MatingMove ex 0 m) : m = 2 := by
  obtain ⟨h1, h2, _⟩ := h
  have : m = 1 ∨ m = 2 ∨ m = 3 := by simpa [ex, exOps] using h1
  rcases this with rfl | rfl | rfl
  · exact absurd h2 (by decide)
  · rfl
  · exact absurd h2 (by decide)

/-- the engine plays the mate, without limit or with any limit of at least 3, stops by itself and
searches no deeper than 3 -/
example (md : Option Nat) (hmd : md = none ∨ ∃ N, md = some N ∧ 3 ≤ N) :
    (driver ex (fun _ => true) 0 {} false md).found = some 2 ∧
    (driver ex (fun _ => true) 0 {} false md).stopped = false ∧
    ∀ info ∈ (driver ex (fun _ => true) 0 {} false md).infos, info.depth ≤ 3 := by
  obtain ⟨m, h1, h2, h3, h4⟩ := mate_in_one_found' ex ex_bounded 0 (fun _ _ h => h) 2 ex_mating rfl
    md hmd
  rw [ex_mating_unique m h2] at h1
  exact ⟨h1, h3, h4⟩

/-- the mated position itself: no move is reported -/
example (runs : Nat → Bool) (off : Bool) (md : Option Nat) :
    (driver ex runs 2 {} off md).found = none :=
  (dead_root_reports_none ex runs 2 off md (by decide)).1

/-- ... but not from an arbitrary table: an exact entry under the hash of the mated position (what
a hash collision would leave) makes the driver report its move -/
example (runs : Nat → Bool) :
    (driver ex runs 2 (({} : Table Nat).insert 2 ⟨0, some 7, 40, .exact⟩) false none).found = some 7 ∧
      ex.checked 2 = [] :=
  ⟨driver_returns_cached_move ex runs 2 _ false none ⟨0, some 7, 40, .exact⟩ 7
    (by rw [Std.HashMap.getElem?_insert]; simp [ex, exOps]) rfl (by decide) rfl (by decide),
   by decide⟩

/-- the value of the mated child at iteration 3, through `mated_child_value` -/
example (a b : Int) :
    node ex (fun _ => true) 2 2 a b 1 (initSt {} false) =
      some (scoreMin + Gen.mateNode + 1, pollSt (initSt {} false)) :=
  (mated_child_value (o := ex) (c := 2) ⟨by decide, by decide⟩ 2 (Nat.le_refl _) a b 1 (initSt {} false) rfl
    Std.HashMap.getElem?_empty).1

/-- **`HashSep` cannot be dropped**: the mated child `2` shares its hash with the root -/
def exCollide : Ops UInt64 Nat := exOps ev0 (fun g => if g = 2 then 0 else g)

/-- **`Bounded` cannot be dropped, and `evalBound` is sharp**: after the move `1` the opponent's
evaluation is `-31768 = -(evalBound + 1)` -/
def exBig : Ops UInt64 Nat := exOps (fun g => if g = 1 then -31768 else ev0 g) id

-- side checks by evaluation
#guard (driver ex (fun _ => true) 0 {} false none).found == some 2
#guard (driver ex (fun _ => true) 0 {} false none).stopped == false
#guard (driver ex (fun _ => true) 0 {} false none).infos.map (fun i => (i.depth, i.score)) ==
  [(1, 2), (2, 30767), (3, 32667)]
#guard (driver ex (fun _ => true) 0 {} false (some 7)).found == some 2
#guard (driver ex (fun _ => true) 0 {} true none).found == some 2
#guard (driver ex (fun _ => true) 2 {} false none).found == none
-- with a limit of 2 the mate is not seen as a mate (score 30767, a depth-1 no-move value)
#guard (driver ex (fun _ => true) 0 {} false (some 2)).infos.map (fun i => (i.depth, i.score)) ==
  [(1, 2), (2, 30767)]
-- hash collision between the mated child and the root: the engine never sees the mate, plays the
-- move 1 and searches to the maximal depth (at iteration 3 the mated child returns the score of
-- the root entry of iteration 2 instead of the mate score)
#guard (driver exCollide (fun _ => true) 0 {} false none).found == some 1
#guard (driver exCollide (fun _ => true) 0 {} false none).infos.length == 32
#guard (driver exCollide (fun _ => true) 0 {} false (some 3)).infos.map (fun i => (i.depth, i.score)) ==
  [(1, 2), (2, 0), (3, 0)]
-- evaluation in the mate range: iteration 1 ends the search with the move 1, which does not mate
#guard (driver exBig (fun _ => true) 0 {} false none).found == some 1
#guard (driver exBig (fun _ => true) 0 {} false none).infos.map (fun i => (i.depth, i.score)) ==
  [(1, 31768)]
-- one less and the mate is played
#guard (driver (exOps (fun g => if g = 1 then -31767 else ev0 g) id) (fun _ => true) 0 {} false
  none).found == some 2

end Example

/-! ## Axioms -/

#print axioms dead_root_reports_none
#print axioms dead_root_reports_none_of_TTInv
#print axioms mated_child_value
#print axioms qsearch_rng
#print axioms depth1_rng
#print axioms node01_rng
#print axioms node2_rng
#print axioms nonmating_root_score
#print axioms rootSearch_low
#print axioms rootLoop_mate
#print axioms rootSearch_mate
#print axioms mate_in_one_many
#print axioms mate_in_one_single
#print axioms mate_in_one_found
#print axioms mate_in_one_found'

end Chess.Search.Mate
